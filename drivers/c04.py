"""C04 / C05 — ball counts agree with the physical machine; ball requests make progress (specs/BallWorld).

One driver serves both properties: the same executions are validated, C04 owns the count monitors
(Bounded, NoFireAtFullTarget = guard of Fire, agreement at rest), C05 the progress monitors (idle at rest,
requests served, nothing pending, every fired eject resolved).

Held eject attempts (topologies HOLD_TOPOS): a handler of the environment, registered on the real
balldevice_<dev>_ball_eject_attempt queue event through the real event manager, holds the attempt back (queue.wait()) and
lets it go 0.5 - 5 s later or at a pinned world event (queue.clear()) while other balls move - the target of the held eject
may fill up or empty meanwhile.  Spec actions HoldArm / Held / Unhold; the fire after the release is judged by the same
guard of Fire (room in the target NOW).  A refused fire carries `_heldrel` (its attempt had been held and released) and
`_heldfill` (balls that filled the target during the hold and that MPF had been shown before the instant of the fire).
"""
import os
import random

from lib import tlc, harness

LEVEL = 'model_checking'
DEVS = ['bd_trough', 'bd_plunger', 'bd_lock']
COIL = {'c_trough': 'bd_trough', 'c_plunger': 'bd_plunger', 'c_lock': 'bd_lock'}
TOPO = {
    'balls': dict(switches={'bd_trough': ['s_t1', 's_t2', 's_t3'], 'bd_plunger': ['s_plunger'], 'bd_lock': ['s_lock1', 's_lock2']},
                  target={'bd_trough': 'bd_plunger', 'bd_plunger': 'pf', 'bd_lock': 'pf'}, cap='MCCap', tgt='MCTarget',
                  launch='vb_launch_button'),
    'balls2': dict(switches={'bd_trough': ['s_t1', 's_t2', 's_t3'], 'bd_plunger': ['s_plunger', 's_plunger2'],
                             'bd_lock': ['s_lock1', 's_lock2']},
                   target={'bd_trough': 'bd_plunger', 'bd_plunger': 'pf', 'bd_lock': 'bd_plunger'}, cap='MCCap2', tgt='MCTarget2'),
    'balls3': dict(switches={'bd_trough': ['s_t1', 's_t2', 's_t3'], 'bd_plunger': ['s_plunger'], 'bd_lock': ['s_lock1', 's_lock2']},
                   target={'bd_trough': 'bd_plunger', 'bd_plunger': 'pf', 'bd_lock': 'bd_plunger'}, cap='MCCap3', tgt='MCTarget3',
                   confirm={'bd_lock': 's_lock_confirm'}, att='MCAtt3'),
    # the lock counts by an entrance switch and holds what it gets (ball_hold); released on request
    'balls4': dict(switches={'bd_trough': ['s_t1', 's_t2', 's_t3'], 'bd_plunger': ['s_plunger'], 'bd_lock': []},
                   target={'bd_trough': 'bd_plunger', 'bd_plunger': 'pf', 'bd_lock': 'pf'}, cap='MCCap4', tgt='MCTarget4',
                   entrance={'bd_lock': 's_lock_entrance'}, holding=['bd_lock'], jam={'bd_trough': 's_tjam'}),
    # the first topology inside a running game: ball save without limit (every drain is saved, re-ejected after 2 s),
    # further balls are requested by a multiball device
    'balls5': dict(switches={'bd_trough': ['s_t1', 's_t2', 's_t3'], 'bd_plunger': ['s_plunger'], 'bd_lock': ['s_lock1', 's_lock2']},
                   target={'bd_trough': 'bd_plunger', 'bd_plunger': 'pf', 'bd_lock': 'pf'}, cap='MCCap5', tgt='MCTarget5', game=True),
    # trough and a holding lock both feed the one-slot launcher: a request with the trough empty is served from the hold
    'balls6': dict(switches={'bd_trough': ['s_t1', 's_t2', 's_t3'], 'bd_plunger': ['s_plunger'], 'bd_lock': ['s_lock1', 's_lock2']},
                   target={'bd_trough': 'bd_plunger', 'bd_plunger': 'pf', 'bd_lock': 'bd_plunger'}, cap='MCCap6', tgt='MCTarget6',
                   holding=['bd_lock'], sourcing=['bd_lock']),
    # the launcher has two targets (a diverter behind it): the playfield and the lock; the lock asks for balls itself
    # (bd_lock.request_ball(): two hops from the trough) and keeps them; ejects towards a device can go astray (the ball never
    # arrives, it lies on the playfield unseen until it drains); nothing can be shot into the lock here
    'balls7': dict(switches={'bd_trough': ['s_t1', 's_t2', 's_t3'], 'bd_plunger': ['s_plunger'], 'bd_lock': ['s_lock1', 's_lock2']},
                   target={'bd_trough': 'bd_plunger', 'bd_plunger': 'pf', 'bd_lock': 'pf'}, cap='MCCap7', tgt='MCTarget7',
                   alt='MCAlt7', losable=['bd_trough', 'bd_plunger'], requestable=['bd_lock'], shootable=[]),
    # the game topology balls5 with the lock as a `ball_locks` device of the multiball: a multiball start takes the balls the
    # lock can give (none that are already on their way out) and the rest from the trough
    'balls8': dict(switches={'bd_trough': ['s_t1', 's_t2', 's_t3'], 'bd_plunger': ['s_plunger'], 'bd_lock': ['s_lock1', 's_lock2']},
                   target={'bd_trough': 'bd_plunger', 'bd_plunger': 'pf', 'bd_lock': 'pf'}, cap='MCCap8', tgt='MCTarget8', game=True),
}
TOPOS = ('balls', 'balls2', 'balls3', 'balls4', 'balls5', 'balls6', 'balls7', 'balls8')
_H = {}
# topologies in which eject_attempt queue events are held back (targets with two sources, and the plain chain), and the
# devices whose attempts a handler of the environment may hold
HOLD_TOPOS = ('balls', 'balls2', 'balls3', 'balls6')
HOLDABLE = list(DEVS)


class World:
    """The physical machine: balls roll, switches follow, coils kick."""

    def __init__(self, h, outcomes, ev, topo):
        self.SW = TOPO[topo]['switches']
        self.TG = TOPO[topo]['target']
        self.CONFIRM = TOPO[topo].get('confirm', {})
        self.ENTRANCE = TOPO[topo].get('entrance', {})
        self.JAM = TOPO[topo].get('jam', {})
        self.SHOOTABLE = TOPO[topo].get('shootable', ['bd_lock'])
        self.jammed = {}               # device -> ball resting on its jam switch (in the eject chute) instead of a ball switch
        self.CAP = CAPS[topo]
        self.h = h
        self.m = h.machine
        self.loop = self.m.clock.loop
        self.loc = {1: 'bd_trough', 2: 'bd_trough', 3: 'bd_trough'}     # or ('transit', src, dst, kind)
        self.outcomes = outcomes       # per device: list of 'ok' | 'back' | 'late' | 'noleave'
        self.ev = ev
        self.pending = 0               # world moves scheduled and not done yet
        self.fired = set()             # devices whose coil was pulsed and whose ball has not reacted yet
        self.HOLDING = TOPO[topo].get('holding', [])
        self.GAME = bool(TOPO[topo].get('game'))
        self.LAUNCH = TOPO[topo].get('launch')
        self.nreq = 0
        self.released = {}             # holding device -> released balls that have not left yet
        self.since = {}                # ball -> time it came to rest where it is
        self.lateballs = set()         # balls on a slow trip (arrive after the eject timeout)
        self.want = 0
        # held eject attempts: a handler on balldevice_<dev>_ball_eject_attempt (queue event) of the environment
        self.hold_used = False         # handlers registered (only in schedules that hold attempts)
        self.armed = {}                # dev -> seconds the next attempt of dev will be held back
        self.heldq = {}                # dev -> (QueuedEvent the handler is waiting on, token)
        self.hold_log = {}             # dev -> [line of 'held', line of 'unhold' | None] of a hold no fire of dev has followed yet
        self.occ = {}                  # ball -> log line with which it began to take up room in the place it is in / heading to
        self.fire_idx = {}             # dev -> log line of its last fire
        self.seen = {}                 # ball -> time MPF was first shown that it takes up that room (left its source / arrived)
        self.ntok = 0
        self.LOSABLE = TOPO[topo].get('losable', [])
        self.REQUESTABLE = TOPO[topo].get('requestable', [])
        self.dest = {}                 # fired device -> where MPF aimed that eject (devices with several targets)
        self.wantd = {d: 0 for d in DEVS}      # balls requested for the device itself
        self.silent = set()            # balls that went astray: they come to lie on the playfield without hitting a switch
        if self.LAUNCH:
            self._press()

    def _press(self):
        # a player who keeps pressing the launch button (every 1.7 s): player-controlled ejects wait for it
        self.m.events.post(self.LAUNCH)
        self.loop.call_later(1.7, self._press)

    def mpf(self):
        d = {n: int(self.m.ball_devices[n].balls) for n in DEVS}
        d['pf'] = int(self.m.playfield.balls)
        return d

    def log(self, **kw):
        kw['m'] = self.mpf()
        kw['_t'] = int(round(self.loop.time() * 1000))      # (virtual ms, for the reader of a replay)
        self.ev.append(kw)

    def at(self, place):
        return sorted(b for b, p in self.loc.items() if p == place)

    def sync_switches(self, dev):
        if dev in self.ENTRANCE:
            return      # no ball switches: balls are counted as they pass the entrance
        n = len(self.at(dev))
        if dev in self.JAM:
            j = self.jammed.get(dev) in self.at(dev)
            if int(self.m.switches[self.JAM[dev]].state) != int(j):
                self.m.switch_controller.process_switch(self.JAM[dev], int(j), logical=True)
            n -= int(j)
        for i, s in enumerate(self.SW[dev]):
            want = 1 if i < n else 0
            if int(self.m.switches[s].state) != want:
                self.m.switch_controller.process_switch(s, want, logical=True)

    def later(self, secs, fn, *a):
        self.pending += 1

        def run():
            self.pending -= 1
            fn(*a)
        self.loop.call_later(secs, run)

    # ---- coil fired by MPF
    def coil_pulsed(self, dev):
        # context for the signature of a refused fire: balls already rolling towards the same target, and other
        # sources whose coil was pulsed in this very instant (their ball has not moved yet)
        ct = getattr(self.m.ball_devices[dev].outgoing_balls_handler, '_current_target', None)
        tgt = self.TG[dev] if ct is None else ('pf' if ct.is_playfield() else ct.name)
        self.dest[dev] = tgt
        rolling = len([1 for p in self.loc.values() if isinstance(p, tuple) and p[0] == 'transit' and p[3] == 'ok' and p[2] == tgt
                       and p[1] != 'pf'])
        same = len([1 for d2 in self.fired if d2 != dev and self.dest.get(d2, self.TG[d2]) == tgt])
        back = len([1 for p in self.loc.values() if isinstance(p, tuple) and p[0] == 'transit' and p[3] == 'back' and p[1] == tgt])
        sitting = len(self.at(tgt)) if tgt != 'pf' else 0
        # was the request this fire serves made after the rolling ball had left its source (MPF then knew about the ball when
        # it decided), or was it pending before (the decision raced with the other eject)?
        last_req = max([i for i, e in enumerate(self.ev) if e['op'] == 'request'] or [-1])
        last_leave = max([i for i, e in enumerate(self.ev) if e['op'] == 'leave' and e['d'] != dev and self.TG[e['d']] == tgt] or [-1])
        late_req = int(rolling > 0 and last_req > last_leave)
        slow = len([1 for b2, p in self.loc.items() if b2 in self.lateballs and isinstance(p, tuple) and p[2] == tgt])
        # was the eject_attempt event of this eject held back by a handler and released (the fire follows a hold), and
        # did balls that take up room in the target now start to do so DURING that hold (the target filled up while the
        # attempt was held: a ball fired / shot towards it, counted from the coil pulse of its source) - balls that MPF had
        # been shown before this very instant (seen leaving their source / arriving in the target at an earlier time)?
        # The recorded findings are races inside one instant (no slot is reserved between the readiness check, the coil
        # pulse and the ball being seen to leave); a fire at a target that filled up earlier, in plain view, is not that.
        hl = self.hold_log.pop(dev, None)
        heldrel = int(bool(hl and hl[1] is not None))
        heldfill = 0
        if heldrel and tgt != 'pf':
            occupants = [b2 for b2, p in self.loc.items() if p == tgt or (isinstance(p, tuple) and p[0] == 'transit' and
                                                                           ((p[3] == 'ok' and p[2] == tgt) or (p[3] == 'back' and p[1] == tgt)))]
            now = self.loop.time()
            heldfill = len([b2 for b2 in occupants if hl[0] <= self.occ.get(b2, -1) < hl[1] and now - self.seen.get(b2, now) > 0.001])
        self.fire_idx[dev] = len(self.ev)
        self.log(op='fire', d=dev, t=tgt, _rolling=rolling, _same=same, _back=back, _sitting=sitting, _tfired=int(tgt in self.fired), _latereq=late_req, _slow=slow,
                 _heldrel=heldrel, _heldfill=heldfill)
        self.fired.add(dev)
        q = self.outcomes.get(dev) or []
        kind = q.pop(0) if q else 'ok'
        if dev in self.ENTRANCE:
            kind = 'ok'     # failed ejects of an entrance-counted device cannot be sensed by anybody: not driven
        self.later(0.1, self.react, dev, kind)

    def react(self, dev, kind):
        self.fired.discard(dev)
        balls = self.at(dev)
        if not balls or kind == 'noleave':
            self.log(op='noleave', d=dev)
            return
        b = self.jammed.pop(dev) if self.jammed.get(dev) in balls else balls[-1]     # a ball in the chute leaves first
        tgt = self.dest.get(dev, self.TG[dev])
        if kind == 'lost':
            if dev not in self.LOSABLE or tgt == 'pf':
                kind = 'ok'     # (only ejects towards another device can go astray, and only where the topology has it)
            else:
                # the ball never reaches the device it was fired at: it comes to lie on the playfield, unseen
                self.loc[b] = ('transit', dev, 'pf', 'ok')
                self.occ[b] = len(self.ev)
                self.seen.pop(b, None)
                self.silent.add(b)
                self.sync_switches(dev)
                self.log(op='leave', d=dev, b=b, kind='lost')
                self.later(0.8, self.arrive, b)
                return
        late = kind == 'late'       # arrives after every eject timeout (3-4 s) has expired, well before a ball is given up
        if late:
            self.lateballs.add(b)
        self.loc[b] = ('transit', dev, tgt, 'ok' if late else kind)
        if kind != 'back':
            self.occ[b] = self.fire_idx.get(dev, len(self.ev))     # (a ball falling back never stopped taking up room in its device)
            self.seen[b] = self.loop.time()                        # its switch opens: MPF can see it go
        self.sync_switches(dev)
        if kind != 'back' and self.released.get(dev):
            self.released[dev] -= 1
        self.log(op='leave', d=dev, b=b, kind=kind)
        if late:
            if dev in self.CONFIRM:
                self.later(6.85, self.pulse_switch, self.CONFIRM[dev])
            self.later(7.0, self.arrive, b)
            return
        if dev in self.CONFIRM and kind == 'ok':
            # the ball passes the eject-confirm switch shortly before it reaches the target
            self.later(0.45, self.pulse_switch, self.CONFIRM[dev])
        self.later(0.6 if kind == 'ok' else 0.9, self.arrive, b)

    def pulse_switch(self, name):
        self.m.switch_controller.process_switch(name, 1, logical=True)
        self.m.switch_controller.process_switch(name, 0, logical=True)

    def arrive(self, b):
        _, src, dst, kind = self.loc[b]
        place = dst if kind == 'ok' else src
        self.loc[b] = place
        self.lateballs.discard(b)
        if place in self.JAM and len(self.at(place)) == 1 and len(self.ev) % 2 == 0:
            self.jammed[place] = b      # the only ball of the device comes to rest on the jam switch alone
        self.since[b] = self.loop.time()
        self.seen.setdefault(b, self.loop.time())
        if place == 'pf' and b in self.silent:
            self.silent.discard(b)
        elif place == 'pf':
            self.m.switch_controller.process_switch('s_pf', 1, logical=True)
            self.m.switch_controller.process_switch('s_pf', 0, logical=True)
        elif place in self.ENTRANCE and src != place:
            self.pulse_switch(self.ENTRANCE[place])
        else:
            self.sync_switches(place)
        self.log(op='arrive', b=b, at=place)

    # ---- the player / the game
    def drain(self):
        balls = self.at('pf')
        if not balls:
            return
        b = balls[0]
        self.loc[b] = ('transit', 'pf', 'bd_trough', 'ok')
        self.occ[b] = len(self.ev)
        self.seen.pop(b, None)
        if not self.GAME:       # (in the game topology every drain is saved: the ball is owed back)
            self.want = max(0, self.want - 1)
        self.log(op='drain', b=b)
        self.later(1.0, self.arrive, b)

    def shot(self, dev):
        if dev not in self.SHOOTABLE:
            return
        balls = self.at('pf')
        room = self.CAP[dev] - len(self.at(dev)) - len([1 for p in self.loc.values() if isinstance(p, tuple) and
                                                            ((p[3] == 'ok' and p[2] == dev) or (p[3] == 'back' and p[1] == dev))])
        if not balls or room <= 0:
            return
        b = balls[0]
        self.loc[b] = ('transit', 'pf', dev, 'ok')
        self.occ[b] = len(self.ev)
        self.seen.pop(b, None)
        if dev in self.HOLDING:
            self.want = max(0, self.want - 1)
        self.log(op='shot', b=b, d=dev)
        self.later(0.7, self.arrive, b)

    def escape(self, dev):
        balls = self.at(dev)
        if not balls or dev in self.fired:
            return
        if dev == 'bd_trough':
            self.want += 1
        b = balls[-1]
        self.loc[b] = ('transit', dev, 'pf', 'ok')
        self.occ[b] = len(self.ev)
        self.seen.pop(b, None)
        self.sync_switches(dev)
        self.log(op='escape', b=b, d=dev)
        self.later(0.5, self.arrive, b)

    def room(self, dev):
        return self.CAP[dev] - len(self.at(dev)) - len([1 for p in self.loc.values() if isinstance(p, tuple) and
                                                         ((p[3] == 'ok' and p[2] == dev) or (p[3] == 'back' and p[1] == dev))])

    def bounce(self, dev):
        balls = self.at('pf')
        if not balls or dev not in self.ENTRANCE or self.room(dev) != 0 or dev in self.fired or self.released.get(dev):
            return
        self.log(op='bounce', b=balls[0], d=dev)
        self.pulse_switch(self.ENTRANCE[dev])

    def release(self, dev):
        if dev not in self.HOLDING or dev in self.fired or self.released.get(dev) or not self.at(dev) or self.room(dev) != self.CAP[dev] - len(self.at(dev)):
            return
        if any(self.loop.time() - self.since.get(b, 0) < 3.0 for b in self.at(dev)):
            return      # a ball that has only just arrived is not held yet (count stabilisation): nothing to release
        self.released[dev] = len(self.at(dev))
        self.want += len(self.at(dev))
        self.log(op='release', d=dev)
        self.m.events.post('hold_release')

    def request(self):
        if self.GAME:
            if self.m.game is None:
                self.want += 1
                self.log(op='request')
                self.m.switch_controller.process_switch('s_start', 1, logical=True)      # game start: ball 1 is requested
                self.m.switch_controller.process_switch('s_start', 0, logical=True)
                return
            if self.want >= 3:
                return
            self.want += 1
            self.log(op='request')
            # multiball (ball_count_type: add, 1 ball): one more ball in play; while it counts its balls down a further
            # ball is an add-a-ball
            self.m.events.post('mb_add' if self.m.multiballs['mb'].balls_live_target > 0 else 'mb_start')
            return
        self.want += 1
        self.nreq += 1
        self.log(op='request')
        # with a launch button every third request is player controlled (the ball waits in the launcher for the button)
        self.m.playfield.add_ball(1, player_controlled=bool(self.LAUNCH and self.nreq % 3 == 0))

    def reqdev(self, dev):
        """The device asks for a ball for itself (a lock that wants a ball; it may be several hops away from the trough)."""
        if dev not in self.REQUESTABLE or self.wantd[dev] >= self.CAP[dev] or self.want + self.wantd[dev] >= 3:
            return
        self.wantd[dev] += 1
        self.log(op='reqdev', d=dev)
        self.m.ball_devices[dev].request_ball()

    # ---- a handler of the environment holds the eject_attempt queue event of a device back (diverter, queue relay, show)
    def hold(self, dev, secs):
        """Arm the handler: the next eject attempt MPF announces for dev is held for secs (or until unhold)."""
        if not self.hold_used or dev in self.armed or dev in self.heldq:
            return
        self.armed[dev] = secs
        self.log(op='hold', d=dev)

    def attempt(self, dev, queue):
        """balldevice_<dev>_ball_eject_attempt was posted (called by the real event manager with the handler's queue)."""
        if dev not in self.armed:
            return
        secs = self.armed.pop(dev)
        queue.wait()
        self.ntok += 1
        self.heldq[dev] = (queue, self.ntok)
        self.hold_log[dev] = [len(self.ev), None]
        self.log(op='held', d=dev)
        self.later(secs, self.unhold, dev, self.ntok)

    def unhold(self, dev, tok=None):
        if dev not in self.heldq or (tok is not None and self.heldq[dev][1] != tok):
            return
        queue, _ = self.heldq.pop(dev)
        if dev in self.hold_log:
            self.hold_log[dev][1] = len(self.ev)
        self.log(op='unhold', d=dev)
        queue.clear()

    def quiet(self):
        return self.pending == 0 and not self.heldq and not any(isinstance(p, tuple) for p in self.loc.values())


def _boot(topo):
    h = harness.boot(topo)
    m = h.machine
    for s in TOPO[topo]['switches']['bd_trough']:
        m.switch_controller.process_switch(s, 1, logical=True)
    h.advance_time_and_run(10)
    if 'holding' in TOPO[topo]:
        m.events.post('hold_on')
        h.advance_time_and_run(1)
    if m.ball_devices['bd_trough'].balls != 3 or m.ball_controller.num_balls_known != 3:
        raise RuntimeError('machine did not find its three balls at boot')
    return h


def exec_schedule(job):
    sched, seed, topo = job
    try:
        return _exec(sched, seed, topo)
    except BaseException as ex:  # pylint: disable=broad-except
        import traceback
        return {'ev': [{'op': 'crash', 'what': repr(ex)[:300], 'm': {'bd_trough': 0, 'bd_plunger': 0, 'bd_lock': 0, 'pf': 0}}],
                '_tb': traceback.format_exc()[-2000:]}


def _mk_attempt(w, dname):
    def hnd(queue, **kwargs):
        w.attempt(dname, queue)
    return hnd


def _mk_broken(w, dname):
    def hnd(**kwargs):
        w.log(op='broken', d=dname)
    return hnd


def _exec(sched, seed, topo):
    rnd = random.Random(seed)
    h = _boot(topo)
    try:
        m = h.machine
        ev = []
        outcomes = {d: [] for d in DEVS}
        for s in sched:
            if s['op'] == 'leave':
                outcomes[s['d']].append(s['kind'])
            elif s['op'] == 'noleave':
                outcomes[s['d']].append('noleave')
        w = World(h, outcomes, ev, topo)
        for dname in DEVS:
            # a device reporting itself broken is a step of the trace
            m.events.add_handler('balldevice_%s_broken' % dname, _mk_broken(w, dname))
        if any(s['op'] == 'hold' for s in sched):
            # (only in the schedules that use it: a handler on a queue event changes how the event is processed)
            w.hold_used = True
            for dname in HOLDABLE:
                m.events.add_handler('balldevice_%s_ball_eject_attempt' % dname, _mk_attempt(w, dname))
        for cname, dev in COIL.items():
            drv = m.coils[cname].hw_driver
            orig = drv.pulse

            def pulse(ps, _o=orig, _d=dev):
                w.coil_pulsed(_d)
                return _o(ps)
            drv.pulse = pulse

        def rest(secs):
            for _ in range(40):
                h.advance_time_and_run(secs)
                if w.quiet():
                    break
            h.advance_time_and_run(secs)
            if w.hold_used:
                # an attempt caught in the last moment is held for up to 5 s: the world is at rest only after its eject
                for _ in range(10):
                    if w.quiet():
                        break
                    h.advance_time_and_run(secs)
            pending = int(m.playfield.num_balls_requested)
            idle = all(m.ball_devices[d].state == 'idle' for d in DEVS)
            held = sum(len(w.at(d)) for d in w.HOLDING if d not in TOPO[topo].get('sourcing', []))
            if w.LOSABLE:
                # a lost ball is given up 20 s after its eject timed out, and the replacement may be lost again: at rest only
                # when a whole period has passed without anything happening in the world
                for _ in range(10):
                    n0 = len(ev)
                    h.advance_time_and_run(secs)
                    if len(ev) == n0 and w.quiet():
                        break
            short = [d for d in w.REQUESTABLE if w.wantd[d] > len(w.at(d)) and w.at('bd_trough')]
            w.log(op='rest', _devshort=len(short), known=int(m.ball_controller.num_balls_known), idle=bool(idle), pending=pending,
                  states=[str(m.ball_devices[d].state) for d in DEVS], devs=list(DEVS), _over=len(w.at('pf')) - min(w.want, 3 - held),
                  _phys=dict({d: len(w.at(d)) for d in DEVS}, pf=len(w.at('pf'))),
                  _late=len([1 for e in ev if e['op'] == 'leave' and e.get('kind') == 'late']))

        for si, s in enumerate(sched):
            op = s['op']
            if 'after' in s and op in ('request', 'reqdev', 'drain', 'shot', 'escape', 'bounce', 'release', 'hold', 'unhold', 'wait'):
                # hand-written timing: this operation comes right after the named world event (op, device/place)
                n0 = len(ev)
                for _ in range(400):
                    if any(e['op'] == s['after'][0] and e.get('d', e.get('at')) == s['after'][1] for e in ev[n0:]):
                        break
                    h.advance_time_and_run(0.05)
            if op == 'request':
                w.request()
            elif op == 'reqdev':
                w.reqdev(s['d'])
            elif op == 'drain':
                w.drain()
            elif op == 'shot':
                w.shot(s['d'])
            elif op == 'escape':
                w.escape(s['d'])
            elif op == 'bounce':
                w.bounce(s['d'])
            elif op == 'release':
                w.release(s['d'])
            elif op == 'hold':
                # armed right before the next operation; how long the attempt is held: given, or 0.5 - 5 s
                w.hold(s['d'], s['secs'] if 'secs' in s else rnd.choice([0.5, 1.0, 1.5, 2.0, 3.0, 5.0]))
                h.advance_time_and_run(0)
                continue
            elif op == 'unhold':
                if s['d'] not in w.heldq:
                    continue
                w.unhold(s['d'])
            elif op == 'wait':
                h.advance_time_and_run(s['secs'])
                continue
            else:
                continue
            if any('after' in s2 for s2 in sched[si + 1:si + 2]):
                h.advance_time_and_run(0)       # the next operation brings its own timing
                continue
            if rnd.random() < 0.5:
                h.advance_time_and_run(rnd.choice([0.05, 0.3, 1.0, 2.5, 6.0, 15.0]))
            else:
                # event-aligned timing: the next operation comes shortly after the next thing that happens in the world
                # (a coil fires, a ball leaves / arrives), which is where the races between devices are
                n0 = len([e for e in ev if e['op'] in ('fire', 'leave', 'arrive', 'noleave')])
                k = rnd.choice([1, 1, 2, 3, 4])
                for _ in range(200):
                    h.advance_time_and_run(0.05)
                    if len([e for e in ev if e['op'] in ('fire', 'leave', 'arrive', 'noleave')]) >= n0 + k:
                        break
                h.advance_time_and_run(rnd.choice([0.0, 0.05, 0.2, 0.4]))
            if rnd.random() < 0.25 and w.quiet():
                rest(40)
        rest(60)
        return {'ev': ev, '_seed': seed, '_topo': topo}
    finally:
        try:
            harness.shutdown(h)
        except BaseException:  # pylint: disable=broad-except
            pass


def cfg_text(spec, topo, maxops, extra, hold=()):
    t = TOPO[topo]
    return """SPECIFICATION %s
CONSTANTS
  Balls = {1, 2, 3}
  Devs <- MCDevs
  Cap <- %s
  Target <- %s
  Shootable = {%s}
  Escapable = {}
  Holding = {%s}
  Sourcing = {%s}
  EntranceCounted = {%s}
  Saved = %s
  MaxAtt <- %s
  Holdable = {%s}
  Alt <- %s
  Losable = {%s}
  Requestable = {%s}
  MaxOps = %d
%sCHECK_DEADLOCK FALSE
""" % (spec, t['cap'], t['tgt'], ', '.join('"%s"' % d for d in t.get('shootable', ['bd_lock'])), ', '.join('"%s"' % d for d in t.get('holding', [])), ', '.join('"%s"' % d for d in t.get('sourcing', [])),
       ', '.join('"%s"' % d for d in t.get('entrance', {})), 'TRUE' if t.get('game') else 'FALSE', t.get('att', 'MCNoAtt'), ', '.join('"%s"' % d for d in hold), t.get('alt', 'MCNoAlt'),
       ', '.join('"%s"' % d for d in t.get('losable', [])), ', '.join('"%s"' % d for d in t.get('requestable', [])), maxops, extra)


def handmade():
    R = {'op': 'request'}
    D = {'op': 'drain'}
    S = {'op': 'shot', 'd': 'bd_lock'}
    X = {'op': 'escape', 'd': 'bd_lock'}
    B = {'op': 'bounce', 'd': 'bd_lock'}
    REL = {'op': 'release', 'd': 'bd_lock'}
    RL = {'op': 'reqdev', 'd': 'bd_lock'}
    W = lambda secs=0.0: {'op': 'wait', 'secs': secs}
    L = lambda d, k: {'op': 'leave', 'd': d, 'kind': k}
    N = lambda d: {'op': 'noleave', 'd': d}
    AF = lambda s, op, where: dict(s, after=(op, where))
    return [
        # a second ball is requested while the lock's ball is between the lock and its eject-confirm switch / still in
        # the lock with the coil fired / just arrived in the launcher (only meaningful where the lock feeds the launcher)
        [R, AF(S, 'arrive', 'pf'), AF(R, 'leave', 'bd_lock'), D, D],
        [R, AF(S, 'arrive', 'pf'), AF(R, 'fire', 'bd_lock'), D, D],
        [R, AF(S, 'arrive', 'pf'), AF(R, 'arrive', 'bd_lock'), AF(R, 'leave', 'bd_lock'), D, D, D],
        [R, R, AF(S, 'arrive', 'pf'), AF(D, 'leave', 'bd_lock'), AF(R, 'arrive', 'bd_plunger'), D],
        # an entrance-counted holding lock is filled, a further ball rolls over its entrance and bounces back, then
        # the held balls are released (no effect in the topologies without such a lock)
        [R, AF(S, 'arrive', 'pf'), R, AF(S, 'arrive', 'pf'), R, AF(B, 'arrive', 'pf'), B, D, REL, D, D],
        [R, AF(S, 'arrive', 'pf'), R, AF(S, 'arrive', 'pf'), AF(B, 'arrive', 'bd_lock'), REL, R, D, D, D],
        [R, AF(S, 'arrive', 'pf'), REL, AF(S, 'arrive', 'pf'), R, D, REL, D],
        # (game topology) two balls in play drain within the ball save's eject delay; a third is added meanwhile
        [R, AF(R, 'arrive', 'pf'), AF(D, 'arrive', 'pf'), D, R, D],
        [R, AF(R, 'arrive', 'pf'), AF(R, 'arrive', 'pf'), AF(D, 'arrive', 'pf'), D, D, S, D],
        # (holding lock feeding the launcher) all balls out, two get held, a further request can only come from the hold
        [R, R, R, AF(S, 'arrive', 'pf'), S, R, D, D],
        [R, R, R, AF(S, 'arrive', 'pf'), D, S, R, R, D],
        # the trough runs out of attempts (where max_eject_attempts is configured): three failures in a row
        [R, N('bd_trough'), N('bd_trough'), N('bd_trough'), R, D],
        [R, L('bd_trough', 'back'), N('bd_trough'), L('bd_trough', 'back'), R],
        [R, L('bd_trough', 'ok'), L('bd_plunger', 'ok'), R, N('bd_trough'), L('bd_trough', 'back'), N('bd_trough'), D],
        # late arrivals: the ball reaches its target only after the eject timeout
        [R, L('bd_trough', 'late'), R, D, D],
        [R, L('bd_trough', 'ok'), L('bd_plunger', 'late'), R, L('bd_trough', 'late'), D, D],
        [R, AF(S, 'arrive', 'pf'), L('bd_lock', 'late'), R, D, D],
        [R, D, R, R, D, D],
        [R, L('bd_trough', 'back'), L('bd_plunger', 'back'), R, D],
        [R, N('bd_trough'), N('bd_trough'), R, S, S, D],
        [R, R, R, R, D, D, D, D],
        [R, S, R, S, L('bd_lock', 'back'), D, D],
        # the launcher's first try fails while the trough is already asked for the next ball
        [R, R, L('bd_trough', 'ok'), L('bd_plunger', 'back'), L('bd_trough', 'ok'), L('bd_plunger', 'ok'), R],
        [R, R, R, L('bd_trough', 'ok'), N('bd_plunger'), L('bd_trough', 'ok'), L('bd_plunger', 'ok'), D, D],
        # (lock behind the launcher, asking for balls itself) a ball on its way to the lock is lost on the first / second hop,
        # given up after eject timeout + ball_missing_timeout and replaced; later requests for the playfield and the lock
        [RL, L('bd_trough', 'lost'), W(30.0), W(10.0), R, D, D],
        [RL, L('bd_trough', 'lost'), W(30.0), D, W(5.0), R, RL, D],
        [RL, L('bd_trough', 'ok'), L('bd_plunger', 'lost'), W(30.0), R, D, D],
        [R, L('bd_trough', 'lost'), W(30.0), RL, R, D, D],
        [RL, RL, L('bd_trough', 'lost'), L('bd_trough', 'ok'), L('bd_plunger', 'ok'), L('bd_trough', 'lost'), W(60.0), R, D, D],
        [RL, L('bd_trough', 'lost'), AF(D, 'arrive', 'pf'), R, D, D],
        [RL, L('bd_trough', 'lost'), AF(R, 'arrive', 'pf'), W(30.0), D, D],
        [RL, R, R, D, D],
        [R, AF(RL, 'fire', 'bd_plunger'), AF(RL, 'fire', 'bd_trough'), D, R, D],
        [RL, AF(R, 'fire', 'bd_plunger'), AF(R, 'arrive', 'bd_lock'), D, D],
        # (multiball with the lock as ball_locks device) the multiball starts while the lock is kicking out a ball nobody claimed
        [R, AF(S, 'arrive', 'pf'), AF(R, 'fire', 'bd_lock'), W(20.0), D, D],
        [R, AF(S, 'arrive', 'pf'), AF(R, 'arrive', 'bd_lock'), W(20.0), D, D],
        [R, AF(R, 'arrive', 'pf'), AF(S, 'arrive', 'pf'), AF(R, 'fire', 'bd_lock'), W(20.0), D, D, D],
    ]


def handmade_holds():
    """Ejects whose eject_attempt queue event is held back and released later, while other balls move: pinned to world events."""
    R = {'op': 'request'}
    D = {'op': 'drain'}
    S = {'op': 'shot', 'd': 'bd_lock'}
    REL = {'op': 'release', 'd': 'bd_lock'}
    T, P, K = 'bd_trough', 'bd_plunger', 'bd_lock'
    H = lambda d, secs=5.0: {'op': 'hold', 'd': d, 'secs': secs}
    U = lambda d: {'op': 'unhold', 'd': d}
    W = lambda secs=0.0: {'op': 'wait', 'secs': secs}
    L = lambda d, k: {'op': 'leave', 'd': d, 'kind': k}
    AF = lambda s, op, where: dict(s, after=(op, where))
    out = []
    # a ball is on the playfield; the trough's next attempt is held; the playfield ball is shot into the lock, which (where
    # it feeds the launcher) sends it on to the launcher while the trough waits: released when the lock's coil fires /
    # its ball has left / has reached the launcher / the launcher fires it on / it is gone, or after a fixed time
    for pin in (('fire', K), ('leave', K), ('arrive', P), ('fire', P), ('leave', P)):
        out.append([R, AF(H(T), 'arrive', 'pf'), R, AF(S, 'held', T), AF(U(T), *pin), D, D])
    for secs in (1.0, 2.0, 3.0):
        out.append([R, AF(H(T, secs), 'arrive', 'pf'), R, AF(S, 'held', T), W(6.0), D, D])
    # two balls out, both shot into the lock one after the other while the trough's attempt for a third is held: the
    # lock's balls pass through the launcher (which has two slots in one topology) during the hold
    for pin in (('fire', K), ('arrive', P), ('fire', P)):
        out.append([R, R, W(8.0), H(T), R, AF(S, 'held', T), S, AF(W(), *pin), AF(U(T), *pin), D, D, D])
    # the other way round: the lock's attempt is held (a held ball released / a hold serving a request with the trough
    # empty) while the trough feeds the launcher
    out.append([R, AF(S, 'arrive', 'pf'), W(4.0), H(K), REL, AF(R, 'held', K), AF(U(K), 'fire', T), D, D])
    out.append([R, AF(S, 'arrive', 'pf'), W(4.0), H(K), REL, AF(R, 'held', K), AF(U(K), 'arrive', P), D, D])
    out.append([R, AF(H(K, 2.0), 'arrive', 'pf'), S, AF(R, 'held', K), W(6.0), D, D])
    out.append([R, R, R, W(14.0), S, W(4.0), H(K), R, AF(D, 'held', K), AF(R, 'arrive', T), AF(U(K), 'fire', T), D, D])
    out.append([R, R, R, W(14.0), S, W(4.0), H(K, 4.0), R, AF(D, 'held', K), AF(R, 'arrive', T), W(8.0), D, D])
    # the launcher's own attempt is held (a diverter behind it) while the next ball is on its way to it / its ball falls back
    out.append([H(P, 3.0), R, AF(R, 'held', P), D, D])
    out.append([R, AF(H(P, 2.0), 'leave', T), AF(R, 'held', P), AF(D, 'arrive', 'pf'), D])
    out.append([H(T, 2.0), R, R, L(P, 'back'), AF(H(T, 3.0), 'leave', P), D, D])
    out.append([R, L(T, 'ok'), L(P, 'back'), AF(H(T, 1.5), 'fire', P), R, D, D])
    # holds on every device at once, released in turn by time
    out.append([H(T, 1.0), H(P, 2.0), H(K, 3.0), R, R, AF(S, 'arrive', 'pf'), R, D, D, D])
    return out


def run_world(ctx):
    wd = tlc.prepare(ctx.scratch, 'BallWorld', 'ballworld')
    alljobs, alltraces, rejected = [], [], {}
    for topo in [t for t in TOPOS if t in os.environ.get('BW_TOPOS', ','.join(TOPOS)).split(',')]:     # (BW_TOPOS: development only)
        with open(wd + '/MC.cfg', 'w') as f:
            # (no held attempts in this one: `att` stays "free" everywhere, the state space is that of the world alone)
            f.write(cfg_text('Spec', topo, MC_OPS.get(topo, (4, 6))[0 if ctx.quick else 1], 'INVARIANT TypeOK\nINVARIANT NeverOverfull\n'))
        if topo not in MC_SAME:     # (a topology whose world constants equal another one's has the same state space)
            r = tlc.expect_ok(tlc.check(wd, 'BallWorldMC', 'MC.cfg', workers=8, timeout=2000), 'BallWorld design check')
            ctx.add_tlc('BallWorldMC(%s)' % topo, r, {'Balls': 3, 'Devs': 3, 'MaxOps': MC_OPS.get(topo, (4, 6))[0 if ctx.quick else 1]})
        if topo in MC_HOLD and (ctx.quick is False or topo in MC_HOLD_QUICK):
            # the world with held attempts (every device holdable), smaller budget
            mo = MC_HOLD[topo] + (0 if ctx.quick else 1)
            with open(wd + '/MCH.cfg', 'w') as f:
                f.write(cfg_text('Spec', topo, mo, 'INVARIANT TypeOK\nINVARIANT NeverOverfull\n', HOLDABLE))
            r = tlc.expect_ok(tlc.check(wd, 'BallWorldMC', 'MCH.cfg', workers=8, timeout=2000), 'BallWorld design check (held attempts)')
            ctx.add_tlc('BallWorldMC(%s, held attempts)' % topo, r, {'Balls': 3, 'Devs': 3, 'MaxOps': mo, 'Holdable': 3})
        with open(wd + '/Gen.cfg', 'w') as f:
            f.write(cfg_text('SpecBase', topo, 9, ''))
        behs, _ = tlc.simulate(wd, 'BallWorldMC', 'Gen.cfg', num=60 if ctx.quick else 1500, depth=40, seed=ctx.seed)
        jobs = [([s['act'] for s in b], ctx.seed * 1000 + i, topo) for i, b in enumerate(behs)]
        jobs += [(s, ctx.seed * 77 + i, topo) for i, s in enumerate(handmade())]
        if topo in HOLD_TOPOS:
            # schedules with held eject attempts: behaviours of the full spec that arm at least one hold, and hand-written ones
            with open(wd + '/GenH.cfg', 'w') as f:
                f.write(cfg_text('Spec', topo, 9, '', HOLDABLE))
            want = 20 if ctx.quick else 500
            behs, _ = tlc.simulate(wd, 'BallWorldMC', 'GenH.cfg', num=3 * want, depth=40, seed=ctx.seed)
            hs = [[s['act'] for s in b] for b in behs]
            hs = [a for a in hs if any(x['op'] == 'hold' for x in a)][:want]
            jobs += [(a, ctx.seed * 1000 + 500000 + i, topo) for i, a in enumerate(hs)]
            jobs += [(s, ctx.seed * 77 + 5000 + i, topo) for i, s in enumerate(handmade_holds())]
            ctx.coverage.setdefault('held_attempt_schedules', {})[topo] = len(hs) + len(handmade_holds())
        traces = harness.pmap(exec_schedule, jobs, chunk=2, item_timeout=180)
        with open(wd + '/Trace.cfg', 'w') as f:
            f.write(cfg_text('TSpec', topo, 1000000, 'INVARIANT TypeOK\nINVARIANT Reporter\n', HOLDABLE))
        with open(wd + '/BallWorldTraceT.tla', 'w') as f:
            f.write('---- MODULE BallWorldTraceT ----\nEXTENDS BallWorldTrace, BallWorldMCDefs\n====\n')
        v = tlc.validate_traces(wd, 'BallWorldTraceT', 'Trace.cfg', traces)
        tlc.finish_diagnosis(wd, "BallWorldTraceT", "Trace.cfg", traces, v)
        ctx.add_trace_verdict('BallWorldTrace(%s)' % topo, v, len(traces))
        over = [i for i, t in enumerate(traces) if any(e.get('op') == 'rest' and e.get('_over', 0) > 0 for e in t['ev'])]
        if over:
            # outside both statements (every request was served, counts agree): noted, not judged
            ctx.log('observation (%s): %d executions end with more balls on the playfield than were requested' % (topo, len(over)))
            ctx.coverage.setdefault('observations', []).append('%s: %d of %d executions over-deliver (a drained ball is ejected '
                                                               'again without a request)' % (topo, len(over), len(traces)))
        if topo == 'balls':
            ctx.sample({'kind': 'ball-world-trace', 'topology': topo, 'trace': traces[0]['ev'][:12]})
        base = len(alljobs)
        alljobs += jobs
        alltraces += traces
        for i, info in v.rejected.items():
            rejected[base + i] = info
    return alljobs, alltraces, rejected


# exhaustive check of the world with held attempts: topology -> MaxOps at the quick tier (one more at thorough)
MC_HOLD = {'balls6': 2, 'balls3': 1, 'balls': 2, 'balls2': 2}
MC_HOLD_QUICK = ('balls6',)
# exhaustive check of the world without held attempts: MaxOps (quick, thorough) where it differs from (4, 6)
MC_OPS = {'balls7': (1, 3)}
# the world of balls8 is that of balls5 (the difference is in MPF's configuration: ball_locks of the multiball)
MC_SAME = {'balls8': 'balls5'}
CAPS = {'balls': {'bd_trough': 3, 'bd_plunger': 1, 'bd_lock': 2}, 'balls2': {'bd_trough': 3, 'bd_plunger': 2, 'bd_lock': 2},
        'balls3': {'bd_trough': 3, 'bd_plunger': 1, 'bd_lock': 2}, 'balls4': {'bd_trough': 3, 'bd_plunger': 1, 'bd_lock': 2},
        'balls5': {'bd_trough': 3, 'bd_plunger': 1, 'bd_lock': 2}, 'balls6': {'bd_trough': 3, 'bd_plunger': 1, 'bd_lock': 2},
        'balls7': {'bd_trough': 3, 'bd_plunger': 1, 'bd_lock': 2}, 'balls8': {'bd_trough': 3, 'bd_plunger': 1, 'bd_lock': 2}}


def classify(fe, topo):
    """Stable signature for a rejected line: which clause of the statement it breaks."""
    m = fe.get('m', {})
    for d, v in sorted(m.items()):
        if v < 0:
            # one signature per topology: which count dips below zero depends on the interleaving only
            return 'negative-count'
        if d in CAPS[topo] and v > CAPS[topo][d]:
            return 'over-capacity:%s' % d
    if fe.get('op') == 'rest':
        if not fe.get('idle', True):
            return 'rest:not-idle:%s' % '+'.join(st for st in fe.get('states', []) if st != 'idle')
        if '_phys' in fe and any(m.get(d) != n for d, n in fe['_phys'].items()):
            if fe.get('_late', 0) > 0:
                # a ball that arrived after its eject had timed out was booked twice or attributed to the wrong eject
                return 'rest:count-mismatch:after-late-arrival'
            return 'rest:count-mismatch:%s' % '+'.join(sorted(d for d, n in fe['_phys'].items() if m.get(d) != n))
        if fe.get('_over', 0) < 0:
            return 'rest:under-delivered'
        if fe.get('_devshort', 0) > 0:
            # a device asked for a ball for itself and did not get it although a ball lies in the trough
            return 'rest:request-of-device-unserved'
        return 'rest:counts-or-delivery'
    if fe.get('op') == 'fire':
        # why the target has no room: a ball that left another source earlier is still rolling towards it; the target's own
        # failed eject is falling back into it; another source was fired in this same instant; the target's coil was
        # just fired (MPF counts on that eject to succeed); or balls are simply sitting in it
        if fe.get('_slow', 0) > 0 and fe.get('_rolling', 0) == fe.get('_slow', 0):
            # the only ball on its way is one whose eject already timed out for MPF (late arrival)
            return 'fire-at-full-target:late-ball'
        if fe.get('_heldfill', 0) > 0:
            # the eject_attempt queue event of this eject was held back by a handler and released, and the target filled up
            # during the hold with a ball MPF had been shown before this instant (another source's ball seen leaving, a
            # ball arrived): the source was fired on the strength of what the target looked like before the hold.  (Balls
            # MPF has not been shown yet, or only in this very instant, are the recorded same-instant / ball-rolling races
            # whether or not an attempt was held.)
            return 'fire-at-full-target:target-filled-while-attempt-held'
        why = [n for n, k in (('ball-rolling:requested-after-it-left' if fe.get('_latereq') else 'ball-rolling', '_rolling'), ('ball-falling-back', '_back'), ('same-instant', '_same'),
                              ('target-ejecting', '_tfired')) if fe.get(k, 0) > 0]
        return 'fire-at-full-target:' + ('+'.join(why) if why else 'ball-sitting')
    return 'step:%s' % fe.get('op', '?')


C05_KINDS = ('rest:not-idle', 'rest:under-delivered', 'rest:request-of-device-unserved', 'step:noleave', 'step:leave', 'step:arrive')


def report(ctx, pid, jobs, traces, rejected):
    for i, info in sorted(rejected.items()):
        if info.get('line') is None:
            continue
        fe = info.get('failing_event') or {}
        pe = info.get('prev_event') or {}
        kind = classify(fe, jobs[i][2])
        # progress clauses belong to C05, count clauses to C04; delivery at rest is judged by both
        mine = kind.startswith(C05_KINDS) if pid == 'C05' else not kind.startswith(('rest:not-idle', 'rest:under-delivered', 'rest:request-of-device-unserved'))
        if kind == 'rest:counts-or-delivery' or kind.startswith('step:crash'):
            mine = True
        if not mine:
            continue
        what = '%s: line %s not explained by BallWorld spec: %s (prev %s)' % (kind, info.get('line'), fe, pe)
        # (the late-ball class does not depend on the topology: one signature for all)
        ctx.violation('%s:%s:%s' % (pid, 'any' if kind.endswith((':late-ball', ':after-late-arrival')) else jobs[i][2], kind), what, {'job': list(jobs[i]), 'trace': traces[i], 'info': info})


def run(ctx):
    jobs, traces, v = run_world(ctx)
    ctx.coverage['monitors'] += ['Bounded', 'NoFireAtFullTarget (guard of Fire; also for the fire that follows a held and released eject_attempt)',
                                 'AtRestAgreement', 'SumEqualsKnown']
    report(ctx, 'C04', jobs, traces, v)
    ctx.assumptions += ['the world double is trusted; topology trough(3) -> plunger(1) -> playfield, lock(2) -> playfield',
                        'balls7: a ball that goes astray comes to lie on the playfield without hitting a switch; only ejects towards '
                        'another device go astray; once a ball has gone astray a device may keep waiting for a ball while the trough is empty',
                        'eject outcomes: success, ball falls back, ball does not move; no game running (requests are direct)',
                        'held eject attempts: one handler per device, holds of 0.5-5 s, one hold of a device at a time; targets fill up '
                        'during a hold only from their other source (no playfield shot enters a device that is also an eject target)']


def replay(ctx, data):
    d = data['replay']
    tr = exec_schedule(tuple(d['job']))
    print('replay trace:')
    for e in tr['ev']:
        print('  ', e)
    print(tr.get('_tb', ''))
