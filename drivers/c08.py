"""C08 — coils are never driven beyond their configured safety limits (specs/Coil)."""
import os
import random

from lib import tlc, harness
from lib.tlaval import to_tla

LEVEL = 'model_checking'
NONE = -1000
KEYS = ('id', 'defPulseMs', 'maxPulseMs', 'defPP', 'maxPP', 'defHP', 'maxHP', 'allowEnable', 'maxHoldDur', 'defTE', 'pwte')
EPS = 1e-6


def C(i, defPulseMs=10, maxPulseMs=0, defPP=0, maxPP=100, defHP=0, maxHP=0, allowEnable=False, maxHoldDur=0, defTE=0, pwte=False):
    return dict(id=i, defPulseMs=defPulseMs, maxPulseMs=maxPulseMs, defPP=defPP, maxPP=maxPP, defHP=defHP, maxHP=maxHP,
                allowEnable=allowEnable, maxHoldDur=maxHoldDur, defTE=defTE, pwte=pwte)


TABLE = [
    C(1),
    C(2, maxPulseMs=30, defPP=50, maxPP=50),
    C(3, allowEnable=True),
    C(4, maxHP=50, defHP=25, maxHoldDur=1000),
    C(5, allowEnable=True, maxHP=50),
    C(6, defPulseMs=20, maxPulseMs=400, maxPP=100, allowEnable=True, maxHoldDur=2000, defTE=100),
    C(7, pwte=True, maxHP=50, defTE=100, maxHoldDur=1000),
    C(8, defHP=50),
]
MS = [NONE, -5, 0, 10, 30, 300]
POW = [NONE, -50, 0, 25, 50, 100, 150]
TEV = [NONE, -100, 100, 2000]
STEPS = [100, 300, 1000]


def cfg_rec(c):
    return {k: c[k] for k in KEYS}


def write_machine(scratch):
    d = os.path.join(scratch, 'machines', 'coils')
    os.makedirs(d + '/config', exist_ok=True)
    with open(d + '/config/config.yaml', 'w') as f:
        f.write('#config_version=6\ncoils:\n')
        for c in TABLE:
            n = 'c%d' % c['id']
            f.write('  %s:\n    number: %d\n    default_pulse_ms: %d\n' % (n, c['id'], c['defPulseMs']))
            if c['maxPulseMs']:
                f.write('    max_pulse_ms: %dms\n' % c['maxPulseMs'])
            if c['defPP']:
                f.write('    default_pulse_power: %s\n' % (c['defPP'] / 100.0))
            f.write('    max_pulse_power: %s\n' % (c['maxPP'] / 100.0))
            if c['defHP']:
                f.write('    default_hold_power: %s\n' % (c['defHP'] / 100.0))
            if c['maxHP']:
                f.write('    max_hold_power: %s\n' % (c['maxHP'] / 100.0))
            if c['allowEnable']:
                f.write('    allow_enable: true\n')
            if c['maxHoldDur']:
                f.write('    max_hold_duration: %sms\n' % c['maxHoldDur'])
            if c['defTE']:
                f.write('    default_timed_enable_ms: %d\n' % c['defTE'])
            if c['pwte']:
                f.write('    pulse_with_timed_enable: true\n')
            f.write('    pulse_events: %s_pulse\n    enable_events: %s_enable\n    disable_events: %s_disable\n'
                    '    timed_enable_events: %s_timed_enable\n' % (n, n, n, n))
    return d


def mc_module(full=True):
    # full: every value class (schedule generation); 'medium': the exhaustive check of the thorough tier (the full sets
    # do not finish within 40 minutes at MaxOps 2); reduced: quick tier
    ms, pw, te = {True: (MS, POW, TEV), 'medium': ([NONE, -5, 0, 10, 300], [NONE, -50, 0, 50, 100, 150], TEV),
                  False: ([NONE, -5, 10, 300], [NONE, -50, 50, 150], [NONE, -100, 100])}[full]
    return """------------------------------ MODULE CoilMC ------------------------------
EXTENDS Coil
MCNONE == %d
MCConfigs == {%s}
MCMs == {%s}
MCPow == {%s}
MCTe == {%s}
=============================================================================
""" % (NONE, ',\n  '.join(to_tla(cfg_rec(c)) for c in TABLE), ', '.join(map(str, ms)), ', '.join(map(str, pw)),
       ', '.join(map(str, te)))


def mc_cfg(maxops, props=True):
    return """SPECIFICATION Spec
CONSTANTS
  Configs <- MCConfigs
  NONE <- MCNONE
  PlatMaxPulse = 255
  MsVals <- MCMs
  PowVals <- MCPow
  TeVals <- MCTe
  Steps = {100, 300, 1000}
  MaxTime = 6000
  MaxOps = %d
%sCHECK_DEADLOCK FALSE
""" % (maxops, 'PROPERTY Envelope\nINVARIANT RefuseNotCommand\nINVARIANT SoftwarePulseEnds\nINVARIANT HoldWatchdog\n' if props else '')


_H = {}


class RecDriver:
    """Wraps a platform driver object and records every command that reaches it."""

    def __init__(self, inner, log, name):
        self._inner = inner
        self._log = log
        self._name = name

    def pulse(self, pulse_settings):
        self._log.append((self._name, ['pulse', int(pulse_settings.duration), pct(pulse_settings.power), 0, 0]))
        return self._inner.pulse(pulse_settings)

    def enable(self, pulse_settings, hold_settings):
        self._log.append((self._name, ['enable', int(pulse_settings.duration), pct(pulse_settings.power), pct(hold_settings.power), 0]))
        return self._inner.enable(pulse_settings, hold_settings)

    def timed_enable(self, pulse_settings, hold_settings):
        self._log.append((self._name, ['timed_enable', int(pulse_settings.duration), pct(pulse_settings.power),
                                       pct(hold_settings.power), int(hold_settings.duration)]))
        return self._inner.timed_enable(pulse_settings, hold_settings)

    def disable(self):
        self._log.append((self._name, ['disable', 0, 0, 0, 0]))
        return self._inner.disable()

    def __getattr__(self, item):
        return getattr(self._inner, item)


def pct(x):
    return int(round(x * 100))


def _machine(mdir):
    if 'h' not in _H:
        h = harness.boot(None, machine_dir=mdir)
        _H['h'] = h
        _H['log'] = []
        for c in TABLE:
            coil = h.machine.coils['c%d' % c['id']]
            coil.hw_driver = RecDriver(coil.hw_driver, _H['log'], coil.name)
    return _H['h']


def arg(x, scale=1.0):
    return None if x == NONE else (x / scale if scale != 1.0 else x)


def exec_schedule(job):
    mdir, cid, sched, via_events = job
    try:
        return _exec(mdir, cid, sched, via_events)
    except Exception as ex:  # pylint: disable=broad-except
        import traceback
        _H.pop('h', None)
        return {'cfg': cfg_rec([c for c in TABLE if c['id'] == cid][0]), 'ev': [{'op': 'crash', 'what': repr(ex)[:300]}],
                '_tb': traceback.format_exc()[-1500:]}


def _exec(mdir, cid, sched, via_events):
    h = _machine(mdir)
    m = h.machine
    c = [x for x in TABLE if x['id'] == cid][0]
    coil = m.coils['c%d' % cid]
    log = _H['log']
    coil.disable()
    h.advance_time_and_run(10)
    del log[:]
    ev = []
    t0 = m.clock.get_time()
    tgt = 0

    def call(fn, evname, kw):
        """Run one request either as a direct method call or through the coil's control event."""
        kw = {k: v for k, v in kw.items() if v is not None}
        if not via_events:
            try:
                fn(**kw)
                return False
            except Exception:  # refused  pylint: disable=broad-except
                return True
        before = h._exception
        m.events.post('%s_%s' % (coil.name, evname), **kw)
        try:
            h.advance_time_and_run(0)
            h.advance_time_and_run(0)
        except Exception:  # the handler raised: the request was refused  pylint: disable=broad-except
            return True
        return h._exception is not None and h._exception is not before

    for s in list(sched) + [{'op': 'adv', 'd': 1000}] * 3:
        op = s['op']
        if op == 'init':
            continue
        rec = {'op': op}
        if op == 'adv':
            # the model moves to the next timer at most: replay its decision by observing what fires
            rec['d'] = s['d']
            h.advance_time_and_run(s['d'] * (1 + EPS) / 1000.0)
            refused = False
        elif op == 'pulse':
            rec.update(ms=s['ms'], pp=s['pp'])
            refused = call(coil.pulse, 'pulse', dict(pulse_ms=arg(s['ms']), pulse_power=arg(s['pp'], 100.0)))
        elif op == 'enable':
            rec.update(ms=s['ms'], pp=s['pp'], hp=s['hp'])
            refused = call(coil.enable, 'enable', dict(pulse_ms=arg(s['ms']), pulse_power=arg(s['pp'], 100.0), hold_power=arg(s['hp'], 100.0)))
        elif op == 'timed_enable':
            rec.update(te=s['te'], hp=s['hp'], ms=s['ms'], pp=s['pp'])
            refused = call(coil.timed_enable, 'timed_enable', dict(timed_enable_ms=arg(s['te']), hold_power=arg(s['hp'], 100.0),
                                                                  pulse_ms=arg(s['ms']), pulse_power=arg(s['pp'], 100.0)))
        elif op == 'disable':
            refused = call(coil.disable, 'disable', {})
        else:
            raise ValueError(op)
        if op != 'adv':
            h.advance_time_and_run(0)
        rec['cmds'] = [cmd for (n, cmd) in log if n == coil.name]
        rec['err'] = bool(refused)
        del log[:]
        ev.append(rec)
        if via_events and refused:
            # an exception in an event handler stops the test machine: start over with a fresh one
            _H.pop('h', None)
            break
    return {'cfg': cfg_rec(c), 'ev': ev, '_via_events': via_events}


# ------------------------------------------------------------------------------ device traces (envelope only)
REPO_MACHINES = [
    ('ball_device', 'test_ball_device.yaml'), ('ball_device', 'test_hold_coil.yaml'), ('ball_device', 'test_enable_coil.yaml'),
    ('flippers', 'config.yaml'), ('autofire', 'config.yaml'), ('coil_player', 'coil_player.yaml'), ('kickback', 'config.yaml'),
    ('diverter', 'test_diverter.yaml'), ('drop_targets', 'test_drop_targets.yaml'), ('score_reels', 'config.yaml'),
    ('device', 'coils.yaml'), ('shows', 'test_shows.yaml'), ('ball_search', 'config.yaml'), ('dual_wound_coil', 'config.yaml'),
]


def coil_env(coil):
    cf = coil.config
    return dict(id=0, defPulseMs=0, maxPulseMs=int(cf['max_pulse_ms'] or 0), defPP=pct(cf['default_pulse_power'] or 0),
                maxPP=pct(cf['max_pulse_power'] or 0), defHP=pct(cf['default_hold_power'] or 0), maxHP=pct(cf['max_hold_power'] or 0),
                allowEnable=bool(cf['allow_enable']), maxHoldDur=int((cf['max_hold_duration'] or 0) * 1000), defTE=0, pwte=False)


def exec_fuzz(job):
    """Stimulate a repository test machine (switch changes, configured coil/show events) and record every command
    reaching a platform driver.  A stimulus that makes the test machine raise ends that life; the machine is
    booted again (up to 5 lives) and the walk continues."""
    mdir, cfgfile, seed = job
    rnd = random.Random(seed)
    import time as _time
    t_end = _time.time() + (10 if seed % 100 < 1 else 25)     # wall-clock budget per machine
    per = {}
    envs = {}
    skips = []
    for life in range(5):
        if _time.time() > t_end:
            break
        try:
            h = harness.boot(None, machine_dir=mdir, config=cfgfile)
        except BaseException as ex:  # pylint: disable=broad-except
            skips.append('%s/%s: %s' % (mdir, cfgfile, repr(ex)[:200]))
            break
        try:
            m = h.machine
            log = []
            for coil in m.coils.values():
                if coil.hw_driver is not None:
                    coil.hw_driver = RecDriver(coil.hw_driver, log, coil.name)
                    envs[coil.name] = coil_env(coil)
            switches = list(m.switches.keys())
            events = set()
            for coil in m.coils.values():
                for k in ('pulse_events', 'enable_events', 'disable_events'):
                    events.update((coil.config.get(k) or {}).keys())
            for sec in ('coil_player', 'show_player'):
                events.update((m.config.get(sec) or {}).keys())
            events = [e for e in sorted(events) if isinstance(e, str) and '{' not in e and '|' not in e]
            for _ in range(40):
                if _time.time() > t_end:
                    break
                try:
                    r = rnd.random()
                    if r < 0.6 and switches:
                        m.switch_controller.process_switch(rnd.choice(switches), rnd.choice([0, 1]), logical=True)
                    elif r < 0.85 and events:
                        m.events.post(rnd.choice(events))
                    h.advance_time_and_run(rnd.choice([0.0, 0.01, 0.1, 0.5, 1.0]))
                except BaseException:  # this life is over  pylint: disable=broad-except
                    break
            for (n, cmd) in log:
                per.setdefault(n, []).append({'op': 'cmd', 'c': cmd})
        except BaseException as ex:  # pylint: disable=broad-except
            skips.append('%s/%s: %s' % (mdir, cfgfile, repr(ex)[:200]))
        finally:
            try:
                harness.shutdown(h)
            except BaseException:  # pylint: disable=broad-except
                pass
    traces = [{'cfg': envs[n], 'ev': ev[:400], '_coil': n, '_machine': '%s/%s' % (mdir, cfgfile)} for n, ev in per.items()]
    return traces + [{'_skip': x} for x in skips]


def handmade():
    E = lambda ms=NONE, pp=NONE, hp=NONE: {'op': 'enable', 'ms': ms, 'pp': pp, 'hp': hp}
    P = lambda ms=NONE, pp=NONE: {'op': 'pulse', 'ms': ms, 'pp': pp}
    A = lambda d: {'op': 'adv', 'd': d}
    D = {'op': 'disable'}
    return [
        # repeated enable of a held coil must not push the hold watchdog back
        [E(), A(300), A(300), E(), A(300), E(), A(300), A(1000), A(1000)],
        # software-timed pulse with other requests in between
        [P(300), A(100), E(), A(100), A(300), A(1000)],
        [P(300), A(100), D, A(100), P(300), A(100), A(300), A(300)],
        [E(), A(100), P(300), A(300), A(1000), A(1000)],
    ]


def run(ctx):
    mdir = write_machine(ctx.scratch)
    wd = tlc.prepare(ctx.scratch, 'Coil', 'coil')
    with open(wd + '/CoilMC.tla', 'w') as f:
        f.write(mc_module(full=False if ctx.quick else 'medium'))
    with open(wd + '/MC.cfg', 'w') as f:
        f.write(mc_cfg(2))
    r = tlc.expect_ok(tlc.check(wd, 'CoilMC', 'MC.cfg', timeout=3000), 'Coil design check')
    ctx.add_tlc('CoilMC', r, {'configs': len(TABLE), 'pulse_ms classes': len(MS), 'power classes': len(POW), 'MaxOps': 2, 'value sets': 'reduced' if ctx.quick else 'medium'})
    ctx.coverage['monitors'] += ['Envelope', 'RefuseNotCommand', 'SoftwarePulseEnds', 'HoldWatchdog']
    with open(wd + '/CoilMC.tla', 'w') as f:
        f.write(mc_module(full=True))
    with open(wd + '/Gen.cfg', 'w') as f:
        f.write(mc_cfg(10, props=False))
    behs, _ = tlc.simulate(wd, 'CoilMC', 'Gen.cfg', num=400 if ctx.quick else 6000, depth=16 if ctx.quick else 22, seed=ctx.seed)
    # a second stream over mostly-valid parameter values so that held / software-timed coils and their timers
    # interleave with further requests (random picks over all classes are refused most of the time)
    with open(wd + '/CoilMC.tla', 'w') as f:
        f.write(mc_module(full=True).replace('MCMs == {%s}' % ', '.join(map(str, MS)), 'MCMs == {%d, 10, 30, 300}' % NONE)
                .replace('MCPow == {%s}' % ', '.join(map(str, POW)), 'MCPow == {%d, 25, 50, 100}' % NONE)
                .replace('MCTe == {%s}' % ', '.join(map(str, TEV)), 'MCTe == {%d, 100}' % NONE))
    behs2, _ = tlc.simulate(wd, 'CoilMC', 'Gen.cfg', num=250 if ctx.quick else 4000, depth=18 if ctx.quick else 26, seed=ctx.seed + 11)
    rnd = random.Random(ctx.seed)
    jobs = [(mdir, b[0]['cfg']['id'], [s['act'] for s in b], rnd.random() < 0.3) for b in behs + behs2]
    jobs += [(mdir, cid, sch, False) for cid in (3, 4, 5, 6) for sch in handmade()]
    traces = harness.pmap(exec_schedule, jobs, chunk=8)
    ctx.log('api schedules executed: %d' % len(traces))
    repo = os.environ.get('VERIF_REPO', '/repo')
    fuzz_jobs = [(repo + '/mpf/tests/machine_files/' + d, f, ctx.seed * 100 + k)
                 for (d, f) in REPO_MACHINES for k in range(1 if ctx.quick else 6)
                 if os.path.exists(repo + '/mpf/tests/machine_files/%s/config/%s' % (d, f))]
    fres = harness.pmap(exec_fuzz, fuzz_jobs, chunk=1, item_timeout=45)
    ctx.log('device fuzz executed: %d machines' % len(fuzz_jobs))
    ftraces = [t for r_ in fres for t in r_ if '_skip' not in t]
    ctx.coverage['device_machines'] = sorted({t['_machine'] for t in ftraces})
    ctx.coverage['device_machines_skipped'] = [t['_skip'] for r_ in fres for t in r_ if '_skip' in t][:10]
    ctx.coverage['device_commands_judged'] = sum(len(t['ev']) for t in ftraces)
    alltr = traces + ftraces
    with open(wd + '/Trace.cfg', 'w') as f:
        f.write("""SPECIFICATION TSpec
CONSTANTS
  Configs <- TConfigs
  NONE <- TNONE
  PlatMaxPulse = 255
  MsVals = {}
  PowVals = {}
  TeVals = {}
  Steps = {}
  MaxTime = 100000000
  MaxOps = 1000000
INVARIANT Reporter
INVARIANT RefuseNotCommand
CHECK_DEADLOCK FALSE
""")
    v = tlc.validate_traces(wd, 'CoilTrace', 'Trace.cfg', alltr)
    ctx.add_trace_verdict('CoilTrace', v, len(alltr))
    ctx.sample({'kind': 'coil-api-trace', 'cfg': traces[0]['cfg'], 'trace': traces[0]['ev'][:8]})
    if ftraces:
        ctx.sample({'kind': 'device-command-trace', 'machine': ftraces[0]['_machine'], 'coil': ftraces[0]['_coil'], 'trace': ftraces[0]['ev'][:6]})
    for i, info in sorted(v.rejected.items()):
        if info.get('line') is None:
            continue
        fe = info.get('failing_event') or {}
        tr = alltr[i]
        if i >= len(traces):
            sig = 'C08:device-command:%s:%s' % (tr['_machine'].split('machine_files/')[-1], tr['_coil'])
            what = 'command %s of coil %s in %s outside its envelope %s' % (fe.get('c'), tr['_coil'], tr['_machine'], tr['cfg'])
            rp = {'kind': 'fuzz', 'job': list(fuzz_jobs[0]), 'trace': tr, 'info': info}
        else:
            sig = 'C08:api:%s:%s' % (fe.get('op', '?'), classify(fe, tr['cfg']))
            what = 'coil call not explained by Coil spec at line %s: %s (cfg %s)' % (info.get('line'), fe, tr['cfg'])
            rp = {'kind': 'api', 'job': [jobs[i][1], jobs[i][2], jobs[i][3]], 'trace': tr, 'info': info}
        ctx.violation(sig, what, rp)
    ctx.assumptions += ['commands are observed at the platform driver interface (hw_driver) of the virtual platform',
                        'PSU wait times (max_wait_ms) are not exercised', 'digital_outputs are not coils and are not judged']


def classify(fe, cfg):
    """Name the parameter class that made the call deviate (for stable finding signatures)."""
    neg = [k for k in ('ms', 'pp', 'hp', 'te') if isinstance(fe.get(k), int) and fe[k] != NONE and fe[k] < 0]
    if neg and not fe.get('err'):
        return 'negative-%s-not-refused' % '-'.join(neg)
    return 'other'


def replay(ctx, data):
    d = data['replay']
    if d['kind'] == 'api':
        mdir = write_machine(ctx.scratch)
        tr = exec_schedule((mdir, d['job'][0], d['job'][1], d['job'][2]))
        print('replay trace:', tr['ev'])
