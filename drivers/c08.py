"""C08 — coils are never driven beyond their configured safety limits (specs/Coil)."""
import os
import random

from lib import tlc, harness
from lib.tlaval import to_tla

LEVEL = 'model_checking'
NONE = -1000
KEYS = ('id', 'defPulseMs', 'maxPulseMs', 'defPP', 'maxPP', 'defHP', 'maxHP', 'allowEnable', 'maxHoldDur', 'defTE', 'pwte',
        'dynP', 'dynT')
EPS = 1e-6
REL = 10        # release_wait_ms of the power supply shared by all coils of the generated machine


def C(i, defPulseMs=10, maxPulseMs=0, defPP=0, maxPP=100, defHP=0, maxHP=0, allowEnable=False, maxHoldDur=0, defTE=0, pwte=False,
      dynP=False, dynT=False, src='var'):
    # dynP / dynT: default_pulse_ms / default_timed_enable_ms are placeholders (src: a machine variable or an operator
    # setting) whose value changes while the machine runs; defPulseMs / defTE are the values at boot
    return dict(id=i, defPulseMs=defPulseMs, maxPulseMs=maxPulseMs, defPP=defPP, maxPP=maxPP, defHP=defHP, maxHP=maxHP,
                allowEnable=allowEnable, maxHoldDur=maxHoldDur, defTE=defTE, pwte=pwte, dynP=dynP, dynT=dynT, src=src)


TABLE = [
    C(1),
    C(2, maxPulseMs=30, defPP=50, maxPP=50),
    C(3, allowEnable=True),
    C(4, maxHP=50, defHP=25, maxHoldDur=1000),
    C(5, allowEnable=True, maxHP=50),
    C(6, defPulseMs=20, maxPulseMs=400, maxPP=100, allowEnable=True, maxHoldDur=2000, defTE=100),
    C(7, pwte=True, maxHP=50, defTE=100, maxHoldDur=1000),
    C(8, defHP=50),
    C(9, maxPulseMs=30, allowEnable=True, maxHoldDur=1000, defTE=100, dynP=True, dynT=True),
    C(10, maxPulseMs=400, defPP=50, maxPP=50, dynP=True, src='setting'),
]
MS = [NONE, -5, 0, 10, 30, 300]
POW = [NONE, -50, 0, 25, 50, 100, 150]
TEV = [NONE, -100, 100, 1500, 2000, 2500]      # 1500 / 2500: less than one second above a max_hold_duration of 1 s / 2 s
STEPS = [100, 300, 1000]
DEFV = [-5, 0, 10, 20, 45, 300, 2000]      # values of the placeholders behind the defaults
MW = [NONE, 45, 495]                       # max_wait_ms (never a multiple of 10: no float ties with the busy time)
OTHER = [30, 100]                          # pulses of the other coil on the power supply


def cfg_rec(c):
    return {k: c[k] for k in KEYS}


def write_machine(scratch):
    d = os.path.join(scratch, 'machines', 'coils')
    os.makedirs(d + '/config', exist_ok=True)
    with open(d + '/config/config.yaml', 'w') as f:
        f.write('#config_version=6\npsus:\n  default:\n    release_wait_ms: %d\n' % REL)
        f.write('switches:\n  s_rule:\n    number: 1\n')
        f.write('machine_vars:\n')
        for c in TABLE:
            if c['src'] == 'var':
                for k, dyn, key in (('ms', 'dynP', 'defPulseMs'), ('te', 'dynT', 'defTE')):
                    if c[dyn]:
                        f.write('  c%d_%s:\n    initial_value: %d\n    value_type: int\n    persist: false\n' % (c['id'], k, c[key]))
        f.write('settings:\n')
        for c in TABLE:
            if c['src'] == 'setting' and c['dynP']:
                f.write('  c%d_ms:\n    label: strength of c%d\n    key_type: int\n    sort: %d\n    default: %d\n    values:\n'
                        % (c['id'], c['id'], c['id'], c['defPulseMs']))
                for v in sorted(set(DEFV + [c['defPulseMs']])):
                    f.write('      %d: "v%d"\n' % (v, v))
        # the other coil on the same power supply
        f.write('coils:\n  other:\n    number: 0\n    default_pulse_ms: 10\n')
        for c in TABLE:
            n = 'c%d' % c['id']
            dp = str(c['defPulseMs']) if not c['dynP'] else ('machine.%s_ms' % n if c['src'] == 'var' else 'settings.%s_ms' % n)
            f.write('  %s:\n    number: %d\n    default_pulse_ms: %s\n' % (n, c['id'], dp))
            if c['maxPulseMs']:
                f.write('    max_pulse_ms: %dms\n' % c['maxPulseMs'])
            if c['defPP']:
                f.write('    default_pulse_power: %s\n' % (c['defPP'] / 100.0))
            f.write('    max_pulse_power: %s\n' % (c['maxPP'] / 100.0))
            if c['defHP']:
                f.write('    default_hold_power: %s\n' % (c['defHP'] / 100.0))
            if c['maxHP']:
                f.write('    max_hold_power: %s\n' % (c['maxHP'] / 100.0))
            if c['allowEnable']:
                f.write('    allow_enable: true\n')
            if c['maxHoldDur']:
                f.write('    max_hold_duration: %sms\n' % c['maxHoldDur'])
            if c['dynT']:
                f.write('    default_timed_enable_ms: machine.%s_te\n' % n)
            elif c['defTE']:
                f.write('    default_timed_enable_ms: %d\n' % c['defTE'])
            if c['pwte']:
                f.write('    pulse_with_timed_enable: true\n')
            f.write('    pulse_events: %s_pulse\n    enable_events: %s_enable\n    disable_events: %s_disable\n'
                    '    timed_enable_events: %s_timed_enable\n' % (n, n, n, n))
    return d


VALUES = {
    # every value class (schedule generation)
    'full': dict(ms=MS, pw=POW, te=TEV),
    # the exhaustive check of the thorough tier (the full sets do not finish within 40 minutes at MaxOps 2)
    'medium': dict(ms=[NONE, -5, 0, 10, 300], pw=[NONE, -50, 0, 50, 100, 150], te=TEV),
    # quick tier
    'reduced': dict(ms=[NONE, -5, 10, 300], pw=[NONE, -50, 50, 150], te=[NONE, -100, 100]),
    # mostly valid values: held / software-timed coils and their timers interleave with further requests
    'valid': dict(ms=[NONE, 10, 30, 300], pw=[NONE, 25, 50, 100], te=[NONE, 100]),
    # interleavings with the power supply and with changing defaults
    'tiny': dict(ms=[NONE, 300], pw=[NONE], te=[]),
    'small': dict(ms=[NONE, 300], pw=[NONE], te=[NONE, 100]),
}


def write_mc(wd, values, maxops, props=True, configs=None, mw=(NONE,), other=(), defv=(), steps=STEPS, maxtime=6000, name='MC.cfg',
             maxpend=2):
    """Write CoilMC.tla (the constants that cannot be written in a .cfg) and the TLC config `name`."""
    v = VALUES[values]
    cs = [c for c in TABLE if configs is None or c['id'] in configs]
    st = lambda xs: ', '.join(map(str, xs))
    with open(wd + '/CoilMC.tla', 'w') as f:
        f.write("""------------------------------ MODULE CoilMC ------------------------------
EXTENDS Coil
MCNONE == %d
MCConfigs == {%s}
MCMs == {%s}
MCPow == {%s}
MCTe == {%s}
MCMw == {%s}
MCOther == {%s}
MCDef == {%s}
MCSteps == {%s}
=============================================================================
""" % (NONE, ',\n  '.join(to_tla(cfg_rec(c)) for c in cs), st(v['ms']), st(v['pw']), st(v['te']), st(mw), st(other), st(defv),
       st(steps)))
    with open(wd + '/' + name, 'w') as f:
        f.write("""SPECIFICATION Spec
CONSTANTS
  Configs <- MCConfigs
  NONE <- MCNONE
  PlatMaxPulse = 255
  MsVals <- MCMs
  PowVals <- MCPow
  TeVals <- MCTe
  MwVals <- MCMw
  OtherMs <- MCOther
  DefVals <- MCDef
  Steps <- MCSteps
  Rel = %d
  MaxPend = %d
  MaxTime = %d
  MaxOps = %d
%sCHECK_DEADLOCK FALSE
""" % (REL, maxpend, maxtime, maxops, ('PROPERTY Envelope\n' + ''.join('INVARIANT %s\n' % i for i in MONITORS[1:])) if props else ''))


MONITORS = ['Envelope', 'RefuseNotCommand', 'SoftwarePulseEnds', 'HoldWatchdog', 'PendSane', 'NothingOverdue']


_H = {}


class RecDriver:
    """Wraps a platform driver object and records every command that reaches it."""

    def __init__(self, inner, log, name):
        self._inner = inner
        self._log = log
        self._name = name

    def pulse(self, pulse_settings):
        self._log.append((self._name, ['pulse', int(pulse_settings.duration), pct(pulse_settings.power), 0, 0]))
        return self._inner.pulse(pulse_settings)

    def enable(self, pulse_settings, hold_settings):
        self._log.append((self._name, ['enable', int(pulse_settings.duration), pct(pulse_settings.power), pct(hold_settings.power), 0]))
        return self._inner.enable(pulse_settings, hold_settings)

    def timed_enable(self, pulse_settings, hold_settings):
        self._log.append((self._name, ['timed_enable', int(pulse_settings.duration), pct(pulse_settings.power),
                                       pct(hold_settings.power), int(hold_settings.duration)]))
        return self._inner.timed_enable(pulse_settings, hold_settings)

    def disable(self):
        self._log.append((self._name, ['disable', 0, 0, 0, 0]))
        return self._inner.disable()

    def __getattr__(self, item):
        return getattr(self._inner, item)


def pct(x):
    return int(round(x * 100))


def record_rules(platform, log):
    """Record every hardware rule installed on a platform: the settings the rule carries for its coil."""
    from mpf.core.platform import DriverSettings
    for attr in dir(platform):
        if not (attr.startswith('set_') and attr.endswith('_rule')):
            continue
        inner = getattr(platform, attr)
        if getattr(inner, '_c08_rec', False):
            continue

        def rec(*args, _inner=inner, **kwargs):
            for a in list(args) + list(kwargs.values()):
                if isinstance(a, DriverSettings):
                    name = getattr(a.hw_driver, '_name', None)
                    if name is not None:
                        log.append((name, ['rule', int(a.pulse_settings.duration), pct(a.pulse_settings.power),
                                           pct(a.hold_settings.power) if a.hold_settings else 0, 0]))
            return _inner(*args, **kwargs)
        rec._c08_rec = True
        setattr(platform, attr, rec)


def _machine(mdir):
    if 'h' not in _H:
        h = harness.boot(None, machine_dir=mdir)
        _H['h'] = h
        _H['log'] = []
        for c in TABLE:
            coil = h.machine.coils['c%d' % c['id']]
            coil.hw_driver = RecDriver(coil.hw_driver, _H['log'], coil.name)
            record_rules(coil.platform, _H['log'])
    return _H['h']


def arg(x, scale=1.0):
    return None if x == NONE else (x / scale if scale != 1.0 else x)


def exec_schedule(job):
    mdir, cid, sched, via_events = job
    try:
        return _exec(mdir, cid, sched, via_events)
    except Exception as ex:  # pylint: disable=broad-except
        import traceback
        _H.pop('h', None)
        return {'cfg': cfg_rec([c for c in TABLE if c['id'] == cid][0]), 'ev': [{'op': 'crash', 'what': repr(ex)[:300]}],
                '_tb': traceback.format_exc()[-1500:]}


def set_default(h, c, which, v):
    """Change the value behind a placeholder default (machine variable / operator setting) and let the subscription fire."""
    m = h.machine
    name = 'c%d_%s' % (c['id'], 'ms' if which == 'pulse_ms' else 'te')
    if c['src'] == 'setting':
        m.settings.set_setting_value(name, v)
    else:
        m.variables.set_machine_var(name, v)
    for _ in range(4):
        h.advance_time_and_run(0)


def _exec(mdir, cid, sched, via_events):
    from mpf.core.platform_controller import SwitchRuleSettings, DriverRuleSettings, PulseRuleSettings, HoldRuleSettings
    h = _machine(mdir)
    m = h.machine
    c = [x for x in TABLE if x['id'] == cid][0]
    coil = m.coils['c%d' % cid]
    other = m.coils['other']
    log = _H['log']
    coil.disable()
    if c['dynP']:
        set_default(h, c, 'pulse_ms', c['defPulseMs'])
    if c['dynT']:
        set_default(h, c, 'timed_enable_ms', c['defTE'])
    h.advance_time_and_run(10)
    del log[:]
    ev = []

    def call(fn, evname, kw):
        """Run one request either as a direct method call or through the coil's control event."""
        kw = {k: v for k, v in kw.items() if v is not None}
        if not via_events or evname is None:
            try:
                fn(**kw)
                return False
            except Exception:  # refused  pylint: disable=broad-except
                return True
        before = h._exception
        m.events.post('%s_%s' % (coil.name, evname), **kw)
        try:
            h.advance_time_and_run(0)
            h.advance_time_and_run(0)
        except Exception:  # the handler raised: the request was refused  pylint: disable=broad-except
            return True
        return h._exception is not None and h._exception is not before

    def rule(ms, pp, hp, hold):
        """Install a hardware rule for the coil the way autofires / flippers do, and remove it again."""
        pc = m.platform_controller
        sw = SwitchRuleSettings(switch=m.switches['s_rule'], debounce=False, invert=False)
        dr = DriverRuleSettings(driver=coil, recycle=True)
        ps = PulseRuleSettings(duration=ms, power=pp)
        if hold:
            r = pc.set_pulse_on_hit_and_enable_and_release_rule(sw, dr, ps, HoldRuleSettings(power=hp))
        else:
            r = pc.set_pulse_on_hit_rule(sw, dr, ps)
        pc.clear_hw_rule(r)

    for s in list(sched) + [{'op': 'adv', 'd': 1000}] * 3:
        op = s['op']
        if op == 'init':
            continue
        rec = {'op': op}
        mw = s.get('mw', NONE)
        refused = False
        if op == 'adv':
            rec['d'] = s['d']
            h.advance_time_and_run(s['d'] * (1 + EPS) / 1000.0)
        elif op == 'pulse':
            rec.update(ms=s['ms'], pp=s['pp'], mw=mw)
            refused = call(coil.pulse, 'pulse', dict(pulse_ms=arg(s['ms']), pulse_power=arg(s['pp'], 100.0), max_wait_ms=arg(mw)))
        elif op == 'enable':
            if via_events:
                mw = NONE       # the enable control event carries no max_wait_ms
            rec.update(ms=s['ms'], pp=s['pp'], hp=s['hp'], mw=mw)
            refused = call(coil.enable, 'enable', dict(pulse_ms=arg(s['ms']), pulse_power=arg(s['pp'], 100.0),
                                                       hold_power=arg(s['hp'], 100.0), max_wait_ms=arg(mw)))
        elif op == 'timed_enable':
            rec.update(te=s['te'], hp=s['hp'], ms=s['ms'], pp=s['pp'], mw=mw)
            refused = call(coil.timed_enable, 'timed_enable', dict(timed_enable_ms=arg(s['te']), hold_power=arg(s['hp'], 100.0),
                                                                  pulse_ms=arg(s['ms']), pulse_power=arg(s['pp'], 100.0),
                                                                  max_wait_ms=arg(mw)))
        elif op == 'disable':
            refused = call(coil.disable, 'disable', {})
        elif op == 'rule':
            rec.update(ms=s['ms'], pp=s['pp'], hp=s['hp'], hold=bool(s['hold']))
            try:
                rule(arg(s['ms']), arg(s['pp'], 100.0), arg(s['hp'], 100.0), bool(s['hold']))
            except Exception:  # refused  pylint: disable=broad-except
                refused = True
        elif op == 'other':
            rec['ms'] = s['ms']
            other.pulse(s['ms'])
        elif op == 'setdef':
            rec.update(w=s['w'], v=s['v'])
            set_default(h, c, s['w'], s['v'])
        else:
            raise ValueError(op)
        if op != 'adv':
            h.advance_time_and_run(0)
        rec['cmds'] = [cmd for (n, cmd) in log if n == coil.name]
        rec['err'] = bool(refused)
        del log[:]
        ev.append(rec)
        if via_events and refused and op != 'rule':
            # an exception in an event handler stops the test machine: start over with a fresh one
            _H.pop('h', None)
            break
    return {'cfg': cfg_rec(c), 'ev': ev, '_via_events': via_events}


# ------------------------------------------------------------------------------ device traces (envelope only)
REPO_MACHINES = [
    ('ball_device', 'test_ball_device.yaml'), ('ball_device', 'test_hold_coil.yaml'), ('ball_device', 'test_enable_coil.yaml'),
    ('flippers', 'config.yaml'), ('autofire', 'config.yaml'), ('coil_player', 'coil_player.yaml'), ('kickback', 'config.yaml'),
    ('diverter', 'test_diverter.yaml'), ('drop_targets', 'test_drop_targets.yaml'), ('score_reels', 'config.yaml'),
    ('device', 'coils.yaml'), ('shows', 'test_shows.yaml'), ('ball_search', 'config.yaml'), ('dual_wound_coil', 'config.yaml'),
]


def coil_env(coil):
    cf = coil.config
    return dict(id=0, defPulseMs=0, maxPulseMs=int(cf['max_pulse_ms'] or 0), defPP=pct(cf['default_pulse_power'] or 0),
                maxPP=pct(cf['max_pulse_power'] or 0), defHP=pct(cf['default_hold_power'] or 0), maxHP=pct(cf['max_hold_power'] or 0),
                allowEnable=bool(cf['allow_enable']), maxHoldDur=int((cf['max_hold_duration'] or 0) * 1000), defTE=0, pwte=False,
                dynP=False, dynT=False)


def exec_fuzz(job):
    """Stimulate a repository test machine (switch changes, configured coil/show events) and record every command
    reaching a platform driver.  A stimulus that makes the test machine raise ends that life; the machine is
    booted again (up to 5 lives) and the walk continues."""
    mdir, cfgfile, seed = job
    rnd = random.Random(seed)
    import time as _time
    t_end = _time.time() + (10 if seed % 100 < 1 else 25)     # wall-clock budget per machine
    per = {}
    envs = {}
    skips = []
    for life in range(5):
        if _time.time() > t_end:
            break
        try:
            h = harness.boot(None, machine_dir=mdir, config=cfgfile)
        except BaseException as ex:  # pylint: disable=broad-except
            skips.append('%s/%s: %s' % (mdir, cfgfile, repr(ex)[:200]))
            break
        try:
            m = h.machine
            log = []
            for coil in m.coils.values():
                if coil.hw_driver is not None:
                    coil.hw_driver = RecDriver(coil.hw_driver, log, coil.name)
                    envs[coil.name] = coil_env(coil)
                    if coil.platform is not None:
                        record_rules(coil.platform, log)
            switches = list(m.switches.keys())
            events = set()
            for coil in m.coils.values():
                for k in ('pulse_events', 'enable_events', 'disable_events'):
                    events.update((coil.config.get(k) or {}).keys())
            for sec in ('coil_player', 'show_player'):
                events.update((m.config.get(sec) or {}).keys())
            events = [e for e in sorted(events) if isinstance(e, str) and '{' not in e and '|' not in e]
            for _ in range(40):
                if _time.time() > t_end:
                    break
                try:
                    r = rnd.random()
                    if r < 0.6 and switches:
                        m.switch_controller.process_switch(rnd.choice(switches), rnd.choice([0, 1]), logical=True)
                    elif r < 0.85 and events:
                        m.events.post(rnd.choice(events))
                    h.advance_time_and_run(rnd.choice([0.0, 0.01, 0.1, 0.5, 1.0]))
                except BaseException:  # this life is over  pylint: disable=broad-except
                    break
            for (n, cmd) in log:
                per.setdefault(n, []).append({'op': 'cmd', 'c': cmd})
        except BaseException as ex:  # pylint: disable=broad-except
            skips.append('%s/%s: %s' % (mdir, cfgfile, repr(ex)[:200]))
        finally:
            try:
                harness.shutdown(h)
            except BaseException:  # pylint: disable=broad-except
                pass
    traces = [{'cfg': envs[n], 'ev': ev[:400], '_coil': n, '_machine': '%s/%s' % (mdir, cfgfile)} for n, ev in per.items()]
    return traces + [{'_skip': x} for x in skips]


def handmade():
    """(configurations, schedule) pairs written by hand."""
    E = lambda ms=NONE, pp=NONE, hp=NONE, mw=NONE: {'op': 'enable', 'ms': ms, 'pp': pp, 'hp': hp, 'mw': mw}
    P = lambda ms=NONE, pp=NONE, mw=NONE: {'op': 'pulse', 'ms': ms, 'pp': pp, 'mw': mw}
    T = lambda te=NONE, mw=NONE: {'op': 'timed_enable', 'te': te, 'hp': NONE, 'ms': NONE, 'pp': NONE, 'mw': mw}
    R = lambda hold=False, ms=NONE, pp=NONE, hp=NONE: {'op': 'rule', 'ms': ms, 'pp': pp, 'hp': hp, 'hold': hold}
    A = lambda d: {'op': 'adv', 'd': d}
    O = lambda ms: {'op': 'other', 'ms': ms}
    S = lambda w, v: {'op': 'setdef', 'w': w, 'v': v}
    D = {'op': 'disable'}
    hold = (3, 4, 5, 6, 9)
    res = []
    for sch in [
            # repeated enable of a held coil must not push the hold watchdog back
            [E(), A(300), A(300), E(), A(300), E(), A(300), A(1000), A(1000)],
            # software-timed pulse with other requests in between
            [P(300), A(100), E(), A(100), A(300), A(1000)],
            [P(300), A(100), D, A(100), P(300), A(100), A(300), A(300)],
            [E(), A(100), P(300), A(300), A(1000), A(1000)],
            # the software pulse timer and the hold watchdog due at the same instant
            [E(), A(1000), A(300), A(300), A(100), P(300), A(300)],
            [E(), A(300), A(300), A(100), P(300), A(300)],
            # requests postponed by the busy power supply, with a disable / further requests during the wait
            [O(100), E(mw=495), A(100), A(100), A(1000), A(1000)],
            [O(100), E(mw=495), D, A(100), A(100), A(1000), A(1000), A(1000)],
            [O(100), A(30), E(mw=495), A(30), D, A(100), E(), A(1000), A(1000)],
            [O(100), E(mw=495), E(mw=495), D, A(300), D, E(mw=495), A(1000), A(1000)],
            [O(100), P(300, mw=495), D, A(100), A(100), A(300), A(1000)],
            [O(100), P(300, mw=495), A(30), P(300, mw=495), E(mw=495), A(300), A(300), D, A(300), A(1000)],
            [O(100), E(mw=45), A(100), D, O(30), E(mw=45), D, A(100), A(1000)],
            [O(100), T(mw=495), P(mw=495), A(30), D, A(100), A(1000)],
    ]:
        res.append((hold, sch))
    for sch in [
            # the placeholder behind the default changes at runtime: every entry point follows the default of the moment
            [P(), S('pulse_ms', 45), P(), E(), T(), R(), R(True), S('pulse_ms', 20), P(), R(), S('pulse_ms', 300), P(), A(300)],
            [S('pulse_ms', 2000), P(), E(), R(), S('pulse_ms', -5), P(), R(), S('pulse_ms', 0), P(), S('pulse_ms', 10), P()],
            [O(100), S('pulse_ms', 20), P(mw=495), S('pulse_ms', 45), A(100), A(100), P(mw=495), A(1000)],
    ]:
        res.append(((9, 10), sch))
    res.append(((9,), [T(), S('timed_enable_ms', 2000), T(), S('timed_enable_ms', 300), T(), S('timed_enable_ms', -5), T()]))
    return res


def run(ctx):
    mdir = write_machine(ctx.scratch)
    wd = tlc.prepare(ctx.scratch, 'Coil', 'coil')
    # (1) every value class on every configuration, two requests, coarse time
    write_mc(wd, 'reduced' if ctx.quick else 'medium', 2, steps=[1000] if ctx.quick else [300, 1000], maxtime=3001)
    r = tlc.expect_ok(tlc.check(wd, 'CoilMC', 'MC.cfg', timeout=3000), 'Coil design check (values)')
    ctx.add_tlc('CoilMC values', r, {'configs': len(TABLE), 'pulse_ms classes': len(MS), 'power classes': len(POW), 'MaxOps': 2,
                                     'value sets': 'reduced' if ctx.quick else 'medium'})
    # (2) interleavings of requests, timers, the shared power supply (postponed requests) and changing defaults
    inter = dict(configs=(4, 6, 7, 9, 10), mw=(NONE, 495), other=(100,), defv=(10, 45), steps=[100, 1000], maxtime=3000)
    write_mc(wd, 'tiny', 3 if ctx.quick else 4, **inter)
    r = tlc.expect_ok(tlc.check(wd, 'CoilMC', 'MC.cfg', timeout=3000), 'Coil design check (interleavings)')
    ctx.add_tlc('CoilMC interleavings', r, {'configs': len(inter['configs']), 'MaxOps': 3 if ctx.quick else 4, 'MaxPend': 2,
                                            'steps': inter['steps']})
    ctx.coverage['monitors'] += MONITORS
    q = ctx.quick
    # schedules: (a) all value classes, (b) mostly valid values with the power supply in play, (c) few values, busy
    # power supply and changing defaults on the configurations that hold / time in software / have placeholder defaults
    write_mc(wd, 'full', 10, props=False, name='Gen.cfg')
    behs, _ = tlc.simulate(wd, 'CoilMC', 'Gen.cfg', num=300 if q else 6000, depth=16 if q else 22, seed=ctx.seed)
    write_mc(wd, 'valid', 10, props=False, name='Gen.cfg', mw=(NONE, 495), other=(100,), defv=(20, 45), maxpend=3)
    behs2, _ = tlc.simulate(wd, 'CoilMC', 'Gen.cfg', num=200 if q else 4000, depth=18 if q else 26, seed=ctx.seed + 11)
    write_mc(wd, 'small', 12, props=False, name='Gen.cfg', configs=(4, 6, 7, 9, 10), mw=MW, other=OTHER, defv=DEFV,
             steps=[30, 100, 300, 1000], maxpend=3)
    behs3, _ = tlc.simulate(wd, 'CoilMC', 'Gen.cfg', num=250 if q else 4000, depth=20 if q else 28, seed=ctx.seed + 23)
    rnd = random.Random(ctx.seed)
    jobs = [(mdir, b[0]['cfg']['id'], [s['act'] for s in b], rnd.random() < 0.3) for b in behs + behs2 + behs3]
    jobs += [(mdir, cid, sch, False) for cids, sch in handmade() for cid in cids]
    traces = harness.pmap(exec_schedule, jobs, chunk=8, item_timeout=90)
    ctx.log('api schedules executed: %d' % len(traces))
    repo = os.environ.get('VERIF_REPO', '/repo')
    fuzz_jobs = [(repo + '/mpf/tests/machine_files/' + d, f, ctx.seed * 100 + k)
                 for (d, f) in REPO_MACHINES for k in range(1 if ctx.quick else 6)
                 if os.path.exists(repo + '/mpf/tests/machine_files/%s/config/%s' % (d, f))]
    fres = harness.pmap(exec_fuzz, fuzz_jobs, chunk=1, item_timeout=45)
    ctx.log('device fuzz executed: %d machines' % len(fuzz_jobs))
    ftraces = [t for r_ in fres for t in r_ if '_skip' not in t]
    ctx.coverage['device_machines'] = sorted({t['_machine'] for t in ftraces})
    ctx.coverage['device_machines_skipped'] = [t['_skip'] for r_ in fres for t in r_ if '_skip' in t][:10]
    ctx.coverage['device_commands_judged'] = sum(len(t['ev']) for t in ftraces)
    ctx.coverage['device_rules_judged'] = sum(1 for t in ftraces for e in t['ev'] if e['c'][0] == 'rule')
    ctx.coverage['api_postponed_requests'] = sum(1 for t in traces for e in t['ev']
                                                 if e.get('mw', NONE) != NONE and not e.get('err') and not e.get('cmds')
                                                 and e['op'] in ('pulse', 'enable'))
    ctx.coverage['api_default_changes'] = sum(1 for t in traces for e in t['ev'] if e['op'] == 'setdef')
    alltr = traces + ftraces
    with open(wd + '/Trace.cfg', 'w') as f:
        f.write("""SPECIFICATION TSpec
CONSTANTS
  Configs <- TConfigs
  NONE <- TNONE
  PlatMaxPulse = 255
  MsVals = {}
  PowVals = {}
  TeVals = {}
  MwVals = {}
  OtherMs = {}
  DefVals = {}
  Steps = {}
  Rel = %d
  MaxPend = 1000000
  MaxTime = 100000000
  MaxOps = 1000000
INVARIANT Reporter
INVARIANT RefuseNotCommand
CHECK_DEADLOCK FALSE
""" % REL)
    v = tlc.validate_traces(wd, 'CoilTrace', 'Trace.cfg', alltr)
    tlc.finish_diagnosis(wd, 'CoilTrace', 'Trace.cfg', alltr, v)
    ctx.add_trace_verdict('CoilTrace', v, len(alltr))
    ctx.sample({'kind': 'coil-api-trace', 'cfg': traces[0]['cfg'], 'trace': traces[0]['ev'][:8]})
    if ftraces:
        ctx.sample({'kind': 'device-command-trace', 'machine': ftraces[0]['_machine'], 'coil': ftraces[0]['_coil'], 'trace': ftraces[0]['ev'][:6]})
    for i, info in sorted(v.rejected.items()):
        if info.get('line') is None:
            continue
        fe = info.get('failing_event') or {}
        tr = alltr[i]
        if i >= len(traces):
            sig = 'C08:device-command:%s:%s' % (tr['_machine'].split('machine_files/')[-1], tr['_coil'])
            what = 'command %s of coil %s in %s outside its envelope %s' % (fe.get('c'), tr['_coil'], tr['_machine'], tr['cfg'])
            rp = {'kind': 'fuzz', 'job': list(fuzz_jobs[0]), 'trace': tr, 'info': info}
        else:
            sig = 'C08:api:%s:%s' % (fe.get('op', '?'), classify(fe, tr['cfg']))
            what = 'coil call not explained by Coil spec at line %s: %s (cfg %s)' % (info.get('line'), fe, tr['cfg'])
            rp = {'kind': 'api', 'job': [jobs[i][1], jobs[i][2], jobs[i][3]], 'trace': tr, 'info': info}
        ctx.violation(sig, what, rp)
    ctx.assumptions += ['commands are observed at the platform driver interface (hw_driver) and the rule interface of the virtual platform',
                        'the power supply is modelled as mpf/devices/power_supply_unit.py computes its busy time; max_wait_ms values '
                        'are chosen so that no wait ends exactly at a limit', 'digital_outputs are not coils and are not judged']


def classify(fe, cfg):
    """Name the parameter class that made the call deviate (for stable finding signatures)."""
    neg = [k for k in ('ms', 'pp', 'hp', 'te') if isinstance(fe.get(k), int) and fe[k] != NONE and fe[k] < 0]
    if neg and not fe.get('err'):
        return 'negative-%s-not-refused' % '-'.join(neg)
    return 'other'


def replay(ctx, data):
    d = data['replay']
    if d['kind'] == 'api':
        mdir = write_machine(ctx.scratch)
        tr = exec_schedule((mdir, d['job'][0], d['job'][1], d['job'][2]))
        print('replay trace:', tr['ev'])
