"""C08 — coils are never driven beyond their configured safety limits (specs/Coil)."""
import os
import random

from lib import tlc, harness
from lib.tlaval import to_tla
from mpf.platforms.virtual import VirtualHardwarePlatform

LEVEL = 'model_checking'
NONE = -1000
KEYS = ('id', 'defPulseMs', 'maxPulseMs', 'defPP', 'maxPP', 'defHP', 'maxHP', 'allowEnable', 'maxHoldDur', 'defTE', 'pwte',
        'dynP', 'dynT', 'light')
EPS = 1e-6
REL = 10        # release_wait_ms of the power supply shared by all coils of the generated machine


def C(i, defPulseMs=10, maxPulseMs=0, defPP=0, maxPP=100, defHP=0, maxHP=0, allowEnable=False, maxHoldDur=0, defTE=0, pwte=False,
      dynP=False, dynT=False, src='var', light=False):
    # light: the coil is also the channel of a light (lights: l<id> with platform: drivers, number: c<id>)
    # dynP / dynT: default_pulse_ms / default_timed_enable_ms are placeholders (src: a machine variable or an operator
    # setting) whose value changes while the machine runs; defPulseMs / defTE are the values at boot
    return dict(id=i, defPulseMs=defPulseMs, maxPulseMs=maxPulseMs, defPP=defPP, maxPP=maxPP, defHP=defHP, maxHP=maxHP,
                allowEnable=allowEnable, maxHoldDur=maxHoldDur, defTE=defTE, pwte=pwte, dynP=dynP, dynT=dynT, src=src,
                light=light)


TABLE = [
    C(1, light=True),
    C(2, maxPulseMs=30, defPP=50, maxPP=50),
    C(3, allowEnable=True),
    C(4, maxHP=50, defHP=25, maxHoldDur=1000, light=True),
    C(5, allowEnable=True, maxHP=50, light=True),
    C(6, defPulseMs=20, maxPulseMs=400, maxPP=100, allowEnable=True, maxHoldDur=2000, defTE=100, light=True),
    C(7, pwte=True, maxHP=50, defTE=100, maxHoldDur=1000),
    C(8, defHP=50),
    C(9, maxPulseMs=30, allowEnable=True, maxHoldDur=1000, defTE=100, dynP=True, dynT=True, light=True),
    C(10, maxPulseMs=400, defPP=50, maxPP=50, dynP=True, src='setting'),
]
MS = [NONE, -5, 0, 10, 30, 300]
POW = [NONE, -50, 0, 25, 50, 100, 150]
TEV = [NONE, -100, 100, 1500, 2000, 2500]      # 1500 / 2500: less than one second above a max_hold_duration of 1 s / 2 s
STEPS = [100, 300, 1000]
DEFV = [-5, 0, 10, 20, 45, 300, 2000]      # values of the placeholders behind the defaults
MW = [NONE, 45, 495]                       # max_wait_ms (never a multiple of 10: no float ties with the busy time)
OTHER = [30, 100]                          # pulses of the other coil on the power supply
LIGHTS = tuple(c['id'] for c in TABLE if c['light'])
TICK = 20                                  # ms between the steps of a software fade (mpf: default_light_hw_update_hz 50)
# brightness of the light on a coil: whole channel values (k * 51 / 255).  Fade times: an ODD number of fade steps, so
# that no step of a fade between any two channel values ever lands on a hold power limit of 50 % itself (where float
# noise would decide whether the coil refuses)
LV = [0, 20, 40, 60, 100]
FADES = [0, 60, 100]


def cfg_rec(c):
    return {k: c[k] for k in KEYS}


def write_machine(scratch):
    d = os.path.join(scratch, 'machines', 'coils')
    os.makedirs(d + '/config', exist_ok=True)
    with open(d + '/config/config.yaml', 'w') as f:
        f.write('#config_version=6\npsus:\n  default:\n    release_wait_ms: %d\n' % REL)
        f.write('switches:\n  s_rule:\n    number: 1\n')
        f.write('machine_vars:\n')
        for c in TABLE:
            if c['src'] == 'var':
                for k, dyn, key in (('ms', 'dynP', 'defPulseMs'), ('te', 'dynT', 'defTE')):
                    if c[dyn]:
                        f.write('  c%d_%s:\n    initial_value: %d\n    value_type: int\n    persist: false\n' % (c['id'], k, c[key]))
        f.write('settings:\n')
        for c in TABLE:
            if c['src'] == 'setting' and c['dynP']:
                f.write('  c%d_ms:\n    label: strength of c%d\n    key_type: int\n    sort: %d\n    default: %d\n    values:\n'
                        % (c['id'], c['id'], c['id'], c['defPulseMs']))
                for v in sorted(set(DEFV + [c['defPulseMs']])):
                    f.write('      %d: "v%d"\n' % (v, v))
        # the other coil on the same power supply
        f.write('coils:\n  other:\n    number: 0\n    default_pulse_ms: 10\n')
        for c in TABLE:
            n = 'c%d' % c['id']
            dp = str(c['defPulseMs']) if not c['dynP'] else ('machine.%s_ms' % n if c['src'] == 'var' else 'settings.%s_ms' % n)
            f.write('  %s:\n    number: %d\n    default_pulse_ms: %s\n' % (n, c['id'], dp))
            if c['maxPulseMs']:
                f.write('    max_pulse_ms: %dms\n' % c['maxPulseMs'])
            if c['defPP']:
                f.write('    default_pulse_power: %s\n' % (c['defPP'] / 100.0))
            f.write('    max_pulse_power: %s\n' % (c['maxPP'] / 100.0))
            if c['defHP']:
                f.write('    default_hold_power: %s\n' % (c['defHP'] / 100.0))
            if c['maxHP']:
                f.write('    max_hold_power: %s\n' % (c['maxHP'] / 100.0))
            if c['allowEnable']:
                f.write('    allow_enable: true\n')
            if c['maxHoldDur']:
                f.write('    max_hold_duration: %sms\n' % c['maxHoldDur'])
            if c['dynT']:
                f.write('    default_timed_enable_ms: machine.%s_te\n' % n)
            elif c['defTE']:
                f.write('    default_timed_enable_ms: %d\n' % c['defTE'])
            if c['pwte']:
                f.write('    pulse_with_timed_enable: true\n')
            f.write('    pulse_events: %s_pulse\n    enable_events: %s_enable\n    disable_events: %s_disable\n'
                    '    timed_enable_events: %s_timed_enable\n' % (n, n, n, n))
        # lights whose channel is a coil (flashers / GI strings on driver outputs)
        f.write('lights:\n')
        for i in LIGHTS:
            f.write('  l%d:\n    number: c%d\n    platform: drivers\n' % (i, i))
        f.write('light_player:\n')
        for i in LIGHTS:
            for b in LV:
                for fd in sorted(set(FADES + [300])):
                    f.write('  l%d_b%d_f%d:\n    l%d:\n      color: "%s"\n      fade: %dms\n' % (i, b, fd, i, ('%02x' % chan(b)) * 3, fd))
        f.write('flasher_player:\n')
        for i in LIGHTS:
            for ms in (50, 100, 1500):
                f.write('  l%d_flash_%d:\n    l%d: %dms\n' % (i, ms, i, ms))
    return d


def chan(b):
    """Channel value (0..255) of a brightness in percent."""
    return int(round(b * 255 / 100.0))


VALUES = {
    # every value class (schedule generation)
    'full': dict(ms=MS, pw=POW, te=TEV),
    # the exhaustive check of the thorough tier (the full sets do not finish within 40 minutes at MaxOps 2)
    'medium': dict(ms=[NONE, -5, 0, 10, 300], pw=[NONE, -50, 0, 50, 100, 150], te=TEV),
    # quick tier
    'reduced': dict(ms=[NONE, -5, 10, 300], pw=[NONE, -50, 50, 150], te=[NONE, -100, 100]),
    # mostly valid values: held / software-timed coils and their timers interleave with further requests
    'valid': dict(ms=[NONE, 10, 30, 300], pw=[NONE, 25, 50, 100], te=[NONE, 100]),
    # interleavings with the power supply and with changing defaults
    'tiny': dict(ms=[NONE, 300], pw=[NONE], te=[]),
    'small': dict(ms=[NONE, 300], pw=[NONE], te=[NONE, 100]),
}


def write_mc(wd, values, maxops, props=True, configs=None, mw=(NONE,), other=(), defv=(), steps=STEPS, maxtime=6000, name='MC.cfg',
             maxpend=2, lv=(), fades=()):
    """Write CoilMC.tla (the constants that cannot be written in a .cfg) and the TLC config `name`."""
    v = VALUES[values]
    cs = [c for c in TABLE if configs is None or c['id'] in configs]
    st = lambda xs: ', '.join(map(str, xs))
    with open(wd + '/CoilMC.tla', 'w') as f:
        f.write("""------------------------------ MODULE CoilMC ------------------------------
EXTENDS Coil
MCNONE == %d
MCConfigs == {%s}
MCMs == {%s}
MCPow == {%s}
MCTe == {%s}
MCMw == {%s}
MCOther == {%s}
MCDef == {%s}
MCSteps == {%s}
MCLightVals == {%s}
MCFadeMs == {%s}
=============================================================================
""" % (NONE, ',\n  '.join(to_tla(cfg_rec(c)) for c in cs), st(v['ms']), st(v['pw']), st(v['te']), st(mw), st(other), st(defv),
       st(steps), st(lv), st(fades)))
    with open(wd + '/' + name, 'w') as f:
        f.write("""SPECIFICATION Spec
CONSTANTS
  Configs <- MCConfigs
  NONE <- MCNONE
  PlatMaxPulse = 255
  MsVals <- MCMs
  PowVals <- MCPow
  TeVals <- MCTe
  MwVals <- MCMw
  OtherMs <- MCOther
  DefVals <- MCDef
  Steps <- MCSteps
  LightVals <- MCLightVals
  FadeMs <- MCFadeMs
  Tick = %d
  Rel = %d
  MaxPend = %d
  MaxTime = %d
  MaxOps = %d
%sCHECK_DEADLOCK FALSE
""" % (TICK, REL, maxpend, maxtime, maxops, ('PROPERTY Envelope\n' + ''.join('INVARIANT %s\n' % i for i in MONITORS[1:])) if props else ''))


MONITORS = ['Envelope', 'RefuseNotCommand', 'SoftwarePulseEnds', 'HoldWatchdog', 'HeldNoLonger', 'PendSane', 'NothingOverdue']


_H = {}


class RecDriver:
    """Wraps a platform driver object and records every command that reaches it."""

    def __init__(self, inner, log, name):
        self._inner = inner
        self._log = log
        self._name = name

    def pulse(self, pulse_settings):
        self._log.append((self._name, ['pulse', int(pulse_settings.duration), pct(pulse_settings.power), 0, 0]))
        return self._inner.pulse(pulse_settings)

    def enable(self, pulse_settings, hold_settings):
        self._log.append((self._name, ['enable', int(pulse_settings.duration), pct(pulse_settings.power), pct(hold_settings.power), 0]))
        return self._inner.enable(pulse_settings, hold_settings)

    def timed_enable(self, pulse_settings, hold_settings):
        self._log.append((self._name, ['timed_enable', int(pulse_settings.duration), pct(pulse_settings.power),
                                       pct(hold_settings.power), int(hold_settings.duration)]))
        return self._inner.timed_enable(pulse_settings, hold_settings)

    def disable(self):
        self._log.append((self._name, ['disable', 0, 0, 0, 0]))
        return self._inner.disable()

    def __getattr__(self, item):
        return getattr(self._inner, item)


def pct(x):
    return int(round(x * 100))


def record_rules(platform, log):
    """Record every hardware rule installed on a platform: the settings the rule carries for its coil."""
    from mpf.core.platform import DriverSettings
    for attr in dir(platform):
        if not (attr.startswith('set_') and attr.endswith('_rule')):
            continue
        inner = getattr(platform, attr)
        if getattr(inner, '_c08_rec', False):
            continue

        def rec(*args, _inner=inner, **kwargs):
            for a in list(args) + list(kwargs.values()):
                if isinstance(a, DriverSettings):
                    name = getattr(a.hw_driver, '_name', None)
                    if name is not None:
                        log.append((name, ['rule', int(a.pulse_settings.duration), pct(a.pulse_settings.power),
                                           pct(a.hold_settings.power) if a.hold_settings else 0, 0]))
            return _inner(*args, **kwargs)
        rec._c08_rec = True
        setattr(platform, attr, rec)


def record_light_channels():
    """Record every brightness step a light channel on a coil makes (DriverLight.set_brightness: the call through which
    a light with platform: drivers actuates its coil): a begin marker with the brightness asked for and the time, the
    commands that reach the platform in between, an end marker telling whether the step raised."""
    from mpf.platforms.driver_light_platform import DriverLight
    inner = DriverLight.set_brightness
    if getattr(inner, '_c08_rec', False):
        return

    def set_brightness(self, brightness):
        h = _H.get('h')
        log = _H.get('log')
        if h is None or log is None or getattr(self.driver, 'machine', None) is not h.machine:
            return inner(self, brightness)
        name = self.driver.name
        log.append((name, ['@begin', pct(brightness), int(round(brightness * 10000)), h.machine.clock.get_time()]))
        try:
            r = inner(self, brightness)
        except BaseException:
            log.append((name, ['@end', True]))
            raise
        log.append((name, ['@end', False]))
        return r
    set_brightness._c08_rec = True
    DriverLight.set_brightness = set_brightness


def split_step(rec, seg, pos, tbase):
    """One schedule step and what was recorded while it ran -> trace events.  Every brightness step of the light channel
    becomes an event of its own ('light': brightness in percent as the platform is told and in 1/100 percent as asked,
    the commands it caused, whether it raised) at the time it happened: an 'adv' during which steps of a fade happen is
    cut at these steps (part: the piece ends at a step of the light; pos / tbase: nominal ms and clock at trace start)."""
    adv = rec['op'] == 'adv'
    end = pos + rec['d'] if adv else pos
    out = []
    cur = rec
    cur['cmds'] = []
    if adv:
        cur['part'] = False
    tail = False
    for c in seg:
        if c[0] == '@begin':
            if adv:
                tn = min(end, max(pos, int(round((c[3] - tbase) * 1000.0 / (1 + EPS)))))
                cur['d'] = tn - pos
                cur['part'] = True
                pos = tn
            if not tail or adv or cur['cmds']:
                out.append(cur)
            cur = {'op': 'light', 'b': c[1], 'bf': c[2], 'cmds': [], 'err': False}
        elif c[0] == '@end':
            cur['err'] = bool(c[1])
            out.append(cur)
            tail = True
            cur = ({'op': 'adv', 'd': end - pos, 'part': False, 'cmds': [], 'err': False} if adv
                   else {'op': 'lightreq', 'cmds': [], 'err': False})
        else:
            cur['cmds'].append(c)
    if not tail or adv or cur['cmds']:
        out.append(cur)
    return out


def _machine(mdir):
    if 'h' not in _H:
        h = harness.boot(None, machine_dir=mdir)
        _H['h'] = h
        _H['log'] = []
        record_light_channels()
        for c in TABLE:
            coil = h.machine.coils['c%d' % c['id']]
            coil.hw_driver = RecDriver(coil.hw_driver, _H['log'], coil.name)
            record_rules(coil.platform, _H['log'])
    return _H['h']


def arg(x, scale=1.0):
    return None if x == NONE else (x / scale if scale != 1.0 else x)


def exec_schedule(job):
    mdir, cid, sched, via_events = job[:4]
    try:
        return _exec(mdir, cid, sched, via_events, job[4] if len(job) > 4 else 'color')
    except Exception as ex:  # pylint: disable=broad-except
        import traceback
        _H.pop('h', None)
        return {'cfg': cfg_rec([c for c in TABLE if c['id'] == cid][0]), 'ev': [{'op': 'crash', 'what': repr(ex)[:300]}],
                '_tb': traceback.format_exc()[-1500:]}


def set_default(h, c, which, v):
    """Change the value behind a placeholder default (machine variable / operator setting) and let the subscription fire."""
    m = h.machine
    name = 'c%d_%s' % (c['id'], 'ms' if which == 'pulse_ms' else 'te')
    if c['src'] == 'setting':
        m.settings.set_setting_value(name, v)
    else:
        m.variables.set_machine_var(name, v)
    for _ in range(4):
        h.advance_time_and_run(0)


def _exec(mdir, cid, sched, via_events, lvia='color'):
    from mpf.core.platform_controller import SwitchRuleSettings, DriverRuleSettings, PulseRuleSettings, HoldRuleSettings
    h = _machine(mdir)
    m = h.machine
    c = [x for x in TABLE if x['id'] == cid][0]
    coil = m.coils['c%d' % cid]
    other = m.coils['other']
    log = _H['log']
    light = m.lights['l%d' % cid] if c['light'] else None
    if light is not None:
        light.clear_stack()         # dark, nothing left on its stack, no fade running
    coil.disable()
    if c['dynP']:
        set_default(h, c, 'pulse_ms', c['defPulseMs'])
    if c['dynT']:
        set_default(h, c, 'timed_enable_ms', c['defTE'])
    h.advance_time_and_run(10)
    del log[:]
    ev = []
    tbase = m.clock.get_time()
    pos = 0         # nominal ms since the start of the trace

    def call(fn, evname, kw):
        """Run one request either as a direct method call or through the coil's control event."""
        kw = {k: v for k, v in kw.items() if v is not None}
        if not via_events or evname is None:
            try:
                fn(**kw)
                return False
            except Exception:  # refused  pylint: disable=broad-except
                return True
        before = h._exception
        m.events.post('%s_%s' % (coil.name, evname), **kw)
        try:
            h.advance_time_and_run(0)
            h.advance_time_and_run(0)
        except Exception:  # the handler raised: the request was refused  pylint: disable=broad-except
            return True
        return h._exception is not None and h._exception is not before

    def rule(ms, pp, hp, hold):
        """Install a hardware rule for the coil the way autofires / flippers do, and remove it again."""
        pc = m.platform_controller
        sw = SwitchRuleSettings(switch=m.switches['s_rule'], debounce=False, invert=False)
        dr = DriverRuleSettings(driver=coil, recycle=True)
        ps = PulseRuleSettings(duration=ms, power=pp)
        if hold:
            r = pc.set_pulse_on_hit_and_enable_and_release_rule(sw, dr, ps, HoldRuleSettings(power=hp))
        else:
            r = pc.set_pulse_on_hit_rule(sw, dr, ps)
        pc.clear_hw_rule(r)

    for s in list(sched) + [{'op': 'adv', 'd': 1000}] * 3:
        op = s['op']
        if op == 'init':
            continue
        rec = {'op': op}
        mw = s.get('mw', NONE)
        refused = False
        died = False
        if op == 'adv':
            rec['d'] = s['d']
            try:
                h.advance_time_and_run(s['d'] * (1 + EPS) / 1000.0)
            except Exception:  # pylint: disable=broad-except
                # a step of a fade that the coil refused: the error ends the fade task and stops the test machine
                mine = [x for (n, x) in log if n == coil.name]
                if not (mine and mine[-1] == ['@end', True]):
                    raise
                died = True
        elif op in ('lighton', 'lightflash'):
            rec = {'op': 'lightreq'}
            try:
                light_request(h, light, s, lvia)
            except Exception:  # the coil refused the brightness step (told by the step itself)  pylint: disable=broad-except
                mine = [x for (n, x) in log if n == coil.name]
                if not (mine and mine[-1] == ['@end', True]):
                    raise
                died = lvia == 'player' or op == 'lightflash'     # raised inside an event handler: the test machine has stopped
        elif op == 'pulse':
            rec.update(ms=s['ms'], pp=s['pp'], mw=mw)
            refused = call(coil.pulse, 'pulse', dict(pulse_ms=arg(s['ms']), pulse_power=arg(s['pp'], 100.0), max_wait_ms=arg(mw)))
        elif op == 'enable':
            if via_events:
                mw = NONE       # the enable control event carries no max_wait_ms
            rec.update(ms=s['ms'], pp=s['pp'], hp=s['hp'], mw=mw)
            refused = call(coil.enable, 'enable', dict(pulse_ms=arg(s['ms']), pulse_power=arg(s['pp'], 100.0),
                                                       hold_power=arg(s['hp'], 100.0), max_wait_ms=arg(mw)))
        elif op == 'timed_enable':
            rec.update(te=s['te'], hp=s['hp'], ms=s['ms'], pp=s['pp'], mw=mw)
            refused = call(coil.timed_enable, 'timed_enable', dict(timed_enable_ms=arg(s['te']), hold_power=arg(s['hp'], 100.0),
                                                                  pulse_ms=arg(s['ms']), pulse_power=arg(s['pp'], 100.0),
                                                                  max_wait_ms=arg(mw)))
        elif op == 'disable':
            refused = call(coil.disable, 'disable', {})
        elif op == 'rule':
            rec.update(ms=s['ms'], pp=s['pp'], hp=s['hp'], hold=bool(s['hold']))
            try:
                rule(arg(s['ms']), arg(s['pp'], 100.0), arg(s['hp'], 100.0), bool(s['hold']))
            except Exception:  # refused  pylint: disable=broad-except
                refused = True
        elif op == 'other':
            rec['ms'] = s['ms']
            other.pulse(s['ms'])
        elif op == 'setdef':
            rec.update(w=s['w'], v=s['v'])
            set_default(h, c, s['w'], s['v'])
        else:
            raise ValueError(op)
        if op != 'adv' and not died:
            try:
                h.advance_time_and_run(0)
            except Exception:  # pylint: disable=broad-except
                mine = [x for (n, x) in log if n == coil.name]
                if not (mine and mine[-1] == ['@end', True]):
                    raise
                died = True
        rec['err'] = bool(refused)
        pieces = split_step(rec, [cmd for (n, cmd) in log if n == coil.name], pos, tbase)
        del log[:]
        if died:
            # the trace ends with the refused step
            while pieces and pieces[-1]['op'] != 'light':
                pieces.pop()
            ev.extend(pieces)
            _H.pop('h', None)
            break
        ev.extend(pieces)
        if op == 'adv':
            pos += s['d']
        if via_events and refused and op != 'rule':
            # an exception in an event handler stops the test machine: start over with a fresh one
            _H.pop('h', None)
            break
    return {'cfg': cfg_rec(c), 'ev': ev, '_via_events': via_events, '_lvia': lvia}


def light_request(h, light, s, lvia):
    """Ask the light on the coil for a brightness (at once or fading) / a flash, through one of the ways a user has."""
    m = h.machine
    if s['op'] == 'lightflash':
        m.events.post('%s_flash_%d' % (light.name, s['ms']))
    elif lvia == 'player':
        m.events.post('%s_b%d_f%d' % (light.name, s['b'], s['f']))
    elif lvia == 'onoff':
        if s['b'] == 0:
            light.off(fade_ms=s['f'], key='k')
        else:
            light.on(brightness=chan(s['b']), fade_ms=s['f'], key='k')
    else:
        light.color([chan(s['b'])] * 3, fade_ms=s['f'])
    h.advance_time_and_run(0)
    h.advance_time_and_run(0)


# ------------------------------------------------------------------------------ device traces (envelope only)
REPO_MACHINES = [
    ('ball_device', 'test_ball_device.yaml'), ('ball_device', 'test_hold_coil.yaml'), ('ball_device', 'test_enable_coil.yaml'),
    ('flippers', 'config.yaml'), ('autofire', 'config.yaml'), ('coil_player', 'coil_player.yaml'), ('kickback', 'config.yaml'),
    ('diverter', 'test_diverter.yaml'), ('drop_targets', 'test_drop_targets.yaml'), ('score_reels', 'config.yaml'),
    ('device', 'coils.yaml'), ('shows', 'test_shows.yaml'), ('ball_search', 'config.yaml'), ('dual_wound_coil', 'config.yaml'),
]


def coil_env(coil):
    cf = coil.config
    return dict(id=0, defPulseMs=0, maxPulseMs=int(cf['max_pulse_ms'] or 0), defPP=pct(cf['default_pulse_power'] or 0),
                maxPP=pct(cf['max_pulse_power'] or 0), defHP=pct(cf['default_hold_power'] or 0), maxHP=pct(cf['max_hold_power'] or 0),
                allowEnable=bool(cf['allow_enable']), maxHoldDur=int((cf['max_hold_duration'] or 0) * 1000), defTE=0, pwte=False,
                dynP=False, dynT=False, light=False)


def exec_fuzz(job):
    """Stimulate a repository test machine (switch changes, configured coil/show events) and record every command
    reaching a platform driver.  A stimulus that makes the test machine raise ends that life; the machine is
    booted again (up to 5 lives) and the walk continues."""
    mdir, cfgfile, seed = job
    rnd = random.Random(seed)
    import time as _time
    t_end = _time.time() + (10 if seed % 100 < 1 else 25)     # wall-clock budget per machine
    per = {}
    envs = {}
    skips = []
    for life in range(5):
        if _time.time() > t_end:
            break
        try:
            h = harness.boot(None, machine_dir=mdir, config=cfgfile)
        except BaseException as ex:  # pylint: disable=broad-except
            skips.append('%s/%s: %s' % (mdir, cfgfile, repr(ex)[:200]))
            break
        try:
            m = h.machine
            log = []
            for coil in m.coils.values():
                if coil.hw_driver is not None:
                    coil.hw_driver = RecDriver(coil.hw_driver, log, coil.name)
                    envs[coil.name] = coil_env(coil)
                    if coil.platform is not None:
                        record_rules(coil.platform, log)
            switches = list(m.switches.keys())
            events = set()
            for coil in m.coils.values():
                for k in ('pulse_events', 'enable_events', 'disable_events'):
                    events.update((coil.config.get(k) or {}).keys())
            for sec in ('coil_player', 'show_player'):
                events.update((m.config.get(sec) or {}).keys())
            events = [e for e in sorted(events) if isinstance(e, str) and '{' not in e and '|' not in e]
            for _ in range(40):
                if _time.time() > t_end:
                    break
                try:
                    r = rnd.random()
                    if r < 0.6 and switches:
                        m.switch_controller.process_switch(rnd.choice(switches), rnd.choice([0, 1]), logical=True)
                    elif r < 0.85 and events:
                        m.events.post(rnd.choice(events))
                    h.advance_time_and_run(rnd.choice([0.0, 0.01, 0.1, 0.5, 1.0]))
                except BaseException:  # this life is over  pylint: disable=broad-except
                    break
            for (n, cmd) in log:
                per.setdefault(n, []).append({'op': 'cmd', 'c': cmd})
        except BaseException as ex:  # pylint: disable=broad-except
            skips.append('%s/%s: %s' % (mdir, cfgfile, repr(ex)[:200]))
        finally:
            try:
                harness.shutdown(h)
            except BaseException:  # pylint: disable=broad-except
                pass
    traces = [{'cfg': envs[n], 'ev': ev[:400], '_coil': n, '_machine': '%s/%s' % (mdir, cfgfile)} for n, ev in per.items()]
    return traces + [{'_skip': x} for x in skips]


def handmade():
    """(configurations, schedule) pairs written by hand."""
    E = lambda ms=NONE, pp=NONE, hp=NONE, mw=NONE: {'op': 'enable', 'ms': ms, 'pp': pp, 'hp': hp, 'mw': mw}
    P = lambda ms=NONE, pp=NONE, mw=NONE: {'op': 'pulse', 'ms': ms, 'pp': pp, 'mw': mw}
    T = lambda te=NONE, mw=NONE: {'op': 'timed_enable', 'te': te, 'hp': NONE, 'ms': NONE, 'pp': NONE, 'mw': mw}
    R = lambda hold=False, ms=NONE, pp=NONE, hp=NONE: {'op': 'rule', 'ms': ms, 'pp': pp, 'hp': hp, 'hold': hold}
    A = lambda d: {'op': 'adv', 'd': d}
    O = lambda ms: {'op': 'other', 'ms': ms}
    S = lambda w, v: {'op': 'setdef', 'w': w, 'v': v}
    D = {'op': 'disable'}
    hold = (3, 4, 5, 6, 9)
    res = []
    for sch in [
            # repeated enable of a held coil must not push the hold watchdog back
            [E(), A(300), A(300), E(), A(300), E(), A(300), A(1000), A(1000)],
            # software-timed pulse with other requests in between
            [P(300), A(100), E(), A(100), A(300), A(1000)],
            [P(300), A(100), D, A(100), P(300), A(100), A(300), A(300)],
            [E(), A(100), P(300), A(300), A(1000), A(1000)],
            # the software pulse timer and the hold watchdog due at the same instant
            [E(), A(1000), A(300), A(300), A(100), P(300), A(300)],
            [E(), A(300), A(300), A(100), P(300), A(300)],
            # requests postponed by the busy power supply, with a disable / further requests during the wait
            [O(100), E(mw=495), A(100), A(100), A(1000), A(1000)],
            [O(100), E(mw=495), D, A(100), A(100), A(1000), A(1000), A(1000)],
            [O(100), A(30), E(mw=495), A(30), D, A(100), E(), A(1000), A(1000)],
            [O(100), E(mw=495), E(mw=495), D, A(300), D, E(mw=495), A(1000), A(1000)],
            [O(100), P(300, mw=495), D, A(100), A(100), A(300), A(1000)],
            [O(100), P(300, mw=495), A(30), P(300, mw=495), E(mw=495), A(300), A(300), D, A(300), A(1000)],
            [O(100), E(mw=45), A(100), D, O(30), E(mw=45), D, A(100), A(1000)],
            [O(100), T(mw=495), P(mw=495), A(30), D, A(100), A(1000)],
    ]:
        res.append((hold, sch))
    for sch in [
            # the placeholder behind the default changes at runtime: every entry point follows the default of the moment
            [P(), S('pulse_ms', 45), P(), E(), T(), R(), R(True), S('pulse_ms', 20), P(), R(), S('pulse_ms', 300), P(), A(300)],
            [S('pulse_ms', 2000), P(), E(), R(), S('pulse_ms', -5), P(), R(), S('pulse_ms', 0), P(), S('pulse_ms', 10), P()],
            [O(100), S('pulse_ms', 20), P(mw=495), S('pulse_ms', 45), A(100), A(100), P(mw=495), A(1000)],
    ]:
        res.append(((9, 10), sch))
    res.append(((9,), [T(), S('timed_enable_ms', 2000), T(), S('timed_enable_ms', 300), T(), S('timed_enable_ms', -5), T()]))
    return res


def handmade_lights():
    """(configurations, schedule, way the light is asked) for the coils that are also the channel of a light."""
    E = lambda ms=NONE, pp=NONE, hp=NONE, mw=NONE: {'op': 'enable', 'ms': ms, 'pp': pp, 'hp': hp, 'mw': mw}
    P = lambda ms=NONE, pp=NONE, mw=NONE: {'op': 'pulse', 'ms': ms, 'pp': pp, 'mw': mw}
    A = lambda d: {'op': 'adv', 'd': d}
    O = lambda ms: {'op': 'other', 'ms': ms}
    S = lambda w, v: {'op': 'setdef', 'w': w, 'v': v}
    L = lambda b, f=0: {'op': 'lighton', 'b': b, 'f': f}
    F = lambda ms: {'op': 'lightflash', 'ms': ms}
    D = {'op': 'disable'}
    res = []
    for k, sch in enumerate([
            # the light is switched on (at once / fading) and left on: a coil with max_hold_duration is released in time
            [L(40), A(300), A(300), A(1000), A(1000), A(1000)],
            [L(40, 100), A(100), A(1000), A(1000), A(1000)],
            [L(40, 300), A(1000), A(1000), A(1000)],
            # brightness changes / a fade must not push the hold watchdog back
            [L(20), A(300), L(40), A(300), L(20, 60), A(300), A(300), A(1000), A(1000)],
            [L(20), A(300), A(300), L(40, 300), A(300), A(300), A(1000), A(1000)],
            # direct calls in between the steps of a fade
            [L(40, 300), A(100), E(), A(100), D, A(300), A(1000), A(1000), A(1000)],
            [E(), A(300), L(40, 100), A(300), A(300), A(300), A(1000), A(1000)],
            [L(40), A(100), P(300), A(100), A(300), A(1000), A(1000)],
            [P(300), A(100), L(40, 100), A(100), A(100), A(1000), A(1000), A(1000)],
            # brightness above the hold power the coil allows: refused, also in the middle of a fade
            [L(100), A(100), L(0), A(100), L(60), A(1000), A(1000), A(1000)],
            [L(100, 100), A(300), A(1000), A(1000), A(1000)],
            [L(40), A(100), L(60, 100), A(300), A(1000), A(1000)],
            # a fade replaced by another fade / switched off half way
            [L(40, 100), A(30), L(0, 60), A(30), L(40, 100), A(300), A(1000), A(1000), A(1000)],
            [L(40, 300), A(100), L(0), A(300), L(20, 60), A(1000), A(1000), A(1000)],
            # flashes (flasher_player): full brightness for a time, shorter and longer than max_hold_duration
            [F(100), A(300), F(50), A(300), A(1000)],
            [F(1500), A(1000), A(1000), A(1000), A(1000)],
            [L(20), A(100), F(100), A(300), A(1000), A(1000), A(1000)],
            # with a postponed enable on a busy power supply
            [O(100), E(mw=495), L(40), A(100), A(100), L(0), A(1000), A(1000), A(1000)],
            [O(100), E(mw=495), L(40, 100), A(300), D, A(1000), A(1000)],
    ]):
        res.append((LIGHTS, sch, ('color', 'player', 'onoff')[k % 3]))
        if k < 4:
            res.append((LIGHTS, sch, ('player', 'onoff', 'color')[k % 3]))
    # the light enables with the coil's default pulse: the placeholder behind it changes
    res.append(((9,), [S('pulse_ms', 45), L(40), A(100), S('pulse_ms', 20), L(60, 60), A(300), S('pulse_ms', 2000), A(300), L(20), A(1000),
                       A(1000)], 'color'))
    res.append(((9,), [L(20, 300), A(100), S('pulse_ms', 45), A(300), A(1000)], 'color'))
    return res


# ------------------------------------------------------------------------------ several coils operated concurrently
# (specs/Coil/CoilMulti.tla).  One machine with three driver platforms: `virtual` (the default), `smart_virtual` and the
# harness' own platform class registered through `mpf: platforms:` (a board that times pulses up to 100 ms only).  Output
# numbers are unique per platform only: k, k2 and k21 all sit on output 1 of their board; kx / k_1 have other numbers
# (11: a number that starts like 1); the names are prefixes of each other.
REC_PLATFORM = 'c08rec'


class RecPlatform(VirtualHardwarePlatform):

    """The harness' own driver platform (mpf: platforms: c08rec)."""

    def __init__(self, machine):
        super().__init__(machine)
        self.features['max_pulse'] = 100

    def __repr__(self):
        return '<Platform.C08Rec>'


def M(name, num, plat=None, defPulseMs=10, maxPulseMs=0, allowEnable=False, maxHP=0, maxHoldDur=0, defTE=100):
    return dict(name=name, num=num, plat=plat or 'virtual', platMax=100 if plat == REC_PLATFORM else 255, defPulseMs=defPulseMs,
                maxPulseMs=maxPulseMs, allowEnable=allowEnable, maxHP=maxHP, maxHoldDur=maxHoldDur, defTE=defTE)


MTABLE = [
    M('k', 1, allowEnable=True, maxHoldDur=1000),
    M('k2', 1, 'smart_virtual', defPulseMs=20, allowEnable=True, maxHoldDur=2000),
    M('k21', 1, REC_PLATFORM, maxHP=50, maxHoldDur=1000),
    M('kx', 2, maxPulseMs=400),
    M('k_1', 11, 'smart_virtual', allowEnable=True),
]
MNAMES = [c['name'] for c in MTABLE]
MMS = [NONE, 200, 300, 600]       # 200: timed by virtual / smart_virtual, by software on the harness' platform
MTE = [NONE, 1500]
# the machines (sets of coils operated in one schedule) schedules are generated for
MSUBSETS = [('k', 'k2'), ('k', 'k2'), ('k', 'k21'), ('k2', 'k21'), ('k', 'kx'), ('k2', 'k_1'), ('k', 'k2', 'k21'), ('k', 'k2', 'kx'),
            ('k', 'k2', 'k_1'), ('k2', 'k21', 'kx'), tuple(MNAMES)]


def mrec(c):
    return {k: v for k, v in c.items() if k != 'name'}


def mcfg(names=None):
    return {c['name']: mrec(c) for c in MTABLE if names is None or c['name'] in names}


def write_machine_multi(scratch):
    d = os.path.join(scratch, 'machines', 'coils2')
    os.makedirs(d + '/config', exist_ok=True)
    with open(d + '/config/config.yaml', 'w') as f:
        f.write('#config_version=6\nmpf:\n  platforms:\n    %s: drivers.c08.RecPlatform\n' % REC_PLATFORM)
        f.write('hardware:\n  platform: virtual, smart_virtual, %s\n' % REC_PLATFORM)
        f.write('coils:\n')
        for c in MTABLE:
            n = c['name']
            f.write('  %s:\n    number: %d\n    default_pulse_ms: %d\n    default_timed_enable_ms: %d\n' % (n, c['num'], c['defPulseMs'], c['defTE']))
            if c['plat'] != 'virtual':
                f.write('    platform: %s\n' % c['plat'])
            if c['maxPulseMs']:
                f.write('    max_pulse_ms: %dms\n' % c['maxPulseMs'])
            if c['allowEnable']:
                f.write('    allow_enable: true\n')
            if c['maxHP']:
                f.write('    max_hold_power: %s\n' % (c['maxHP'] / 100.0))
            if c['maxHoldDur']:
                f.write('    max_hold_duration: %sms\n' % c['maxHoldDur'])
            f.write('    pulse_events: %s_pulse\n    enable_events: %s_enable\n    disable_events: %s_disable\n'
                    '    timed_enable_events: %s_timed_enable\n' % (n, n, n, n))
    return d


def write_mc_multi(wd, subsets, maxops, ms=MMS, te=MTE, steps=STEPS, maxtime=3000, props=True, name='MMC.cfg'):
    st = lambda xs: ', '.join(map(str, xs))
    with open(wd + '/CoilMultiMC.tla', 'w') as f:
        f.write("""---------------------------- MODULE CoilMultiMC ----------------------------
EXTENDS CoilMulti
MCNONE == %d
MCConfigs == {%s}
MCMs == {%s}
MCTe == {%s}
MCSteps == {%s}
=============================================================================
""" % (NONE, ',\n  '.join(to_tla(mcfg(sub)) for sub in subsets), st(ms), st(te), st(steps)))
    with open(wd + '/' + name, 'w') as f:
        f.write("""SPECIFICATION Spec
CONSTANTS
  Configs <- MCConfigs
  NONE <- MCNONE
  MsVals <- MCMs
  TeVals <- MCTe
  Steps <- MCSteps
  MaxTime = %d
  MaxOps = %d
%sCHECK_DEADLOCK FALSE
""" % (maxtime, maxops, (''.join('PROPERTY %s\n' % p for p in MPROPS) + ''.join('INVARIANT %s\n' % i for i in MINVS)) if props else ''))


MPROPS = ['Independent', 'KeepsPending', 'OffOnTime']
MINVS = ['Envelope', 'RefuseNotCommand', 'SoftwarePulseEnds', 'HoldWatchdog', 'NothingOverdue']
_HM = {}


class RecDriverT:
    """Wraps a platform driver object and records every command that reaches it, with the (virtual) time."""

    def __init__(self, inner, log, name, clock):
        self._inner = inner
        self._log = log
        self._name = name
        self._clock = clock

    def _rec(self, cmd):
        self._log.append((self._name, cmd, self._clock.get_time()))

    def pulse(self, pulse_settings):
        self._rec(['pulse', int(pulse_settings.duration), pct(pulse_settings.power), 0, 0])
        return self._inner.pulse(pulse_settings)

    def enable(self, pulse_settings, hold_settings):
        self._rec(['enable', int(pulse_settings.duration), pct(pulse_settings.power), pct(hold_settings.power), 0])
        return self._inner.enable(pulse_settings, hold_settings)

    def timed_enable(self, pulse_settings, hold_settings):
        self._rec(['timed_enable', int(pulse_settings.duration), pct(pulse_settings.power), pct(hold_settings.power),
                   int(hold_settings.duration)])
        return self._inner.timed_enable(pulse_settings, hold_settings)

    def disable(self):
        self._rec(['disable', 0, 0, 0, 0])
        return self._inner.disable()

    def __getattr__(self, item):
        return getattr(self._inner, item)


def _machine_multi(mdir):
    if 'h' not in _HM:
        h = harness.boot(None, machine_dir=mdir, platform=None)     # no forced platform: the platforms of the config
        _HM['h'] = h
        _HM['log'] = []
        plats = set()
        for c in MTABLE:
            coil = h.machine.coils[c['name']]
            want = {'virtual': 'VirtualHardwarePlatform', 'smart_virtual': 'SmartVirtualHardwarePlatform', REC_PLATFORM: 'RecPlatform'}
            if type(coil.platform).__name__ != want[c['plat']] or str(coil.hw_driver.number) != str(c['num']):
                raise RuntimeError('coil %s sits on %r number %r' % (coil.name, coil.platform, coil.hw_driver.number))
            if int(coil.platform.features['max_pulse']) != c['platMax']:
                raise RuntimeError('coil %s: platform max_pulse %r' % (coil.name, coil.platform.features['max_pulse']))
            plats.add(id(coil.platform))
            coil.hw_driver = RecDriverT(coil.hw_driver, _HM['log'], coil.name, h.machine.clock)
        if len(plats) != 3:
            raise RuntimeError('the coils do not sit on three platforms')
    return _HM['h']


def exec_multi(job):
    mdir, sched, via_events = job
    try:
        return _exec_multi(mdir, sched, via_events)
    except Exception as ex:  # pylint: disable=broad-except
        import traceback
        _HM.pop('h', None)
        return {'cfg': mcfg(), 'ev': [{'op': 'crash', 'what': repr(ex)[:300]}], '_tb': traceback.format_exc()[-1500:]}


def _exec_multi(mdir, sched, via_events):
    h = _machine_multi(mdir)
    m = h.machine
    log = _HM['log']
    for n in MNAMES:
        m.coils[n].disable()
    h.advance_time_and_run(10)
    del log[:]
    tbase = m.clock.get_time()
    ev = []

    def call(coil, fn, evname, kw):
        kw = {k: v for k, v in kw.items() if v is not None}
        if not via_events:
            try:
                fn(**kw)
                return False
            except Exception:  # refused  pylint: disable=broad-except
                return True
        before = h._exception
        m.events.post('%s_%s' % (coil.name, evname), **kw)
        try:
            h.advance_time_and_run(0)
            h.advance_time_and_run(0)
        except Exception:  # the handler raised: the request was refused  pylint: disable=broad-except
            return True
        return h._exception is not None and h._exception is not before

    for s in list(sched) + [{'op': 'adv', 'd': 1000}] * 3:
        op = s['op']
        if op == 'init':
            continue
        rec = {'op': op}
        refused = False
        if op == 'adv':
            rec['d'] = s['d']
            h.advance_time_and_run(s['d'] * (1 + EPS) / 1000.0)
        else:
            coil = m.coils[s['c']]
            rec['c'] = s['c']
            if op == 'pulse':
                rec['ms'] = s['ms']
                refused = call(coil, coil.pulse, 'pulse', dict(pulse_ms=arg(s['ms'])))
            elif op == 'enable':
                refused = call(coil, coil.enable, 'enable', {})
            elif op == 'timed_enable':
                rec['te'] = s['te']
                refused = call(coil, coil.timed_enable, 'timed_enable', dict(timed_enable_ms=arg(s['te'])))
            elif op == 'disable':
                refused = call(coil, coil.disable, 'disable', {})
            else:
                raise ValueError(op)
            if not (via_events and refused):
                h.advance_time_and_run(0)
        rec['err'] = bool(refused)
        # what reached EVERY coil's platform driver during the step, with the time (model time starts at 1)
        rec['cmds'] = {n: [] for n in MNAMES}
        for (n, cmd, t) in log:
            rec['cmds'][n].append(cmd + [1 + int(round((t - tbase) * 1000.0 / (1 + EPS)))])
        del log[:]
        ev.append(rec)
        if via_events and refused:
            # an exception in an event handler stops the test machine: start over with a fresh one
            _HM.pop('h', None)
            break
    return {'cfg': mcfg(), 'ev': ev, '_via_events': via_events}


def handmade_multi():
    P = lambda c, ms=NONE: {'op': 'pulse', 'c': c, 'ms': ms}
    E = lambda c: {'op': 'enable', 'c': c}
    T = lambda c, te=NONE: {'op': 'timed_enable', 'c': c, 'te': te}
    D = lambda c: {'op': 'disable', 'c': c}
    A = lambda d: {'op': 'adv', 'd': d}
    res = []
    for a, b in (('k', 'k2'), ('k2', 'k'), ('k', 'k21'), ('k21', 'k2'), ('k', 'kx'), ('k2', 'k_1'), ('k_1', 'k')):
        res += [
            # overlapping software-timed pulses: each coil is switched off at its own time
            [P(a, 300), A(100), P(b, 600), A(100), A(100), A(300), A(300)],
            [P(a, 600), A(100), P(b, 300), A(100), A(100), A(300), A(300)],
            [P(a, 300), P(b, 300), A(300), A(300)],
            # overlapping holds limited by max_hold_duration, the one released by the game while the other is held
            [E(a), A(300), E(b), A(300), D(a), A(300), A(1000), A(1000)],
            [E(a), A(300), E(b), A(300), D(b), A(300), A(1000), A(1000)],
            [E(a), E(b), A(1000), A(1000)],
            # a software-timed pulse of the one while the other is held, timed enables and short pulses in between
            [E(a), A(100), P(b, 300), T(a), A(100), P(a), D(b), A(100), A(100), A(1000), A(1000)],
            [P(a, 600), A(100), E(b), A(100), D(b), T(b), A(300), A(300), E(b), P(b, 300), A(300), A(1000)],
        ]
    # all the coils on output 1 of their board at once, and all of them
    res += [
        [P('k', 600), A(100), P('k2', 600), A(100), P('k21', 200), A(100), P('k21', 300), A(100), A(300), A(300)],
        [E('k'), A(100), E('k2'), A(100), E('k21'), A(100), D('k2'), A(300), E('k2'), A(1000), A(1000), A(1000)],
        [P(n, 300) for n in MNAMES] + [A(100)] + [E(n) for n in MNAMES] + [A(100), A(100), A(1000), A(1000)],
    ]
    return res


def run_multi(ctx, wd):
    """Several coils operated concurrently: design check of the product model, schedules, real Drivers, trace validation."""
    q = ctx.quick
    mdir = write_machine_multi(ctx.scratch)
    subs = [('k', 'k2'), ('k', 'k21', 'kx')] if q else [('k', 'k2'), ('k', 'k2', 'k21'), ('k2', 'kx', 'k_1')]
    steps = [300, 1000] if q else [100, 300, 1000]
    write_mc_multi(wd, subs, 4, ms=[NONE, 300, 600], te=[NONE], steps=steps, maxtime=2400)
    r = tlc.expect_ok(tlc.check(wd, 'CoilMultiMC', 'MMC.cfg', timeout=3000), 'CoilMulti design check')
    ctx.add_tlc('CoilMultiMC', r, {'machines': [list(x) for x in subs], 'MaxOps': 4, 'steps': steps})
    ctx.coverage['monitors'] += MPROPS + ['Multi' + x for x in MINVS]
    write_mc_multi(wd, MSUBSETS, 14, steps=[30, 100, 200, 300, 500, 1000, 2000], maxtime=100000, props=False, name='MGen.cfg')
    behs, _ = tlc.simulate(wd, 'CoilMultiMC', 'MGen.cfg', num=150 if q else 3000, depth=20 if q else 30, seed=ctx.seed + 51)
    rnd = random.Random(ctx.seed + 2)
    jobs = []
    for b in behs:
        refusal = any(x['err'] for s in b for x in s['st'].values())
        jobs.append((mdir, [s['act'] for s in b], (not refusal) and rnd.random() < 0.3))
    jobs += [(mdir, sch, k % 4 == 3) for k, sch in enumerate(handmade_multi())]
    traces = harness.pmap(exec_multi, jobs, chunk=8, item_timeout=90)
    ctx.log('multi-coil schedules executed: %d' % len(traces))
    ctx.coverage['multi_coil_calls'] = sum(1 for t in traces for e in t['ev'] if e['op'] not in ('adv', 'crash'))
    ctx.coverage['multi_coil_switch_offs_by_timer'] = sum(1 for t in traces for e in t['ev'] if e['op'] == 'adv'
                                                          for cs in e['cmds'].values() for c in cs if c[0] == 'disable')
    with open(wd + '/MTrace.cfg', 'w') as f:
        f.write("""SPECIFICATION TSpec
CONSTANTS
  Configs <- TConfigs
  NONE <- TNONE
  MsVals = {}
  TeVals = {}
  Steps = {}
  MaxTime = 100000000
  MaxOps = 1000000
INVARIANT Reporter
INVARIANT RefuseNotCommand
INVARIANT NothingOverdue
CHECK_DEADLOCK FALSE
""")
    v = tlc.validate_traces(wd, 'CoilMultiTrace', 'MTrace.cfg', traces)
    tlc.finish_diagnosis(wd, 'CoilMultiTrace', 'MTrace.cfg', traces, v)
    ctx.add_trace_verdict('CoilMultiTrace', v, len(traces))
    ctx.sample({'kind': 'multi-coil-trace', 'trace': traces[-1]['ev'][:6]})
    for i, info in sorted(v.rejected.items()):
        if info.get('line') is None:
            continue
        fe = info.get('failing_event') or {}
        tr = traces[i]
        sig = 'C08:multi:%s:%s' % (fe.get('op', '?'), classify_multi(fe, tr, info.get('line')))
        ln = info.get('line') or 1
        what = ('several coils operated concurrently: step %s of the trace is not explained by the product of independent coils '
                '(CoilMulti: every coil has its own software pulse timer and hold watchdog; commands are [kind, pulse_ms, '
                'pulse_power, hold_power, duration, time]): %s; steps before: %s; coils (platform/number): %s'
                % (ln, brief(fe), [brief(e) for e in tr['ev'][max(0, ln - 7):max(0, ln - 1)]],
                   {c['name']: '%s/%s' % (c['plat'], c['num']) for c in MTABLE}))
        ctx.violation(sig, what, {'kind': 'multi', 'job': [jobs[i][1], jobs[i][2]], 'trace': tr, 'info': info})
    ctx.assumptions += ['several coils: requests without max_wait_ms (no request is postponed by the power supply)']


def brief(e):
    """An event of a multi-coil trace without the coils that got no command."""
    e = dict(e)
    if isinstance(e.get('cmds'), dict):
        e['cmds'] = {n: cs for n, cs in e['cmds'].items() if cs}
    return e


def classify_multi(fe, tr, line):
    """Name what deviates in a step of a multi-coil trace (for stable finding signatures)."""
    if fe.get('op') == 'crash':
        return 'crash'
    if fe.get('op') != 'adv':
        others = [n for n, cs in fe.get('cmds', {}).items() if cs and n != fe.get('c')]
        return 'command-at-another-coil' if others else 'own-command'
    # time passed: compare the switch-offs seen with the ones the coils' own timers owe (replayed from the calls so far)
    pend = {n: {} for n in MNAMES}     # coil -> {'sw': t, 'ho': t}
    cf = {c['name']: c for c in MTABLE}
    for e in tr['ev'][:line]:
        for n, cs in e.get('cmds', {}).items():
            for c in cs:
                if c[0] == 'disable':
                    pend[n].pop('ho', None)
                    if pend[n].get('sw') == c[5]:
                        pend[n].pop('sw')
                elif c[0] == 'enable' and c[1] == 0 and e['op'] == 'pulse':
                    pend[n]['sw'] = c[5] + (e['ms'] if e['ms'] != NONE else cf[n]['defPulseMs'])
                elif c[0] == 'enable' and cf[n]['maxHoldDur']:
                    pend[n].setdefault('ho', c[5] + cf[n]['maxHoldDur'])
        if e is fe:
            break
    end = 1 + sum(e['d'] for e in tr['ev'][:line] if e['op'] == 'adv')
    late = sorted(n for n in MNAMES for k, t in pend[n].items() if t <= end)
    return 'switch-off-missing' if late else 'switch-off-differs'


def run(ctx):
    mdir = write_machine(ctx.scratch)
    wd = tlc.prepare(ctx.scratch, 'Coil', 'coil')
    # (1) every value class on every configuration, two requests, coarse time
    # thorough: the 'medium' value sets with steps {300, 1000} do not finish within 50 minutes on 16 cores (measured in round 5:
    # the thorough tier had never printed a verdict with them); the reduced value sets with the finer time steps take 1.5 min
    write_mc(wd, 'reduced', 2, steps=[1000] if ctx.quick else [300, 1000], maxtime=3001)
    r = tlc.expect_ok(tlc.check(wd, 'CoilMC', 'MC.cfg', timeout=3000), 'Coil design check (values)')
    ctx.add_tlc('CoilMC values', r, {'configs': len(TABLE), 'pulse_ms classes': len(MS), 'power classes': len(POW), 'MaxOps': 2,
                                     'value sets': 'reduced', 'steps': [1000] if ctx.quick else [300, 1000]})
    # (2) interleavings of requests, timers, the shared power supply (postponed requests) and changing defaults
    inter = dict(configs=(4, 6, 7, 9, 10), mw=(NONE, 495), other=(100,), defv=(10, 45), steps=[100, 1000], maxtime=3000)
    write_mc(wd, 'tiny', 3 if ctx.quick else 4, **inter)
    r = tlc.expect_ok(tlc.check(wd, 'CoilMC', 'MC.cfg', timeout=3000), 'Coil design check (interleavings)')
    ctx.add_tlc('CoilMC interleavings', r, {'configs': len(inter['configs']), 'MaxOps': 3 if ctx.quick else 4, 'MaxPend': 2,
                                            'steps': inter['steps']})
    # (3) the coil as the channel of a light: brightness requests and software fades interleaved with direct requests and timers
    # (time is cut fine here - the steps of a fade are TICK ms apart - so the horizon is just beyond a max_hold_duration of 1 s)
    lmc = dict(configs=(1, 4, 9) if ctx.quick else LIGHTS, lv=(0, 40, 100), fades=(0, 60), steps=[40 if ctx.quick else 20, 1000],
               maxtime=1100)
    write_mc(wd, 'tiny', 2 if ctx.quick else 3, **lmc)
    r = tlc.expect_ok(tlc.check(wd, 'CoilMC', 'MC.cfg', timeout=3000), 'Coil design check (lights on coils)')
    ctx.add_tlc('CoilMC lights', r, {'configs': len(lmc['configs']), 'MaxOps': 2 if ctx.quick else 3, 'brightness': lmc['lv'],
                                     'fade_ms': lmc['fades'], 'steps': lmc['steps']})
    ctx.coverage['monitors'] += MONITORS
    q = ctx.quick
    # schedules: (a) all value classes, (b) mostly valid values with the power supply in play, (c) few values, busy
    # power supply and changing defaults on the configurations that hold / time in software / have placeholder defaults
    write_mc(wd, 'full', 10, props=False, name='Gen.cfg')
    behs, _ = tlc.simulate(wd, 'CoilMC', 'Gen.cfg', num=300 if q else 6000, depth=16 if q else 22, seed=ctx.seed)
    write_mc(wd, 'valid', 10, props=False, name='Gen.cfg', mw=(NONE, 495), other=(100,), defv=(20, 45), maxpend=3)
    behs2, _ = tlc.simulate(wd, 'CoilMC', 'Gen.cfg', num=200 if q else 4000, depth=18 if q else 26, seed=ctx.seed + 11)
    write_mc(wd, 'small', 12, props=False, name='Gen.cfg', configs=(4, 6, 7, 9, 10), mw=MW, other=OTHER, defv=DEFV,
             steps=[30, 100, 300, 1000], maxpend=3)
    behs3, _ = tlc.simulate(wd, 'CoilMC', 'Gen.cfg', num=250 if q else 4000, depth=20 if q else 28, seed=ctx.seed + 23)
    # (d) the coils that are also the channel of a light: brightness requests and fades mixed with the direct calls
    write_mc(wd, 'small', 12, props=False, name='Gen.cfg', configs=LIGHTS, mw=(NONE, 495), other=(100,), defv=(20, 45),
             steps=[30, 100, 300, 1000], maxpend=3, lv=LV, fades=FADES)
    behs4, _ = tlc.simulate(wd, 'CoilMC', 'Gen.cfg', num=250 if q else 4000, depth=20 if q else 28, seed=ctx.seed + 37)
    rnd = random.Random(ctx.seed)
    jobs = [(mdir, b[0]['cfg']['id'], [s['act'] for s in b], rnd.random() < 0.3, 'color') for b in behs + behs2 + behs3]
    jobs += [(mdir, cid, sch, False, 'color') for cids, sch in handmade() for cid in cids]
    rnd = random.Random(ctx.seed + 1)
    jobs += [(mdir, b[0]['cfg']['id'], [s['act'] for s in b], False, rnd.choice(['color', 'color', 'onoff', 'player'])) for b in behs4]
    jobs += [(mdir, cid, sch, False, lvia) for cids, sch, lvia in handmade_lights() for cid in cids]
    traces = harness.pmap(exec_schedule, jobs, chunk=8, item_timeout=90)
    ctx.log('api schedules executed: %d' % len(traces))
    repo = os.environ.get('VERIF_REPO', '/repo')
    fuzz_jobs = [(repo + '/mpf/tests/machine_files/' + d, f, ctx.seed * 100 + k)
                 for (d, f) in REPO_MACHINES for k in range(1 if ctx.quick else 6)
                 if os.path.exists(repo + '/mpf/tests/machine_files/%s/config/%s' % (d, f))]
    fres = harness.pmap(exec_fuzz, fuzz_jobs, chunk=1, item_timeout=45)
    ctx.log('device fuzz executed: %d machines' % len(fuzz_jobs))
    # an execution that crashed / overran its wall-clock guard comes back from pmap as a crash record, not as a list of traces
    fres = [r_ if isinstance(r_, list) else [{'_skip': 'fuzz of %s/%s not completed (%s)' % (
        os.path.basename(j[0]), j[1], str((r_.get('ev') or [{}])[0].get('what', 'crash'))[:80])}] for r_, j in zip(fres, fuzz_jobs)]
    ftraces = [t for r_ in fres for t in r_ if '_skip' not in t]
    ctx.coverage['device_machines'] = sorted({t['_machine'] for t in ftraces})
    ctx.coverage['device_machines_skipped'] = [t['_skip'] for r_ in fres for t in r_ if '_skip' in t][:10]
    ctx.coverage['device_commands_judged'] = sum(len(t['ev']) for t in ftraces)
    ctx.coverage['device_rules_judged'] = sum(1 for t in ftraces for e in t['ev'] if e['c'][0] == 'rule')
    ctx.coverage['api_postponed_requests'] = sum(1 for t in traces for e in t['ev']
                                                 if e.get('mw', NONE) != NONE and not e.get('err') and not e.get('cmds')
                                                 and e['op'] in ('pulse', 'enable'))
    ctx.coverage['api_default_changes'] = sum(1 for t in traces for e in t['ev'] if e['op'] == 'setdef')
    ctx.coverage['light_requests'] = sum(1 for t in traces for e in t['ev'] if e['op'] == 'lightreq')
    ctx.coverage['light_channel_steps_judged'] = sum(1 for t in traces for e in t['ev'] if e['op'] == 'light')
    ctx.coverage['light_channel_steps_refused'] = sum(1 for t in traces for e in t['ev'] if e['op'] == 'light' and e.get('err'))
    alltr = traces + ftraces
    with open(wd + '/Trace.cfg', 'w') as f:
        f.write("""SPECIFICATION TSpec
CONSTANTS
  Configs <- TConfigs
  NONE <- TNONE
  PlatMaxPulse = 255
  MsVals = {}
  PowVals = {}
  TeVals = {}
  MwVals = {}
  OtherMs = {}
  DefVals = {}
  Steps = {}
  LightVals = {}
  FadeMs = {}
  Tick = %d
  Rel = %d
  MaxPend = 1000000
  MaxTime = 100000000
  MaxOps = 1000000
INVARIANT Reporter
INVARIANT RefuseNotCommand
CHECK_DEADLOCK FALSE
""" % (TICK, REL))
    v = tlc.validate_traces(wd, 'CoilTrace', 'Trace.cfg', alltr)
    tlc.finish_diagnosis(wd, 'CoilTrace', 'Trace.cfg', alltr, v)
    ctx.add_trace_verdict('CoilTrace', v, len(alltr))
    ctx.sample({'kind': 'coil-api-trace', 'cfg': traces[0]['cfg'], 'trace': traces[0]['ev'][:8]})
    if ftraces:
        ctx.sample({'kind': 'device-command-trace', 'machine': ftraces[0]['_machine'], 'coil': ftraces[0]['_coil'], 'trace': ftraces[0]['ev'][:6]})
    for i, info in sorted(v.rejected.items()):
        if info.get('line') is None:
            continue
        fe = info.get('failing_event') or {}
        tr = alltr[i]
        if i >= len(traces):
            sig = 'C08:device-command:%s:%s' % (tr['_machine'].split('machine_files/')[-1], tr['_coil'])
            what = 'command %s of coil %s in %s outside its envelope %s' % (fe.get('c'), tr['_coil'], tr['_machine'], tr['cfg'])
            rp = {'kind': 'fuzz', 'job': list(fuzz_jobs[0]), 'trace': tr, 'info': info}
        else:
            cls = classify(fe, tr['cfg'], tr, info.get('line'))
            sig = 'C08:api:%s:%s' % (fe.get('op', '?'), cls)
            what = 'coil call not explained by Coil spec at line %s: %s (cfg %s)' % (info.get('line'), fe, tr['cfg'])
            if cls == 'coil-on-through-its-light':
                what += ('; the coil was last switched on by a brightness step of its light (lights: platform: drivers), and what the '
                         'platform driver then saw in this step is not what the coil\'s envelope (hold watchdog max_hold_duration '
                         '%s ms, power limits) allows: %s' % (tr['cfg']['maxHoldDur'], [e for e in tr['ev'][:info['line']]][-6:]))
            rp = {'kind': 'api', 'job': [jobs[i][1], jobs[i][2], jobs[i][3], jobs[i][4]], 'trace': tr, 'info': info}
        ctx.violation(sig, what, rp)
    run_multi(ctx, wd)
    ctx.assumptions += ['commands are observed at the platform driver interface (hw_driver) and the rule interface of the virtual platform',
                        'the power supply is modelled as mpf/devices/power_supply_unit.py computes its busy time; max_wait_ms values '
                        'are chosen so that no wait ends exactly at a limit', 'digital_outputs are not coils and are not judged']


def classify(fe, cfg, tr=None, line=None):
    """Name the parameter class that made the call deviate (for stable finding signatures)."""
    neg = [k for k in ('ms', 'pp', 'hp', 'te') if isinstance(fe.get(k), int) and fe[k] != NONE and fe[k] < 0]
    if neg and not fe.get('err'):
        return 'negative-%s-not-refused' % '-'.join(neg)
    if fe.get('op') == 'light':
        return 'brightness-step-of-its-light'
    if tr is not None and line:
        # was the coil switched on by its light since it was last off, before the step that is not explained
        for e in reversed(tr['ev'][:line - 1]):
            cmds = e.get('cmds', [])
            if e['op'] == 'light' and any(c[0] == 'enable' for c in cmds):
                return 'coil-on-through-its-light'
            if cmds and cmds[-1][0] == 'disable':
                break
    return 'other'


def replay(ctx, data):
    d = data['replay']
    if d['kind'] == 'api':
        mdir = write_machine(ctx.scratch)
        tr = exec_schedule((mdir, d['job'][0], d['job'][1], d['job'][2]) + tuple(d['job'][3:4]))
        print('replay trace:', tr['ev'])
    elif d['kind'] == 'multi':
        mdir = write_machine_multi(ctx.scratch)
        tr = exec_multi((mdir, d['job'][0], d['job'][1]))
        print('replay trace:', [brief(e) for e in tr['ev']])
