"""The repository's own tests as trace sources: run test modules of the tree under test with the recorder plugin
(lib/suite_rec.py) and return the distinct recorded segments."""
import glob
import json
import os
import subprocess
import sys
import time
from concurrent.futures import ThreadPoolExecutor

VERIF = os.path.dirname(os.path.dirname(os.path.abspath(__file__)))
REPO = os.environ.get('VERIF_REPO', '/repo')

# modules with the richest event cascades first (distinct segments per second measured on the unchanged tree)
QUICK_MODULES = [
    'test_EventManager', 'test_LogicBlocks', 'test_Achievement', 'test_MultiBall', 'test_MultiballLock', 'test_Shots',
    'test_Shows', 'test_ServiceMode', 'test_Head2Head', 'test_Timer', 'test_VariablePlayer', 'test_ShotGroups',
    'test_SmartVirtualPlatform', 'test_BallDevice', 'test_SegmentDisplay', 'test_Diverter', 'test_ComboSwitches',
    'test_BallSearch', 'test_RandomEventPlayer', 'test_BallSave', 'test_EventPlayer', 'test_BallRouting', 'test_Bonus',
    'test_ExtraBall', 'test_Tilt', 'test_BallHold', 'test_CarouselMode', 'test_Game', 'test_System11Trough',
    'test_DropTargets', 'test_Attract', 'test_SequenceShot', 'test_QueueEventPlayer', 'test_Modes', 'test_CreditsMode',
    'test_Delay', 'test_SwitchController', 'test_PlayerVars', 'test_MachineVariables', 'test_HighScoreMode',
]


def all_modules():
    return sorted(os.path.basename(f)[:-3] for f in glob.glob(os.path.join(REPO, 'mpf', 'tests', 'test_*.py')))


def _run_module(args):
    mod, out, tmp, prefix, extra_env = args
    env = dict(os.environ)
    env.update({'TMPDIR': tmp, 'VERIF_SUITE_OUT': out, 'PYTHONPATH': '%s/lib:%s' % (VERIF, REPO), 'PYTHONHASHSEED': '0'})
    env.update(extra_env or {})
    t0 = time.time()
    try:
        p = subprocess.run([sys.executable, '-m', 'pytest', '-q', '-p', 'no:cacheprovider', '-p', 'suite_rec', '--timeout=600',
                            'mpf/tests/%s.py' % mod], cwd=REPO, env=env, stdout=subprocess.PIPE, stderr=subprocess.STDOUT,
                           text=True, timeout=900)
        tail = p.stdout.strip().splitlines()[-1] if p.stdout.strip() else ''
    except subprocess.TimeoutExpired:
        tail = 'timeout'
    return mod, time.time() - t0, tail


def record(ctx, modules, prefix='bus', nproc=16, extra_env=None):
    """Run the modules (one pytest process each, nproc at a time); return (distinct segments, stats)."""
    out = os.path.join(ctx.scratch, 'suite_%s_%d' % (prefix, int(time.time() * 1000)))
    os.makedirs(out)
    have = set(all_modules())
    mods = [m for m in modules if m in have]
    with ThreadPoolExecutor(nproc) as ex:
        res = list(ex.map(_run_module, [(m, out, ctx.tmpdir, prefix, extra_env) for m in mods]))
    segs, seen = [], set()
    for fn in sorted(glob.glob(os.path.join(out, prefix + '_*.ndjson'))):
        for line in open(fn):
            t = json.loads(line)
            if t['_key'] in seen:
                continue
            seen.add(t['_key'])
            segs.append(t)
    segs.sort(key=lambda t: t['_key'])
    stats = {}
    for fn in glob.glob(os.path.join(out, 'stats_*.json')):
        for k, v in json.load(open(fn)).items():
            stats[k] = stats.get(k, 0) + v
    stats['modules'] = len(mods)
    stats['module_results'] = {m: tail[-60:] for m, _, tail in res}
    stats['slowest_module_s'] = round(max([w for _, w, _ in res] or [0]), 1)
    return segs, stats
