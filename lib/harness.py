"""Boot real MPF (from /repo) in virtual time, reusing the repository's own MpfTestCase plumbing."""
import multiprocessing
import os
import sys

VERIF = os.path.dirname(os.path.dirname(os.path.abspath(__file__)))
REPO = os.environ.get('VERIF_REPO', '/repo')    # the tree under test (a scratch worktree when trying seeded changes)
if REPO not in sys.path:
    sys.path.insert(0, REPO)

from mpf.tests.MpfTestCase import MpfTestCase  # noqa: E402
from mpf.tests.MpfFakeGameTestCase import MpfFakeGameTestCase  # noqa: E402


def _mk(base):
    class H(base):
        _machine_dir = None
        _config_file = 'config.yaml'
        _platform = 'virtual'
        _mock_data_v = None
        _options_v = None

        def runTest(self):  # pragma: no cover
            pass

        def get_config_file(self):
            return self._config_file

        def get_absolute_machine_path(self):
            return self._machine_dir

        def get_machine_path(self):
            return self._machine_dir

        def get_platform(self):
            return self._platform

        def get_options(self):
            o = super().get_options()
            o.update(self._options_v or {})
            return o

        def _get_mock_data(self):
            return self._mock_data_v if self._mock_data_v is not None else dict()

        def advance_time_and_run(self, delta=1.0):
            """As the base class, but an exception raised in a loop callback is never lost: the base class only looks at
            the recorded exception when the loop was stopped before the sleep completed, which a zero-length advance
            always wins."""
            super().advance_time_and_run(delta)
            if getattr(self, '_exception', None):
                ctx = self._exception
                self._exception = None
                exc = ctx.get('exception') if isinstance(ctx, dict) else None
                raise exc if exc is not None else RuntimeError('loop exception: %r' % (ctx,))

        # convenience
        def now_ms(self):
            return int(round(self.machine.clock.get_time() * 1000))

        def run_ms(self, ms):
            self.advance_time_and_run(ms / 1000.0)

    return H


_H = _mk(MpfTestCase)
_HG = _mk(MpfFakeGameTestCase)


def boot(machine, config='config.yaml', platform='virtual', fake_game=False, mock_data=None, patches=None,
         machine_dir=None, options=None):
    """Boot a machine from /verif/machines/<machine> (or an absolute machine_dir). Returns the harness."""
    cls = _HG if fake_game else _H
    h = cls('runTest')
    h._machine_dir = machine_dir or os.path.join(VERIF, 'machines', machine)
    h._config_file = config
    h._platform = platform
    h._mock_data_v = mock_data
    h._options_v = options
    if patches:
        for k, v in patches.items():
            h.machine_config_patches[k] = v
    h.expected_duration = 1e9
    h.setUp()
    return h


def shutdown(h):
    try:
        h.tearDown()
    except Exception:  # pylint: disable=broad-except
        pass


class _Guard:
    """Picklable wrapper: run fn(item) under a wall-clock alarm so that a hung execution becomes an exception."""

    def __init__(self, fn, seconds):
        self.fn = fn
        self.seconds = seconds

    def __call__(self, item):
        import signal

        def onalarm(signum, frame):
            raise TimeoutError('execution exceeded %ds wall clock' % self.seconds)
        old = signal.signal(signal.SIGALRM, onalarm)
        signal.alarm(self.seconds)
        try:
            return self.fn(item)
        finally:
            signal.alarm(0)
            signal.signal(signal.SIGALRM, old)


def _pmap_worker(fn, items, idxs, conn):
    """Runs in a forked child: items[idx] one by one, every result sent to the parent as soon as it exists."""
    try:
        for idx in idxs:
            conn.send(('start', idx, None))
            try:
                res = fn(items[idx])
            except BaseException as ex:  # pylint: disable=broad-except
                res = _HarnessFailure('%s: %r' % (type(ex).__name__, ex))
            conn.send(('done', idx, res))
    finally:
        conn.close()


class _HarnessFailure:
    """Result placeholder for an item whose worker died or had to be killed."""

    def __init__(self, what):
        self.what = what


def pmap(fn, items, nproc=None, chunk=1, item_timeout=600):
    """Parallel map with forked workers (each boots its own machines).  A worker that hangs on an item (busy loop that
    swallows the alarm of _Guard, dead-locked thread) is killed by the parent after item_timeout + 60 s; the item gets
    the result fn would give for a crash ({'ev': [{'op': 'crash', ...}]}) and a fresh worker takes over the rest."""
    import time as _time
    items = list(items)
    del chunk
    guarded = _Guard(fn, item_timeout) if item_timeout else fn
    nproc = min(nproc or int(os.environ.get('VERIF_NPROC', '16')), max(1, len(items)))
    if nproc <= 1:
        return [guarded(x) for x in items]
    ctxm = multiprocessing.get_context('fork')
    results = [None] * len(items)
    todo = [list(range(k, len(items), nproc)) for k in range(nproc)]     # static interleaved slices
    workers = {}        # slot -> [process, conn, current idx, started at]

    def spawn(slot):
        if not todo[slot]:
            return
        parent, child = ctxm.Pipe(duplex=False)
        pr = ctxm.Process(target=_pmap_worker, args=(guarded, items, list(todo[slot]), child))
        pr.daemon = True
        pr.start()
        child.close()
        workers[slot] = [pr, parent, None, _time.time()]

    for slot in range(nproc):
        spawn(slot)
    limit = (item_timeout or 600) + 60
    while workers:
        for slot in list(workers):
            pr, conn, cur, t0 = workers[slot]
            dead = False
            try:
                while conn.poll(0.02):
                    kind, idx, res = conn.recv()
                    if kind == 'start':
                        workers[slot][2], workers[slot][3] = idx, _time.time()
                    else:
                        results[idx] = res
                        todo[slot].remove(idx)
                        workers[slot][2] = None
            except (EOFError, OSError):
                dead = True
            cur, t0 = workers[slot][2], workers[slot][3]
            if not dead and not todo[slot]:
                pr.join(5)
                del workers[slot]
                continue
            hung = cur is not None and _time.time() - t0 > limit
            if dead or hung or not pr.is_alive():
                if pr.is_alive():
                    pr.kill()
                pr.join(5)
                del workers[slot]
                if todo[slot]:
                    bad = cur if cur is not None else todo[slot][0]
                    results[bad] = _HarnessFailure('worker %s on this item' % ('hung (killed after %ds)' % limit if hung else 'died'))
                    todo[slot].remove(bad)
                    spawn(slot)
    out = []
    for idx, r in enumerate(results):
        if isinstance(r, _HarnessFailure) or r is None:
            # the shape every driver's exec function returns for a crash
            r = {'ev': [{'op': 'crash', 'what': 'harness: %s' % (r.what if r is not None else 'no result')}], '_harness': True}
        out.append(r)
    return out
