"""Boot real MPF (from /repo) in virtual time, reusing the repository's own MpfTestCase plumbing."""
import multiprocessing
import os
import sys

VERIF = os.path.dirname(os.path.dirname(os.path.abspath(__file__)))
REPO = os.environ.get('VERIF_REPO', '/repo')    # the tree under test (a scratch worktree when trying seeded changes)
if REPO not in sys.path:
    sys.path.insert(0, REPO)

from mpf.tests.MpfTestCase import MpfTestCase  # noqa: E402
from mpf.tests.MpfFakeGameTestCase import MpfFakeGameTestCase  # noqa: E402


def _mk(base):
    class H(base):
        _machine_dir = None
        _config_file = 'config.yaml'
        _platform = 'virtual'
        _mock_data_v = None
        _options_v = None

        def runTest(self):  # pragma: no cover
            pass

        def get_config_file(self):
            return self._config_file

        def get_absolute_machine_path(self):
            return self._machine_dir

        def get_machine_path(self):
            return self._machine_dir

        def get_platform(self):
            return self._platform

        def get_options(self):
            o = super().get_options()
            o.update(self._options_v or {})
            return o

        def _get_mock_data(self):
            return self._mock_data_v if self._mock_data_v is not None else dict()

        def advance_time_and_run(self, delta=1.0):
            """As the base class, but an exception raised in a loop callback is never lost: the base class only looks at
            the recorded exception when the loop was stopped before the sleep completed, which a zero-length advance
            always wins."""
            super().advance_time_and_run(delta)
            if getattr(self, '_exception', None):
                ctx = self._exception
                self._exception = None
                exc = ctx.get('exception') if isinstance(ctx, dict) else None
                raise exc if exc is not None else RuntimeError('loop exception: %r' % (ctx,))

        # convenience
        def now_ms(self):
            return int(round(self.machine.clock.get_time() * 1000))

        def run_ms(self, ms):
            self.advance_time_and_run(ms / 1000.0)

    return H


_H = _mk(MpfTestCase)
_HG = _mk(MpfFakeGameTestCase)


def boot(machine, config='config.yaml', platform='virtual', fake_game=False, mock_data=None, patches=None,
         machine_dir=None, options=None):
    """Boot a machine from /verif/machines/<machine> (or an absolute machine_dir). Returns the harness."""
    cls = _HG if fake_game else _H
    h = cls('runTest')
    h._machine_dir = machine_dir or os.path.join(VERIF, 'machines', machine)
    h._config_file = config
    h._platform = platform
    h._mock_data_v = mock_data
    h._options_v = options
    if patches:
        for k, v in patches.items():
            h.machine_config_patches[k] = v
    h.expected_duration = 1e9
    h.setUp()
    return h


def shutdown(h):
    try:
        h.tearDown()
    except Exception:  # pylint: disable=broad-except
        pass


class _Guard:
    """Picklable wrapper: run fn(item) under a wall-clock alarm so that a hung execution becomes an exception."""

    def __init__(self, fn, seconds):
        self.fn = fn
        self.seconds = seconds

    def __call__(self, item):
        import signal

        def onalarm(signum, frame):
            raise TimeoutError('execution exceeded %ds wall clock' % self.seconds)
        old = signal.signal(signal.SIGALRM, onalarm)
        signal.alarm(self.seconds)
        try:
            return self.fn(item)
        finally:
            signal.alarm(0)
            signal.signal(signal.SIGALRM, old)


def pmap(fn, items, nproc=None, chunk=1, item_timeout=600):
    """Parallel map with forked workers (each boots its own machines)."""
    items = list(items)
    if item_timeout:
        fn = _Guard(fn, item_timeout)
    nproc = min(nproc or int(os.environ.get('VERIF_NPROC', '16')), max(1, len(items)))
    if nproc <= 1:
        return [fn(x) for x in items]
    ctxm = multiprocessing.get_context('fork')
    with ctxm.Pool(nproc) as pool:
        return pool.map(fn, items, chunksize=chunk)
