"""Thin wrapper around TLC: exhaustive check, simulation (schedule generation), trace batches."""
import glob
import json
import os
import re
import shutil
import subprocess
import time

from . import tlaval

VERIF = os.path.dirname(os.path.dirname(os.path.abspath(__file__)))
JAR = '/opt/veriftools/tla/tla2tools.jar:/opt/veriftools/tla/CommunityModules-deps.jar'


class TLCError(Exception):
    """Machinery failure (exit 2)."""


class TLCResult:
    def __init__(self, out, rc, wall):
        self.out = out
        self.rc = rc
        self.wall = wall
        m = re.findall(r'(\d+) states generated, (\d+) distinct states found, (\d+) states left on queue', out)
        self.generated, self.distinct, self.left = (int(x) for x in m[-1]) if m else (0, 0, 0)
        m = re.search(r'depth of the complete state graph search is (\d+)', out)
        self.depth = int(m.group(1)) if m else 0
        self.ok = 'Model checking completed. No error has been found.' in out
        self.violated = None
        m = re.search(r'Invariant (\S+) is violated', out)
        if m:
            self.violated = m.group(1)
        m = re.search(r'Action property (\S+) is violated', out)
        if m:
            self.violated = m.group(1)
        if 'Temporal properties were violated' in out:
            self.violated = self.violated or 'TemporalProperty'
        if 'Deadlock reached' in out:
            self.violated = self.violated or 'Deadlock'
        self.errors = re.findall(r'^Error: (.*)$', out, re.M)

    def counterexample(self):
        """Return list of (action, statedict) of the printed error trace, if any."""
        states = []
        for m in re.finditer(r'^State (\d+): <([^>\n]*)>\n((?:(?!^State |^\d+ states generated|^Error|^Finished|^The ).*\n)*)',
                             self.out, re.M):
            try:
                states.append((m.group(2), tlaval.parse_state(m.group(3))))
            except Exception:  # pylint: disable=broad-except
                states.append((m.group(2), {'_raw': m.group(3)}))
        return states

    def coverage(self):
        """Per-action counts from -coverage output: {action: (distinct, total)}."""
        cov = {}
        for m in re.finditer(r'^<(\w+) line (\d+), col \d+ to line \d+, col \d+ of module (\w+)>: (\d+):(\d+)', self.out, re.M):
            name = m.group(1)
            d, t = int(m.group(4)), int(m.group(5))
            od, ot = cov.get(name, (0, 0))
            cov[name] = (max(od, d), max(ot, t))
        return cov


def prepare(scratch, spec_dir, name=None):
    """Copy specs/<spec_dir> and specs/common into a fresh working directory."""
    wd = os.path.join(scratch, name or ('tlc_' + spec_dir.replace('/', '_') + '_%d' % int(time.time() * 1000)))
    os.makedirs(wd, exist_ok=True)
    for d in (os.path.join(VERIF, 'specs', 'common'), os.path.join(VERIF, 'specs', spec_dir)):
        for f in glob.glob(os.path.join(d, '*.tla')) + glob.glob(os.path.join(d, '*.cfg')):
            shutil.copy(f, wd)
    return wd


def _run(wd, args, timeout, env=None, javaopts=()):
    e = dict(os.environ)
    e.pop('JAVA_TOOL_OPTIONS', None)
    if env:
        e.update(env)
    cmd = ['java', '-XX:+UseParallelGC', '-Xss16m'] + list(javaopts) + ['-cp', JAR, 'tlc2.TLC'] + args
    t0 = time.time()
    try:
        p = subprocess.run(cmd, cwd=wd, env=e, stdout=subprocess.PIPE, stderr=subprocess.STDOUT,
                           timeout=timeout, text=True, errors='replace')
    except subprocess.TimeoutExpired as ex:
        raise TLCError('TLC timeout after %ss: %s' % (timeout, ' '.join(args))) from ex
    return TLCResult(p.stdout, p.returncode, time.time() - t0)


def check(wd, module, cfg, workers=16, timeout=600, coverage=False, extra=(), env=None, dfs=False):
    """Exhaustive model check of module with config file cfg (paths relative to wd)."""
    meta = os.path.join(wd, 'meta_%s_%d' % (os.path.basename(cfg), int(time.time() * 1000)))
    args = ['-workers', str(workers), '-metadir', meta, '-noGenerateSpecTE', '-config', cfg]
    if coverage:
        args += ['-coverage', '1']
    args += list(extra) + [module]
    jo = ['-Dtlc2.tool.queue.IStateQueue=StateDeque'] if dfs else []
    r = _run(wd, args, timeout, env, jo)
    shutil.rmtree(meta, ignore_errors=True)
    return r


def expect_ok(r, what):
    if not r.ok:
        raise TLCError('%s: TLC did not complete cleanly (violated=%s, errors=%s)\n%s' % (
            what, r.violated, r.errors[:3], r.out[-3000:]))
    return r


def simulate(wd, module, cfg, num, depth, seed, timeout=600, env=None):
    """Run `tlc -simulate` and return list of behaviours, each a list of state dicts."""
    simdir = os.path.join(wd, 'sim_%d' % int(time.time() * 1000))
    os.makedirs(simdir)
    meta = os.path.join(wd, 'metasim_%d' % int(time.time() * 1000))
    args = ['-simulate', 'file=%s/tr,num=%d' % (simdir, num), '-depth', str(depth), '-workers', '1',
            '-seed', str(seed), '-metadir', meta, '-noGenerateSpecTE', '-deadlock', '-config', cfg, module]
    # a simulation worker that dies (observed: StackOverflowError in a TLC worker thread for one particular seed) leaves
    # TLC waiting forever: bounded attempts, each with a derived seed
    r = None
    for attempt in range(3):
        try:
            r = _run(wd, args, min(timeout, 240) if attempt < 2 else timeout, env)
            if 'StackOverflowError' not in r.out:
                break
        except TLCError:
            if attempt == 2:
                raise
        shutil.rmtree(simdir, ignore_errors=True)
        os.makedirs(simdir)
        args[args.index('-seed') + 1] = str(seed + 7919 * (attempt + 1))
    if r.errors and not any('deadlock' in x.lower() for x in r.errors):
        raise TLCError('simulate failed: %s\n%s' % (r.errors[:3], r.out[-2000:]))
    behaviours = []
    for f in sorted(glob.glob(simdir + '/tr*')):
        try:
            b = tlaval.parse_simulate_file(f)
        except Exception as ex:  # pylint: disable=broad-except
            raise TLCError('cannot parse simulate file %s: %s' % (f, ex)) from ex
        if b:
            behaviours.append(b)
    shutil.rmtree(simdir, ignore_errors=True)
    shutil.rmtree(meta, ignore_errors=True)
    return behaviours, r


def finish_diagnosis(wd, module, cfg, traces, v, skip=(), limit=2000, timeout=1200):
    """validate_traces locates the failing line of only the first few rejected traces of a batch.  Before a driver reports,
    every rejected trace it is going to report (i.e. not in `skip`, the ones already explained by a named deviation) must
    carry a failing line: all of them are located in ONE verbose TLC run (the reporter prints every position reached, the
    longest matched prefix is the maximum per trace); beyond `limit` they are marked so that they are still reported."""
    todo = [i for i, info in sorted(v.rejected.items()) if i not in skip and info.get('reason') == 'unexplained'
            and info.get('line') is None]
    for i in todo[limit:]:
        v.rejected[i].update({'line': 0, 'failing_event': {'op': 'undiagnosed'}, 'prev_event': None})
    todo = todo[:limit]
    for b0 in range(0, len(todo), 250):
        ids = todo[b0:b0 + 250]
        path = _write_batch(wd, traces, ids, 'diag.ndjson')
        r = check(wd, module, cfg, workers=4, timeout=timeout, env={'TRACE_FILE': path, 'VERBOSE': '1'})
        v.runs += 1
        reach = {}
        for t, l in re.findall(r'AT (\d+) (\d+)', r.out):
            reach[int(t)] = max(reach.get(int(t), 0), int(l))
        for k, i in enumerate(ids, 1):
            info = v.rejected[i]
            mx = reach.get(k, 0)
            info['line'] = mx
            ev = traces[i].get('ev', [])
            info['failing_event'] = ev[mx - 1] if 0 < mx <= len(ev) else None
            info['prev_event'] = ev[mx - 2] if 1 < mx <= len(ev) + 1 else None
    return len(todo)


class TraceVerdict:
    def __init__(self):
        self.accepted = set()
        self.rejected = {}      # tid -> dict(reason, line, detail)
        self.states = 0
        self.transitions = 0
        self.wall = 0.0
        self.runs = 0


def validate_traces(wd, module, cfg, traces, workers=4, timeout=900, batch=400, diagnose=True, consts=None):
    """Validate traces (list of dicts with at least 'ev': [...]) against the Trace module.

    Each trace becomes one ndjson line; the Trace module picks `tid` in its Init.  The module
    must print "ACCEPT <tid>" (PrintT) when a trace has been consumed to its end and, when the
    environment variable VERBOSE=1 is set, "AT <tid> <l>" for every reached position.
    Invariants in cfg are the property monitors; a violated invariant rejects the trace whose tid
    appears in the counterexample's last state.
    """
    v = TraceVerdict()
    t0 = time.time()
    todo = list(range(len(traces)))
    for b0 in range(0, len(todo), batch):
        ids = todo[b0:b0 + batch]
        _validate_batch(wd, module, cfg, traces, ids, v, workers, timeout, diagnose)
    v.wall = time.time() - t0
    return v


def _write_batch(wd, traces, ids, fname):
    path = os.path.join(wd, fname)
    with open(path, 'w') as f:
        for k, i in enumerate(ids):
            rec = {k2: v2 for k2, v2 in traces[i].items() if not k2.startswith('_')}
            rec['tid'] = k + 1
            f.write(json.dumps(rec, separators=(',', ':')) + '\n')
    return path


def _validate_batch(wd, module, cfg, traces, ids, v, workers, timeout, diagnose):
    ids = list(ids)
    guard = 0
    while ids:
        guard += 1
        if guard > 50:
            raise TLCError('too many monitor violations in one batch; giving up')
        path = _write_batch(wd, traces, ids, 'batch.ndjson')
        r = check(wd, module, cfg, workers=workers, timeout=timeout, env={'TRACE_FILE': path, 'VERBOSE': '0'})
        v.runs += 1
        v.states += r.distinct
        v.transitions += r.generated
        acc = set(int(x) for x in re.findall(r'ACCEPT (\d+)', r.out))
        if r.violated:
            ce = r.counterexample()
            tid = None
            if ce and isinstance(ce[-1][1], dict) and 'tid' in ce[-1][1]:
                tid = ce[-1][1]['tid']
                line = ce[-1][1].get('l')
            if tid is None and workers != 1:
                # interleaved output of several workers can garble the printed counterexample: once more, single worker
                workers = 1
                continue
            if tid is None:
                raise TLCError('monitor %s violated but no tid in counterexample\n%s' % (r.violated, r.out[-3000:]))
            v.rejected[ids[tid - 1]] = {'reason': 'monitor', 'monitor': r.violated, 'line': line,
                                        'state': {k: x for k, x in ce[-1][1].items() if k not in ('tid',)}}
            # traces fully accepted before the violation stay accepted; re-run the others
            done = set(ids[a - 1] for a in acc)
            v.accepted |= done
            ids = [i for k, i in enumerate(ids) if (k + 1) != tid and i not in done]
            continue
        if not r.ok:
            raise TLCError('trace validation run failed: %s\n%s' % (r.errors[:3], r.out[-3000:]))
        for k, i in enumerate(ids):
            if (k + 1) in acc:
                v.accepted.add(i)
            else:
                v.rejected[i] = {'reason': 'unexplained', 'line': None}
        break
    if diagnose:
        ndiag = 0
        for i, info in v.rejected.items():
            if ndiag >= 8:
                break
            if i in ids and info['reason'] == 'unexplained' and info['line'] is None:
                ndiag += 1
                path = _write_batch(wd, traces, [i], 'single.ndjson')
                r = check(wd, module, cfg, workers=1, timeout=timeout, env={'TRACE_FILE': path, 'VERBOSE': '1'})
                ls = [int(x) for x in re.findall(r'AT 1 (\d+)', r.out)]
                mx = max(ls) if ls else 0
                info['line'] = mx
                ev = traces[i].get('ev', [])
                info['failing_event'] = ev[mx - 1] if 0 < mx <= len(ev) else None
                info['prev_event'] = ev[mx - 2] if 1 < mx <= len(ev) + 1 else None
