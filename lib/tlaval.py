"""Parser for TLA+ values as TLC prints them (state dumps, -simulate files, PrintT).

Records -> dict, sequences/tuples -> list, sets -> frozenset-like sorted list wrapped in TlaSet,
functions (a :> 1 @@ b :> 2) -> dict, strings -> str, ints -> int, TRUE/FALSE -> bool,
model values / identifiers -> str.
"""
import re


class TlaSet(list):
    """A TLA+ set, kept as a list (order as printed)."""


_tok = re.compile(r'''\s*(?:
    (?P<str>"(?:[^"\\]|\\.)*") |
    (?P<num>-?\d+) |
    (?P<lseq><<) | (?P<rseq>>>) |
    (?P<map>\|->) | (?P<fcol>:>) | (?P<fat>@@) | (?P<dots>\.\.) |
    (?P<id>[A-Za-z_][A-Za-z0-9_!]*) |
    (?P<p>[\[\]\{\}\(\),])
)''', re.X)


def tokenize(s):
    pos = 0
    out = []
    n = len(s)
    while pos < n:
        m = _tok.match(s, pos)
        if not m:
            if s[pos:].strip() == '':
                break
            raise ValueError("cannot tokenize at %r" % s[pos:pos + 40])
        pos = m.end()
        k = m.lastgroup
        out.append((k, m.group(k)))
    return out


class _P:
    def __init__(self, toks):
        self.t = toks
        self.i = 0

    def peek(self):
        return self.t[self.i] if self.i < len(self.t) else (None, None)

    def eat(self, kind=None, val=None):
        k, v = self.peek()
        if (kind and k != kind) or (val and v != val):
            raise ValueError("expected %s %s got %s %s at %d" % (kind, val, k, v, self.i))
        self.i += 1
        return v

    def value(self):
        v = self.atom()
        # function composition  a :> b @@ c :> d
        k, t = self.peek()
        if k == 'fcol':
            d = {}
            key = v
            self.eat('fcol')
            d[_key(key)] = self.atom()
            while self.peek()[0] == 'fat':
                self.eat('fat')
                key = self.atom()
                self.eat('fcol')
                d[_key(key)] = self.atom()
            return d
        if k == 'dots':
            self.eat('dots')
            hi = self.atom()
            return TlaSet(range(v, hi + 1))
        return v

    def atom(self):
        k, v = self.peek()
        if k == 'str':
            self.i += 1
            return bytes(v[1:-1], 'utf-8').decode('unicode_escape') if '\\' in v else v[1:-1]
        if k == 'num':
            self.i += 1
            return int(v)
        if k == 'id':
            self.i += 1
            if v == 'TRUE':
                return True
            if v == 'FALSE':
                return False
            return v
        if k == 'lseq':
            self.i += 1
            out = []
            while self.peek()[0] != 'rseq':
                out.append(self.value())
                if self.peek() == ('p', ','):
                    self.i += 1
            self.eat('rseq')
            return out
        if (k, v) == ('p', '{'):
            self.i += 1
            out = TlaSet()
            while self.peek() != ('p', '}'):
                out.append(self.value())
                if self.peek() == ('p', ','):
                    self.i += 1
            self.eat('p', '}')
            return out
        if (k, v) == ('p', '('):
            self.i += 1
            x = self.value()
            self.eat('p', ')')
            return x
        if (k, v) == ('p', '['):
            self.i += 1
            d = {}
            while self.peek() != ('p', ']'):
                name = self.eat('id')
                self.eat('map')
                d[name] = self.value()
                if self.peek() == ('p', ','):
                    self.i += 1
            self.eat('p', ']')
            return d
        raise ValueError("unexpected token %s %s at %d" % (k, v, self.i))


def _key(k):
    if isinstance(k, list):
        return tuple(k)
    return k


def parse(s):
    p = _P(tokenize(s))
    v = p.value()
    if p.i != len(p.t):
        raise ValueError("trailing tokens in %r" % s[:80])
    return v


_conj = re.compile(r'^/\\ (\w+) = ', re.M)


def parse_state(text):
    """Parse a TLC state printed as '/\\ v1 = ...\n/\\ v2 = ...' into a dict."""
    text = text.strip()
    if not text.startswith('/\\'):
        text = '/\\ ' + text
    ms = list(_conj.finditer(text))
    out = {}
    for i, m in enumerate(ms):
        end = ms[i + 1].start() if i + 1 < len(ms) else len(text)
        out[m.group(1)] = parse(text[m.end():end])
    return out


_state_hdr = re.compile(r'^STATE_(\d+) ==\s*$', re.M)


def parse_simulate_file(path):
    """Parse a file written by `tlc -simulate file=...`: returns list of state dicts."""
    txt = open(path).read()
    ms = list(_state_hdr.finditer(txt))
    states = []
    for i, m in enumerate(ms):
        end = ms[i + 1].start() if i + 1 < len(ms) else len(txt)
        body = txt[m.end():end]
        # cut trailing comment/action lines and separators
        lines = []
        for ln in body.splitlines():
            if ln.startswith('\\*') or ln.startswith('====') or ln.startswith('----'):
                continue
            lines.append(ln)
        states.append(parse_state('\n'.join(lines)))
    return states


def to_tla(v):
    """Render a python value as a TLA+ expression."""
    if isinstance(v, bool):
        return 'TRUE' if v else 'FALSE'
    if isinstance(v, int):
        return str(v)
    if isinstance(v, str):
        return '"' + v.replace('\\', '\\\\').replace('"', '\\"') + '"'
    if isinstance(v, (TlaSet, set, frozenset)):
        return '{' + ', '.join(to_tla(x) for x in v) + '}'
    if isinstance(v, (list, tuple)):
        return '<<' + ', '.join(to_tla(x) for x in v) + '>>'
    if isinstance(v, dict):
        if not v:
            return '<<>>'
        if all(isinstance(k, str) and re.match(r'^[A-Za-z_]\w*$', k) for k in v):
            return '[' + ', '.join('%s |-> %s' % (k, to_tla(x)) for k, x in v.items()) + ']'
        return '(' + ' @@ '.join('%s :> %s' % (to_tla(k), to_tla(x)) for k, x in v.items()) + ')'
    raise TypeError(type(v))
