"""Common check runner: scratch dir, seeds, evidence, known findings, verdict and exit codes.

exit 0: property held on everything explored (known findings printed as KNOWN-FINDING lines)
exit 1: VIOLATION property=<id> replay=<path>
exit 2: machinery failure (TLC crash/timeout, wrong import path, vacuous coverage, design-level
        counterexample in our own specification)
"""
import hashlib
import importlib
import json
import os
import shutil
import sys
import tempfile
import time
import traceback

VERIF = os.path.dirname(os.path.dirname(os.path.abspath(__file__)))


class Machinery(Exception):
    """Machinery failure -> exit 2."""


class Ctx:
    def __init__(self, pid, tier, seed, replay=None):
        self.pid = pid
        self.tier = tier
        self.seed = seed
        self.replay = replay
        self.t0 = time.time()
        self.scratch = tempfile.mkdtemp(prefix='verif_%s_' % pid)
        self.tmpdir = os.path.join(self.scratch, 'tmp')
        os.makedirs(self.tmpdir)
        os.environ['TMPDIR'] = self.tmpdir
        tempfile.tempdir = self.tmpdir
        self.violations = []     # dicts: sig, what, replay (data)
        self.coverage = {'states': 0, 'transitions': 0, 'traces_validated_against_impl': 0, 'samples': [],
                         'tlc_runs': [], 'bounds': {}, 'monitors': []}
        self.assumptions = []
        self.notes = []

    def log(self, msg):
        sys.stderr.write('[%7.1fs] %s\n' % (time.time() - self.t0, msg))
        sys.stderr.flush()

    @property
    def quick(self):
        return self.tier == 'quick'

    def add_tlc(self, label, r, bounds=None):
        self.log('TLC %s: %d distinct states, %.1fs' % (label, r.distinct, r.wall))
        self.coverage['states'] += r.distinct
        self.coverage['transitions'] += r.generated
        self.coverage['tlc_runs'].append({'label': label, 'distinct_states': r.distinct, 'states_generated': r.generated,
                                          'depth': r.depth, 'wall_s': round(r.wall, 2)})
        if bounds:
            self.coverage['bounds'][label] = bounds

    def add_trace_verdict(self, label, v, n):
        self.log('traces %s: %d traces, %d rejected, %.1fs' % (label, n, len(v.rejected), v.wall))
        self.coverage['states'] += v.states
        self.coverage['transitions'] += v.transitions
        self.coverage['traces_validated_against_impl'] += n
        self.coverage['tlc_runs'].append({'label': label, 'traces': n, 'accepted': len(v.accepted),
                                          'rejected': len(v.rejected), 'distinct_states': v.states,
                                          'wall_s': round(v.wall, 2), 'tlc_invocations': v.runs})

    def sample(self, s, cap=6):
        if len(self.coverage['samples']) < cap:
            self.coverage['samples'].append(s)

    def violation(self, sig, what, replay_data):
        self.violations.append({'sig': sig, 'what': what, 'replay': replay_data})

    def cleanup(self):
        shutil.rmtree(self.scratch, ignore_errors=True)


def load_findings():
    p = os.path.join(VERIF, 'known_findings.json')
    if not os.path.exists(p):
        return {'findings': [], 'fixed': []}
    return json.load(open(p))


def assert_repo_import():
    import mpf
    repo = os.path.abspath(os.environ.get('VERIF_REPO', '/repo'))
    if not os.path.abspath(mpf.__file__).startswith(repo + '/'):
        raise Machinery('mpf imported from %s, not %s' % (mpf.__file__, repo))


def write_evidence(ctx, level, n_viol):
    ev = {
        'property_id': ctx.pid, 'tier': ctx.tier, 'seed': ctx.seed, 'level': level,
        'coverage': ctx.coverage, 'assumptions': ctx.assumptions, 'wall_s': round(time.time() - ctx.t0, 2),
        'violations': n_viol, 'notes': ctx.notes,
    }
    if not ctx.coverage['samples']:
        ctx.coverage['samples'] = ['(no sample recorded)']
    os.makedirs(os.path.join(VERIF, 'evidence'), exist_ok=True)
    p = os.path.join(VERIF, 'evidence', ctx.pid + '.json')
    tmp = p + '.tmp'
    with open(tmp, 'w') as f:
        json.dump(ev, f, indent=1, default=str)
    os.replace(tmp, p)


def main(argv=None):
    import argparse
    ap = argparse.ArgumentParser()
    ap.add_argument('pid')
    ap.add_argument('--tier', default=os.environ.get('VERIF_TIER', 'quick'), choices=['quick', 'thorough'])
    ap.add_argument('--replay', default=None)
    ap.add_argument('--seed', type=int, default=int(os.environ.get('VERIF_SEED', '1')))
    a = ap.parse_args(argv)
    pid = a.pid.upper()
    os.environ.setdefault('PYTHONHASHSEED', '0')
    sys.path.insert(0, os.environ.get('VERIF_REPO', '/repo'))
    sys.path.insert(0, VERIF)
    ctx = Ctx(pid, a.tier, a.seed, a.replay)
    rc = 2
    try:
        assert_repo_import()
        mod = importlib.import_module('drivers.%s' % pid.lower())
        if a.replay:
            mod.replay(ctx, json.load(open(a.replay)))
        else:
            mod.run(ctx)
        known = load_findings()
        ksigs = {f['signature']: f for f in known.get('findings', []) if f.get('property') == pid}
        new = []
        seen_known = {}
        for v in ctx.violations:
            if v['sig'] in ksigs:
                seen_known.setdefault(v['sig'], v)
            else:
                new.append(v)
        for sig, v in seen_known.items():
            print('KNOWN-FINDING: property=%s %s [%s]' % (pid, ksigs[sig].get('what', v['what']), sig))
        ctx.coverage['known_findings_seen'] = sorted(seen_known)
        if not a.replay and not os.environ.get('VERIF_NO_EVIDENCE'):
            write_evidence(ctx, getattr(mod, 'LEVEL', 'model_checking'), len(new))
        if new:
            os.makedirs(os.path.join(VERIF, 'evidence', 'replay'), exist_ok=True)
            done = set()
            for v in new:
                if v['sig'] in done:
                    continue
                done.add(v['sig'])
                h = hashlib.sha1(json.dumps(v, sort_keys=True, default=str).encode()).hexdigest()[:10]
                path = os.path.join(VERIF, 'evidence', 'replay', '%s-%s.json' % (pid, h))
                with open(path, 'w') as f:
                    json.dump(v, f, indent=1, default=str)
                print('VIOLATION property=%s replay=%s' % (pid, path))
                print('  signature: %s' % v['sig'])
                print('  what: %s' % v['what'])
            rc = 1
        else:
            print('OK property=%s tier=%s seed=%d wall=%.1fs states=%d traces=%d' % (
                pid, a.tier, a.seed, time.time() - ctx.t0, ctx.coverage['states'],
                ctx.coverage['traces_validated_against_impl']))
            rc = 0
    except Exception as ex:  # pylint: disable=broad-except
        print('MACHINERY-FAILURE property=%s: %s' % (pid, ex))
        traceback.print_exc()
        rc = 2
    finally:
        ctx.cleanup()
    # some MPF objects leave threads behind; make sure we exit
    sys.stdout.flush()
    os._exit(rc)
