"""Recorder that turns ANY run of real MPF (in particular the repository's own tests) into EventBus traces.

Loaded as a pytest plugin (`-p suite_rec`, PYTHONPATH=/verif/lib:<repo>) or installed by a driver (`install()`).
Nothing in the repository is edited: the recorder injects observing containers into every EventManager that is created
  * `registered_handlers` becomes a defaultdict whose lists report append/remove and hand `_run_handlers` /
    `_run_handlers_sequential` a snapshot of *proxies* (same RegisteredHandler tuples, callback wrapped to log
    the invocation and its return value),
  * every queued PostedEvent gets a str-subclass event name carrying an instance number and a wrapped callback,
  * `_process_event`, `_process_queue_event`, `process_event_queue` are wrapped to log begin / end / quiescence.

The stream of one EventManager is cut into SEGMENTS: from the first post made while nothing is waiting to the next
quiescent point (both queues empty when the outermost process_event_queue returns).  Each segment carries the handlers
registered (when it began) for the events posted in it, so it is a self-contained trace for specs/EventBus/
EventBusSuiteTrace.tla.  Segments are canonicalised (handler ids renamed by first use) and de-duplicated.
"""
import hashlib
import json
import os
import sys
from collections import defaultdict

_OUT = os.environ.get('VERIF_SUITE_OUT')
_STATE = {'src': '?', 'segs': {}, 'stats': defaultdict(int), 'installed': False, 'fh': None}
MAXLINES = int(os.environ.get('VERIF_SUITE_MAXLINES', '4000'))


class _Ev(str):
    """Event name that remembers which posted instance it belongs to."""
    __slots__ = ('vid',)


class _SnapList(list):
    __slots__ = ('rec', 'evname')

    def append(self, rh):
        list.append(self, rh)
        self.rec.on_add(self.evname, rh)

    def remove(self, rh):
        list.remove(self, rh)
        self.rec.on_remove(self.evname, rh)

    def __getitem__(self, idx):
        res = list.__getitem__(self, idx)
        if isinstance(idx, slice):
            code = sys._getframe(1).f_code
            if code.co_name == '_run_handlers' and code.co_filename.endswith('events.py'):
                return [self.rec.proxy(rh, False) for rh in res]
            if code.co_name == '_run_handlers_sequential' and code.co_filename.endswith('events.py'):
                qt = self.rec.qtask_for(sys._getframe(1).f_locals.get('event'))
                return [self.rec.proxy(rh, True, qt) for rh in res]
        return res


class _RH(defaultdict):
    def __init__(self, rec):
        defaultdict.__init__(self)
        self.rec = rec

    def __missing__(self, key):
        lst = _SnapList()
        lst.rec = self.rec
        lst.evname = str(key)
        self[key] = lst
        return lst

    def __delitem__(self, key):
        lst = self.get(key)
        if lst:
            for rh in list(lst):
                self.rec.on_remove(str(key), rh)
        defaultdict.__delitem__(self, key)


class QTask:
    """One dispatch of a queue event (one _run_handlers_sequential task) = one trace for QueueEventsSuiteTrace."""

    def __init__(self, ev, snapshot):
        self.ev = ev
        self.snap = snapshot            # [(hid, prio, cond)]
        self.ids = {h for h, _, _ in snapshot}
        self.lines = []
        self.bad = None
        self.done = False

    def emit(self):
        if self.bad or not self.lines:
            if self.bad:
                _STATE['stats']['q:tainted:' + self.bad] += 1
            return
        ren = {}

        def r(h):
            if h not in ren:
                ren[h] = 'h%d' % (len(ren) + 1)
            return ren[h]
        reg0 = [{'id': r(h), 'ev': self.ev, 'prio': p, 'cond': c} for (h, p, c) in sorted(self.snap, key=lambda x: (-x[1], x[0]))]
        out = [dict(l, h=r(l['h'])) if 'h' in l else l for l in self.lines]
        emit({'reg0': reg0, 'qev': self.ev, 'ev': out[:MAXLINES]}, 'q')


_QOWNER = {}        # id(QueuedEvent) -> (QueuedEvent, QTask, hid)   (the object is kept alive so that ids are not reused)
_RECORDERS = []


class BusRecorder:
    def __init__(self, evm):
        self.evm = evm
        self.qtasks = {}                     # vid -> QTask of the queue instance
        _RECORDERS.append(self)
        self.hids = {}
        self.shadow = defaultdict(list)      # ev -> [(hid, prio, cond)]
        self.seg = None                      # open segment: dict(lines, reg0, ninst)
        self.depth = 0                       # nesting of process_event_queue
        self.desync = False
        self.curstack = []

    # ---- registry -------------------------------------------------------------------------------------------
    def hid(self, rh):
        k = rh.key
        if k not in self.hids:
            self.hids[k] = 'h%d' % (len(self.hids) + 1)
        return self.hids[k]

    @staticmethod
    def cond(rh):
        return -1 if rh.condition is None and not rh.blocking_facility else 9

    def _touch(self, ev):
        if self.seg is not None and ev not in self.seg['reg0']:
            self.seg['reg0'][ev] = list(self.shadow.get(ev, ()))

    def on_add(self, ev, rh):
        self._touch(ev)
        h = self.hid(rh)
        self.shadow[ev].append((h, int(rh.priority), self.cond(rh)))
        if self.seg is not None:
            self.line({'op': 'add', 'h': h, 'ev': ev, 'prio': int(rh.priority), 'cond': self.cond(rh)})

    def on_remove(self, ev, rh):
        self._touch(ev)
        h = self.hid(rh)
        self.shadow[ev] = [x for x in self.shadow[ev] if x[0] != h]
        if self.seg is not None:
            self.line({'op': 'remove', 'h': h, 'ev': ev})
        for qt in self.qtasks.values():
            if qt.ev == ev and h in qt.ids and not qt.done:
                qt.lines.append({'op': 'qremove', 'h': h})

    # ---- segments -------------------------------------------------------------------------------------------
    def line(self, d):
        s = self.seg
        if s is None:
            return
        s['lines'].append(d)
        if len(s['lines']) > MAXLINES:
            self.taint('too-long')

    def taint(self, why):
        if self.seg is not None:
            _STATE['stats']['tainted:' + why] += 1
        self.seg = None
        self.desync = True

    def open(self):
        self.seg = {'lines': [], 'reg0': {}, 'ninst': 0}

    def close(self):
        s, self.seg = self.seg, None
        if s is None or not s['lines']:
            return
        posted = {l['ev'] for l in s['lines'] if l['op'] == 'post'}
        lines = [l for l in s['lines'] if l['op'] not in ('add', 'remove') or l['ev'] in posted]
        ren = {}

        def r(h):
            if h not in ren:
                ren[h] = 'h%d' % (len(ren) + 1)
            return ren[h]
        reg0 = []
        for ev in sorted(posted):
            for (h, p, c) in sorted(s['reg0'].get(ev, ()), key=lambda x: (-x[1], x[0])):
                reg0.append({'id': r(h), 'ev': ev, 'prio': p, 'cond': c})
        out = []
        for l in lines:
            if 'h' in l:
                l = dict(l, h=r(l['h']))
            if l['op'] == 'remove':
                l = {'op': 'remove', 'h': l['h']}
            out.append(l)
        emit({'reg0': reg0, 'ev': out})

    # ---- observation points ---------------------------------------------------------------------------------
    def on_post(self, n0, event, ev_type, callback):
        evm = self.evm
        if len(evm.event_queue) != n0 + 1:
            return                      # dropped (stopped, or fast path: no handler and no callback)
        if self.desync:
            return
        if self.seg is None:
            if self.depth > 0:
                # a post from inside process_event_queue although no segment is open: cannot happen after a close
                self.taint('post-without-segment')
                return
            self.open()
        s = self.seg
        s['ninst'] += 1
        n = s['ninst']
        self._touch(str(event))
        pe = evm.event_queue[-1]
        tagged = _Ev(event)
        tagged.vid = (id(s), n)
        cb = pe.callback
        if cb is not None:
            cb = self.wrap_cb(cb, tagged.vid)
        evm.event_queue[-1] = pe._replace(event=tagged, callback=cb)
        self.line({'op': 'post', 'inst': n, 'ev': str(event), 'ty': ev_type or 'plain', 'cb': pe.callback is not None})

    def inst_of(self, event):
        vid = getattr(event, 'vid', None)
        if vid is None or self.seg is None or vid[0] != id(self.seg):
            return None
        return vid[1]

    def wrap_cb(self, cb, vid):
        rec = self

        def verif_cb(**kwargs):
            s = rec.seg
            qt = rec.qtasks.pop(vid, None)
            if qt is not None:
                qt.lines.append({'op': 'qcallback'})
                qt.done = True
                qt.emit()
            live = s is not None and vid[0] == id(s) and rec.depth > 0
            if live:
                rec.line({'op': 'callback', 'inst': vid[1]})
            try:
                return cb(**kwargs)
            except BaseException:
                rec.taint('callback-raised')
                raise
            finally:
                if live and rec.seg is s:
                    rec.line({'op': 'cbend'})
        return verif_cb

    def qtask_for(self, event):
        """Called when _run_handlers_sequential takes its snapshot: the task of this queue instance begins."""
        vid = getattr(event, 'vid', None)
        if vid is None:
            return None
        qt = QTask(str(event), list(self.shadow.get(str(event), ())))
        qt.lines.append({'op': 'qbegin'})
        self.qtasks[vid] = qt
        return qt

    def proxy(self, rh, sequential, qt=None):
        rec = self
        h = self.hid(rh)
        orig = rh.callback
        if sequential:
            def verif_qh(**kwargs):
                if rec.depth > 0 and rec.seg is not None:
                    rec.line({'op': 'qinvoke', 'h': h})      # a queue handler inside a dispatch: no such step in the spec
                q = kwargs.get('queue')
                if qt is not None:
                    if q is not None:
                        _QOWNER[id(q)] = (q, qt, h)
                    qt.lines.append({'op': 'qinvoke', 'h': h})
                try:
                    return orig(**kwargs)
                except BaseException:
                    if qt is not None:
                        qt.bad = 'handler-raised'
                    raise
                finally:
                    if qt is not None:
                        qt.lines.append({'op': 'qret'})
            return rh._replace(callback=verif_qh)

        def verif_h(**kwargs):
            s = rec.seg
            if s is not None:
                rec.line({'op': 'invoke', 'inst': rec.curstack[-1] if rec.curstack else 0, 'h': h})
            try:
                res = orig(**kwargs)
            except BaseException:
                rec.taint('handler-raised')
                raise
            if s is not None and rec.seg is s:
                rec.line({'op': 'ret', 'val': 'false' if res is False else ('dict' if isinstance(res, dict) else 'none')})
            return res
        return rh._replace(callback=verif_h)


def emit(seg, kind='bus'):
    st = _STATE
    pre = '' if kind == 'bus' else kind + ':'
    st['stats'][pre + 'segments'] += 1
    st['stats'][pre + 'lines'] += len(seg['ev'])
    key = hashlib.sha1(json.dumps(seg, sort_keys=True, separators=(',', ':')).encode()).hexdigest()
    if (kind, key) in st['segs']:
        return
    st['segs'][(kind, key)] = 1
    st['stats'][pre + 'distinct'] += 1
    if _OUT:
        if st['fh'] is None:
            st['fh'] = {}
        if kind not in st['fh']:
            os.makedirs(_OUT, exist_ok=True)
            st['fh'][kind] = open(os.path.join(_OUT, '%s_%d.ndjson' % (kind, os.getpid())), 'a')
        seg = dict(seg, _src=st['src'], _key=key)
        st['fh'][kind].write(json.dumps(seg, separators=(',', ':')) + '\n')
        st['fh'][kind].flush()
    else:
        st.setdefault('mem_' + kind, []).append(dict(seg, _src=st['src'], _key=key))


def install():
    """Patch mpf.core.events.EventManager (idempotent)."""
    if _STATE['installed']:
        return
    _STATE['installed'] = True
    from mpf.core import events as E
    EM = E.EventManager
    o_init, o_post, o_pe, o_pqe, o_peq = EM.__init__, EM._post, EM._process_event, EM._process_queue_event, \
        EM.process_event_queue

    def __init__(self, machine):
        o_init(self, machine)
        rec = BusRecorder(self)
        old = self.registered_handlers
        self.registered_handlers = _RH(rec)
        for k, lst in old.items():          # normally empty
            for rh in lst:
                self.registered_handlers[k].append(rh)

    def _post(self, event, ev_type, callback, **kwargs):
        rec = getattr(self.registered_handlers, 'rec', None)
        if rec is None:
            return o_post(self, event, ev_type, callback, **kwargs)
        n0 = len(self.event_queue)
        o_post(self, event, ev_type, callback, **kwargs)
        rec.on_post(n0, event, ev_type, callback)
        return None

    def _process_event(self, event, ev_type, callback=None, **kwargs):
        rec = getattr(self.registered_handlers, 'rec', None)
        if rec is None or rec.desync:
            return o_pe(self, event, ev_type, callback, **kwargs)
        n = rec.inst_of(event)
        if n is None:
            rec.taint('untagged-dispatch')
            return o_pe(self, event, ev_type, callback, **kwargs)
        s = rec.seg
        rec.line({'op': 'begin', 'inst': n})
        rec.curstack.append(n)
        try:
            return o_pe(self, event, ev_type, callback, **kwargs)
        finally:
            rec.curstack.pop()
            if rec.seg is s and s is not None:
                rec.line({'op': 'end', 'inst': n})

    def _process_queue_event(self, event, callback, **kwargs):
        rec = getattr(self.registered_handlers, 'rec', None)
        if rec is not None and not rec.desync:
            n = rec.inst_of(event)
            if n is None:
                rec.taint('untagged-dispatch')
            else:
                rec.line({'op': 'qbegin', 'inst': n})
        return o_pqe(self, event, callback, **kwargs)

    def process_event_queue(self):
        rec = getattr(self.registered_handlers, 'rec', None)
        if rec is None:
            return o_peq(self)
        if rec.depth > 0 and rec.seg is not None:
            if getattr(self.machine, 'is_shutting_down', False) or getattr(self.machine, '_done', False):
                rec.taint('nested-at-shutdown')
            else:
                rec.line({'op': 'nested'})      # a nested run of the queue: no such step in the spec
        rec.depth += 1
        ok = False
        try:
            o_peq(self)
            ok = True
        finally:
            rec.depth -= 1
            if not ok:
                rec.taint('queue-run-raised')
            if rec.depth == 0:
                quiet = not self.event_queue and not self.callback_queue
                if rec.desync:
                    if quiet:
                        rec.desync = False
                        rec.seg = None
                elif rec.seg is not None:
                    if quiet:
                        rec.line({'op': 'quiesce'})
                        rec.close()
                    else:
                        rec.taint('not-quiet-at-return')
        return None

    QE = E.QueuedEvent
    o_wait, o_clear = QE.wait, QE.clear

    def wait(self):
        o_wait(self)
        own = _QOWNER.get(id(self))
        if own is not None and own[0] is self and not own[1].done:
            own[1].lines.append({'op': 'wait', 'h': own[2]})

    def clear(self):
        o_clear(self)
        own = _QOWNER.get(id(self))
        if own is not None and own[0] is self and not own[1].done:
            own[1].lines.append({'op': 'clear', 'h': own[2]})

    QE.wait = wait
    QE.clear = clear
    EM.__init__ = __init__
    EM._post = _post
    EM._process_event = _process_event
    EM._process_queue_event = _process_queue_event
    EM.process_event_queue = process_event_queue


# ---- delay managers (C13) --------------------------------------------------------------------------------
_DELAY_RECS = {}     # id(manager) -> DelayRec   (the manager is kept alive by the record)


class DelayRec:
    """All public calls on ONE DelayManager and every callback it ran, with times in 0.1 ms units."""

    def __init__(self, mgr):
        self.mgr = mgr
        self.t0 = None
        self.names = {}
        self.lines = []
        self.depth = 0
        self.bad = None

    def t(self):
        now = self.mgr.machine.clock.get_time()
        if self.t0 is None:
            self.t0 = now
        v = int(round((now - self.t0) * 10000))
        if v > 2000000000 or v < 0:
            self.bad = 'time-range'
            v = 0
        return v

    def n(self, name):
        if name not in self.names:
            self.names[name] = 'n%d' % (len(self.names) + 1)
        return self.names[name]

    def pend(self):
        return sorted(self.n(k) for k in self.mgr.delays)

    def log(self, **kw):
        if len(self.lines) < MAXLINES:
            kw['t'] = self.t()
            kw['pend'] = self.pend()
            self.lines.append(kw)
        else:
            self.bad = self.bad or 'too-long'

    def emit(self, final):
        if not self.lines:
            return
        if self.bad:
            _STATE['stats']['d:tainted:' + self.bad] += 1
            if self.bad != 'too-long':
                return
        lines = list(self.lines)
        if final and not self.bad:
            lines.append({'op': 'sync', 't': self.t(), 'pend': self.pend()})
        emit({'ev': lines}, 'd')


def _digest(kwargs):
    items = []
    for k in sorted(kwargs):
        v = kwargs[k]
        items.append('%s=%s' % (k, repr(v) if isinstance(v, (int, float, str, bool, type(None))) else type(v).__name__))
    return hashlib.sha1('|'.join(items).encode()).hexdigest()[:6] if items else '-'


def install_delays():
    from mpf.core import delays as D
    DM = D.DelayManager
    o_add, o_remove, o_addif, o_reset, o_clear, o_runnow = DM.add, DM.remove, DM.add_if_doesnt_exist, DM.reset, DM.clear, DM.run_now

    def rec_of(mgr):
        r = _DELAY_RECS.get(id(mgr))
        if r is None or r.mgr is not mgr:
            r = DelayRec(mgr)
            _DELAY_RECS[id(mgr)] = r
        return r

    def add(self, ms, callback, name=None, **kwargs):
        r = rec_of(self)
        cell = {}

        def verif_delay_cb(**kw):
            r.log(op='fire', n=r.n(cell.get('name')), arg=_digest(kw))
            saved, r.depth = r.depth, 0         # what the callback calls is user code again (run_now runs it nested)
            try:
                return callback(**kw)
            finally:
                r.depth = saved
        outer = r.depth == 0
        r.depth += 1
        try:
            if not name:
                import uuid
                name = str(uuid.uuid4())
            cell['name'] = name
            res = o_add(self, ms, verif_delay_cb, name, **kwargs)
        finally:
            r.depth -= 1
        if outer:
            try:
                d = int(round(float(ms) * 10))
            except (TypeError, ValueError):
                d, r.bad = 0, 'ms-type'
            if abs(d) > 2000000000:
                d, r.bad = 0, 'time-range'
            r.log(op='add', n=r.n(name), d=d, arg=_digest(kwargs))
        return res

    def wrap(orig, op, has_ms):
        def method(self, *a, **kw):
            r = rec_of(self)
            outer = r.depth == 0
            if outer and op == 'runnow':
                r.log(op='runnow', n=r.n(a[0] if a else kw.get('name')))
            r.depth += 1
            try:
                res = orig(self, *a, **kw)
            finally:
                r.depth -= 1
            if outer and op != 'runnow':
                if has_ms:
                    ms = a[0] if a else kw.get('ms')
                    name = a[2] if len(a) > 2 else kw.get('name')
                    extra = {k: v for k, v in kw.items() if k not in ('ms', 'callback', 'name')}
                    try:
                        d = int(round(float(ms) * 10))
                    except (TypeError, ValueError):
                        d, r.bad = 0, 'ms-type'
                    if abs(d) > 2000000000:
                        d, r.bad = 0, 'time-range'
                    r.log(op=op, n=r.n(name), d=d, arg=_digest(extra))
                elif op == 'remove':
                    r.log(op='remove', n=r.n(a[0] if a else kw.get('name')))
                else:
                    r.log(op=op)
            return res
        return method

    DM.add = add
    DM.remove = wrap(o_remove, 'remove', False)
    DM.add_if_doesnt_exist = wrap(o_addif, 'addif', True)
    DM.reset = wrap(o_reset, 'reset', True)
    DM.clear = wrap(o_clear, 'clear', False)
    DM.run_now = wrap(o_runnow, 'runnow', False)


def flush_delays():
    for r in list(_DELAY_RECS.values()):
        try:
            r.emit(True)
        except Exception:  # pylint: disable=broad-except
            _STATE['stats']['d:tainted:emit'] += 1
    _DELAY_RECS.clear()


# ---- switches (C03) ---------------------------------------------------------------------------------------
_SW_RECS = {}        # id(switch) -> SwitchRec


class _W:
    """A registered switch-handler callable that logs its calls; equal to (and hashed like) the callable it wraps, so that
    removal by (callback, state, ms) finds it exactly as it would find the original."""

    __slots__ = ('f', 'hid', 'rec', 'ms', 'state')

    def __init__(self, f):
        self.f = f
        self.hid = None
        self.rec = None
        self.ms = 0
        self.state = 1

    def __call__(self, *a, **kw):
        r = self.rec
        if r is not None and r.started and not r.dead:
            if self.ms:
                r.log(op='tfire', id=self.hid)
            else:
                r.log(op='call', id=self.hid)
        return self.f(*a, **kw)

    def __eq__(self, other):
        if isinstance(other, _W):
            other = other.f
        return self.f == other

    def __ne__(self, other):
        return not self.__eq__(other)

    def __hash__(self):
        return hash(self.f)

    def __getattr__(self, name):
        return getattr(self.f, name)

    def __repr__(self):
        return repr(self.f)


def _unwrap(cb):
    for _ in range(4):
        if isinstance(cb, _W):
            return cb
        cb = getattr(cb, 'func', None)
        if cb is None:
            return None
    return None


class SwitchRec:
    def __init__(self, sc, switch):
        self.sc = sc
        self.switch = switch
        self.started = False
        self.dead = False
        self.t0 = None
        self.lines = []
        self.in_report = 0
        self.n = 0
        self.head = None

    def t(self):
        return int(round((self.sc.machine.clock.get_time() - self.t0) * 10000))

    def hid_of(self, w):
        if w.hid is None:
            self.n += 1
            w.hid = 'h%d' % self.n
            w.rec = self
        return w.hid

    def start(self):
        sw = self.switch
        self.started = True
        self.t0 = self.sc.machine.clock.get_time()
        reg0, timed0 = [], []
        for state in (0, 1):
            for entry in self.sc.registered_switches.get(sw, [[], []])[state]:
                w = _unwrap(entry.callback)
                if w is None:
                    self.dead = True
                    return
                w.ms, w.state = int(round(entry.ms * 10)), state
                reg0.append({'id': self.hid_of(w), 'state': state, 'ms': w.ms})
        for k, lst in (self.sc._active_timed_switches.get(sw) or {}).items():
            for e in lst:
                w = _unwrap(e.callback)
                if w is None or w.hid is None:
                    self.dead = True
                    return
                timed0.append({'id': w.hid, 'due': int(round((k - self.t0) * 10000))})
        last0 = max(-2000000000, int(round((sw.last_change - self.t0) * 10000)))
        self.head = {'sw': 's_nc' if sw.invert else 's_no', 'st0': int(sw.state), 'hw0': int(sw.hw_state), 'last0': last0,
                     'reg0': reg0, 'timed0': timed0, 'muted0': bool(sw.is_muted)}

    def log(self, **kw):
        if self.dead:
            return
        if len(self.lines) >= MAXLINES:
            self.dead = True
            return
        kw['t'] = self.t()
        if kw['t'] > 2000000000:
            self.dead = True
            return
        self.lines.append(kw)

    def emit(self):
        if not self.started or self.head is None or not self.lines:
            return
        if not self.dead:
            self.lines.append({'op': 'sync', 't': self.t(), 'st': int(self.switch.state)})
        emit(dict(self.head, ev=self.lines), 's')


def install_switches():
    from mpf.core import switch_controller as S
    SC = S.SwitchController
    o_add, o_remove, o_proc = SC.add_switch_handler_obj, SC.remove_switch_handler_obj, SC.process_switch_obj

    def rec_of(sc, switch):
        r = _SW_RECS.get(id(switch))
        if r is None or r.switch is not switch:
            r = SwitchRec(sc, switch)
            _SW_RECS[id(switch)] = r
        return r

    def ready(sc, r):
        if r.dead:
            return False
        if not r.started:
            if not getattr(sc, '_initialized', False):
                return False
            r.start()
        return not r.dead

    def add_switch_handler_obj(self, switch, callback, state=1, ms=0, return_info=False, callback_kwargs=None):
        w = _W(callback)
        r = rec_of(self, switch)
        pre = ready(self, r)        # (the snapshot of a trace that starts here must not contain this registration)
        res = o_add(self, switch, w, state, ms, return_info, callback_kwargs)
        try:
            w.ms, w.state = int(round(float(ms) * 10)), int(state)
        except (TypeError, ValueError):
            r.dead = True
        if pre and not r.dead:
            r.log(op='add', id=r.hid_of(w), state=int(state), ms=w.ms, nested=r.in_report > 0)
        else:
            r.hid_of(w)
        return res

    def remove_switch_handler_obj(self, switch, callback, state=1, ms=0):
        r = rec_of(self, switch)
        pre = ready(self, r)
        ids = []
        try:
            for entry in self.registered_switches[switch][state]:
                if entry.ms == ms and entry.callback == callback:
                    w = _unwrap(entry.callback)
                    if w is not None and w.hid is not None:
                        ids.append(w.hid)
                    else:
                        r.dead = True
        except (KeyError, IndexError, TypeError):
            pass
        res = o_remove(self, switch, callback, state, ms)
        if pre:
            for i in ids:
                r.log(op='remove', id=i, nested=r.in_report > 0)
        return res

    def process_switch_obj(self, obj, state, logical, timestamp=None):
        r = rec_of(self, obj)
        foreign = timestamp is not None and abs(timestamp - self.machine.clock.get_time()) > 1e-6
        if not getattr(self, '_initialized', False) or foreign or r.in_report > 0:
            if r.started:
                r.dead = True       # a change the model cannot follow (not initialised / foreign timestamp / nested)
            return o_proc(self, obj, state, logical, timestamp)
        if not ready(self, r):
            return o_proc(self, obj, state, logical, timestamp)
        r.log(op='report', v=1 if state else 0, logical=bool(logical))
        r.in_report += 1
        try:
            return o_proc(self, obj, state, logical, timestamp)
        finally:
            r.in_report -= 1
            r.log(op='endreport', st=int(obj.state), hw=int(obj.hw_state))

    from mpf.devices import switch as SWM
    SWC = SWM.Switch
    o_mute, o_unmute = SWC.mute, SWC.unmute

    def _mutewrap(orig):
        def method(self, source, **kwargs):
            before = bool(self.is_muted)
            res = orig(self, source, **kwargs)
            after = bool(self.is_muted)
            if before != after:
                sc = self.machine.switch_controller
                r = rec_of(sc, self)
                if ready(sc, r):
                    r.log(op='mute', m=after)
            return res
        return method

    SWC.mute = _mutewrap(o_mute)
    SWC.unmute = _mutewrap(o_unmute)
    SC.add_switch_handler_obj = add_switch_handler_obj
    SC.remove_switch_handler_obj = remove_switch_handler_obj
    SC.process_switch_obj = process_switch_obj


def flush_switches():
    for r in list(_SW_RECS.values()):
        try:
            r.emit()
        except Exception:  # pylint: disable=broad-except
            _STATE['stats']['s:tainted:emit'] += 1
    _SW_RECS.clear()


def drain():
    """Segments collected in memory (when no output directory is configured)."""
    m = _STATE.pop('mem_bus', [])
    return m


def stats():
    return dict(_STATE['stats'])


# ---- pytest plugin hooks ------------------------------------------------------------------------------------
def pytest_configure(config):       # noqa: D103
    del config
    install()
    install_delays()
    install_switches()


def pytest_runtest_setup(item):     # noqa: D103
    _STATE['src'] = item.nodeid


def flush_open_tasks():
    """Queue events still in flight when a test ends are recorded as they stand (a prefix of a behaviour)."""
    for rec in _RECORDERS:
        for qt in rec.qtasks.values():
            qt.emit()
        rec.qtasks.clear()
    del _RECORDERS[:]
    _QOWNER.clear()


def pytest_runtest_teardown(item):     # noqa: D103
    del item
    flush_open_tasks()
    flush_delays()
    flush_switches()


def pytest_sessionfinish(session, exitstatus):      # noqa: D103
    del session, exitstatus
    if _OUT:
        os.makedirs(_OUT, exist_ok=True)
        with open(os.path.join(_OUT, 'stats_%d.json' % os.getpid()), 'w') as f:
            json.dump(stats(), f)
