"""C15 part 4: code of a machine that saves data around its own clean shutdown (see drivers/c15.py run_process_exit).

Nothing of mpf is patched here: a DataManager as machine code creates it, save_all(), machine.stop(), a handler of the
`shutdown` event.  Every step is appended to the file named by C15_EXIT_LOG as one JSON object per line."""
import json
import os

from mpf.core.custom_code import CustomCode
from mpf.core.data_manager import DataManager


def value(v):
    """The data of version v."""
    return {'ver': v, 'credits': {'value': v}, 'audits': {'games': 10 + v}}


class C15Exit(CustomCode):

    def on_load(self):
        self.scen = os.environ['C15_EXIT_SCENARIO']
        self.wait = float(os.environ.get('C15_EXIT_MIN_WAIT', '2'))
        self.out = open(os.environ['C15_EXIT_LOG'], 'a', encoding='utf8')
        self.nsaves = 0
        self.dm = None
        import mpf
        self._log(op='boot', _mpf=mpf.__file__)
        self.machine.events.add_handler('init_done', self._start)
        self.machine.events.add_handler('shutdown', self._entered, priority=1000000)
        self.machine.events.add_handler('shutdown', self._on_shutdown)

    def _log(self, **line):
        self.out.write(json.dumps(line) + '\n')
        self.out.flush()

    def _save(self):
        self.nsaves += 1
        if self.scen.startswith('mv-'):     # a persistent machine variable: the machine's own data manager, default timing
            self.machine.variables.set_machine_var('c15_exit_var', 100 + self.nsaves, persist=True)
            self._log(op='save', i=1, v=self.nsaves, k='ok', _val=self.dm.data)
            return
        self.dm.save_all(value(self.nsaves))
        self._log(op='save', i=1, v=self.nsaves, k='ok', _val=value(self.nsaves))

    def _later(self, secs, fn):
        self.machine.clock.loop.call_later(secs, fn)

    def _start(self, **kwargs):
        del kwargs
        if self.scen.startswith('mv-'):
            self.dm = self.machine.variables.machine_var_data_manager
            self._later(1.5, self._first)          # the writer has left its start-up delay by then
            return
        self.machine.config['mpf']['paths']['c15_exit'] = 'data/c15_exit.yaml'
        self.dm = DataManager(self.machine, 'c15_exit', min_wait_secs=self.wait)
        if self.scen == 'init-handler':            # stop during the start-up delay of the writer; the handler saves
            self._later(0.3, self._stop)
            return
        self._first()

    def _first(self):
        self._save()
        self._poll()

    def _written(self):
        if not os.path.isfile(self.dm.filename):
            return False
        if not self.scen.startswith('mv-'):
            return True
        with open(self.dm.filename, encoding='utf8') as f:
            return 'c15_exit_var' in f.read()

    def _poll(self):
        """Wait until the first version is on disk (the writer then is in its rate-limit sleep)."""
        if not self._written():
            self._later(0.05, self._poll)
        elif self.scen in ('rate-handler', 'mv-rate-handler'):     # stop 0.3 s after a write; the handler saves
            self._later(0.3, self._stop)
        elif self.scen == 'rate-before-stop':      # a save 0.3 s after a write, then the stop request at once
            self._later(0.3, self._save_and_stop)

    def _save_and_stop(self):
        self._save()
        self._stop()

    def _stop(self):
        self._log(op='stop')
        self.machine.stop('C15')

    def _entered(self, **kwargs):
        del kwargs
        self._log(op='dostop')

    def _on_shutdown(self, **kwargs):
        del kwargs
        self._log(op='h')
        if self.scen.endswith('-handler'):
            self._save()
