#!/bin/sh
# MANIFEST.setup_cmd: sanity-check the toolchain and parse every specification (offline).
cd "$(dirname "$0")" || exit 2
command -v java >/dev/null || { echo "java missing"; exit 2; }
test -f /opt/veriftools/tla/tla2tools.jar || { echo "tla2tools.jar missing"; exit 2; }
PYTHONPATH=/repo /venv/bin/python -c "import mpf,sys; sys.exit(0 if mpf.__file__.startswith('/repo/') else 2)" || { echo "mpf not importable from /repo"; exit 2; }
S=$(mktemp -d) || exit 2
rc=0
for d in specs/*/; do
  [ "$d" = "specs/common/" ] && continue
  mkdir -p "$S/$(basename "$d")"
  cp specs/common/*.tla "$d"*.tla "$S/$(basename "$d")/" 2>/dev/null
  for f in "$S/$(basename "$d")"/*.tla; do
    ( cd "$(dirname "$f")" && java -cp /opt/veriftools/tla/tla2tools.jar:/opt/veriftools/tla/CommunityModules-deps.jar tla2sany.SANY "$(basename "$f")" >"$f.log" 2>&1 ) || true
    if grep -q "rrors:" "$f.log" || grep -q "Could not" "$f.log"; then echo "SANY failed: $f"; tail -5 "$f.log"; rc=2; fi
  done
done
rm -rf "$S"
[ $rc -eq 0 ] && echo "setup ok"
exit $rc
