--------------------------- MODULE TemplatesTrace ---------------------------
(* Trace validation for C16.  One ndjson line per recorded execution:                                    *)
(*   {cfg: {id, expr, vars, ep}, env0: {...}, ev: [...]}                                                  *)
(* Part A executions have the single event {op: "case"}: the outcome of Python's eval (`py`), of          *)
(* template.evaluate (`te`) and of template.evaluate_and_subscribe (`ts`) for cfg.expr under env0.        *)
(* Part B executions are schedules of the Templates state machine with the observations after each step.  *)
EXTENDS Templates, TraceIO
VARIABLES tid, l
tvars == <<vars, tid, l>>
TL == TraceLines[tid].ev
TConfigs == {}
TInit == /\ tid \in 1..Len(TraceLines) /\ l = 1 /\ nops = 0 /\ act = [op |-> "init"]
         /\ LET c == TraceLines[tid].cfg
                e0 == TraceLines[tid].env0
            IN /\ cfg = [id |-> c.id, expr |-> c.expr, vars |-> SeqToSet(c.vars), ep |-> c.ep, ge |-> TRUE]
               /\ env = e0
               /\ sub = Fresh(c.expr, e0)
               /\ auto = [last |-> Res(c.expr, e0), must |-> FALSE, may |-> FALSE]
\* ---- part A ------------------------------------------------------------------------------------------------
\* outcome records: py = [kind: "value"|"type"|"zerodiv"|"missing"|"noname"|"other", val], te / ts = [kind: "value"|"default"|"exc", val, eq]
\* (val = [k |-> "out"] when the value is not representable; eq: equal to Python's value including the type)
\* (1) the TLA+ transcription agrees with Python wherever it makes a claim (a failure here is a defect of this spec)
OracleOK(r, py) == \/ r.k = "out"
                   \/ r.k = "err" /\ py.kind = r.e
                   \/ r.k \notin {"err", "out"} /\ py.kind = "value" /\ VEq(py.val, r)
\* (2) template = python whenever python yields a value; default on TypeError / missing variable; ZeroDivisionError is
\*     an error on both sides; anything else (IndexError, overflow, ...) is outside the statement
MonitorOK(py, t, excOnNoName) ==
    CASE py.kind = "value" -> IF py.val.k = "none" THEN t.kind = "default" ELSE t.kind = "value" /\ t.eq
      [] py.kind = "type" -> t.kind = "default"
      [] py.kind = "missing" -> t.kind = "default"
      [] py.kind = "noname" -> t.kind = "default" \/ (excOnNoName /\ t.kind = "exc")
      [] py.kind = "zerodiv" -> t.kind = "exc"
      [] OTHER -> TRUE
\* (3) template = Eval on the modelled fragment, compared on the logged value itself
ModelOK(r, t, excOnNoName) ==
    CASE r.k = "out" -> TRUE
      [] r.k = "err" -> IF r.e = "zerodiv" THEN t.kind = "exc"
                        ELSE IF r.e = "noname" THEN t.kind = "default" \/ (excOnNoName /\ t.kind = "exc")
                        ELSE t.kind = "default"
      [] r.k = "none" -> t.kind = "default"
      [] OTHER -> t.kind = "value" /\ VEq(t.val, r)
\* evaluate_and_subscribe deliberately raises (AssertionError) for a name that is neither a placeholder root nor a
\* parameter; evaluate returns the default
CaseOK(e) == LET r == Eval(cfg.expr, env)
             IN /\ OracleOK(r, e.py)
                /\ MonitorOK(e.py, e.te, FALSE) /\ ModelOK(r, e.te, FALSE)
                /\ MonitorOK(e.py, e.ts, TRUE) /\ ModelOK(r, e.ts, TRUE)
                \* the third entry point, evaluate_or_none: it has no default to fall back to (None, or the error is passed
                \* on) - judged where Python yields a value: exactly that value, never None for a falsy one
                /\ (e.py.kind = "value" /\ e.py.val.k # "none") => (e.tn.kind = "value" /\ e.tn.eq)
                /\ (e.py.kind # "value" \/ e.py.val.k = "none") => (e.tn.kind # "value" \/ e.py.kind \notin {"type", "missing", "noname", "zerodiv", "value"})
\* ---- part B ------------------------------------------------------------------------------------------------
\* after a step: is the manual subscriber's future done, what does the automatic consumer hold, did the
\* condition-driven event_player entry post its event
Obs(e) == /\ sub'.pending = e.done
          /\ VEq(auto'.last, e.alast)
          /\ (cfg.ep => (auto'.must => e.fired) /\ (e.fired => auto'.may))
Step(e) ==
    \/ e.op = "case" /\ CaseOK(e) /\ UNCHANGED vars
    \/ e.op = "obs" /\ VEq(sub.last, e.val) /\ VEq(auto.last, e.alast) /\ sub.pending = e.done /\ UNCHANGED vars
    \/ e.op = "set" /\ e.var \in {"ma", "mb"} /\ SetM(e.var, e.v) /\ Obs(e)
    \/ e.op = "set" /\ e.var \in SNames /\ SetS(e.var, e.v) /\ Obs(e)
    \/ e.op = "setm" /\ SetSM(e.var, e.v) /\ Obs(e)
    \/ e.op = "set" /\ e.var = "sw" /\ SetW(e.v) /\ Obs(e)
    \/ e.op = "set" /\ e.var = "cv" /\ SetC(e.v) /\ Obs(e)
    \/ e.op = "set" /\ e.var = "px" /\ SetP(e.p, e.v) /\ Obs(e)
    \/ e.op = "remove" /\ Remove(e.var) /\ Obs(e)
    \/ e.op = "declare" /\ Declare(e.var) /\ Obs(e)
    \/ e.op = "turn" /\ Turn /\ Obs(e)
    \/ e.op = "gend" /\ GameEnd /\ Obs(e)
    \/ e.op = "gstart" /\ GameStart /\ Obs(e)
    \/ e.op = "reeval" /\ Reeval /\ VEq(sub'.last, e.val)
    \/ e.op = "post" /\ Post /\ act'.fired = e.hfired
TNext == l <= Len(TL) /\ Step(TL[l]) /\ l' = l + 1 /\ UNCHANGED tid
TSpec == TInit /\ [][TNext]_tvars
Reporter == TraceReport(tid, l, Len(TL))
=============================================================================
