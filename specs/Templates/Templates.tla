------------------------------ MODULE Templates ------------------------------
(* Reference model of MPF placeholder templates (mpf/core/placeholder_manager.py).                      *)
(*                                                                                                      *)
(* Part A (semantics): expression ASTs, values and a recursive Eval(e, env) that transcribes Python's   *)
(* operator semantics for the int / bool / None / str / tuple fragment, with all operands of and / or   *)
(* evaluated (as the statement of C16 says).  Eval returns a value, Err(kind) or Out ("outside the      *)
(* fragment": floats, huge ints, IndexError -- value or error, no claim).  ExprsOfSize defines the ASTs  *)
(* with n nodes; SpecA visits one state per (AST, env) up to MaxSize nodes and checks that Eval and     *)
(* Deps are total and well-typed (EvalTotalA).                                                          *)
(*                                                                                                      *)
(* Part B (freshness): a template `cfg.expr` over machine variables, player variables, settings and     *)
(* device attributes (settings are a source of their own: a setting is stored in a backing machine      *)
(* variable whose name may differ from the setting's, reads as its default while that variable is unset *)
(* or holds no valid value, and changes through the settings controller or through the variable); a subscriber holding the last value, the set of keys the last evaluation depends  *)
(* on (`reads`) and whether its future has completed (`pending`); actions per public call:              *)
(* A machine variable (also the one behind a setting) is 'missing', 'declared, unset' (configure_machine_var: it exists *)
(* with the value None - the state set_setting_value passes through the first time a setting is changed) or 'set';    *)
(* env.dc[n] tells whether it exists.  Both unset states read as None; the values written include the falsy value of   *)
(* every type (0, False, '', None), and a change is what Python's != calls one (None -> 0, '' -> 0, 2 -> 0 are, 0 ->    *)
(* False is not).  Declare(var) is configure_machine_var on a missing variable.                                        *)
(* Set*(var, v), Turn, GameStart, GameEnd, Reeval (the _update_subscription step), Post (conditional    *)
(* event handler, evaluated at post time).  `auto` is a consumer that re-evaluates in its done-callback *)
(* (config_player._update_subscription / event_player.handle_subscription_change).                      *)
EXTENDS Integers, Sequences, FiniteSets, TLC
CONSTANTS Configs,      \* templates: records [id, expr, vars, ep, ge]
          Envs,         \* initial environments
          MVals, PVals, SVals, WVals, CVals,   \* values Set may assign (machine var, player var, setting, switch, counter)
          SMVals,       \* values assigned directly to the machine variable behind a setting (valid or not)
          MaxOps,       \* number of steps (part B)
          Spurious      \* subset of BOOLEAN: may a step complete the future although nothing read changed
VARIABLES cfg, env, sub, auto, nops, act
vars == <<cfg, env, sub, auto, nops, act>>
\* ---------------------------------------------------------------- values ----------------------------------
I(n) == [k |-> "int", v |-> n]
B(b) == [k |-> "bool", v |-> b]
NoneV == [k |-> "none"]
S(s) == [k |-> "str", v |-> s]          \* strings are sequences of character codes ("a" = <<1>>, "" = <<>>)
T(s) == [k |-> "tup", v |-> s]
Err(x) == [k |-> "err", e |-> x]        \* "type" | "zerodiv" | "missing" (no game / player) | "noname" (undefined name)
TypeErr == Err("type")
ZeroErr == Err("zerodiv")
Out == [k |-> "out"]                    \* outside the modelled fragment
Dflt == [k |-> "dflt"]                  \* the template's default value
IsNum(x) == x.k \in {"int", "bool"}
Num(x) == IF x.k = "int" THEN x.v ELSE IF x.v THEN 1 ELSE 0
Truthy(x) == CASE x.k = "int" -> x.v # 0
               [] x.k = "bool" -> x.v
               [] x.k \in {"str", "tup"} -> Len(x.v) > 0
               [] OTHER -> FALSE          \* None, default
Lim == 100000
IntR(n) == IF n > Lim \/ n < -Lim THEN Out ELSE I(n)
Abs(n) == IF n < 0 THEN -n ELSE n
\* structural equality including the type (used to compare observations)
RECURSIVE VEq(_, _)
VEq(a, b) == /\ a.k = b.k
             /\ CASE a.k \in {"int", "bool", "str"} -> a.v = b.v
                  [] a.k = "tup" -> Len(a.v) = Len(b.v) /\ \A i \in 1..Len(a.v) : VEq(a.v[i], b.v[i])
                  [] a.k = "err" -> a.e = b.e
                  [] OTHER -> TRUE
\* Python ==
RECURSIVE PyEq(_, _)
PyEq(a, b) == IF IsNum(a) /\ IsNum(b) THEN Num(a) = Num(b)
              ELSE IF a.k # b.k THEN FALSE
              ELSE CASE a.k = "str" -> a.v = b.v
                     [] a.k = "tup" -> Len(a.v) = Len(b.v) /\ \A i \in 1..Len(a.v) : PyEq(a.v[i], b.v[i])
                     [] a.k \in {"none", "dflt"} -> TRUE
                     [] OTHER -> FALSE
\* the same value as far as a template can tell: equal including the type, or equal by Python's == (0 and False; an
\* assignment of False over 0 is "no change" and nothing in the grammar tells the two apart by more than the type)
SameV(a, b) == VEq(a, b) \/ PyEq(a, b)
RECURSIVE SeqOrd(_, _)
SeqOrd(a, b) == IF Len(a) = 0 /\ Len(b) = 0 THEN "eq" ELSE IF Len(a) = 0 THEN "lt" ELSE IF Len(b) = 0 THEN "gt"
                ELSE IF Head(a) < Head(b) THEN "lt" ELSE IF Head(a) > Head(b) THEN "gt" ELSE SeqOrd(Tail(a), Tail(b))
\* Python ordering: "lt" | "eq" | "gt" | "te" (TypeError)
RECURSIVE Ord(_, _)
RECURSIVE TupOrd(_, _)
Ord(a, b) == IF IsNum(a) /\ IsNum(b) THEN (IF Num(a) < Num(b) THEN "lt" ELSE IF Num(a) > Num(b) THEN "gt" ELSE "eq")
             ELSE IF a.k = "str" /\ b.k = "str" THEN SeqOrd(a.v, b.v)
             ELSE IF a.k = "tup" /\ b.k = "tup" THEN TupOrd(a.v, b.v)
             ELSE "te"
TupOrd(x, y) == IF Len(x) = 0 /\ Len(y) = 0 THEN "eq" ELSE IF Len(x) = 0 THEN "lt" ELSE IF Len(y) = 0 THEN "gt"
                ELSE IF PyEq(Head(x), Head(y)) THEN TupOrd(Tail(x), Tail(y)) ELSE Ord(Head(x), Head(y))
RECURSIVE Rep(_, _)
Rep(s, n) == IF n <= 0 THEN <<>> ELSE s \o Rep(s, n - 1)
RepV(mk(_), s, n) == IF n > 8 \/ Len(s) > 8 THEN Out ELSE mk(Rep(s, n))
FloorDiv(a, b) == IF b > 0 THEN a \div b ELSE (-a) \div (-b)
PyMod(a, b) == a - b * FloorDiv(a, b)
RECURSIVE Pw(_, _)
Pw(a, n) == IF n = 0 THEN 1 ELSE a * Pw(a, n - 1)
RECURSIVE XorN(_, _)
XorN(a, b) == IF a = 0 THEN b ELSE IF b = 0 THEN a ELSE (((a % 2) + (b % 2)) % 2) + (2 * XorN(a \div 2, b \div 2))
Xor(a, b) == IF a >= 0 /\ b >= 0 THEN XorN(a, b)
             ELSE IF a < 0 /\ b < 0 THEN XorN(-a - 1, -b - 1)
             ELSE IF a < 0 THEN -XorN(-a - 1, b) - 1 ELSE -XorN(a, -b - 1) - 1
\* ---------------------------------------------------------------- operators --------------------------------
BinOps == {"add", "sub", "mul", "fdiv", "div", "mod", "pow", "xor"}
CmpOps == {"eq", "ne", "lt", "le", "gt", "ge"}
BoolOps == {"and", "or"}
UnOps == {"neg", "not"}
\* a, b are proper values (not Err, not Out)
Arith(o, a, b) ==
    LET nn == IsNum(a) /\ IsNum(b)
        x == Num(a)
        y == Num(b)
    IN CASE o = "add" -> IF nn THEN IntR(x + y)
                         ELSE IF a.k = "str" /\ b.k = "str" THEN S(a.v \o b.v)
                         ELSE IF a.k = "tup" /\ b.k = "tup" THEN T(a.v \o b.v)
                         ELSE TypeErr
         [] o = "sub" -> IF nn THEN IntR(x - y) ELSE TypeErr
         [] o = "mul" -> IF nn THEN (IF Abs(x) > 1000 \/ Abs(y) > 1000 THEN Out ELSE IntR(x * y))
                         ELSE IF a.k = "str" /\ IsNum(b) THEN RepV(S, a.v, y)
                         ELSE IF IsNum(a) /\ b.k = "str" THEN RepV(S, b.v, x)
                         ELSE IF a.k = "tup" /\ IsNum(b) THEN RepV(T, a.v, y)
                         ELSE IF IsNum(a) /\ b.k = "tup" THEN RepV(T, b.v, x)
                         ELSE TypeErr
         [] o = "fdiv" -> IF nn THEN (IF y = 0 THEN ZeroErr ELSE IntR(FloorDiv(x, y))) ELSE TypeErr
         [] o = "div" -> IF nn THEN (IF y = 0 THEN ZeroErr ELSE Out) ELSE TypeErr          \* a float
         [] o = "mod" -> IF nn THEN (IF y = 0 THEN ZeroErr ELSE IntR(PyMod(x, y)))
                         ELSE IF a.k = "str" THEN (IF b.k = "tup" /\ Len(b.v) = 0 THEN a ELSE TypeErr)  \* no format specs
                         ELSE TypeErr
         [] o = "pow" -> IF nn THEN (IF y < 0 THEN (IF x = 0 THEN ZeroErr ELSE Out)       \* a float
                                     ELSE IF y > 8 \/ Abs(x) > 10 THEN Out ELSE IntR(Pw(x, y)))
                         ELSE TypeErr
         [] o = "xor" -> IF a.k = "bool" /\ b.k = "bool" THEN B(a.v # b.v)
                         ELSE IF nn THEN IntR(Xor(x, y)) ELSE TypeErr
Compare(o, a, b) ==
    IF o = "eq" THEN B(PyEq(a, b)) ELSE IF o = "ne" THEN B(~PyEq(a, b))
    ELSE LET r == Ord(a, b)
         IN IF r = "te" THEN TypeErr
            ELSE B(CASE o = "lt" -> r = "lt" [] o = "le" -> r \in {"lt", "eq"} [] o = "gt" -> r = "gt" [] o = "ge" -> r \in {"gt", "eq"})
Index(a, i) ==
    IF a.k \notin {"tup", "str"} THEN TypeErr          \* not subscriptable
    ELSE IF ~IsNum(i) THEN TypeErr                      \* indices must be integers
    ELSE LET n == Len(a.v)
             j == IF Num(i) < 0 THEN Num(i) + n ELSE Num(i)
         IN IF j < 0 \/ j >= n THEN Out                 \* IndexError: no claim
            ELSE IF a.k = "tup" THEN a.v[j + 1] ELSE S(<<a.v[j + 1]>>)
\* ---------------------------------------------------------------- environment -----------------------------
\* env = [ma, mb, st, sq, sc, sw, cv, kp : value, px : <<value, value>>, game : BOOLEAN, cur : 1..2]
\* variables: ma mb (machine variables; NoneV = unset), px (current player's x), p2x (players[1].x), st sq sc (settings),
\* mq (the machine variable behind the setting sq, read as a machine variable), sw (switch state), cv (counter value),
\* kp (event parameter present), kq (name that is not defined)
\* Settings (settings_controller.py).  env[s] is the value of the machine variable the setting s is stored in (NoneV =
\* that variable does not exist).  st is stored under its own name, sq under a differently named variable (the
\* `machine_var:` option), sc is an entry added by code with a machine variable of its own.  Every setting has the
\* value table {0, 1, 2, 3} and a non-zero default; membership is Python's `in` on the keys of a dict (so True counts as 1).
SNames == {"st", "sq", "sc"}
SValid == {I(0), I(1), I(2), I(3)}
MNames == {"ma", "mb"}
DNames == MNames \cup SNames           \* names with a machine variable that can be missing / declared, unset / set
SDefault(s) == CASE s = "st" -> I(2) [] s = "sq" -> I(1) [] s = "sc" -> I(3)
SettingVal(s, x) == IF \E v \in SValid : PyEq(x, v) THEN x ELSE SDefault(s)
Lookup(n, en) == CASE n = "px" -> IF en.game THEN en.px[en.cur] ELSE Err("missing")
                   [] n = "p2x" -> IF en.game THEN en.px[2] ELSE Err("missing")
                   [] n = "kq" -> Err("noname")
                   [] n \in SNames -> SettingVal(n, en[n])
                   [] n = "mq" -> en.sq
                   [] OTHER -> en[n]
\* the notification keys a variable access depends on
KeysOf(n, en) == CASE n = "px" -> {"turn"} \cup (IF en.game THEN {IF en.cur = 1 THEN "px1" ELSE "px2"} ELSE {})
                   [] n = "p2x" -> {"plist"} \cup (IF en.game THEN {"px2"} ELSE {})
                   [] n \in {"kp", "kq"} -> {}
                   [] OTHER -> {n}
\* ---------------------------------------------------------------- evaluation -------------------------------
\* nodes: [t |-> "lit", v] [t |-> "var", n, acc] [t |-> "un", o, a] [t |-> "bin"|"cmp"|"bool", o, a, b]
\*        [t |-> "if", c, a, b] (a if c else b) [t |-> "tup", e : sequence] [t |-> "idx", a, i]
RECURSIVE Eval(_, _)
RECURSIVE EvalSeq(_, _, _)
EvalSeq(es, en, acc) == IF Len(es) = 0 THEN T(acc)
                        ELSE LET x == Eval(Head(es), en)
                             IN IF x.k = "err" THEN x ELSE IF x.k = "out" THEN Out
                                ELSE EvalSeq(Tail(es), en, acc \o <<x>>)
Eval(e, en) ==
    CASE e.t = "lit" -> IF e.v.k = "out" THEN Out ELSE e.v
      [] e.t = "var" -> Lookup(e.n, en)
      [] e.t = "un" -> LET a == Eval(e.a, en)
                       IN IF a.k = "err" THEN a ELSE IF a.k = "out" THEN Out
                          ELSE IF e.o = "not" THEN B(~Truthy(a))
                          ELSE IF IsNum(a) THEN IntR(-Num(a)) ELSE TypeErr
      [] e.t \in {"bin", "cmp", "bool", "idx"} ->
              LET a == Eval(e.a, en)
              IN IF a.k = "err" THEN a ELSE IF a.k = "out" THEN Out
                 ELSE LET b == Eval(IF e.t = "idx" THEN e.i ELSE e.b, en)
                      IN IF b.k = "err" THEN b ELSE IF b.k = "out" THEN Out
                         ELSE IF e.t = "bool" THEN (IF (e.o = "and") = Truthy(a) THEN b ELSE a)
                         ELSE IF e.t = "bin" THEN Arith(e.o, a, b)
                         ELSE IF e.t = "cmp" THEN Compare(e.o, a, b)
                         ELSE Index(a, b)
      [] e.t = "if" -> LET c == Eval(e.c, en)
                       IN IF c.k = "err" THEN c ELSE IF c.k = "out" THEN Out
                          ELSE IF Truthy(c) THEN Eval(e.a, en) ELSE Eval(e.b, en)
      [] e.t = "tup" -> EvalSeq(e.e, en, <<>>)
IsErr(e, en) == Eval(e, en).k = "err"
\* Keys the outcome of the last evaluation depends on.  Operators are strict: while an operand aborts, the outcome is
\* that operand's error whatever the other operands read, so only the aborting operand's reads are required (this is
\* what the implementation subscribes to).  A conditional depends on its test and on the branch taken, also when the
\* branch aborts.
RECURSIVE Deps(_, _)
RECURSIVE DepsSeq(_, _)
DepsSeq(es, en) == IF Len(es) = 0 THEN {}
                   ELSE IF IsErr(Head(es), en) THEN Deps(Head(es), en)
                   ELSE LET tl == Tail(es)
                        IN IF \E i \in 1..Len(tl) : IsErr(tl[i], en) THEN DepsSeq(tl, en)
                           ELSE Deps(Head(es), en) \cup DepsSeq(tl, en)
Deps(e, en) ==
    CASE e.t = "lit" -> {}
      [] e.t = "var" -> KeysOf(e.n, en)
      [] e.t = "un" -> Deps(e.a, en)
      [] e.t \in {"bin", "cmp", "bool", "idx"} ->
              LET r == IF e.t = "idx" THEN e.i ELSE e.b
              IN IF IsErr(e.a, en) THEN Deps(e.a, en) ELSE IF IsErr(r, en) THEN Deps(r, en)
                 ELSE Deps(e.a, en) \cup Deps(r, en)
      [] e.t = "if" -> IF IsErr(e.c, en) THEN Deps(e.c, en)
                       ELSE Deps(e.c, en) \cup (IF Truthy(Eval(e.c, en)) THEN Deps(e.a, en) ELSE Deps(e.b, en))
      [] e.t = "tup" -> DepsSeq(e.e, en)
\* what a template with a default returns: default on TypeError / missing variable / None
Res(e, en) == LET r == Eval(e, en)
              IN IF r.k = "err" /\ r.e \in {"type", "missing", "noname"} THEN Dflt ELSE IF r.k = "none" THEN Dflt ELSE r
\* condition of a conditional event handler (BoolTemplate, default False)
CondTrue(e, en) == Truthy(Res(e, en))
\* ---------------------------------------------------------------- enumeration (part A) ---------------------
EnumLits == {I(0), I(1), I(2), B(TRUE), B(FALSE), NoneV, S(<<>>), S(<<1>>)}
EnumVars == {"ma", "px", "st", "sw"}
Leaves == {[t |-> "lit", v |-> v] : v \in EnumLits} \cup {[t |-> "var", n |-> n, acc |-> "attr"] : n \in EnumVars}
             \cup {[t |-> "tup", e |-> <<>>]}
\* ES = <<set of ASTs with 1 node, ..., set of ASTs with n-1 nodes>>; the result is the set of ASTs with n nodes.
\* (The declarative definition; drivers/c16.py exprs_of_size mirrors it.  TLC only builds the levels 1 and 2.)
ExprsOfSize(n, ES) ==
    IF n = 1 THEN Leaves
    ELSE {[t |-> "un", o |-> o, a |-> a] : o \in UnOps, a \in ES[n - 1]}
         \cup {[t |-> "tup", e |-> <<a>>] : a \in ES[n - 1]}
         \cup UNION {
               {[t |-> "bin", o |-> o, a |-> a, b |-> b] : o \in BinOps, a \in ES[i], b \in ES[n - 1 - i]}
               \cup {[t |-> "cmp", o |-> o, a |-> a, b |-> b] : o \in CmpOps, a \in ES[i], b \in ES[n - 1 - i]}
               \cup {[t |-> "bool", o |-> o, a |-> a, b |-> b] : o \in BoolOps, a \in ES[i], b \in ES[n - 1 - i]}
               \cup {[t |-> "idx", a |-> a, i |-> b] : a \in ES[i], b \in ES[n - 1 - i]}
               \cup {[t |-> "tup", e |-> <<a, b>>] : a \in ES[i], b \in ES[n - 1 - i]}
               : i \in 1..(n - 2)}
         \cup UNION {UNION {
               {[t |-> "if", c |-> c, a |-> a, b |-> b] : c \in ES[i], a \in ES[j], b \in ES[n - 1 - i - j]}
               : j \in 1..(n - 2 - i)} : i \in 1..(n - 3)}
\* ---------------------------------------------------------------- state machine (part B) -------------------
\* a variable that holds a value exists
DeclOK == \A n \in DNames : env[n] # NoneV => env.dc[n]
Fresh(e, en) == [last |-> Res(e, en), reads |-> Deps(e, en), pending |-> FALSE]
Init == /\ cfg \in Configs /\ env \in Envs /\ (env.game \/ cfg.ge) /\ nops = 0 /\ act = [op |-> "init"]
        /\ sub = Fresh(cfg.expr, env)
        /\ auto = [last |-> Res(cfg.expr, env), must |-> FALSE, may |-> FALSE]
Changed(a, b) == ~PyEq(a, b)      \* MPF posts a change event iff the new value differs by Python's !=
\* A step of the world: the environment becomes en2; `keys` are the notification keys of what changed.  The
\* subscriber's future completes if it depends on one of them (and may complete spuriously).  The automatic
\* consumer re-evaluates in its done-callback, so at rest it holds the current value; it fires (event_player) when
\* the value changed to something true.  `multi` steps (turn / game changes) pass through intermediate states.
World(en2, keys, a, multi) ==
    /\ nops < MaxOps
    /\ env' = en2
    /\ \E spur \in Spurious : sub' = [sub EXCEPT !.pending = @ \/ (keys \cap sub.reads # {}) \/ spur]
    \* the consumer subscribed after its last evaluation, whose outcome is the same as the current one's (AutoFresh): it is
    \* told iff one of the keys the current outcome depends on changed (or spuriously) and then holds the new value,
    \* else it keeps the one it has (0 stays 0 when False is written over it)
    /\ \E aspur \in Spurious :
         LET new == Res(cfg.expr, en2)
             told == (keys \cap Deps(cfg.expr, env) # {}) \/ aspur
         IN auto' = [last |-> IF told THEN new ELSE auto.last, must |-> Truthy(new) /\ ~PyEq(new, auto.last),
                     may |-> Truthy(new) /\ (multi \/ ~PyEq(new, auto.last))]
    /\ nops' = nops + 1 /\ act' = a /\ UNCHANGED cfg
SetM(n, v) == /\ n \in {"ma", "mb"} /\ n \in cfg.vars
              /\ World([env EXCEPT ![n] = v, !.dc[n] = TRUE], IF Changed(env[n], v) THEN {n} ELSE {}, [op |-> "set", var |-> n, p |-> 0, v |-> v], FALSE)
\* Settings.  The machine variable behind the setting s goes from `old` to `new`: the setting changed if its value
\* did (key s); a template that read that variable as machine.<name> depends on the variable itself (key "mq").
UsesS(s) == s \in cfg.vars \/ (s = "sq" /\ "mq" \in cfg.vars)
SKeys(s, old, new) == (IF Changed(SettingVal(s, old), SettingVal(s, new)) THEN {s} ELSE {})
                      \cup (IF s = "sq" /\ Changed(old, new) THEN {"mq"} ELSE {})
\* settings.set_setting_value(s, v): only values of the table are accepted.  (The controller declares the variable,
\* then writes it: the first change of a setting is a write to a declared, unset variable.)
SetS(s, v) == /\ s \in SNames /\ UsesS(s) /\ v \in SValid
              /\ World([env EXCEPT ![s] = v, !.dc[s] = TRUE], SKeys(s, env[s], v), [op |-> "set", var |-> s, p |-> 0, v |-> v], FALSE)
\* set_machine_var(<machine variable of s>, v): any value; the setting reads as its default if v is not in the table
SetSM(s, v) == /\ s \in SNames /\ UsesS(s)
               /\ World([env EXCEPT ![s] = v, !.dc[s] = TRUE], SKeys(s, env[s], v), [op |-> "setm", var |-> s, v |-> v], FALSE)
SetW(v) == /\ "sw" \in cfg.vars
           /\ World([env EXCEPT !.sw = v], IF Changed(env.sw, v) THEN {"sw"} ELSE {}, [op |-> "set", var |-> "sw", p |-> 0, v |-> v], FALSE)
SetC(v) == /\ "cv" \in cfg.vars
           /\ World([env EXCEPT !.cv = v], IF Changed(env.cv, v) THEN {"cv"} ELSE {}, [op |-> "set", var |-> "cv", p |-> 0, v |-> v], FALSE)
SetP(p, v) == /\ env.game /\ ("px" \in cfg.vars \/ "p2x" \in cfg.vars)
              /\ World([env EXCEPT !.px[p] = v], IF Changed(env.px[p], v) THEN {IF p = 1 THEN "px1" ELSE "px2"} ELSE {},
                       [op |-> "set", var |-> "px", p |-> p, v |-> v], FALSE)
\* remove_machine_var: the variable reads as None afterwards
Remove(n) == /\ n \in {"ma", "mb"} /\ n \in cfg.vars
             /\ World([env EXCEPT ![n] = NoneV, !.dc[n] = FALSE], IF Changed(env[n], NoneV) THEN {n} ELSE {}, [op |-> "remove", var |-> n], FALSE)
\* configure_machine_var on a missing variable (of its own, or the one behind a setting): it exists now, still unset.
\* Nothing a template can read changed.
Declare(n) == /\ n \in DNames /\ ~env.dc[n] /\ (IF n \in SNames THEN UsesS(n) ELSE n \in cfg.vars)
              /\ World([env EXCEPT !.dc[n] = TRUE], {}, [op |-> "declare", var |-> n], FALSE)
UsesPlayers == "px" \in cfg.vars \/ "p2x" \in cfg.vars
Turn == /\ env.game /\ UsesPlayers
        /\ World([env EXCEPT !.cur = 3 - env.cur], {"turn"}, [op |-> "turn"], TRUE)
GameEnd == /\ env.game /\ UsesPlayers /\ cfg.ge        \* cfg.ge: the schedule generator may end the game
           /\ World([env EXCEPT !.game = FALSE, !.cur = 1, !.px = <<I(0), I(0)>>], {"turn", "plist"}, [op |-> "gend"], TRUE)
GameStart == /\ ~env.game /\ UsesPlayers
             /\ World([env EXCEPT !.game = TRUE, !.cur = 1, !.px = <<I(0), I(0)>>], {"turn", "plist"}, [op |-> "gstart"], TRUE)
\* the consumer's done-callback: evaluate again and subscribe again
Reeval == /\ sub.pending /\ nops < MaxOps
          /\ sub' = Fresh(cfg.expr, env)
          /\ auto' = [auto EXCEPT !.must = FALSE, !.may = FALSE]
          /\ nops' = nops + 1 /\ act' = [op |-> "reeval"] /\ UNCHANGED <<cfg, env>>
\* an event with a conditional handler is posted: the handler runs iff the condition holds now
Post == /\ nops < MaxOps /\ nops' = nops + 1 /\ act' = [op |-> "post", fired |-> CondTrue(cfg.expr, env)]
        /\ auto' = [auto EXCEPT !.must = FALSE, !.may = FALSE]
        /\ UNCHANGED <<cfg, env, sub>>
Next == \/ \E n \in {"ma", "mb"}, v \in MVals : SetM(n, v)
        \/ \E s \in SNames, v \in SVals : SetS(s, v)
        \/ \E s \in SNames, v \in SMVals : SetSM(s, v)
        \/ \E v \in WVals : SetW(v)
        \/ \E v \in CVals : SetC(v)
        \/ \E p \in 1..2, v \in PVals : SetP(p, v)
        \/ \E n \in DNames : Declare(n)
        \/ Turn \/ GameEnd \/ GameStart \/ Reeval \/ Post
Spec == Init /\ [][Next]_vars
\* ---------------------------------------------------------------- properties -------------------------------
RECURSIVE IsVal(_)
IsVal(x) == CASE x.k = "int" -> x.v \in Int
              [] x.k = "bool" -> x.v \in BOOLEAN
              [] x.k = "str" -> \A i \in 1..Len(x.v) : x.v[i] \in Nat
              [] x.k = "tup" -> \A i \in 1..Len(x.v) : IsVal(x.v[i]) /\ x.v[i].k \in {"int", "bool", "str", "tup", "none"}
              [] x.k = "err" -> x.e \in {"type", "zerodiv", "missing", "noname"}
              [] x.k \in {"none", "out"} -> TRUE
              [] OTHER -> FALSE
AllKeys == {"ma", "mb", "st", "sq", "sc", "mq", "sw", "cv", "px1", "px2", "turn", "plist"}
\* part A: Eval and Deps are total and well-typed on every (AST, env)
EvalTotal == IsVal(Eval(cfg.expr, env)) /\ Deps(cfg.expr, env) \subseteq AllKeys
\* Part A as a specification of its own.  Building the set of all ASTs as one TLC value is slow, so the ASTs are
\* grown by actions instead: a state holds one AST (cfg.expr, with nops = number of nodes) and an environment; a step
\* wraps the AST into a bigger one, the other operands being ASTs of at most two nodes.  Every AST of at most
\* MaxSize <= 6 nodes is reached this way (its biggest operand is the one that was grown).  The driver enumerates
\* ExprsOfSize directly and compares the number of states.
CONSTANT MaxSize
Sib1 == Leaves
Sib2 == ExprsOfSize(2, <<Leaves>>)
Sized(SS, k) == {[e |-> x, s |-> k] : x \in SS}
Sibs == Sized(Sib1, 1) \cup Sized(Sib2, 2)
Node2(a, b) == {[t |-> "bin", o |-> o, a |-> a, b |-> b] : o \in BinOps}
               \cup {[t |-> "cmp", o |-> o, a |-> a, b |-> b] : o \in CmpOps}
               \cup {[t |-> "bool", o |-> o, a |-> a, b |-> b] : o \in BoolOps}
               \cup {[t |-> "idx", a |-> a, i |-> b], [t |-> "tup", e |-> <<a, b>>]}
Wrap(e, s) ==
    (IF s + 1 <= MaxSize THEN Sized({[t |-> "un", o |-> o, a |-> e] : o \in UnOps} \cup {[t |-> "tup", e |-> <<e>>]}, s + 1) ELSE {})
    \cup UNION {IF s + x.s + 1 <= MaxSize THEN Sized(Node2(e, x.e) \cup Node2(x.e, e), s + x.s + 1) ELSE {} : x \in Sibs}
    \cup UNION {IF s + x.s + y.s + 1 <= MaxSize
                THEN Sized({[t |-> "if", c |-> e, a |-> x.e, b |-> y.e], [t |-> "if", c |-> x.e, a |-> e, b |-> y.e],
                            [t |-> "if", c |-> x.e, a |-> y.e, b |-> e]}, s + x.s + y.s + 1)
                ELSE {} : x \in Sibs, y \in Sibs}
StateA(e, en, n, a) == /\ cfg' = [id |-> 0, expr |-> e, vars |-> {}, ep |-> FALSE, ge |-> TRUE] /\ nops' = n /\ act' = a
                       /\ sub' = Fresh(e, en) /\ auto' = [last |-> Res(e, en), must |-> FALSE, may |-> FALSE]
InitA == /\ env \in Envs /\ nops = 1 /\ act = [op |-> "init"]
         /\ \E e \in Leaves : /\ cfg = [id |-> 0, expr |-> e, vars |-> {}, ep |-> FALSE, ge |-> TRUE]
                               /\ sub = Fresh(e, env) /\ auto = [last |-> Res(e, env), must |-> FALSE, may |-> FALSE]
Grow == \E w \in Wrap(cfg.expr, nops) : StateA(w.e, env, w.s, [op |-> "grow"]) /\ UNCHANGED env
SpecA == InitA /\ [][Grow]_vars
EvalTotalA == EvalTotal /\ VEq(sub.last, Res(cfg.expr, env)) /\ sub.reads = Deps(cfg.expr, env)
\* part B: whenever no notification is pending the subscriber holds the current value
\* (the subscriber's view and evaluate() agree: the same value, up to what Python's == cannot tell apart)
NoStaleAtRest == ~sub.pending => SameV(sub.last, Res(cfg.expr, env))
AutoFresh == SameV(auto.last, Res(cfg.expr, env))
\* after a change to anything the last evaluation depends on, the future completes
KeysChanged == {n \in {"ma", "mb", "sw", "cv"} : Changed(env[n], env'[n])}
               \cup {s \in SNames : Changed(SettingVal(s, env[s]), SettingVal(s, env'[s]))}
               \cup (IF Changed(env.sq, env'.sq) THEN {"mq"} ELSE {})
               \cup (IF env.game /\ env'.game /\ Changed(env.px[1], env'.px[1]) THEN {"px1"} ELSE {})
               \cup (IF env.game /\ env'.game /\ Changed(env.px[2], env'.px[2]) THEN {"px2"} ELSE {})
               \cup (IF env.game # env'.game \/ env.cur # env'.cur THEN {"turn"} ELSE {})
               \cup (IF env.game # env'.game THEN {"plist"} ELSE {})
Notified == [][ (KeysChanged \cap sub.reads # {}) => sub'.pending ]_vars
\* a pending notification is only cleared by a re-evaluation, which yields the current value
ReevalCurrent == [][ (sub.pending /\ ~sub'.pending) => (act'.op = "reeval" /\ VEq(sub'.last, Res(cfg.expr, env'))) ]_vars
\* the operator table entries differ pairwise in effect (a swapped entry is observable on small operands)
SmallVals == {I(0), I(1), I(2), I(3), B(TRUE), S(<<1>>)}
OpsDistinct == /\ \A o1, o2 \in BinOps : o1 # o2 => \E a, b \in SmallVals : ~VEq(Arith(o1, a, b), Arith(o2, a, b))
               /\ \A o1, o2 \in CmpOps : o1 # o2 => \E a, b \in SmallVals : ~VEq(Compare(o1, a, b), Compare(o2, a, b))
=============================================================================
