------------------------------- MODULE Credits -------------------------------
(* Reference model of the credits mode (mpf/modes/credits/code/credits.py) together with the part *)
(* of the game mode it talks to (start request, player add, ball starting, game end).  All money  *)
(* is in integer credit units (smallest coin); time is in abstract units.  Transitions are        *)
(* functions on a state record `s` (as in LogicBlocks) so that the call chains                     *)
(*   coin -> _add_credit_units -> _audit -> _reset_timeouts,   start -> _game_started -> _player_added *)
(* are transcribed one to one.                                                                    *)
(*                                                                                                *)
(* cfg = [id, upg, tiers, coins, maxU, fracExp, allExp, bootFree, evCredits, maxPlayers]           *)
(*   upg        credit units per game                                                             *)
(*   tiers      sequence of <<price in units, bonus units>>, increasing prices, first = <<upg,0>>  *)
(*   coins      sequence of [v |-> value in units, t |-> audit type]                               *)
(*   maxU       max_credits * upg (0 = no maximum)                                                *)
(*   fracExp / allExp   fractional / full credit expiration in time units (0 = off)               *)
(*   bootFree   the machine boots with free_play: yes                                             *)
(*   evCredits  credits granted by the configured credit event                                    *)
(* A coin value may be any positive number of units: smaller than a game, or a bill worth several *)
(* times the highest tier price (the tier counter wraps around several times within ONE insertion *)
(* and every full tier passed on the way earns its bonus).                                        *)
(* Deviations: names of code-as-is behaviours that contradict the statement of C20; with          *)
(* Deviations = {} the model is the intended behaviour (this is what is model-checked and what    *)
(* traces are validated against); the other settings are only used to classify rejected traces.   *)
EXTENDS Integers, Sequences, FiniteSets, TLC
CONSTANTS Configs, Deviations, MaxTime, MaxOps, MaxPaid, BallsPerGame, Ops
VARIABLES cfg, now, s, nops, act
vars == <<cfg, now, s, nops, act>>
Types == {"money", "token"}
Dev(d) == d \in Deviations
\* code as is: a machine booted in free play never runs _calculate_credit_units/_calculate_pricing_tiers
NoUnits == Dev("BootFreeNoUnits") /\ cfg.bootFree
Upg  == IF NoUnits THEN 0 ELSE cfg.upg
MaxU == IF NoUnits THEN 0 ELSE cfg.maxU
\* ---- pricing table (credits.py _calculate_pricing_tiers) ---------------------------------------------
W == IF Len(cfg.tiers) = 0 THEN 1 ELSE cfg.tiers[Len(cfg.tiers)][1]      \* pricing_tiers_wrap_around
RECURSIVE Greedy(_, _)
Greedy(u, k) == IF k = 0 THEN 0 ELSE (u \div cfg.tiers[k][1]) * cfg.tiers[k][2] + Greedy(u % cfg.tiers[k][1], k - 1)
Bonus(u) == Greedy(u, Len(cfg.tiers))          \* bonus of the greedy decomposition of u units into tiers
Table(u) == Bonus(u) - Bonus(u - 1)            \* pricing_table[u], u in 1..W
\* closed form of the bonus for p units paid since the last tier reset
BonusTotal(p) == (p \div W) * Bonus(W) + Bonus(p % W)
\* "add credits one by one to get all pricing tiers": (progress, n, bonus so far) -> <<progress', bonus>>
RECURSIVE AddTiered(_, _, _)
AddTiered(p, n, b) == IF n = 0 THEN <<p, b>> ELSE AddTiered((p + 1) % W, n - 1, b + Table(p + 1))
\* ---- _add_credit_units -----------------------------------------------------------------------------
CapIntended(total) == IF MaxU > 0 /\ total > MaxU THEN MaxU ELSE total
Cap(prev, total) ==
    IF Dev("CapOverwritten")
    THEN LET u1 == IF MaxU > 0 /\ total > MaxU THEN MaxU ELSE prev          \* first `if`
         IN IF MaxU <= 0 \/ MaxU > prev THEN total ELSE u1                   \* second `if` overwrites
    ELSE CapIntended(total)
AddUnits(st, n, tiered) ==
    LET r == IF tiered THEN AddTiered(st.prog, n, 0) ELSE <<st.prog, 0>>
    IN [st EXCEPT !.units = Cap(st.units, st.units + n + r[2]), !.prog = r[1],
                  !.paid = IF tiered THEN @ + n ELSE @, !.bonusAcc = @ + r[2]]
ResetTimeouts(st, t) == [st EXCEPT !.fracAt = IF cfg.fracExp > 0 THEN t + cfg.fracExp ELSE @,
                                   !.allAt = IF cfg.allExp > 0 THEN t + cfg.allExp ELSE @]
Audit(st, i) == [st EXCEPT !.audN[cfg.coins[i].t] = @ + 1, !.audV[cfg.coins[i].t] = @ + cfg.coins[i].v]
ClearTier(st) == [st EXCEPT !.prog = 0, !.paid = 0, !.bonusAcc = 0]
Free(st) == st.hn = 0          \* free play: no coin / start handlers registered
\* one registered handler set runs these; st.hn sets are registered (1 unless Deviation DupHandlers)
RECURSIVE CoinN(_, _, _, _)
CoinN(st, i, t, n) == IF n = 0 THEN st ELSE CoinN(ResetTimeouts(Audit(AddUnits(st, cfg.coins[i].v, TRUE), i), t), i, t, n - 1)
RECURSIVE ServiceN(_, _)
ServiceN(st, n) == IF n = 0 THEN st ELSE ServiceN(AddUnits(st, Upg, FALSE), n - 1)
RECURSIVE EventN(_, _, _)
EventN(st, t, n) == IF n = 0 THEN st ELSE EventN(ResetTimeouts(AddUnits(st, cfg.evCredits * Upg, FALSE), t), t, n - 1)
\* ---- game interaction ---------------------------------------------------------------------------------
BallStarting(st) == IF ~Free(st) /\ st.cur = 1 /\ st.ball = 2 /\ ~st.rflag THEN [ClearTier(st) EXCEPT !.rflag = TRUE] ELSE st
Deduct(st) == [st EXCEPT !.units = IF @ - Upg < 0 THEN 0 ELSE @ - Upg]
PressF(st) ==
    IF ~st.game
    THEN IF Free(st) THEN [st EXCEPT !.game = TRUE, !.players = 1, !.cur = 1, !.ball = 1]
         ELSE IF st.units >= Upg
              THEN \* request_to_start_game ok -> mode_game_started (_game_started) -> player_add_request ok -> player_added
                   Deduct([ClearTier(st) EXCEPT !.game = TRUE, !.players = 1, !.cur = 1, !.ball = 1, !.fracAt = 0, !.allAt = 0])
              ELSE st
    ELSE IF st.players < cfg.maxPlayers /\ st.ball = 1
         THEN IF Free(st) THEN [st EXCEPT !.players = @ + 1]
              ELSE IF st.units >= Upg THEN Deduct([st EXCEPT !.players = @ + 1]) ELSE st
         ELSE st
GameEnd(st, t) == LET g == [st EXCEPT !.game = FALSE, !.players = 0, !.cur = 0, !.ball = 0]
                  IN IF Free(st) THEN g ELSE ResetTimeouts([g EXCEPT !.rflag = FALSE], t)
\* two start requests in the same instant (two buttons tagged start hit together, the add-player event posted twice
\* by one handler): the statement wants every accepted one to be paid for by a full game price of its own, i.e. the
\* second request sees the balance the first one left.  From attract the second press reaches the attract mode while
\* the game is starting; whether it then adds a second player is not C20's business (both outcomes allowed when
\* "press2both" is in Ops: model checking and trace validation; schedule generation follows the first outcome only).
\* code as is (Deviation SameTickGate): both player_add_request events are answered before either player_added handler
\* deducts, so both pass the gate on the same balance and the second deduction is clamped at zero
Press2Results(st) ==
    LET a == PressF(st)
    IN IF Dev("SameTickGate") /\ st.game /\ ~Free(st) /\ st.ball = 1 /\ st.units >= Upg
       THEN {Deduct(Deduct([st EXCEPT !.players = @ + 2]))}
       ELSE IF ~st.game THEN (IF "press2both" \in Ops THEN {a, PressF(a)} ELSE {a}) ELSE {PressF(a)}
DrainF(st, t) == IF st.cur < st.players THEN BallStarting([st EXCEPT !.cur = @ + 1])
                 ELSE IF st.ball < BallsPerGame THEN BallStarting([st EXCEPT !.cur = 1, !.ball = @ + 1])
                 ELSE GameEnd(st, t)
\* the two expiry rules, at the instant t
ExpireF(st, t) ==
    LET a == IF st.fracAt = t THEN [st EXCEPT !.units = @ - (@ % Upg), !.fracAt = 0] ELSE st
    IN IF a.allAt = t THEN [ClearTier(a) EXCEPT !.units = 0, !.allAt = 0] ELSE a
Fresh == [units |-> 0, prog |-> 0, rflag |-> FALSE, hn |-> IF cfg.bootFree THEN 0 ELSE 1,
          game |-> FALSE, players |-> 0, cur |-> 0, ball |-> 0, fracAt |-> 0, allAt |-> 0,
          audN |-> [t \in Types |-> 0], audV |-> [t \in Types |-> 0], paid |-> 0, bonusAcc |-> 0]
Init == cfg \in Configs /\ now = 0 /\ nops = 0 /\ act = [op |-> "init"] /\ s = Fresh
Call(k, st2, a) == /\ k \in Ops /\ nops < MaxOps /\ s' = st2 /\ nops' = nops + 1 /\ act' = a /\ UNCHANGED <<cfg, now>>
Coin(i) == /\ i \in 1..Len(cfg.coins) /\ ~(NoUnits /\ ~Free(s)) /\ s.paid + cfg.coins[i].v <= MaxPaid
           /\ Call("coin", CoinN(s, i, now, s.hn), [op |-> "coin", i |-> i])
Service == Call("service", ServiceN(s, s.hn), [op |-> "service"])
Event   == Call("event", EventN(s, now, s.hn), [op |-> "event"])
Press   == Call("press", PressF(s), [op |-> "press"])
\* (not offered where the second request would hit max_players: that limit is not part of C20)
Press2  == /\ (s.game => s.players + 2 <= cfg.maxPlayers)
           /\ \E st2 \in Press2Results(s) : Call("press2", st2, [op |-> "press2"])
Drain   == s.game /\ Call("drain", DrainF(s, now), [op |-> "drain"])
EnableFree   == Call("free", [s EXCEPT !.hn = 0], [op |-> "free"])
EnableCredit == Call("credit", [s EXCEPT !.hn = IF Dev("DupHandlers") THEN @ + 1 ELSE 1], [op |-> "credit"])
Toggle  == Call("toggle", [s EXCEPT !.hn = IF @ = 0 THEN 1 ELSE 0], [op |-> "toggle"])
Reset   == Call("reset", [ClearTier(s) EXCEPT !.units = 0], [op |-> "reset"])            \* credits_reset event
TimerPending == s.fracAt # 0 \/ s.allAt # 0
Adv == /\ now < MaxTime /\ ("advidle" \in Ops \/ TimerPending)
       /\ ~(NoUnits /\ s.fracAt = now + 1)          \* code as is: modulo by zero, see CreditsTrace!Crash
       /\ now' = now + 1 /\ s' = ExpireF(s, now + 1) /\ act' = [op |-> "adv"] /\ UNCHANGED <<cfg, nops>>
Next == \/ \E i \in 1..3 : Coin(i)
        \/ Service \/ Event \/ Press \/ Press2 \/ Drain \/ EnableFree \/ EnableCredit \/ Toggle \/ Reset \/ Adv
Spec == Init /\ [][Next]_vars
\* ---- statement of C20 ------------------------------------------------------------------------------------
TypeOK == /\ now \in 0..MaxTime /\ s.hn \in 0..1 /\ s.prog \in 0..(W - 1) /\ s.game \in BOOLEAN
          /\ s.players \in 0..cfg.maxPlayers /\ (s.game <=> s.players > 0)
\* the balance never goes below zero and never exceeds the configured maximum
Bounds == s.units >= 0 /\ (cfg.maxU > 0 => s.units <= cfg.maxU)
\* closed form: the bonus granted since the last tier reset is what the greedy decomposition of the money
\* paid since then yields (whole wrap-arounds plus the rest), and the tier progress is the rest
ClosedForm == s.bonusAcc = BonusTotal(s.paid) /\ s.prog = s.paid % W
\* a coin in credit play buys its value plus the bonus difference of the closed form, capped
CoinExact == [][ (act'.op = "coin" /\ ~Free(s)) =>
    LET v == cfg.coins[act'.i].v
    IN s'.units = CapIntended(s.units + v + BonusTotal(s.paid + v) - BonusTotal(s.paid)) ]_vars
\* every full tier earns its bonus, also several tiers within ONE insertion: a coin worth k whole wrap-arounds of the
\* tier table (plus a rest) earns at least k times the bonus of the whole table and at most k + 1 times
EveryTierInOneCoin == [][ (act'.op = "coin" /\ ~Free(s)) =>
    LET v == cfg.coins[act'.i].v
        k == v \div W
    IN /\ s'.units >= CapIntended(s.units + v + k * Bonus(W))
       /\ s'.units <= s.units + v + (k + 1) * Bonus(W)
       /\ s'.bonusAcc - s.bonusAcc >= k * Bonus(W) ]_vars
\* the money paid since the last tier reset buys the same whatever the denominations: v single units one after the
\* other (each looked up in the table at its own position, wrapping after the highest tier) give what one coin of v gives
RECURSIVE UnitByUnit(_, _)
UnitByUnit(p, n) == IF n = 0 THEN 0 ELSE Table((p % W) + 1) + UnitByUnit(p + 1, n - 1)
DenominationFree == [][ (act'.op = "coin" /\ ~Free(s)) =>
    s'.bonusAcc - s.bonusAcc = UnitByUnit(s.paid, cfg.coins[act'.i].v) ]_vars
\* service credits and credit events add whole games without touching the tier progress
NonTieredExact == [][ (act'.op \in {"service", "event"} /\ ~Free(s)) =>
    /\ s'.units = CapIntended(s.units + (IF act'.op = "service" THEN 1 ELSE cfg.evCredits) * cfg.upg)
    /\ s'.prog = s.prog ]_vars
\* in free play coins, service credits and credit events do nothing at all
FreePlayInert == [][ (act'.op \in {"coin", "service", "event"} /\ Free(s)) => s' = s ]_vars
\* start gate: a game / an additional player starts only when a full game price is available and deducts
\* exactly that; a denied request changes nothing; in credit play a start request with enough credits is granted
Accepted == IF s.game THEN s'.players = s.players + 1 ELSE s'.game
StartGate == [][ act'.op = "press" =>
    /\ (Accepted /\ ~Free(s)) => (s.units >= cfg.upg /\ s'.units = s.units - cfg.upg)
    /\ (~Free(s) /\ s.units < cfg.upg) => ~Accepted
    /\ (~s.game /\ (Free(s) \/ s.units >= cfg.upg)) => Accepted
    /\ (~Accepted \/ Free(s)) => s'.units = s.units
    /\ (s.game /\ ~Accepted) => s'.players = s.players ]_vars
\* one game price per player started, also when several start requests arrive in the same instant
StartsPaid == [][ act'.op \in {"press", "press2"} =>
    LET k == s'.players - s.players                 \* players started by this action (s.players = 0 outside a game)
    IN /\ k >= 0
       /\ ~Free(s) => (s.units >= k * cfg.upg /\ s'.units = s.units - k * cfg.upg)
       /\ Free(s) => s'.units = s.units ]_vars
\* only start requests, expirations and resets lower the balance; expirations follow the two rules
OnlyTheseLower == [][ s'.units < s.units => act'.op \in {"press", "press2", "adv", "reset"} ]_vars
ExpiryRules == [][ act'.op = "adv" =>
    /\ s'.units \in {s.units, s.units - (s.units % cfg.upg), 0}
    /\ (s'.units # s.units => (s.fracAt = now' \/ s.allAt = now')) ]_vars
\* earnings audits equal the coins accepted
AuditsMatch == [][ IF act'.op = "coin" /\ ~Free(s)
                   THEN /\ s'.audN = [s.audN EXCEPT ![cfg.coins[act'.i].t] = @ + 1]
                        /\ s'.audV = [s.audV EXCEPT ![cfg.coins[act'.i].t] = @ + cfg.coins[act'.i].v]
                   ELSE s'.audN = s.audN /\ s'.audV = s.audV ]_vars
\* tier progress restarts with a game and once per game when player 1 starts ball 2
TierResetOncePerGame == [][ (act'.op = "drain" /\ ~Free(s) /\ s'.game /\ s'.cur = 1 /\ s'.ball = 2) =>
                              (IF s.rflag THEN s'.prog = s.prog ELSE s'.prog = 0) ]_vars
=============================================================================
