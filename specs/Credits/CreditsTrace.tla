---------------------------- MODULE CreditsTrace ----------------------------
(* Trace validation for C20: every logged line is one action of Credits with the logged argument, *)
(* and the logged observations (balance, game running, number of players, the two coin audits     *)
(* per type) must equal the model's.  Internal state (tier progress, timers) is not compared.     *)
EXTENDS Credits, TraceIO
VARIABLES tid, l
tvars == <<vars, tid, l>>
TL == TraceLines[tid].ev
TConfigs == {}
TOps == {"coin", "service", "event", "press", "press2", "press2both", "drain", "free", "credit", "toggle", "reset", "advidle"}
\* deviation sets used to classify traces the intended model (TDev0) rejects
TDev0 == {}
TDevTick == {"SameTickGate"}
TDevCap == {"CapOverwritten"}
TDevDup == {"DupHandlers"}
TDevBoot == {"BootFreeNoUnits"}
TDevTickCap == {"SameTickGate", "CapOverwritten"}
TDevTickDup == {"SameTickGate", "DupHandlers"}
TDevTickBoot == {"SameTickGate", "BootFreeNoUnits"}
TDevCapDup == {"CapOverwritten", "DupHandlers"}
TDevCapBoot == {"CapOverwritten", "BootFreeNoUnits"}
TDevDupBoot == {"DupHandlers", "BootFreeNoUnits"}
TDevTickCapDup == {"SameTickGate", "CapOverwritten", "DupHandlers"}
TDevTickCapBoot == {"SameTickGate", "CapOverwritten", "BootFreeNoUnits"}
TDevTickDupBoot == {"SameTickGate", "DupHandlers", "BootFreeNoUnits"}
TDevCapDupBoot == {"CapOverwritten", "DupHandlers", "BootFreeNoUnits"}
TDevTickCapDupBoot == {"SameTickGate", "CapOverwritten", "DupHandlers", "BootFreeNoUnits"}
TInit == /\ tid \in 1..Len(TraceLines) /\ l = 1 /\ cfg = TraceLines[tid].cfg /\ now = 0 /\ nops = 0
         /\ act = [op |-> "init"]
         /\ LET c == TraceLines[tid].cfg
            IN s = [units |-> 0, prog |-> 0, rflag |-> FALSE, hn |-> IF c.bootFree THEN 0 ELSE 1,
                    game |-> FALSE, players |-> 0, cur |-> 0, ball |-> 0, fracAt |-> 0, allAt |-> 0,
                    audN |-> [t \in Types |-> 0], audV |-> [t \in Types |-> 0], paid |-> 0, bonusAcc |-> 0]
ObsOf(st, e) == /\ st.units = e.units /\ st.game = e.game /\ st.players = e.players
                /\ \A t \in Types : st.audN[t] = e.audN[t] /\ st.audV[t] = e.audV[t]
\* code as is (Deviation BootFreeNoUnits only): division / modulo by the never calculated credit unit
Crash(e) == /\ NoUnits /\ UNCHANGED vars
            /\ \/ e.during = "coin" /\ ~Free(s)
               \/ e.during = "adv" /\ s.fracAt = now + 1
Step(e) ==
    \* the price per game derived by the real code is only compared where it is in use from boot on
    \/ e.op = "init" /\ UNCHANGED vars /\ (cfg.bootFree \/ e.upg = Upg) /\ ObsOf(s, e)
    \/ e.op = "crash" /\ Crash(e)
    \/ /\ \/ e.op = "coin" /\ Coin(e.i)
          \/ e.op = "service" /\ Service
          \/ e.op = "event" /\ Event
          \/ e.op = "press" /\ Press
          \/ e.op = "press2" /\ Press2
          \/ e.op = "drain" /\ Drain
          \/ e.op = "free" /\ EnableFree
          \/ e.op = "credit" /\ EnableCredit
          \/ e.op = "toggle" /\ Toggle
          \/ e.op = "reset" /\ Reset
          \/ e.op = "adv" /\ Adv
       /\ ObsOf(s', e)
TNext == l <= Len(TL) /\ Step(TL[l]) /\ l' = l + 1 /\ UNCHANGED tid
TSpec == TInit /\ [][TNext]_tvars
Reporter == TraceReport(tid, l, Len(TL))
=============================================================================
