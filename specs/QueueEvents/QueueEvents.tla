----------------------------- MODULE QueueEvents -----------------------------
(* Reference model of queue events (EventManager.post_queue / _run_handlers_sequential).  Every  *)
(* posted queue event is a dispatcher task that calls the snapshot of its handlers one at a time *)
(* in priority order; a handler may register a wait on the QueuedEvent it was handed, in which   *)
(* case the task sleeps after the handler returns until that wait is cleared (at any later time, *)
(* by anybody).  When all handlers have run and no wait is outstanding the completion callback   *)
(* runs, once.  Tasks of different queue events interleave freely.                                *)
EXTENDS Integers, Sequences, FiniteSets, TLC
CONSTANTS Ev, Hid, Prio, MaxTasks, MaxOps,
          HkSet,   \* handler registered with its own kwarg a="h" (TRUE) or without (FALSE); posts carry a="p"
          CondSet, \* handler condition: -1 none, else the value the posted kwarg c must have
          CSet     \* values of the posted kwarg c
VARIABLES reg,     \* registered handlers: set of [id, ev, prio, hk, cond]
          tasks,   \* sequence of [ev, c, todo, st]   st: "posted" | "run" | "sleep" | "done"
          snapp,   \* sequence (per task): snapshot as set of handler records
          out,     \* outstanding waits: set of <<task, handler id>>
          clr,     \* waits that have been cleared (a QueuedEvent is waited on at most once)
          inh,     \* <<task, handler id>> of the handler currently executing, or <<0, "">>
          nops, act
vars == <<reg, tasks, snapp, out, clr, inh, nops, act>>
NoH == <<0, "">>
NoCondSet == {-1}          \* (cfg files cannot hold negative numbers)
FullCondSet == {-1, 1}
Init == reg = {} /\ tasks = <<>> /\ snapp = <<>> /\ out = {} /\ clr = {} /\ inh = NoH /\ nops = 0 /\ act = [op |-> "init"]
Ids(S) == {h.id : h \in S}
Budget == nops < MaxOps /\ nops' = nops + 1
\* (registrations are identified by fresh keys: an id is not reused while a dispatch that saw it is in flight)
AddQ(h, e, p, hk, cond) == /\ Budget /\ h \notin Ids(reg) /\ (\A k \in DOMAIN tasks : tasks[k].st # "done" => h \notin Ids(snapp[k]))
                 /\ reg' = reg \cup {[id |-> h, ev |-> e, prio |-> p, hk |-> hk, cond |-> cond]}
                 /\ act' = [op |-> "qadd", h |-> h, ev |-> e, prio |-> p, hk |-> hk, cond |-> cond] /\ UNCHANGED <<tasks, snapp, out, clr, inh>>
RemoveQ(h) == /\ Budget /\ h \in Ids(reg) /\ reg' = {x \in reg : x.id # h}
              /\ act' = [op |-> "qremove", h |-> h] /\ UNCHANGED <<tasks, snapp, out, clr, inh>>
\* post_queue from anywhere (top level or from inside a handler)
PostQ(e, c) == /\ Budget /\ Len(tasks) < MaxTasks
            /\ tasks' = Append(tasks, [ev |-> e, c |-> c, todo |-> {}, st |-> "posted"])
            /\ snapp' = Append(snapp, {})
            /\ act' = [op |-> "qpost", ev |-> e, c |-> c] /\ UNCHANGED <<reg, out, clr, inh>>
\* the event bus gets to the posted queue event: its dispatcher starts with the handlers registered now.
\* A handler whose condition does not hold for the posted kwargs is not called (conditions only read c, which no
\* handler kwarg overrides here, so this is decided when the dispatch begins)
CondOK(h, c) == h.cond = -1 \/ h.cond = c
QBegin(k) == /\ k \in DOMAIN tasks /\ tasks[k].st = "posted" /\ inh = NoH
             /\ LET S == {h \in reg : h.ev = tasks[k].ev} IN
                /\ tasks' = [tasks EXCEPT ![k].todo = Ids({h \in S : CondOK(h, tasks[k].c)}), ![k].st = "run"]
                /\ snapp' = [snapp EXCEPT ![k] = S]
             /\ act' = [op |-> "qbegin", k |-> k] /\ UNCHANGED <<reg, out, clr, inh, nops>>
HasOut(k) == \E w \in out : w[1] = k
PrioOf(k, h) == (CHOOSE x \in snapp[k] : x.id = h).prio
\* the kwarg a the handler must see: its registered value wins over the posted one
ArgOf(k, h) == IF (CHOOSE x \in snapp[k] : x.id = h).hk THEN "h" ELSE "p"
\* the dispatcher of task k calls its next handler: highest priority first, never while a wait of an
\* earlier handler of this task is outstanding
QInvoke(k, h) ==
    /\ k \in DOMAIN tasks /\ tasks[k].st = "run" /\ inh = NoH /\ ~HasOut(k)
    /\ h \in tasks[k].todo /\ \A g \in tasks[k].todo : PrioOf(k, g) <= PrioOf(k, h)
    /\ tasks' = [tasks EXCEPT ![k].todo = @ \ {h}]
    /\ inh' = <<k, h>> /\ act' = [op |-> "qinvoke", k |-> k, h |-> h, a |-> ArgOf(k, h)]
    /\ UNCHANGED <<reg, snapp, out, clr, nops>>
\* the running handler registers a wait on its QueuedEvent
Wait == /\ inh # NoH /\ inh \notin out \cup clr /\ out' = out \cup {inh}
        /\ act' = [op |-> "wait", k |-> inh[1], h |-> inh[2]] /\ UNCHANGED <<reg, tasks, snapp, clr, inh, nops>>
QRet == /\ inh # NoH /\ inh' = NoH
        /\ tasks' = [tasks EXCEPT ![inh[1]].st = IF inh \in out THEN "sleep" ELSE "run"]
        /\ act' = [op |-> "qret"] /\ UNCHANGED <<reg, snapp, out, clr, nops>>
\* somebody clears an outstanding wait (possibly the handler itself before returning)
Clear(k, h) == /\ <<k, h>> \in out /\ out' = out \ {<<k, h>>} /\ clr' = clr \cup {<<k, h>>}
               /\ tasks' = [tasks EXCEPT ![k].st = IF @ = "sleep" THEN "run" ELSE @]
               /\ act' = [op |-> "clear", k |-> k, h |-> h] /\ UNCHANGED <<reg, snapp, inh, nops>>
\* a handler of the snapshot that has been removed meanwhile need not be called
SkipRemoved(k, h) == /\ k \in DOMAIN tasks /\ tasks[k].st = "run" /\ inh = NoH /\ h \in tasks[k].todo /\ h \notin Ids(reg)
                     /\ tasks' = [tasks EXCEPT ![k].todo = @ \ {h}] /\ act' = [op |-> "skip", k |-> k, h |-> h]
                     /\ UNCHANGED <<reg, snapp, out, clr, inh, nops>>
\* completion callback: exactly once, after every handler has run and every wait has been cleared
QCallback(k) == /\ k \in DOMAIN tasks /\ tasks[k].st = "run" /\ tasks[k].todo = {} /\ ~HasOut(k)
                /\ (inh = NoH \/ inh[1] # k)
                /\ tasks' = [tasks EXCEPT ![k].st = "done"]
                /\ act' = [op |-> "qcallback", k |-> k] /\ UNCHANGED <<reg, snapp, out, clr, inh, nops>>
Next == \/ \E h \in Hid, e \in Ev, p \in Prio, hk \in HkSet, cond \in CondSet : AddQ(h, e, p, hk, cond)
        \/ \E h \in Hid : RemoveQ(h)
        \/ \E e \in Ev, c \in CSet : PostQ(e, c)
        \/ \E k \in DOMAIN tasks, h \in Hid : QInvoke(k, h) \/ Clear(k, h) \/ SkipRemoved(k, h)
        \/ \E k \in DOMAIN tasks : QCallback(k) \/ QBegin(k)
        \/ Wait \/ QRet
Spec == Init /\ [][Next]_vars
\* at rest (every wait the environment was going to clear has been cleared, loop has run): every task
\* is finished or is legitimately held by an outstanding wait
Rest == inh = NoH /\ \A k \in DOMAIN tasks : tasks[k].st = "done" \/ HasOut(k)
Fair == /\ WF_vars(QRet) /\ \A k \in 1..MaxTasks : WF_vars(QCallback(k)) /\ WF_vars(QBegin(k)) /\ \A h \in Hid : WF_vars(QInvoke(k, h)) /\ WF_vars(Clear(k, h))
LiveSpec == Spec /\ Fair
\* every posted queue event eventually completes when all its waits get cleared
AllComplete == \A k \in 1..MaxTasks : [](k \in DOMAIN tasks => <>(k \in DOMAIN tasks /\ tasks[k].st = "done"))
=============================================================================
