----------------------------- MODULE QueueEvents -----------------------------
(* Reference model of queue events (EventManager.post_queue / _run_handlers_sequential).  Every  *)
(* posted queue event is a dispatcher task that calls the snapshot of its handlers one at a time *)
(* in priority order; a handler may register a wait on the QueuedEvent it was handed, in which   *)
(* case the task sleeps after the handler returns until that wait is cleared (at any later time, *)
(* by anybody).  When all handlers have run and no wait is outstanding the completion callback   *)
(* runs, once.  Tasks of different queue events interleave freely.                                *)
EXTENDS Integers, Sequences, FiniteSets, TLC
CONSTANTS Ev, Hid, Prio, MaxTasks, MaxOps,
          HkSet,   \* handler registered with its own kwarg a="h" (TRUE) or without (FALSE); posts carry a="p"
          CondSet, \* handler condition: -1 none, else the value the posted kwarg c must have
          CSet,    \* values of the posted kwarg c
          ModeKinds \* which mode listens on the start event "qm": "none" | "wq" (use_wait_queue: true) | "nowq"
VARIABLES reg,     \* registered handlers: set of [id, ev, prio, hk, cond]
          tasks,   \* sequence of [ev, c, todo, st]   st: "posted" | "run" | "sleep" | "done"
          snapp,   \* sequence (per task): snapshot as set of handler records
          out,     \* outstanding waits: set of <<task, handler id>>
          clr,     \* waits that have been cleared (a QueuedEvent is waited on at most once)
          inh,     \* <<task, handler id>> of the handler currently executing, or <<0, "">>
          nops, act,
          md       \* the mode (a real Mode object in the driver): [kind, st, hold, stask, ptask, pend]
                   \*   st: "idle" | "starting" | "active" | "stopping" | "cleanup"; hold: the wait <<task, ModeH>> of the
                   \*   start request which the mode holds until it has stopped (use_wait_queue), or NoH;
                   \*   stask / ptask: the task of its own mode_<name>_starting / _stopping queue event;
                   \*   pend: kwarg c of the start requests put off while the stopped mode cleans up
vars == <<reg, tasks, snapp, out, clr, inh, nops, act, md>>
NoH == <<0, "">>
(* A mode is started by the queue event "qm": Mode.start is an ordinary handler (id ModeH, priority 2) of that event. *)
(* A request which finds the mode idle is ACCEPTED: the mode posts its own queue event "ms" (mode_<name>_starting,  *)
(* with the kwargs of the request) and, with use_wait_queue, registers a wait on the request's QueuedEvent which it  *)
(* clears when it has stopped.  A request which finds the mode starting, active or stopping is REFUSED: nothing is   *)
(* posted and no wait is registered, the request's queue event goes on with its other handlers and completes.        *)
(* The mode becomes active with the completion callback of "ms"; stop() of an active mode posts the queue event "mp" *)
(* (mode_<name>_stopping, no kwargs) whose completion callback ends the mode and releases the held request.          *)
(* The stopped mode removes its handlers and devices a little later (after its mode_<name>_stopped event): a start    *)
(* request in between ("cleanup") is refused like the others - no wait, nothing posted - but remembered: the mode     *)
(* starts by itself (holding nothing) once it has cleaned up.                                                         *)
ModeH == "hm"
ModeRec == [id |-> ModeH, ev |-> "qm", prio |-> 2, hk |-> FALSE, cond |-> -1]
ModeIntEv == {"ms", "mp"}      \* posted by the mode only
NoC == -2                      \* the stopping event carries no kwargs: a condition on c is false
NoCondSet == {-1}          \* (cfg files cannot hold negative numbers)
FullCondSet == {-1, 1}
Init == /\ md \in {[kind |-> x, st |-> "idle", hold |-> NoH, stask |-> 0, ptask |-> 0, pend |-> <<>>] : x \in ModeKinds}
        /\ reg = (IF md.kind = "none" THEN {} ELSE {ModeRec})
        /\ tasks = <<>> /\ snapp = <<>> /\ out = {} /\ clr = {} /\ inh = NoH /\ nops = 0 /\ act = [op |-> "init"]
Ids(S) == {h.id : h \in S}
Budget == nops < MaxOps /\ nops' = nops + 1
\* (registrations are identified by fresh keys: an id is not reused while a dispatch that saw it is in flight)
AddQ(h, e, p, hk, cond) == /\ Budget /\ h \notin Ids(reg) /\ (\A k \in DOMAIN tasks : tasks[k].st # "done" => h \notin Ids(snapp[k]))
                 /\ reg' = reg \cup {[id |-> h, ev |-> e, prio |-> p, hk |-> hk, cond |-> cond]}
                 /\ act' = [op |-> "qadd", h |-> h, ev |-> e, prio |-> p, hk |-> hk, cond |-> cond] /\ UNCHANGED <<tasks, snapp, out, clr, inh, md>>
RemoveQ(h) == /\ Budget /\ h \in Ids(reg) /\ reg' = {x \in reg : x.id # h}
              /\ act' = [op |-> "qremove", h |-> h] /\ UNCHANGED <<tasks, snapp, out, clr, inh, md>>
\* post_queue from anywhere (top level or from inside a handler)
PostQ(e, c) == /\ Budget /\ Len(tasks) < MaxTasks /\ e \notin ModeIntEv
            /\ tasks' = Append(tasks, [ev |-> e, c |-> c, todo |-> {}, st |-> "posted"])
            /\ snapp' = Append(snapp, {})
            /\ act' = [op |-> "qpost", ev |-> e, c |-> c] /\ UNCHANGED <<reg, out, clr, inh, md>>
\* the event bus gets to the posted queue event: its dispatcher starts with the handlers registered now.
\* A handler whose condition does not hold for the posted kwargs is not called (conditions only read c, which no
\* handler kwarg overrides here, so this is decided when the dispatch begins)
CondOK(h, c) == h.cond = -1 \/ h.cond = c
QBegin(k) == /\ k \in DOMAIN tasks /\ tasks[k].st = "posted" /\ inh = NoH
             /\ LET S == {h \in reg : h.ev = tasks[k].ev} IN
                /\ tasks' = [tasks EXCEPT ![k].todo = Ids({h \in S : CondOK(h, tasks[k].c)}), ![k].st = "run"]
                /\ snapp' = [snapp EXCEPT ![k] = S]
             /\ act' = [op |-> "qbegin", k |-> k] /\ UNCHANGED <<reg, out, clr, inh, nops, md>>
HasOut(k) == \E w \in out : w[1] = k
PrioOf(k, h) == (CHOOSE x \in snapp[k] : x.id = h).prio
\* the kwarg a the handler must see: its registered value wins over the posted one
ArgOf(k, h) == IF (CHOOSE x \in snapp[k] : x.id = h).hk THEN "h" ELSE "p"
\* the dispatcher of task k calls its next handler: highest priority first, never while a wait of an
\* earlier handler of this task is outstanding
QInvoke(k, h) ==
    /\ k \in DOMAIN tasks /\ tasks[k].st = "run" /\ inh = NoH /\ ~HasOut(k)
    /\ h \in tasks[k].todo /\ \A g \in tasks[k].todo : PrioOf(k, g) <= PrioOf(k, h)
    /\ tasks' = [tasks EXCEPT ![k].todo = @ \ {h}]
    /\ inh' = <<k, h>> /\ act' = [op |-> "qinvoke", k |-> k, h |-> h, a |-> ArgOf(k, h)]
    /\ UNCHANGED <<reg, snapp, out, clr, nops, md>>
\* the running handler registers a wait on its QueuedEvent
Wait == /\ inh # NoH /\ inh \notin out \cup clr /\ out' = out \cup {inh}
        /\ act' = [op |-> "wait", k |-> inh[1], h |-> inh[2]] /\ UNCHANGED <<reg, tasks, snapp, clr, inh, nops, md>>
QRet == /\ inh # NoH /\ inh' = NoH
        /\ tasks' = [tasks EXCEPT ![inh[1]].st = IF inh \in out THEN "sleep" ELSE "run"]
        /\ act' = [op |-> "qret"] /\ UNCHANGED <<reg, snapp, out, clr, nops, md>>
\* somebody clears an outstanding wait (possibly the handler itself before returning)
Clear(k, h) == /\ <<k, h>> \in out /\ out' = out \ {<<k, h>>} /\ clr' = clr \cup {<<k, h>>}
               /\ tasks' = [tasks EXCEPT ![k].st = IF @ = "sleep" THEN "run" ELSE @]
               /\ act' = [op |-> "clear", k |-> k, h |-> h] /\ UNCHANGED <<reg, snapp, inh, nops, md>>
\* a handler of the snapshot that has been removed meanwhile need not be called
SkipRemoved(k, h) == /\ k \in DOMAIN tasks /\ tasks[k].st = "run" /\ inh = NoH /\ h \in tasks[k].todo /\ h \notin Ids(reg)
                     /\ tasks' = [tasks EXCEPT ![k].todo = @ \ {h}] /\ act' = [op |-> "skip", k |-> k, h |-> h]
                     /\ UNCHANGED <<reg, snapp, out, clr, inh, nops, md>>
\* completion callback: exactly once, after every handler has run and every wait has been cleared.
\* The callbacks of the mode's own queue events are Mode._started (the mode is active) and Mode._stopped (the mode
\* has ended; it clears the wait on the request which started it: that queue event can go on / complete now)
QCallback(k) == /\ k \in DOMAIN tasks /\ tasks[k].st = "run" /\ tasks[k].todo = {} /\ ~HasOut(k)
                /\ (inh = NoH \/ inh[1] # k)
                /\ LET started == md.st = "starting" /\ k = md.stask
                       stopped == md.st = "stopping" /\ k = md.ptask
                       rel == stopped /\ md.hold # NoH
                   IN /\ md' = IF started THEN [md EXCEPT !.st = "active"]
                                ELSE IF stopped THEN [md EXCEPT !.st = "cleanup", !.hold = NoH] ELSE md
                      /\ out' = IF rel THEN out \ {md.hold} ELSE out
                      /\ clr' = IF rel THEN clr \cup {md.hold} ELSE clr
                      /\ tasks' = [t \in DOMAIN tasks |->
                                      IF t = k THEN [tasks[t] EXCEPT !.st = "done"]
                                      ELSE IF rel /\ t = md.hold[1] /\ tasks[t].st = "sleep" THEN [tasks[t] EXCEPT !.st = "run"]
                                      ELSE tasks[t]]
                /\ act' = [op |-> "qcallback", k |-> k] /\ UNCHANGED <<reg, snapp, inh, nops>>
\* the dispatcher of task k (a "qm" queue event) calls the mode's start handler; Mode.start runs and returns
ModeTask(e, c) == [ev |-> e, c |-> c, todo |-> {}, st |-> "posted"]
QInvokeMode(k) ==
    /\ k \in DOMAIN tasks /\ tasks[k].st = "run" /\ inh = NoH /\ ~HasOut(k)
    /\ ModeH \in tasks[k].todo /\ \A g \in tasks[k].todo : PrioOf(k, g) <= PrioOf(k, ModeH)
    /\ LET acc == md.st = "idle"
           w == acc /\ md.kind = "wq"
       IN /\ tasks' = IF acc THEN Append([tasks EXCEPT ![k].todo = @ \ {ModeH}, ![k].st = IF w THEN "sleep" ELSE "run"],
                                         ModeTask("ms", tasks[k].c))
                               ELSE [tasks EXCEPT ![k].todo = @ \ {ModeH}]
          /\ snapp' = IF acc THEN Append(snapp, {}) ELSE snapp
          /\ out' = IF w THEN out \cup {<<k, ModeH>>} ELSE out
          /\ md' = IF acc THEN [md EXCEPT !.st = "starting", !.hold = IF w THEN <<k, ModeH>> ELSE NoH, !.stask = Len(tasks) + 1]
                          ELSE IF md.st = "cleanup" THEN [md EXCEPT !.pend = Append(@, tasks[k].c)] ELSE md
          /\ act' = [op |-> "mreq", k |-> k, acc |-> acc, w |-> w]
    /\ UNCHANGED <<reg, clr, inh, nops>>
\* Mode.start() called directly (no queue event: nothing to hold), from anywhere
ModeStart(c) == /\ Budget /\ md.kind # "none"
                /\ LET acc == md.st = "idle"
                   IN /\ tasks' = IF acc THEN Append(tasks, ModeTask("ms", c)) ELSE tasks
                      /\ snapp' = IF acc THEN Append(snapp, {}) ELSE snapp
                      /\ md' = IF acc THEN [md EXCEPT !.st = "starting", !.hold = NoH, !.stask = Len(tasks) + 1]
                               ELSE IF md.st = "cleanup" THEN [md EXCEPT !.pend = Append(@, c)] ELSE md
                      /\ act' = [op |-> "mstart", c |-> c, acc |-> acc]
                /\ UNCHANGED <<reg, out, clr, inh>>
\* the stopped mode has cleaned up (Mode._mode_stopped_callback); the first start request it put off meanwhile starts it now
\* (with that request's kwargs; the request's queue event is not held: its dispatcher has long gone on), the others find
\* it starting
ModeCleaned == /\ md.st = "cleanup"
               /\ LET go == md.pend # <<>>
                  IN /\ tasks' = IF go THEN Append(tasks, ModeTask("ms", Head(md.pend))) ELSE tasks
                     /\ snapp' = IF go THEN Append(snapp, {}) ELSE snapp
                     /\ md' = IF go THEN [md EXCEPT !.st = "starting", !.stask = Len(tasks) + 1, !.pend = <<>>]
                                   ELSE [md EXCEPT !.st = "idle"]
                     /\ act' = [op |-> "mclean", go |-> go]
               /\ UNCHANGED <<reg, out, clr, inh, nops>>
\* Mode.stop() from anywhere: only an active mode begins to stop (a starting one ignores it); returns whether it runs
ModeStop == /\ md.kind # "none"
            /\ IF md.st = "active"
               THEN /\ tasks' = Append(tasks, ModeTask("mp", NoC)) /\ snapp' = Append(snapp, {})
                    /\ md' = [md EXCEPT !.st = "stopping", !.ptask = Len(tasks) + 1] /\ UNCHANGED nops
               ELSE Budget /\ UNCHANGED <<tasks, snapp, md>>
            /\ act' = [op |-> "mstop", r |-> md.st \in {"active", "stopping"}]
            /\ UNCHANGED <<reg, out, clr, inh>>
Next == \/ \E h \in Hid, e \in Ev, p \in Prio, hk \in HkSet, cond \in CondSet : AddQ(h, e, p, hk, cond)
        \/ \E h \in Hid : RemoveQ(h)
        \/ \E e \in Ev, c \in CSet : PostQ(e, c)
        \/ \E k \in DOMAIN tasks, h \in Hid : QInvoke(k, h) \/ Clear(k, h) \/ SkipRemoved(k, h)
        \/ \E k \in DOMAIN tasks : QCallback(k) \/ QBegin(k)
        \/ Wait \/ QRet
        \/ \E k \in DOMAIN tasks : QInvokeMode(k)
        \/ \E c \in CSet : ModeStart(c)
        \/ ModeStop \/ ModeCleaned
Spec == Init /\ [][Next]_vars
\* at rest (every wait the environment was going to clear has been cleared, loop has run): every task
\* is finished or is legitimately held by an outstanding wait
Rest == inh = NoH /\ \A k \in DOMAIN tasks : tasks[k].st = "done" \/ HasOut(k)
\* (the mode's own queue events are not bounded by MaxTasks: at most two for each of the <= MaxOps start requests)
TB == IF ModeKinds = {"none"} THEN MaxTasks ELSE MaxTasks + 2 * MaxOps
Fair == /\ WF_vars(QRet) /\ WF_vars(ModeStop /\ md.st = "active") /\ WF_vars(ModeCleaned)
        /\ \A k \in 1..TB : /\ WF_vars(QCallback(k)) /\ WF_vars(QBegin(k)) /\ WF_vars(QInvokeMode(k))
                             /\ \A h \in Hid : WF_vars(QInvoke(k, h)) /\ WF_vars(Clear(k, h))
LiveSpec == Spec /\ Fair
\* every posted queue event eventually completes when all its waits get cleared (and a mode which holds one is stopped)
AllComplete == \A k \in 1..TB : [](k \in DOMAIN tasks => <>(k \in DOMAIN tasks /\ tasks[k].st = "done"))
\* ---- start requests of a mode (state monitors)
\* a wait of the mode's start handler is outstanding only on the request which started the mode, and only while it runs:
\* a refused request holds nothing, a stopped mode holds nothing
ModeHoldsOnlyStarter == \A w \in out : w[2] = ModeH => (w = md.hold /\ md.st \in {"starting", "active", "stopping"} /\ md.kind = "wq")
\* the queue event which started a use_wait_queue mode is held (asleep behind the mode's handler) until the mode has stopped
StarterHeld == /\ md.hold # NoH => (md.hold \in out /\ tasks[md.hold[1]].st = "sleep")
               /\ md.st \in {"idle", "cleanup"} => md.hold = NoH
\* a refused request changes neither the waits nor the mode; an accepted one with use_wait_queue is held
RefusedNoWait == [][act'.op = "mreq" => IF act'.acc THEN (md.kind = "wq" <=> <<act'.k, ModeH>> \in out')
                                                    ELSE out' = out /\ md'.st = md.st /\ Len(tasks') = Len(tasks)]_vars
=============================================================================
