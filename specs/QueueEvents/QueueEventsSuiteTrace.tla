------------------------ MODULE QueueEventsSuiteTrace ------------------------
(* One trace = one dispatch of a queue event recorded by lib/suite_rec.py from any run of the real EventManager *)
(* (in particular the repository's own tests): the handlers registered when the dispatcher took its snapshot    *)
(* (reg0), then qinvoke / wait / qret / clear / qremove lines and the completion callback.  A dispatch still in  *)
(* flight when the test ended is a prefix.  Handlers with a condition or a blocking facility are optional        *)
(* (cond = 9: the recorder cannot judge them).                                                                   *)
EXTENDS QueueEvents, TraceIO
VARIABLES tid, l
tvars == <<vars, tid, l>>
TL == TraceLines[tid].ev
Reg0 == {[id |-> r.id, ev |-> r.ev, prio |-> r.prio, hk |-> FALSE, cond |-> IF r.cond = 9 THEN 9 ELSE -1] : r \in SeqToSet(TraceLines[tid].reg0)}
TInit == /\ tid \in 1..Len(TraceLines) /\ l = 1
         /\ reg = Reg0 /\ tasks = <<[ev |-> TraceLines[tid].qev, c |-> 0, todo |-> {}, st |-> "posted"]>> /\ snapp = <<{}>>
         /\ out = {} /\ clr = {} /\ inh = NoH /\ nops = 0 /\ act = [op |-> "init"]
         /\ md = [kind |-> "none", st |-> "idle", hold |-> NoH, stask |-> 0, ptask |-> 0, pend |-> <<>>]
\* cond = 9 never equals the posted c = 0, so QBegin would drop those handlers: the suite variant keeps them as optional
SBegin == /\ tasks[1].st = "posted" /\ inh = NoH
          /\ tasks' = [tasks EXCEPT ![1].todo = Ids(reg), ![1].st = "run"] /\ snapp' = [snapp EXCEPT ![1] = reg]
          /\ act' = [op |-> "qbegin", k |-> 1] /\ UNCHANGED <<reg, out, clr, inh, nops, md>>
SkipOptional(h) == /\ tasks[1].st = "run" /\ inh = NoH /\ h \in tasks[1].todo /\ (\E x \in snapp[1] : x.id = h /\ x.cond = 9)
                   /\ tasks' = [tasks EXCEPT ![1].todo = @ \ {h}] /\ act' = [op |-> "skip", k |-> 1, h |-> h]
                   /\ UNCHANGED <<reg, snapp, out, clr, inh, nops, md>>
Step(e) ==
    \/ e.op = "qbegin" /\ SBegin
    \/ e.op = "qremove" /\ RemoveQ(e.h)
    \/ e.op = "qinvoke" /\ QInvoke(1, e.h)
    \/ e.op = "wait" /\ Wait /\ inh = <<1, e.h>>
    \/ e.op = "qret" /\ QRet
    \/ e.op = "clear" /\ Clear(1, e.h)
    \/ e.op = "qcallback" /\ QCallback(1)
TNext == \/ l <= Len(TL) /\ Step(TL[l]) /\ l' = l + 1 /\ UNCHANGED tid
         \/ (\E h \in Ids(snapp[1]) : SkipRemoved(1, h) \/ SkipOptional(h)) /\ UNCHANGED <<tid, l>>
TSpec == TInit /\ [][TNext]_tvars
Reporter == TraceReport(tid, l, Len(TL))
=============================================================================
