-------------------------- MODULE QueueEventsTrace --------------------------
EXTENDS QueueEvents, TraceIO
CONSTANT CheckArgs   \* TRUE: the kwarg a seen by a queue-event handler is compared (C01); FALSE: not judged (C02)
VARIABLES tid, l
tvars == <<vars, tid, l>>
TL == TraceLines[tid].ev
TInit == /\ tid \in 1..Len(TraceLines) /\ l = 1 /\ Init
Step(e) ==
    \/ e.op = "qadd" /\ AddQ(e.h, e.ev, e.prio, e.hk, e.cond)
    \/ e.op = "qremove" /\ RemoveQ(e.h)
    \/ e.op = "qpost" /\ PostQ(e.ev, e.c)
    \/ e.op = "qinvoke" /\ QInvoke(e.k, e.h) /\ (CheckArgs => e.a = act'.a)
    \/ e.op = "wait" /\ Wait /\ inh = <<e.k, e.h>>
    \/ e.op = "qret" /\ QRet
    \/ e.op = "clear" /\ Clear(e.k, e.h)
    \/ e.op = "qcallback" /\ QCallback(e.k)
    \/ e.op = "rest" /\ Rest /\ UNCHANGED vars
TNext == \/ l <= Len(TL) /\ Step(TL[l]) /\ l' = l + 1 /\ UNCHANGED tid
         \/ (\E k \in DOMAIN tasks, h \in Hid : SkipRemoved(k, h)) /\ UNCHANGED <<tid, l>>
         \/ (\E k \in DOMAIN tasks : QBegin(k)) /\ UNCHANGED <<tid, l>>
TSpec == TInit /\ [][TNext]_tvars
Reporter == TraceReport(tid, l, Len(TL))
=============================================================================
