-------------------------- MODULE QueueEventsTrace --------------------------
EXTENDS QueueEvents, TraceIO
CONSTANT CheckArgs   \* TRUE: the kwarg a seen by a queue-event handler is compared (C01); FALSE: not judged (C02)
VARIABLES tid, l
tvars == <<vars, tid, l>>
TL == TraceLines[tid].ev
IsModeTask(k) == tasks[k].ev \in ModeIntEv
TInit == /\ tid \in 1..Len(TraceLines) /\ l = 1 /\ Init /\ md.kind = TraceLines[tid].kind
Step(e) ==
    \/ e.op = "qadd" /\ AddQ(e.h, e.ev, e.prio, e.hk, e.cond)
    \/ e.op = "qremove" /\ RemoveQ(e.h)
    \/ e.op = "qpost" /\ PostQ(e.ev, e.c)
    \/ e.op = "qinvoke" /\ QInvoke(e.k, e.h) /\ (CheckArgs => e.a = act'.a)
    \/ e.op = "wait" /\ Wait /\ inh = <<e.k, e.h>>
    \/ e.op = "qret" /\ QRet
    \/ e.op = "clear" /\ Clear(e.k, e.h)
    \/ e.op = "qcallback" /\ QCallback(e.k) /\ ~IsModeTask(e.k)
    \* the mode's start handler was called for request k: whether it accepted, and whether a wait is now registered
    \* on the request's QueuedEvent
    \/ e.op = "mreq" /\ QInvokeMode(e.k) /\ e.acc = act'.acc /\ e.w = act'.w
    \/ e.op = "mstart" /\ ModeStart(e.c) /\ e.acc = act'.acc
    \/ e.op = "mstop" /\ ModeStop /\ e.r = act'.r
    \* Mode.start called again by the mode itself for a request it had put off while cleaning up
    \/ e.op = "mdeferred" /\ e.acc /\ ModeCleaned /\ act'.go
    \/ e.op = "mdeferred" /\ ~e.acc /\ md.st = "starting" /\ UNCHANGED vars
    \* the loop has run until nothing moves: every queue event is complete or held by a wait; the mode's state
    \/ e.op = "rest" /\ Rest /\ e.mst = md.st /\ UNCHANGED vars
TNext == \/ l <= Len(TL) /\ Step(TL[l]) /\ l' = l + 1 /\ UNCHANGED tid
         \/ (\E k \in DOMAIN tasks, h \in Hid : SkipRemoved(k, h)) /\ UNCHANGED <<tid, l>>
         \/ (\E k \in DOMAIN tasks : QBegin(k)) /\ UNCHANGED <<tid, l>>
         \* the completion callbacks of the mode's own queue events (Mode._started / Mode._stopped) are not logged:
         \* they are observed through the mode's state and through what they release
         \/ (\E k \in DOMAIN tasks : IsModeTask(k) /\ QCallback(k)) /\ UNCHANGED <<tid, l>>
         \/ ModeCleaned /\ ~act'.go /\ UNCHANGED <<tid, l>>
TSpec == TInit /\ [][TNext]_tvars
Reporter == TraceReport(tid, l, Len(TL))
=============================================================================
