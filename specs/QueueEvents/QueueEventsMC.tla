---------------------------- MODULE QueueEventsMC ----------------------------
EXTENDS QueueEvents
VARIABLE hist
mcvars == <<vars, hist>>
MCInit == Init /\ hist = <<>>
\* (Mode.start is a handler like any other: its invocation and its wait are recorded as such; the completion callback of
\* the mode's stopping event clears that wait just before it is recorded)
HistAdd == IF act'.op \in {"qinvoke", "wait", "clear"} THEN <<act'>>
           ELSE IF act'.op = "mreq" THEN <<[op |-> "qinvoke", k |-> act'.k, h |-> ModeH, a |-> "p"]>>
                                         \o (IF act'.w THEN <<[op |-> "wait", k |-> act'.k, h |-> ModeH]>> ELSE <<>>)
           ELSE IF act'.op = "qcallback" THEN (IF out' # out THEN <<[op |-> "clear", k |-> md.hold[1], h |-> ModeH]>> ELSE <<>>) \o <<act'>>
           ELSE <<>>
MCNext == Next /\ hist' = hist \o HistAdd
MCSpec == MCInit /\ [][MCNext]_mcvars
Cnt(P(_)) == Cardinality({i \in DOMAIN hist : P(hist[i])})
\* exactly-once: never two callbacks for one task
CallbackOnce == \A i, j \in DOMAIN hist : (i < j /\ hist[i].op = "qcallback" /\ hist[j].op = "qcallback") => hist[i].k # hist[j].k
\* at a callback every wait of that task registered before has been cleared before, and every handler
\* of the snapshot that is still registered has been invoked
CallbackAfterAll == \A j \in DOMAIN hist : hist[j].op = "qcallback" =>
    /\ \A i \in 1..(j - 1) : (hist[i].op = "wait" /\ hist[i].k = hist[j].k) =>
            \E c \in (i + 1)..(j - 1) : hist[c].op = "clear" /\ hist[c].k = hist[i].k /\ hist[c].h = hist[i].h
\* ... and every handler of the snapshot that is still registered at that moment has been invoked
CallbackAfterHandlers == [][ act'.op = "qcallback" =>
    \A h \in {x \in snapp[act'.k] : x.id \in Ids(reg) /\ CondOK(x, tasks[act'.k].c)} :
        \E i \in DOMAIN hist : hist[i].op = "qinvoke" /\ hist[i].k = act'.k /\ hist[i].h = h.id ]_mcvars
\* no handler of a task is invoked while an earlier handler's wait of the same task is outstanding
NoOverlap == \A j \in DOMAIN hist : hist[j].op = "qinvoke" =>
    \A i \in 1..(j - 1) : (hist[i].op = "wait" /\ hist[i].k = hist[j].k) =>
            \E c \in (i + 1)..(j - 1) : hist[c].op = "clear" /\ hist[c].k = hist[i].k /\ hist[c].h = hist[i].h
PrioOrder == \A i, j \in DOMAIN hist : (i < j /\ hist[i].op = "qinvoke" /\ hist[j].op = "qinvoke" /\ hist[i].k = hist[j].k)
                => PrioOf(hist[i].k, hist[i].h) >= PrioOf(hist[j].k, hist[j].h) /\ hist[i].h # hist[j].h
\* a start request which the mode refused (it was starting, active or stopping) never waits: between the invocation of the
\* mode's handler for it and the next record of its task there is no wait of ModeH unless the mode was idle
\* (state form: ModeHoldsOnlyStarter, StarterHeld, RefusedNoWait in QueueEvents.tla)
\* the request which started a use_wait_queue mode completes only after the callback of the mode's stopping event
StarterAfterStop == \A i, j \in DOMAIN hist :
    (i < j /\ hist[i].op = "wait" /\ hist[i].h = ModeH /\ hist[j].op = "qcallback" /\ hist[j].k = hist[i].k)
        => \E p \in (i + 1)..(j - 1) : hist[p].op = "qcallback" /\ tasks[hist[p].k].ev = "mp"
\* a handler is only called when its condition holds for the posted kwargs, and sees its own kwarg over the posted one
CondRespected == \A i \in DOMAIN hist : hist[i].op = "qinvoke" =>
    LET x == CHOOSE x \in snapp[hist[i].k] : x.id = hist[i].h
    IN CondOK(x, tasks[hist[i].k].c) /\ hist[i].a = (IF x.hk THEN "h" ELSE "p")
\* ... and none whose condition holds (and that stays registered) is left out: CallbackAfterHandlers
=============================================================================
