SPECIFICATION MCSpec
CONSTANTS
  Ev = {"q1", "q2"}
  Hid = {"h1", "h2"}
  Prio = {1, 2}
  MaxTasks = 2
  MaxOps = 4
  HkSet = {FALSE}
  CondSet <- NoCondSet
  CSet = {0}
  ModeKinds = {"none"}
INVARIANT CallbackOnce
INVARIANT CallbackAfterAll
INVARIANT NoOverlap
INVARIANT PrioOrder
PROPERTY CallbackAfterHandlers
CHECK_DEADLOCK FALSE
