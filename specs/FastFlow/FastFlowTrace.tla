--------------------------- MODULE FastFlowTrace ---------------------------
(* Recorded executions of the real FastNetNeuronCommunicator (recording serial port, hand-fed reader, virtual   *)
(* time).  Lines: call (client invokes one of the four send APIs with command e.c of the command table),         *)
(* write (a byte string left through the port; e.c = command id, e.t = virtual time in units), resp (a message   *)
(* with header e.h was fed to the reader), adv (one time unit passes), ret (the API coroutine of e.c returned),  *)
(* end (e.pending = commands whose coroutine is still blocked, e.q = length of send_queue).                      *)
(* The command table is the same for all traces of a batch (field cmds of every record).                         *)
EXTENDS FastFlow, TraceIO
VARIABLES tid, l
tvars == <<vars, tid, l>>
TL == TraceLines[tid].ev
TCmds == SeqToSet(TraceLines[1].cmds)
\* headers of the real communicator: ID: and CH: have processors that call done_processing_msg_response(),
\* -L: (switch closed) and XX: have processors that do not, ZZ: has no processor
THeaders == {[h |-> "ID:", proc |-> TRUE, done |-> TRUE], [h |-> "CH:", proc |-> TRUE, done |-> TRUE],
             [h |-> "-L:", proc |-> TRUE, done |-> FALSE], [h |-> "XX:", proc |-> TRUE, done |-> FALSE],
             [h |-> "ZZ:", proc |-> FALSE, done |-> FALSE]}
TInit == tid \in 1..Len(TraceLines) /\ l = 1 /\ Init
Pending == {c \in Ids : st[c].pc \notin {"none", "ret", "fail"}}
Step(e) ==
    \/ e.op = "call" /\ Call(CmdOf(e.c))
    \/ e.op = "write" /\ Write /\ act'.c = e.c /\ now = e.t
    \/ e.op = "resp" /\ \E hr \in Headers : hr.h = e.h /\ Dispatch(hr)
    \/ e.op = "adv" /\ Tick
    \/ e.op = "ret" /\ st[e.c].pc \in {"ret", "fail"} /\ UNCHANGED vars
    \/ e.op = "end" /\ ~Urgent /\ Pending = SeqToSet(e.pending) /\ Len(sendQ) = e.q /\ UNCHANGED vars
TNext == \/ l <= Len(TL) /\ Step(TL[l]) /\ l' = l + 1 /\ UNCHANGED tid
         \/ (\E c \in Ids : Proceed(c) \/ Return(c) \/ TimeoutLink(c) \/ TimeoutResp(c)) /\ UNCHANGED <<tid, l>>
TSpec == TInit /\ [][TNext]_tvars
Reporter == TraceReport(tid, l, Len(TL))
=============================================================================
