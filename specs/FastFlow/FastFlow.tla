------------------------------ MODULE FastFlow ------------------------------
(* C14 (flow-control half): the command channel of mpf/platforms/fast/communicators/base.py.          *)
(*   send_queue + _socket_writer (pause_sending / _resume_sending, pause_sending_flag/_until),         *)
(*   _dispatch_incoming_msg (no_response_waiting.set, resume on the awaited header),                   *)
(*   send_and_forget / send_with_confirmation / send_and_wait_for_response /                           *)
(*   send_and_wait_for_response_processed (timeout, max_retries, done_waiting).                        *)
(* With Deviations = {} this is the behaviour the statement of C14 asks for:                           *)
(*   - after writing a command that names a confirmation header the writer writes nothing until a      *)
(*     message with that header has been dispatched;                                                   *)
(*   - a "processed" command whose confirmation does not arrive within its timeout is written again,   *)
(*     at most max_retries times, then the wait is given up and the queue released.                    *)
(* Deviations (code as it is):                                                                         *)
(*   "PauseFlagWaitsOnSetEvent"  _socket_writer awaits pause_sending_flag.wait() while the flag is SET: *)
(*                               returns at once, so the writer never pauses.                          *)
(*   "LostResponseNotRetried"    the timeout of send_and_wait_for_response_processed only covers the   *)
(*                               wait for no_response_waiting (link free), not the wait for the        *)
(*                               response: nothing is ever resent; the caller then waits for           *)
(*                               done_waiting without a timeout.                                       *)
(* Time is in abstract units; "urgent" internal steps (writer, woken coroutines, expired timers) happen *)
(* before the environment acts again, as in one run of the asyncio loop.                               *)
EXTENDS Integers, Sequences, FiniteSets, TLC
CONSTANTS Cmds,        \* commands the client may issue: [c, kind, h, T, R]; kind \in forget|confirm|wait|proc
          Headers,     \* messages the board may send: [h, proc (a message processor exists), done (it releases done_waiting)]
          MaxOps, MaxTime, MaxResp, Deviations
VARIABLES sendQ,       \* send_queue: <<[c, h]>>, h = "" when no confirmation is awaited
          paused, pauseUntil,   \* pause_sending_flag / pause_sending_until
          nrw, doneW,  \* no_response_waiting / done_waiting
          wq, woken,   \* coroutines blocked in no_response_waiting.wait() (in order) / woken by a set() and not yet run
                       \*   (asyncio.Event.set() wakes ALL current waiters; each then clears the flag and queues its command)
          st,          \* [c -> [pc, retries, deadline]] of the issued commands;
                       \*   pc: none|waitNrw|queued|waitResp|waitDone|ret|fail
          enq, written,        \* ghost: order of first enqueue / all writes (command ids)
          conf,        \* ghost: commands whose confirming header was dispatched after they were written
          awaiting,    \* ghost: confirmation header awaited since the last confirmed write ("" = none)
          now, nops, nresp, act
vars == <<sendQ, paused, pauseUntil, nrw, doneW, wq, woken, st, enq, written, conf, awaiting, now, nops, nresp, act>>

CmdOf(c) == CHOOSE x \in Cmds : x.c = c
Ids == {x.c : x \in Cmds}
Dev(d) == d \in Deviations
Init == /\ sendQ = <<>> /\ paused = FALSE /\ pauseUntil = "" /\ nrw = TRUE /\ doneW = FALSE /\ wq = <<>> /\ woken = <<>>
        /\ st = [c \in Ids |-> [pc |-> "none", retries |-> 0, deadline |-> 0]]
        /\ enq = <<>> /\ written = <<>> /\ conf = {} /\ awaiting = "" /\ now = 0 /\ nops = 0 /\ nresp = 0 /\ act = [op |-> "init"]

\* ---- internal ("urgent") steps
CanWrite == sendQ # <<>> /\ (~paused \/ Dev("PauseFlagWaitsOnSetEvent"))
Write ==
    /\ CanWrite
    /\ LET e == Head(sendQ) IN
       /\ sendQ' = Tail(sendQ) /\ written' = Append(written, e.c)
       /\ IF e.h # "" THEN paused' = TRUE /\ pauseUntil' = e.h /\ awaiting' = e.h
                      ELSE UNCHANGED <<paused, pauseUntil, awaiting>>
       /\ st' = IF st[e.c].pc = "queued" THEN [st EXCEPT ![e.c].pc = "waitResp", ![e.c].deadline = now + CmdOf(e.c).T] ELSE st
       /\ conf' = conf \ {e.c}
       /\ act' = [op |-> "write", c |-> e.c, h |-> e.h]
    /\ UNCHANGED <<nrw, doneW, wq, woken, enq, now, nops, nresp>>
Enq(c, h) == /\ sendQ' = Append(sendQ, [c |-> c, h |-> h])
             /\ enq' = IF \E i \in 1..Len(enq) : enq[i] = c THEN enq ELSE Append(enq, c)
\* after the command has been queued: once written wait for its response (intended) / go straight to done_waiting (as is)
AfterEnq(x) == IF x.kind = "wait" THEN "ret"
               ELSE IF Dev("LostResponseNotRetried") THEN "waitDone" ELSE "queued"
\* a coroutine blocked on no_response_waiting is woken
Proceed(c) ==
    /\ woken # <<>> /\ c = Head(woken) /\ woken' = Tail(woken)
    /\ nrw' = FALSE /\ Enq(c, CmdOf(c).h)
    /\ st' = [st EXCEPT ![c].pc = AfterEnq(CmdOf(c)), ![c].deadline = now + CmdOf(c).T]
    /\ act' = [op |-> "proceed", c |-> c]
    /\ UNCHANGED <<paused, pauseUntil, doneW, wq, written, conf, awaiting, now, nops, nresp>>
Return(c) ==
    /\ st[c].pc = "waitDone" /\ doneW
    /\ st' = [st EXCEPT ![c].pc = "ret"] /\ act' = [op |-> "return", c |-> c]
    /\ UNCHANGED <<sendQ, paused, pauseUntil, nrw, doneW, wq, woken, enq, written, conf, awaiting, now, nops, nresp>>
Retriable(c) == CmdOf(c).R = 0 - 1 \/ st[c].retries + 1 <= CmdOf(c).R
\* as is: wait_for(send_and_wait_for_response(..)) expires while still waiting for the link
TimeoutLink(c) ==
    /\ Dev("LostResponseNotRetried") /\ CmdOf(c).kind = "proc" /\ st[c].pc = "waitNrw" /\ st[c].deadline <= now
    /\ \E i \in 1..Len(wq) : wq[i] = c
    /\ st' = [st EXCEPT ![c].retries = @ + 1, ![c].deadline = @ + CmdOf(c).T,
                        ![c].pc = IF Retriable(c) THEN "waitNrw" ELSE "waitDone"]
    /\ wq' = LET r == SelectSeq(wq, LAMBDA x : x # c) IN IF Retriable(c) THEN Append(r, c) ELSE r
    /\ act' = [op |-> "timeoutlink", c |-> c]
    /\ UNCHANGED <<sendQ, paused, pauseUntil, nrw, doneW, woken, enq, written, conf, awaiting, now, nops, nresp>>
\* intended: the response did not arrive in time: write the command again, or give up and release the queue
TimeoutResp(c) ==
    /\ ~Dev("LostResponseNotRetried") /\ st[c].pc = "waitResp" /\ st[c].deadline <= now
    /\ IF Retriable(c)
       THEN /\ sendQ' = <<[c |-> c, h |-> CmdOf(c).h]>> \o sendQ
            /\ st' = [st EXCEPT ![c].retries = @ + 1, ![c].pc = "queued"]
            /\ UNCHANGED nrw
       ELSE /\ st' = [st EXCEPT ![c].pc = "fail"] /\ nrw' = TRUE /\ UNCHANGED sendQ
    /\ paused' = FALSE /\ pauseUntil' = "" /\ awaiting' = ""
    /\ act' = [op |-> "timeoutresp", c |-> c]
    /\ woken' = IF Retriable(c) THEN woken ELSE woken \o wq
    /\ wq' = IF Retriable(c) THEN wq ELSE <<>>
    /\ UNCHANGED <<doneW, enq, written, conf, now, nops, nresp>>
UrgentCo == woken # <<>> \/ \E c \in Ids : \/ (st[c].pc = "waitDone" /\ doneW)
                                     \/ (st[c].pc \in {"waitNrw", "waitResp"} /\ CmdOf(c).kind = "proc"
                                         /\ st[c].deadline <= now /\ (\A i \in 1..Len(woken) : woken[i] # c)
                                         /\ (st[c].pc = "waitNrw" => Dev("LostResponseNotRetried"))
                                         /\ (st[c].pc = "waitResp" => ~Dev("LostResponseNotRetried")))
Urgent == CanWrite \/ UrgentCo

\* ---- environment: the client issues a command, the board sends a message, time passes
\* (the send APIs only queue: several calls may happen back to back before the writer task runs)
Call(x) ==
    /\ ~UrgentCo /\ nops < MaxOps /\ st[x.c].pc = "none"
    /\ nops' = nops + 1 /\ act' = [op |-> "call", c |-> x.c, kind |-> x.kind, h |-> x.h, T |-> x.T, R |-> x.R]
    /\ doneW' = IF x.kind = "proc" THEN FALSE ELSE doneW
    /\ IF x.kind \in {"forget", "confirm"}
       THEN /\ Enq(x.c, IF x.kind = "confirm" THEN x.h ELSE "") /\ st' = [st EXCEPT ![x.c].pc = "ret"] /\ UNCHANGED nrw
       ELSE IF nrw THEN /\ nrw' = FALSE /\ Enq(x.c, x.h)
                        /\ st' = [st EXCEPT ![x.c].pc = AfterEnq(x), ![x.c].deadline = now + x.T]
                   ELSE /\ st' = [st EXCEPT ![x.c].pc = "waitNrw", ![x.c].deadline = now + x.T]
                        /\ UNCHANGED <<nrw, sendQ, enq>>
    /\ wq' = IF x.kind \in {"wait", "proc"} /\ ~nrw THEN Append(wq, x.c) ELSE wq
    /\ UNCHANGED <<paused, pauseUntil, woken, written, conf, awaiting, now, nresp>>
Dispatch(hr) ==
    /\ ~Urgent /\ nresp < MaxResp
    /\ nresp' = nresp + 1 /\ act' = [op |-> "resp", h |-> hr.h]
    /\ nrw' = (nrw \/ hr.proc) /\ doneW' = (doneW \/ (hr.proc /\ hr.done))
    /\ IF hr.proc THEN woken' = woken \o wq /\ wq' = <<>> ELSE UNCHANGED <<wq, woken>>
    /\ IF paused /\ pauseUntil = hr.h THEN paused' = FALSE /\ pauseUntil' = "" ELSE UNCHANGED <<paused, pauseUntil>>
    /\ awaiting' = IF awaiting = hr.h THEN "" ELSE awaiting
    /\ st' = [c \in Ids |-> IF st[c].pc = "waitResp" /\ CmdOf(c).h = hr.h THEN [st[c] EXCEPT !.pc = "waitDone"] ELSE st[c]]
    /\ conf' = conf \cup {c \in Ids : CmdOf(c).h = hr.h /\ \E i \in 1..Len(written) : written[i] = c}
    /\ UNCHANGED <<sendQ, enq, written, now, nops>>
Tick == /\ ~Urgent /\ now < MaxTime /\ now' = now + 1 /\ act' = [op |-> "adv"]
        /\ UNCHANGED <<sendQ, paused, pauseUntil, nrw, doneW, wq, woken, st, enq, written, conf, awaiting, nops, nresp>>
Internal == Write \/ \E c \in Ids : Proceed(c) \/ Return(c) \/ TimeoutLink(c) \/ TimeoutResp(c)
Next == Internal \/ Tick \/ (\E x \in Cmds : Call(x)) \/ (\E hr \in Headers : Dispatch(hr))
Spec == Init /\ [][Next]_vars /\ WF_vars(Internal) /\ WF_vars(Tick)

\* ---------------------------------------------------------------- properties
\* between the write of a confirmed command and the dispatch of its confirming header nothing else is written
NoWriteWhileAwaiting == [][act'.op = "write" => awaiting = ""]_vars
\* commands leave in the order in which they were queued (a resend keeps the place of the original)
RECURSIVE Dedup(_, _)
Dedup(s, seen) == IF s = <<>> THEN <<>> ELSE IF Head(s) \in seen THEN Dedup(Tail(s), seen)
                  ELSE <<Head(s)>> \o Dedup(Tail(s), seen \cup {Head(s)})
FifoWrites == LET w == Dedup(written, {}) IN Len(w) <= Len(enq) /\ w = SubSeq(enq, 1, Len(w))
Count(s, c) == Cardinality({i \in 1..Len(s) : s[i] = c})
\* a wait is only given up after the configured number of resends ...
RetriedAsConfigured == \A c \in Ids : st[c].pc = "fail" => Count(written, c) = CmdOf(c).R + 1
\* ... and a lost response neither blocks the caller nor the queue forever (unless no retry was configured:
\* plain confirmed commands and max_retries = -1 wait by design)
ByDesign(c) == CmdOf(c).kind \in {"confirm", "wait"} \/ CmdOf(c).R = 0 - 1
Quiet == /\ \A c \in Ids : (CmdOf(c).kind = "proc" /\ ~ByDesign(c)) => st[c].pc \in {"none", "waitNrw", "waitDone", "ret", "fail"}
         /\ (sendQ = <<>> \/ \E c \in Ids : ByDesign(c) /\ paused /\ pauseUntil = CmdOf(c).h)
LostResponseRetried == <>[](Quiet \/ now = MaxTime)
\* a caller only moves on to wait for the processing of the response once that response has been dispatched
\* (the safety half of "a lost response is retried": it is not silently taken for received)
NeverWaitsUnconfirmed == \A c \in Ids : st[c].pc = "waitDone" => c \in conf
=============================================================================
