SPECIFICATION Spec
CONSTANTS
  Sw = {"s_no", "s_nc"}
  Inv <- MCInv
  Hid = {"h1", "h2"}
  Hold = {0, 1, 2}
  HeldSw = "s_no"
  HeldMs = 2
  MaxTime = 4
  Lax = 0
  MuteSw = {"s_no"}
  MaxOps = 5
  LongAgo <- MCLongAgo
INVARIANT Mirror
INVARIANT TimedSound
INVARIANT TimedComplete
PROPERTY DuplicateInert
PROPERTY RemovedNeverFires
CHECK_DEADLOCK FALSE
