------------------------------ MODULE Switches ------------------------------
(* Reference model of mpf.core.switch_controller (+ the event posting of devices/switch.py) in   *)
(* abstract time units.  Report = process_switch[_by_num]; the untimed handlers of the new state  *)
(* are called one by one (Call) from a snapshot, nested add/remove calls may happen in between;  *)
(* timed handlers sit in `timed` until their deadline (TFire) or the next change of the switch.  *)
EXTENDS Integers, Sequences, FiniteSets, TLC
CONSTANTS Sw, Inv,        \* switches; Inv[sw] = TRUE for normally-closed switches
          Hid, Hold,      \* handler ids, hold times (units; 0 = untimed)
          HeldSw, HeldMs, \* one switch has a configured timed event "held" after HeldMs units active
          MaxTime, MaxOps, LongAgo,
          MuteSw,         \* switches that may be muted
          Lax             \* tolerance (time units) of recorded times: 0 for model checking and the driver's unit-grid traces
VARIABLES now, st, hw, last,   \* logical state, raw state, time of last change per switch
          reg,        \* registered handlers: set of [id, sw, state, ms]
          timed,      \* pending timed entries: set of [id, sw, due]
          pcall,      \* ids of untimed handlers still to be called for the change in progress
          incall,     \* TRUE while process_switch is running (between Report and EndReport)
          pev,        \* configured events posted and not yet delivered: set of <<sw, state>>
          muted,      \* switches that are muted (Switch.mute: ball search, a drop target's coil pulsing): changes are still
                      \* mirrored and void pending hold-time entries, but call no handler and post no event
          mch,        \* (ghost) switches whose last change happened while they were muted
          nops, act
vars == <<now, st, hw, last, reg, timed, pcall, incall, pev, muted, mch, nops, act>>
HeldId == "e_held"
Init == /\ now = 0 /\ st = [s \in Sw |-> IF Inv[s] THEN 1 ELSE 0] /\ hw = [s \in Sw |-> 0]
        /\ last = [s \in Sw |-> LongAgo] /\ reg = {} /\ timed = {} /\ pcall = {} /\ incall = FALSE /\ pev = {} /\ muted = {} /\ mch = {}
        /\ nops = 0 /\ act = [op |-> "init"]
Ids(S) == {h.id : h \in S}
Overdue == \E e \in timed : e.due + Lax <= now
\* a top-level call arrives between loop iterations; a nested one from inside a handler callback
CallOK(nested) == /\ nops < MaxOps /\ (IF nested THEN incall ELSE ~incall /\ ~Overdue /\ pev = {})
Logical(s, v, logical) == IF Inv[s] /\ ~logical THEN 1 - v ELSE v
Raw(s, v, logical) == IF Inv[s] /\ logical THEN 1 - v ELSE v
\* a report from a platform (raw) or from a logical source; duplicates change nothing
Report(s, v, logical) ==
    /\ CallOK(FALSE) /\ nops' = nops + 1
    /\ LET n == Logical(s, v, logical) IN
       IF n = st[s]
       THEN /\ UNCHANGED <<st, hw, last, timed, pcall, pev, mch>> /\ incall' = TRUE
       ELSE /\ st' = [st EXCEPT ![s] = n] /\ hw' = [hw EXCEPT ![s] = Raw(s, v, logical)]
            /\ last' = [last EXCEPT ![s] = now]
            /\ mch' = (IF s \in muted THEN mch \cup {s} ELSE mch \ {s})
            /\ IF s \in muted
               THEN /\ timed' = {e \in timed : e.sw # s} /\ UNCHANGED <<pcall, pev>>
               ELSE /\ timed' = {e \in timed : e.sw # s}
                        \cup {[id |-> h.id, sw |-> s, due |-> now + h.ms] : h \in {x \in reg : x.sw = s /\ x.state = n /\ x.ms > 0}}
                        \cup (IF s = HeldSw /\ n = 1 THEN {[id |-> HeldId, sw |-> s, due |-> now + HeldMs]} ELSE {})
                    /\ pcall' = Ids({x \in reg : x.sw = s /\ x.state = n /\ x.ms = 0})
                    /\ pev' = pev \cup {<<s, n>>}
            /\ incall' = TRUE
    /\ UNCHANGED <<now, reg, muted>>
    /\ act' = [op |-> "report", sw |-> s, v |-> v, logical |-> logical]
\* one untimed handler of the snapshot is invoked (if it has not been removed meanwhile)
Call(id) == /\ incall /\ id \in pcall /\ id \in Ids(reg) /\ pcall' = pcall \ {id}
            /\ UNCHANGED <<now, st, hw, last, reg, timed, incall, pev, nops, muted, mch>>
            /\ act' = [op |-> "call", id |-> id]
\* process_switch returns: every snapshot handler that is still registered has been called
EndReport == /\ incall /\ pcall \cap Ids(reg) = {} /\ pcall' = {} /\ incall' = FALSE
             /\ UNCHANGED <<now, st, hw, last, reg, timed, pev, nops, muted, mch>> /\ act' = [op |-> "endreport"]
\* the configured events of a change are delivered (once) before anything else happens
Deliver(s, n) == /\ ~incall /\ <<s, n>> \in pev /\ pev' = pev \ {<<s, n>>}
                 /\ UNCHANGED <<now, st, hw, last, reg, timed, pcall, incall, nops, muted, mch>>
                 /\ act' = [op |-> "deliver", sw |-> s, state |-> n]
AddHandler(id, s, state, ms, nested) ==
    /\ CallOK(nested) /\ id \notin Ids(reg) /\ nops' = nops + 1
    /\ reg' = reg \cup {[id |-> id, sw |-> s, state |-> state, ms |-> ms]}
    \* mid-interval rule: original deadline if still ahead, nothing otherwise
    /\ timed' = IF ms > 0 /\ st[s] = state /\ last[s] + ms > now
                THEN timed \cup {[id |-> id, sw |-> s, due |-> last[s] + ms]} ELSE timed
    /\ UNCHANGED <<now, st, hw, last, pcall, incall, pev, muted, mch>>
    /\ act' = [op |-> "add", id |-> id, sw |-> s, state |-> state, ms |-> ms, nested |-> nested]
RemoveHandler(id, nested) ==
    /\ CallOK(nested) /\ id \in Ids(reg) /\ nops' = nops + 1
    /\ reg' = {h \in reg : h.id # id} /\ timed' = {e \in timed : e.id # id}
    /\ UNCHANGED <<now, st, hw, last, pcall, incall, pev, muted, mch>>
    /\ act' = [op |-> "remove", id |-> id, nested |-> nested]
\* a timed handler's deadline has come and the switch never changed in between
\* (its callback may remove another handler - rm - on the spot: that one must not fire any more, even if it was due now too)
TFire(id, rm) == /\ ~incall /\ rm # id /\ (rm = "" \/ rm \in Ids(reg))
                 /\ \E e \in timed : e.id = id /\ e.due \in (now - Lax)..(now + Lax) /\ timed' = {x \in timed \ {e} : x.id # rm}
                 /\ reg' = {h \in reg : h.id # rm}
                 /\ UNCHANGED <<now, st, hw, last, pcall, incall, pev, nops, muted, mch>>
                 /\ act' = [op |-> "tfire", id |-> id, t |-> now, rm |-> rm]
Tick == /\ ~incall /\ ~Overdue /\ pev = {} /\ now < MaxTime /\ now' = now + 1
        /\ UNCHANGED <<st, hw, last, reg, timed, pcall, incall, pev, nops, muted, mch>> /\ act' = [op |-> "tick"]
\* the switch is muted / unmuted (by ball search, by its drop target's coil, by code); nothing else changes
SetMute(s, m) == /\ CallOK(FALSE) /\ nops' = nops + 1 /\ (m <=> s \notin muted)
                 /\ muted' = IF m THEN muted \cup {s} ELSE muted \ {s}
                 /\ UNCHANGED <<now, st, hw, last, reg, timed, pcall, incall, pev, mch>>
                 /\ act' = [op |-> "mute", sw |-> s, m |-> m]
Next == \/ \E s \in Sw, v \in {0, 1}, b \in BOOLEAN : Report(s, v, b)
        \/ \E s \in MuteSw, m \in BOOLEAN : SetMute(s, m)
        \/ \E id \in Hid : Call(id) \/ (\E rm \in Hid \cup {""} : TFire(id, rm)) \/ (\E b \in BOOLEAN : RemoveHandler(id, b))
        \/ TFire(HeldId, "") \/ EndReport \/ Tick
        \/ \E s \in Sw, n \in {0, 1} : Deliver(s, n)
        \/ \E id \in Hid, s \in Sw, n \in {0, 1}, ms \in Hold, b \in BOOLEAN : AddHandler(id, s, n, ms, b)
Spec == Init /\ [][Next]_vars

\* queries (is_active / is_inactive with a hold time)
IsState(s, n, ms) == st[s] = n /\ (ms = 0 \/ now - last[s] >= ms)

\* ---- statement of C03 over the model ---------------------------------------------------------------
Mirror == \A s \in Sw : (hw[s] = IF Inv[s] THEN 1 - st[s] ELSE st[s]) \/ last[s] = LongAgo
\* a pending timed entry always belongs to a registered handler (or the configured event) whose switch
\* has been in the handler's state continuously since due - ms
TimedSound == \A e \in timed :
    /\ e.due >= now
    /\ IF e.id = HeldId THEN e.sw = HeldSw /\ st[e.sw] = 1 /\ e.due = last[e.sw] + HeldMs
       ELSE \E h \in reg : h.id = e.id /\ h.sw = e.sw /\ st[e.sw] = h.state /\ e.due = last[e.sw] + h.ms
\* every registered timed handler whose switch is in its state and whose deadline is still ahead is pending
\* (unless it was registered after the deadline had passed)
TimedComplete == \A h \in reg : (h.ms > 0 /\ st[h.sw] = h.state /\ last[h.sw] + h.ms > now /\ h.sw \notin mch)
                                   => \E e \in timed : e.id = h.id /\ e.due = last[h.sw] + h.ms
DuplicateInert == [][ (act'.op = "report" /\ st' = st) => (timed' = timed /\ pcall' = pcall /\ pev' = pev) ]_vars
RemovedNeverFires == [][ act'.op \in {"call", "tfire"} /\ act'.id # HeldId => act'.id \in Ids(reg) ]_vars
=============================================================================
