-------------------------- MODULE SwitchesSuiteTrace --------------------------
(* One trace = the life of ONE switch in any run of the real code (lib/suite_rec.py; in particular the repository's  *)
(* own tests), from the first report / registration after the switch controller was initialised: reports with the    *)
(* resulting logical and raw state, registrations and removals of handlers (each registration an id of its own),     *)
(* every handler call, times in 0.1 ms units.  The trace starts from the observed state of the switch and the         *)
(* handlers registered then.  Time is not ticked: the model may move to the time of the next line only if no pending  *)
(* hold-time entry would be passed (a missed callback blocks the trace).  Lax = 2 units absorbs rounding.             *)
EXTENDS Switches, TraceIO
VARIABLES tid, l
tvars == <<vars, tid, l>>
T == TraceLines[tid]
TL == T.ev
TInv == [s \in {"s_no", "s_nc"} |-> s = "s_nc"]
TLongAgo == -2000000000
SwN == T.sw
Other == IF SwN = "s_no" THEN "s_nc" ELSE "s_no"
TInit == /\ tid \in 1..Len(TraceLines) /\ l = 1
         /\ now = 0 /\ st = (SwN :> T.st0 @@ Other :> (IF TInv[Other] THEN 1 ELSE 0)) /\ hw = (SwN :> T.hw0 @@ Other :> 0)
         /\ last = (SwN :> T.last0 @@ Other :> TLongAgo)
         /\ reg = {[id |-> r.id, sw |-> SwN, state |-> r.state, ms |-> r.ms] : r \in SeqToSet(T.reg0)}
         /\ timed = {[id |-> r.id, sw |-> SwN, due |-> r.due] : r \in SeqToSet(T.timed0)}
         /\ pcall = {} /\ incall = FALSE /\ pev = {} /\ nops = 0 /\ act = [op |-> "init"]
         /\ muted = (IF T.muted0 THEN {SwN} ELSE {}) /\ mch = {}
\* registered within the rounding tolerance of the original deadline: the hold-time entry may or may not be armed
NearAdd(e) == e.ms > 0 /\ st[SwN] = e.state /\ last[SwN] + e.ms \in (now - Lax)..(now + Lax)
Step(e) ==
    \/ e.op = "report" /\ Report(SwN, e.v, e.logical)
    \/ e.op = "call" /\ Call(e.id)
    \/ e.op = "endreport" /\ EndReport /\ st'[SwN] = e.st /\ hw'[SwN] = e.hw
    \/ e.op = "add" /\ ~NearAdd(e) /\ AddHandler(e.id, SwN, e.state, e.ms, e.nested)
    \/ /\ e.op = "add" /\ NearAdd(e) /\ CallOK(e.nested) /\ e.id \notin Ids(reg) /\ nops' = nops + 1
       /\ reg' = reg \cup {[id |-> e.id, sw |-> SwN, state |-> e.state, ms |-> e.ms]}
       /\ timed' \in {timed, timed \cup {[id |-> e.id, sw |-> SwN, due |-> last[SwN] + e.ms]}}
       /\ UNCHANGED <<now, st, hw, last, pcall, incall, pev, muted, mch>> /\ act' = [op |-> "add"]
    \/ e.op = "remove" /\ RemoveHandler(e.id, e.nested)
    \/ e.op = "mute" /\ SetMute(SwN, e.m)
    \/ e.op = "tfire" /\ TFire(e.id, "")
    \/ e.op = "sync" /\ ~incall /\ ~Overdue /\ st[SwN] = e.st /\ UNCHANGED vars
\* move to the time of the next line (never past a pending hold-time entry), deliver configured events
MoveTo == /\ l <= Len(TL) /\ now < TL[l].t /\ ~incall /\ (\A x \in timed : x.due + Lax >= TL[l].t)
          /\ now' = TL[l].t /\ UNCHANGED <<st, hw, last, reg, timed, pcall, incall, pev, nops, muted, mch>> /\ act' = [op |-> "move"]
TNext == \/ l <= Len(TL) /\ now = TL[l].t /\ Step(TL[l]) /\ l' = l + 1 /\ UNCHANGED tid
         \/ MoveTo /\ UNCHANGED <<tid, l>>
         \/ (\E x \in pev : Deliver(x[1], x[2])) /\ UNCHANGED <<tid, l>>
TSpec == TInit /\ [][TNext]_tvars
Reporter == TraceReport(tid, l, Len(TL))
=============================================================================
