---------------------------- MODULE SwitchesTrace ----------------------------
(* Every recorded execution of the real switch controller must be a behaviour of Switches.       *)
EXTENDS Switches, TraceIO
VARIABLES tid, l
tvars == <<vars, tid, l>>
Ev == TraceLines[tid].ev
TInv == [s \in {"s_no", "s_nc"} |-> s = "s_nc"]
TInit == /\ tid \in 1..Len(TraceLines) /\ l = 1 /\ Init
ObsState(e) == \A s \in Sw : st'[s] = e.st[s] /\ (hw'[s] = e.hw[s] \/ last'[s] = LongAgo)
Step(e) ==
    \/ e.op = "report" /\ Report(e.sw, e.v, e.logical)
    \/ e.op = "call" /\ Call(e.id)
    \/ e.op = "endreport" /\ EndReport /\ ObsState(e)
    \/ e.op = "deliver" /\ Deliver(e.sw, e.state)
    \/ e.op = "add" /\ AddHandler(e.id, e.sw, e.state, e.ms, e.nested)
    \/ e.op = "remove" /\ RemoveHandler(e.id, e.nested)
    \/ e.op = "tfire" /\ TFire(e.id, e.rm) /\ now = e.t
    \/ e.op = "mute" /\ SetMute(e.sw, e.m)
    \/ e.op = "tick" /\ Tick
    \* end of a loop run: nothing overdue, all configured events delivered, queries truthful
    \/ /\ e.op = "sync" /\ ~incall /\ ~Overdue /\ pev = {} /\ UNCHANGED vars
       /\ \A s \in Sw : /\ IsState(s, 1, 0) = e.q[s][1] /\ IsState(s, 1, 2) = e.q[s][2]
                        /\ IsState(s, 0, 2) = e.q[s][3] /\ st[s] = e.st[s]
TNext == l <= Len(Ev) /\ Step(Ev[l]) /\ l' = l + 1 /\ UNCHANGED tid
TSpec == TInit /\ [][TNext]_tvars
Reporter == TraceReport(tid, l, Len(Ev))
=============================================================================
