-------------------------- MODULE EventPlayersTrace --------------------------
(* One recorded execution of the real state machine / event player / random event player / queue players of one           *)
(* configuration (one mode of the shared machine).  Logged per step: the operation and its arguments, the events of the   *)
(* statement posted during the step with the kwargs the statement talks about (in order; compared as a bag for the steps   *)
(* where the statement fixes no order: time passing, the release of several queues), whether the mode is active and the    *)
(* state of the state machine (0: none).  A crash line is an exception of the real code; it is accepted only where the     *)
(* model names the deviation.                                                                                              *)
EXTENDS EventPlayers, TraceIO
VARIABLES tid, l
tvars == <<vars, tid, l>>
TL == TraceLines[tid].ev
TConfigs == {}
TAllDev == {"staletransition", "zeroweightcrash", "qeargscrash"}
TInit == /\ tid \in 1..Len(TraceLines) /\ l = 1 /\ cfg = TraceLines[tid].cfg
         /\ mode = FALSE /\ st = 0 /\ now = 0 /\ pend = <<>> /\ rcur = 0 /\ rsent = {} /\ ridx = 0
         /\ waiting = {} /\ nqe = 0 /\ qn = 0 /\ doneset = {} /\ fires = <<>> /\ out = <<>> /\ act = [op |-> "init"]
         /\ nops = 0 /\ crashed = FALSE
SameBag(a, b) == Len(a) = Len(b) /\ \A i \in DOMAIN a : Count(a, a[i]) = Count(b, a[i])
Ordered == {"start", "sme", "trig", "rnd", "qtrig", "qego"}
Step(e) ==
    IF e.op = "crash"
    THEN /\ \/ e.after = "rnd" /\ e.kind = "zero" /\ \E k \in Items : Rnd(k)
            \/ e.after = "answer" /\ e.kind = "qeargs" /\ Answer
            \/ e.after = "stop" /\ e.kind = "qeargs" /\ Stop
         /\ crashed'
    ELSE /\ \/ e.op = "start" /\ Start
            \/ e.op = "stop" /\ Stop
            \/ e.op = "sme" /\ SmEvent(e.e)
            \/ e.op = "trig" /\ Trig(e.v)
            \/ e.op = "adv" /\ Adv
            \/ e.op = "rnd" /\ \E k \in Items : Rnd(k)
            \/ e.op = "qtrig" /\ QTrig
            \/ e.op = "qego" /\ QeGo
            \/ e.op = "answer" /\ Answer
         /\ ~crashed'
         /\ IF e.op \in Ordered THEN out' = e.out ELSE SameBag(out', e.out)
         /\ e.mode = mode' /\ e.st = st'
TNext == l <= Len(TL) /\ Step(TL[l]) /\ l' = l + 1 /\ UNCHANGED tid
TSpec == TInit /\ [][TNext]_tvars
Reporter == TraceReport(tid, l, Len(TL))
=============================================================================
