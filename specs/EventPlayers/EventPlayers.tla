---------------------------- MODULE EventPlayers ----------------------------
(* STATEMENT (X09, written from the docstrings of mpf/devices/state_machine.py, mpf/config_players/event_player.py,         *)
(* random_event_player.py, queue_event_player.py, queue_relay_player.py, mpf/core/randomizer.py, the config_spec sections  *)
(* state_machines / state_machine_states / state_machine_transitions / event_player / random_event_player /                *)
(* queue_event_player / queue_relay_player and mpf/core/config_player.py (mode_start / mode_stop / clear_context)):         *)
(* For any sequence of starts and stops of a (non-game) mode, transition events, trigger events, queue events, answer       *)
(* events and passing time, for a state machine, an event player, a random event player (scope machine), a queue event     *)
(* player and a queue relay player that are all configured in that mode:                                                  *)
(*  - state machine: while the mode runs the device is in exactly one state (outside it has none); a mode start enters      *)
(*    `starting_state` and posts its events_when_started; an event makes a transition only if the current state is one of   *)
(*    the transition's `source` states and the event one of its `events`: then the old state's events_when_stopped, the      *)
(*    transition's events_when_transitioning and the target's events_when_started are posted once each, in that order, and   *)
(*    the target is the current state; any other event changes nothing and posts nothing; one event makes at most one        *)
(*    transition;                                                                                                          *)
(*  - event player: a trigger posted while the mode runs posts every entry whose condition holds for the trigger's kwargs   *)
(*    exactly once, in the configured order, with its static kwargs, `(name)` in an event name replaced by the trigger's    *)
(*    kwarg; an entry `event|T` is posted exactly T later (not before, not twice); a trigger outside the mode posts          *)
(*    nothing; nothing of the mode's event player is posted after the mode has stopped;                                      *)
(*  - random event player: each trigger (while the mode runs) posts exactly one of the listed events, never one of weight  *)
(*    0; force_different: never the same twice in a row; force_all: every event once before any repeats;                    *)
(*    disable_random: in list order; the state (scope machine) survives the stop and restart of the mode;                    *)
(*  - queue relay player: a queue event posted while the mode runs posts `post` (with the queue event's kwargs,             *)
(*    pass_args) and does not complete before `wait_for` is posted or the mode stops; then it completes exactly once;        *)
(*    outside the mode it completes at once;                                                                               *)
(*  - queue event player: the trigger posts `queue_event` with `args`; when that queue event has completed,                 *)
(*    `events_when_finished` is posted once (with `args`).                                                                   *)
(*                                                                                                                        *)
(* Deviations (the code contradicts its documentation / evident intent; named so that the check describes the code as is): *)
(*  "staletransition"  EventManager._run_handlers iterates a copy of the handler list and does not skip handlers removed    *)
(*                     during the dispatch: when two transitions of the current state listen to the same event, the second  *)
(*                     handler (removed by StateMachine._stop_current_state of the first) still runs and makes its          *)
(*                     transition from the NEW state, whether or not that state is one of its `source` states                *)
(*  "delaysurvives"    EventPlayer keeps one machine-wide DelayManager and does not implement clear_context: a delayed      *)
(*                     entry of a mode's event player is posted although the mode has stopped                              *)
(*  "zeroweightcrash"  Randomizer.pick_weighted_random calls random.randint(1, 0) (ValueError) when every event still       *)
(*                     allowed by force_different / force_all has weight 0                                                  *)
(*  "qeargscrash"      QueueEventPlayer.play posts the queue event with **args and a callback partial(_callback, event,     *)
(*                     args); the event manager calls the callback with the queue event's kwargs: TypeError as soon as the  *)
(*                     queue event completes when both `args` and `events_when_finished` are configured                     *)
EXTENDS Naturals, Sequences, FiniteSets, TLC
CONSTANTS Configs, MaxOps, MaxT, MaxQ, Deviations
VARIABLES cfg, mode, st, now, pend, rcur, rsent, ridx, waiting, nqe, qn, doneset, fires, out, act, nops, crashed
smv == <<st>>
rndv == <<rcur, rsent, ridx>>
qv == <<waiting, nqe, qn, doneset>>
vars == <<cfg, mode, st, now, pend, rcur, rsent, ridx, waiting, nqe, qn, doneset, fires, out, act, nops, crashed>>
Items == 1..3
Dev(d) == d \in Deviations
InSeq(x, s) == \E i \in DOMAIN s : s[i] = x
Count(s, x) == Cardinality({i \in DOMAIN s : s[i] = x})
SStarted(k) == "s" \o ToString(k) \o "_started"
SStopped(k) == "s" \o ToString(k) \o "_stopped"
TTrans(j) == "t" \o ToString(j) \o "_trans"
R(k) == "r" \o ToString(k)
DoneEv(n) == "done:" \o ToString(n)
AskQe == IF cfg.qea THEN "ask:src=qe" ELSE "ask"
QeDone == IF cfg.qea THEN "qedone:src=qe" ELSE "qedone"

Init == /\ cfg \in Configs /\ mode = FALSE /\ st = 0 /\ now = 0 /\ pend = <<>> /\ rcur = 0 /\ rsent = {} /\ ridx = 0
        /\ waiting = {} /\ nqe = 0 /\ qn = 0 /\ doneset = {} /\ fires = <<>> /\ out = <<>> /\ act = [op |-> "init"]
        /\ nops = 0 /\ crashed = FALSE
Op(a) == /\ ~crashed /\ nops < MaxOps /\ nops' = nops + 1 /\ act' = a /\ UNCHANGED cfg
Base(a) == Op(a) /\ fires' = <<>>

\* ---- state machine ---------------------------------------------------------------------------------------------------
MatchIdx(s, e) == SelectSeq([j \in 1..Len(cfg.tr) |-> j], LAMBDA j : InSeq(s, cfg.tr[j].src) /\ InSeq(e, cfg.tr[j].evs))
FireEv(c, j) == (IF cfg.soff[c] THEN <<SStopped(c)>> ELSE <<>>) \o (IF cfg.tr[j].tev THEN <<TTrans(j)>> ELSE <<>>)
                \o (IF cfg.son[cfg.tr[j].tgt] THEN <<SStarted(cfg.tr[j].tgt)>> ELSE <<>>)
RECURSIVE Run(_, _, _, _)
Run(js, c, o, f) == IF js = <<>> THEN [st |-> c, out |-> o, fires |-> f]
                    ELSE Run(Tail(js), cfg.tr[Head(js)].tgt, o \o FireEv(c, Head(js)), Append(f, [from |-> c, j |-> Head(js)]))
SmEvent(e) == /\ Op([op |-> "sme", e |-> e])
              /\ LET m == IF mode THEN MatchIdx(st, e) ELSE <<>>
                     js == IF Dev("staletransition") \/ m = <<>> THEN m ELSE <<m[1]>>
                     r == Run(js, st, <<>>, <<>>)
                 IN st' = r.st /\ out' = r.out /\ fires' = r.fires
              /\ UNCHANGED <<mode, now, pend, rndv, qv, crashed>>

\* ---- the mode ----------------------------------------------------------------------------------------------------------
IdSeq(S) == SelectSeq([i \in 1..MaxQ |-> i], LAMBDA i : i \in S)
Released == [k \in 1..Len(IdSeq(waiting)) |-> DoneEv(IdSeq(waiting)[k])] \o [k \in 1..nqe |-> QeDone]
\* wait_for arrived / clear_context: every held queue is cleared
ReleaseAll == IF nqe > 0 /\ cfg.qea /\ Dev("qeargscrash")
              THEN crashed' = TRUE /\ out' = <<>> /\ waiting' = {} /\ nqe' = 0 /\ doneset' = doneset \cup waiting /\ qn' = qn
              ELSE crashed' = crashed /\ out' = Released /\ waiting' = {} /\ nqe' = 0 /\ doneset' = doneset \cup waiting /\ qn' = qn
Start == /\ Base([op |-> "start"]) /\ UNCHANGED <<now, pend, rndv, qv, crashed>>
         /\ IF mode THEN out' = <<>> /\ UNCHANGED <<mode, st>>
            ELSE mode' = TRUE /\ st' = cfg.start /\ out' = IF cfg.son[cfg.start] THEN <<SStarted(cfg.start)>> ELSE <<>>
Stop == /\ Base([op |-> "stop"]) /\ UNCHANGED <<now, rndv>>
        /\ IF ~mode THEN out' = <<>> /\ UNCHANGED <<mode, st, pend, qv, crashed>>
           ELSE /\ mode' = FALSE /\ st' = 0 /\ pend' = IF Dev("delaysurvives") THEN pend ELSE <<>>
                /\ ReleaseAll

\* ---- event player ------------------------------------------------------------------------------------------------------
Trig(v) == /\ Base([op |-> "trig", v |-> v]) /\ UNCHANGED <<mode, st, now, rndv, qv, crashed>>
           /\ IF ~mode THEN out' = <<>> /\ pend' = pend
              ELSE /\ out' = <<"a:foo=bar">> \o (IF v = 1 THEN <<"b">> ELSE <<>>) \o <<"e_t" \o ToString(v)>>
                   /\ pend' = pend \o <<[due |-> now + 1, ev |-> "c"]>> \o (IF v = 1 THEN <<[due |-> now + 2, ev |-> "d"]>> ELSE <<>>)
Adv == /\ now < MaxT /\ Base([op |-> "adv"]) /\ now' = now + 1 /\ UNCHANGED <<mode, st, rndv, qv, crashed>>
       /\ LET due == SelectSeq(pend, LAMBDA p : p.due <= now + 1)
          IN out' = [k \in 1..Len(due) |-> due[k].ev] /\ pend' = SelectSeq(pend, LAMBDA p : p.due > now + 1)

\* ---- random event player (Randomizer.__next__) -----------------------------------------------------------------------
Pot0 == IF cfg.rfa THEN Items \ rsent ELSE IF cfg.rfd THEN Items \ {rcur} ELSE {}
Pot == IF Pot0 = {} THEN (IF cfg.rfd THEN Items \ {rcur} ELSE Items) ELSE Pot0
RndOk == {i \in Pot : cfg.rw[i] > 0}
RndStuck == mode /\ ~cfg.rdr /\ RndOk = {}
Rnd(k) == /\ Base([op |-> "rnd"]) /\ UNCHANGED <<mode, st, now, pend, qv>>
          /\ IF ~mode THEN k = 1 /\ out' = <<>> /\ UNCHANGED <<rndv, crashed>>
             ELSE IF cfg.rdr
             THEN /\ k = (IF ridx = 3 THEN 0 ELSE ridx) + 1 /\ ridx' = k /\ rcur' = k /\ rsent' = rsent /\ out' = <<R(k)>>
                  /\ UNCHANGED crashed
             ELSE IF RndOk = {}
             THEN k = 1 /\ out' = <<>> /\ UNCHANGED rndv /\ crashed' = Dev("zeroweightcrash")
             ELSE /\ k \in RndOk /\ rcur' = k /\ rsent' = (IF Pot0 = {} THEN {} ELSE rsent) \cup {k} /\ ridx' = ridx
                  /\ out' = <<R(k)>> /\ UNCHANGED crashed

\* ---- queue players -----------------------------------------------------------------------------------------------------
QTrig == /\ qn < MaxQ /\ Base([op |-> "qtrig"]) /\ qn' = qn + 1 /\ UNCHANGED <<mode, st, now, pend, rndv, nqe, crashed>>
         /\ IF mode THEN waiting' = waiting \cup {qn + 1} /\ out' = <<"ask:n=" \o ToString(qn + 1)>> /\ doneset' = doneset
            ELSE waiting' = waiting /\ out' = <<DoneEv(qn + 1)>> /\ doneset' = doneset \cup {qn + 1}
QeGo == /\ nqe < MaxQ /\ Base([op |-> "qego"]) /\ UNCHANGED <<mode, st, now, pend, rndv, waiting, qn, doneset, crashed>>
        /\ IF mode THEN nqe' = nqe + 1 /\ out' = <<AskQe>> ELSE nqe' = nqe /\ out' = <<>>
Answer == /\ Base([op |-> "answer"]) /\ UNCHANGED <<mode, st, now, pend, rndv>> /\ ReleaseAll

Next == \/ Start \/ Stop \/ Adv \/ QTrig \/ QeGo \/ Answer
        \/ \E e \in 1..2 : SmEvent(e)
        \/ \E v \in 0..1 : Trig(v)
        \/ \E k \in Items : Rnd(k)
Spec == Init /\ [][Next]_vars

\* ---- properties --------------------------------------------------------------------------------------------------------
TypeOK == /\ mode \in BOOLEAN /\ st \in 0..3 /\ rcur \in 0..3 /\ ridx \in 0..3 /\ rsent \subseteq Items /\ nqe \in 0..MaxQ
          /\ waiting \subseteq 1..MaxQ /\ qn \in 0..MaxQ
OneState == (mode <=> st \in 1..3) /\ (~mode <=> st = 0)
PendDue == \A k \in DOMAIN pend : pend[k].due > now /\ pend[k].due <= now + 2
WaitOnlyWhileActive == ~mode => (waiting = {} /\ nqe = 0)
DoneOnce == waiting \cap doneset = {} /\ waiting \cup doneset = 1..qn
RndState == (rcur # 0 /\ ~cfg.rdr) => rcur \in rsent
ZeroWeightNever == (rcur # 0 /\ ~cfg.rdr) => cfg.rw[rcur] > 0
\* documented intent, not true of the code (checked for Deviations = {} only)
FiredFromSource == \A k \in DOMAIN fires : InSeq(fires[k].from, cfg.tr[fires[k].j].src)
NoDelayedAfterStop == ~mode => pend = <<>>
AtMostOneTransition == [][act'.op = "sme" => Len(fires') <= 1]_vars

InactiveInert == [][(~mode /\ act'.op \in {"sme", "trig", "rnd", "qego", "answer", "stop"}) =>
                      (out' = <<>> /\ UNCHANGED <<st, pend, rndv, waiting, nqe, doneset>>)]_vars
NoMatchNothing == [][(act'.op = "sme" /\ (~mode \/ MatchIdx(st, act'.e) = <<>>)) => (st' = st /\ out' = <<>> /\ fires' = <<>>)]_vars
TransitionEvents == [][(act'.op = "sme" /\ mode /\ MatchIdx(st, act'.e) # <<>>) =>
                         LET j == MatchIdx(st, act'.e)[1]
                             t == cfg.tr[j].tgt
                             pre == SubSeq(out', 1, Len(FireEv(st, j)))
                         IN /\ Len(fires') >= 1 /\ fires'[1] = [from |-> st, j |-> j] /\ Len(out') >= Len(FireEv(st, j))
                            /\ pre = FireEv(st, j)
                            /\ Count(pre, SStopped(st)) = (IF cfg.soff[st] THEN 1 ELSE 0)
                            /\ Count(pre, TTrans(j)) = (IF cfg.tr[j].tev THEN 1 ELSE 0)
                            /\ Count(pre, SStarted(t)) = (IF cfg.son[t] THEN 1 ELSE 0)
                            /\ (Len(fires') = 1 => st' = t /\ out' = pre)]_vars
TriggerOncePerEntry == [][(act'.op = "trig" /\ mode) =>
                            /\ Count(out', "a:foo=bar") = 1 /\ Count(out', "b") = act'.v /\ Count(out', "e_t" \o ToString(act'.v)) = 1
                            /\ Len(out') = 2 + act'.v /\ out'[1] = "a:foo=bar" /\ Len(pend') = Len(pend) + 1 + act'.v]_vars
DelayExact == [][act'.op = "adv" => /\ Len(out') + Len(pend') = Len(pend)
                                    /\ \A k \in DOMAIN pend' : pend'[k].due > now'
                                    /\ Cardinality({k \in DOMAIN pend : pend[k].due = now'}) = Len(out')]_vars
RndExactlyOne == [][(act'.op = "rnd" /\ mode /\ ~RndStuck) => (Len(out') = 1 /\ out'[1] = R(rcur') /\ ~crashed')]_vars
RndDifferent == [][(act'.op = "rnd" /\ mode /\ cfg.rfd /\ out' # <<>>) => rcur' # rcur]_vars
RndForceAll == [][(act'.op = "rnd" /\ mode /\ cfg.rfa /\ ~cfg.rdr /\ out' # <<>>) =>
                    /\ (rsent # Items => rcur' \notin rsent)
                    /\ rsent' = (IF rsent = Items THEN {} ELSE rsent) \cup {rcur'}]_vars
RndInOrder == [][(act'.op = "rnd" /\ mode /\ cfg.rdr) => rcur' = (rcur % 3) + 1]_vars
QueueHeld == [][\A n \in waiting : n \in waiting' \/ act'.op \in {"answer", "stop"}]_vars
ReleasedOnce == [][/\ doneset \subseteq doneset'
                   /\ ~crashed' => \A n \in 1..MaxQ : Count(out', DoneEv(n)) = (IF n \in doneset' \ doneset THEN 1 ELSE 0)
                   /\ (~crashed' /\ act'.op \in {"answer", "stop"}) => Count(out', QeDone) = nqe]_vars
=============================================================================
