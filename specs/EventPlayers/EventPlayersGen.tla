--------------------------- MODULE EventPlayersGen ---------------------------
(* Schedule generator (tlc -simulate only): the KIND of the next step is drawn first, then its arguments, so that mode    *)
(* starts / stops and the passing of time are not starved by the many device operations.                                  *)
EXTENDS EventPlayersMC
VARIABLES pick
gvars == <<vars, pick>>
Kinds == <<"start", "start", "stop", "sme", "sme", "sme", "trig", "trig", "adv", "adv", "adv", "rnd", "rnd", "qtrig", "qego",
           "answer">>
CanDo(kd) == CASE kd = "start" -> ~mode \/ nops % 5 = 0
               [] kd = "stop" -> mode \/ nops % 5 = 0
               [] kd = "adv" -> now < MaxT
               [] kd = "qtrig" -> qn < MaxQ /\ (mode \/ nops % 3 = 0)
               [] kd = "qego" -> nqe < MaxQ /\ (mode \/ nops % 3 = 0)
               [] kd = "answer" -> waiting # {} \/ nqe > 0 \/ nops % 4 = 0
               [] OTHER -> mode \/ nops % 3 = 0
GInit == Init /\ pick = 0
Draw == /\ pick = 0 /\ ~crashed /\ nops < MaxOps /\ \E k \in 1..Len(Kinds) : CanDo(Kinds[k]) /\ pick' = k
        /\ UNCHANGED vars
Do == /\ pick # 0 /\ pick' = 0
      /\ LET kd == Kinds[pick] IN
         \/ kd = "start" /\ Start
         \/ kd = "stop" /\ Stop
         \/ kd = "sme" /\ \E e \in 1..2 : SmEvent(e)
         \/ kd = "trig" /\ \E v \in 0..1 : Trig(v)
         \/ kd = "adv" /\ Adv
         \/ kd = "rnd" /\ \E k \in Items : Rnd(k)
         \/ kd = "qtrig" /\ QTrig
         \/ kd = "qego" /\ QeGo
         \/ kd = "answer" /\ Answer
GNext == Draw \/ Do
GSpec == GInit /\ [][GNext]_gvars
=============================================================================
