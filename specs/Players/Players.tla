------------------------------- MODULE Players -------------------------------
(* Reference model of per-player state in a multi-player game (mpf/core/player.py, mode_controller.py,  *)
(* logic_blocks.py, enable_disable_mixin.py, shot.py, shot_group.py, achievement.py, timer.py,          *)
(* variable_player.py) as the statement of C11 sees it.                                                  *)
(*   P[p]    everything player p owns: plain player variables (score, bonus, ball, eb) and the          *)
(*           persisted device state kept in the player (c1/a1/q1/c2 logic-block state objects, shot     *)
(*           states s, persisted enable flags e, achievement state, timer tick variable, the list of    *)
(*           modes to restart on the next ball rs)                                                      *)
(*   bound[m] the player whose state the devices of game mode m are attached to (0: mode not running); *)
(*           what a device object shows "live" is a view of P[bound[m]] (operator Live)                 *)
(*   vol     device state that is configured NOT to persist (counter c3, enable flag of shot 3, the     *)
(*           timer's running flag and pending pause): reset on every mode start                         *)
(*   game skeleton: NewGame -> (held before the turn) -> TurnStart -> ball -> BallEnd -> extra ball |   *)
(*           next player (held) | game over.  ModeReq = a request to start a game mode while no turn    *)
(*           is running (between player_turn_ended and player_turn_started, before the first turn, or   *)
(*           with no game): it must be refused.                                                         *)
(*   evs     ghost: the player_<var> events of the last step as <<var, value, prev, change, player>>    *)
(*   tevs    the same for the player variables that hold strings / None / ints (P[p].tv): values are     *)
(*           written "i:<int>", "s:<string>", "n" (None), "-" (no such variable: reads as 0); change is  *)
(*           "i:<int>" when both values are numbers, else "T"/"F" (different / same)                     *)
(*   vol.stp game mode gm2 was asked to stop and a handler of its mode_gm2_stopping queue event holds    *)
(*           the stop: the mode and its devices stay loaded (attached to the same player) until Release; *)
(*           a ball that ends meanwhile WAITS (ph = "ending": gm1 gone, gm2 still attached to cur, still *)
(*           cur's turn) and goes on to the next ball / player / game over at Release                    *)
(*   PVar    a variable_player entry of gm1 that names its target ('player: 1' / 'player: 2', add to score / *)
(*           set bonus): writes into the named player's record whoever is up (the one exemption of Frame     *)
(*           besides SetTV); its player_<var> event carries the named player's number and values            *)
(*   Read    a READ of player variable var of player q (who may be up, waiting for his turn, or not have joined)   *)
(*           through one of the read paths of the code (Player attribute / item access, placeholder templates    *)
(*           players[n].var / players[n]['var'] / current_player.var, with and without subscription, conditions  *)
(*           of conditional events): changes NOTHING - no variable is created, no event posted, the devices      *)
(*           still find "no state yet" when they are first loaded for q (LoadG1/LoadG2 use the configured        *)
(*           defaults); what is read is what q owns (a variable that does not exist reads as 0)                  *)
(*   AddBurst(k)  k requests to add a player within ONE instant (k presses of the start button / k calls of       *)
(*           request_player_add() in one handler / k add-player events, all handled in the same drain of the      *)
(*           event queue, i.e. before the completion callback of the first request has created its player):       *)
(*           every request is judged on the game as it is at that instant; the players are created afterwards,    *)
(*           one after the other, and every one of them is numbered WHEN HE IS CREATED: P[p].num = p, the numbers *)
(*           of the players are 1..np in the order of joining (NumbersDistinct); everything else (Frame, Restore,  *)
(*           FreshGame, VarEvent: the owner's number in every player_<var> event) is as for players who joined    *)
(*           one at a time.  A burst larger than the free slots overshoots max_players in the code as it is       *)
(*           (known finding C06:AddRace, a matter of C06): such bursts are left out of the model, not judged.     *)
(*   nops/nadv/ngames/bops  budgets (bops: steps within the current ball or pause between turns)         *)
(* machine modelled (drivers/c11.py write_machine): gm1 starts on ball_starting (c1 counter goal 3      *)
(* disable_on_complete, a1 accrual of 2, q1 sequence of 2 reset+disable on complete, shots 1/2 in a     *)
(* group with a 3-state non-looping profile and persisted enable, achievement, variable_player);        *)
(* gm2 starts/stops by event, restart_on_next_ball (c2 persisted open counter, c3 volatile counter,     *)
(* timer t2 whose start value is the player's tick variable, shot 3 with persist_enable false).         *)
EXTENDS Integers, Sequences, FiniteSets, TLC
CONSTANTS Configs,      \* records [bpg |-> balls per game, maxp |-> max players]
          Acts,         \* enabled action families (partitions the exhaustive runs)
          MaxP, MaxOps, MaxAdv, MaxGames, MaxEB,
          MaxBallOps, MaxReq,   \* per ball / per pause between turns (shape the generated schedules)
          ReadVars, ReadPaths,  \* the variables / paths that Next enumerates for Read (subsets of RVars / RPaths)
          Deviations    \* named code-as-is deviations (used by the Trace spec only: "LateModeStart")
VARIABLES cfg, ph, np, cur, P, bound, vol, ending, evs, tevs, act, nops, nadv, ngames, bops
vars == <<cfg, ph, np, cur, P, bound, vol, ending, evs, tevs, act, nops, nadv, ngames, bops>>
Players == 1..MaxP
NoLB  == [x |-> FALSE, v |-> 0, en |-> FALSE, done |-> FALSE]
NewLB == [x |-> TRUE, v |-> 0, en |-> TRUE, done |-> FALSE]
NoP   == [ex |-> FALSE, score |-> 0, bonus |-> 0, ball |-> 0, eb |-> 0, c1 |-> NoLB, a1 |-> NoLB, q1 |-> NoLB, c2 |-> NoLB,
          s |-> <<0, 0, 0>>, e |-> <<-1, -1>>, ach |-> "none", tick |-> -1, rs |-> FALSE, xv |-> 0,
          tv |-> [ini |-> "-", sel |-> "-"], num |-> 0]
\* configured initial values (player_vars: bonus = 2, ini = "" (a string variable))
InitP == [NoP EXCEPT !.ex = TRUE, !.bonus = 2, !.tv.ini = "s:"]
\* the n-th player to join: the configured initial values and his number (player variable "number")
JoinP(n) == [InitP EXCEPT !.num = n]
Vol0  == [c3 |-> NoLB, e3 |-> FALSE, trun |-> FALSE, tpause |-> 0, stp |-> FALSE]
VolFresh == [c3 |-> NewLB, e3 |-> TRUE, trun |-> FALSE, tpause |-> 0, stp |-> FALSE]
NoBound == [gm1 |-> 0, gm2 |-> 0]
AchStates == {"disabled", "enabled", "started", "stopped", "completed"}
\* ---- player variables that post player_<var> events (ints; a missing variable reads as 0) -------------------
IntVars == {"score", "bonus", "ball", "extra_balls", "shot_sh1", "shot_sh2", "shot_sh3", "shot_sh1_enabled",
            "shot_sh2_enabled", "gm2_t2_tick"}
Val(r, var) == CASE var = "score" -> r.score [] var = "bonus" -> r.bonus [] var = "ball" -> r.ball
                 [] var = "extra_balls" -> r.eb [] var = "shot_sh1" -> r.s[1] [] var = "shot_sh2" -> r.s[2]
                 [] var = "shot_sh3" -> r.s[3]
                 [] var = "shot_sh1_enabled" -> (IF r.e[1] = -1 THEN 0 ELSE r.e[1])
                 [] var = "shot_sh2_enabled" -> (IF r.e[2] = -1 THEN 0 ELSE r.e[2])
                 [] var = "gm2_t2_tick" -> (IF r.tick = -1 THEN 0 ELSE r.tick)
ChangeEvs(A, B) == { <<var, Val(B[p], var), Val(A[p], var), Val(B[p], var) - Val(A[p], var), p>> :
                     <<p, var>> \in {x \in Players \X IntVars : A[x[1]].ex /\ B[x[1]].ex /\ Val(A[x[1]], x[2]) # Val(B[x[1]], x[2])} }
\* ---- player variables holding strings / None / small ints (player.py __setattr__) ----------------------------------
TVars == {"ini", "sel"}
TVals == {"i:0", "i:1", "s:", "s:A", "n"}
TVRead(x) == IF x = "-" THEN "i:0" ELSE x             \* a variable that does not exist reads as 0
IsI(x) == x \in {"i:0", "i:1"}
IntOf(x) == IF x = "i:1" THEN 1 ELSE 0
EncI(k) == CASE k = -1 -> "i:-1" [] k = 0 -> "i:0" [] k = 1 -> "i:1"
\* change = value - prev_value where that is defined, otherwise whether the two differ
Chg(old, new) == IF IsI(old) /\ IsI(new) THEN EncI(IntOf(new) - IntOf(old)) ELSE IF old # new THEN "T" ELSE "F"
Truthy(c) == c \notin {"i:0", "F"}
\* ---- reads of player variables ---------------------------------------------------------------------------------------
\* the variables a schedule reads: everything the machine keeps in a player (the persisted device state above all) and two
\* names nobody ever writes (shot 3 has persist_enable: false; "foo")
RVarSeq == <<"shot_sh1_enabled", "c1_state", "shot_sh2_enabled", "c2_state", "gm2_t2_tick", "a1_state", "shot_sh1", "q1_state",
             "shot_sh1_enabled", "achievements", "extra_balls", "foo", "c1_state", "shot_sh2", "sel", "shot_sh3_enabled",
             "shot_sh2_enabled", "score", "ini", "gm2_t2_tick", "shot_sh3", "restart_modes_on_next_ball", "bonus", "ball", "c2_state">>
RVars == {RVarSeq[i] : i \in DOMAIN RVarSeq}
\* read paths: Player API (attr: getattr / player.x, item: player['x']), templates (tmpl: players[n].x, sub: players[n]['x'],
\* tsub: evaluate_and_subscribe, tmplcur: current_player.x), conditions of conditional events (cond: ev{players[n].x},
\* condcur: ev{current_player.x})
RPathSeq == <<"cond", "attr", "tmpl", "item", "condcur", "sub", "tmplcur", "tsub">>
RPaths == {RPathSeq[i] : i \in DOMAIN RPathSeq}
ValuePaths == RPaths \ {"cond", "condcur"}       \* the value itself is seen (a condition shows its truth value only)
NoSuchVars == {"foo", "shot_sh3_enabled"}
\* does variable var exist in record r (Player.is_player_var) - for the variables whose existence the model tracks
HasKnown == {"score", "bonus", "restart_modes_on_next_ball", "shot_sh1_enabled", "shot_sh2_enabled", "gm2_t2_tick",
             "c1_state", "a1_state", "q1_state", "c2_state", "ini", "sel"} \cup NoSuchVars
Has(r, var) == CASE var \in {"score", "bonus", "restart_modes_on_next_ball"} -> r.ex
                 [] var = "shot_sh1_enabled" -> r.e[1] # -1 [] var = "shot_sh2_enabled" -> r.e[2] # -1
                 [] var = "gm2_t2_tick" -> r.tick # -1
                 [] var = "c1_state" -> r.c1.x [] var = "a1_state" -> r.a1.x [] var = "q1_state" -> r.q1.x [] var = "c2_state" -> r.c2.x
                 [] var \in TVars -> r.tv[var] # "-"
                 [] OTHER -> FALSE
\* what a read of var of player q returns, written as in TVals ("n": None - the player has not joined; "?": an object, a list,
\* a dict - not judged)
RVal(q, var) == IF q > np THEN "n"
                ELSE IF var \in IntVars THEN "i:" \o ToString(Val(P[q], var))
                ELSE IF var \in TVars THEN TVRead(P[q].tv[var])
                ELSE IF var \in NoSuchVars THEN "i:0" ELSE "?"
RTruth(x) == x \notin {"i:0", "s:", "n"}
\* ---- device load at mode start: look the state up in the player, create it on first use ---------------------
LoadG1(r) == [r EXCEPT !.c1 = IF @.x THEN @ ELSE NewLB, !.a1 = IF @.x THEN @ ELSE NewLB, !.q1 = IF @.x THEN @ ELSE NewLB,
                       !.e = <<IF @[1] = -1 THEN 1 ELSE @[1], IF @[2] = -1 THEN 0 ELSE @[2]>>,
                       !.ach = IF @ = "none" THEN "disabled" ELSE @]
LoadG2(r) == [r EXCEPT !.c2 = IF @.x THEN @ ELSE NewLB, !.tick = IF @ = -1 THEN 0 ELSE @]
\* a ball starts for record r: gm1 starts, gm2 restarts if the player's restart list holds it
StartBall(r) == IF r.rs THEN LoadG2(LoadG1([r EXCEPT !.rs = FALSE])) ELSE LoadG1(r)
\* ---- what the device objects show -----------------------------------------------------------------------------
Live == LET b1 == bound.gm1  b2 == bound.gm2 IN
        [g1 |-> b1 # 0, g2 |-> b2 # 0,
         c1 |-> IF b1 = 0 THEN NoLB ELSE P[b1].c1, a1 |-> IF b1 = 0 THEN NoLB ELSE P[b1].a1,
         q1 |-> IF b1 = 0 THEN NoLB ELSE P[b1].q1, c2 |-> IF b2 = 0 THEN NoLB ELSE P[b2].c2, c3 |-> vol.c3,
         s |-> <<IF b1 = 0 THEN 0 ELSE P[b1].s[1], IF b1 = 0 THEN 0 ELSE P[b1].s[2], IF b2 = 0 THEN 0 ELSE P[b2].s[3]>>,
         e |-> <<b1 # 0 /\ P[b1].e[1] = 1, b1 # 0 /\ P[b1].e[2] = 1, vol.e3>>,
         ach |-> IF b1 = 0 THEN "none" ELSE P[b1].ach,
         tick |-> IF b2 = 0 THEN -1 ELSE P[b2].tick, trun |-> vol.trun, stp |-> vol.stp]
\* ---- logic block transitions (as validated by specs/LogicBlocks) ---------------------------------------------
Bit(k) == k + 1
HasBit(v, k) == (v \div Bit(k)) % 2 = 1
HitF(dev, r, k) ==
    IF ~r.en THEN r
    ELSE IF dev = "c1" THEN (IF r.v + 1 >= 3 /\ ~r.done THEN [r EXCEPT !.v = @ + 1, !.done = TRUE, !.en = FALSE]
                             ELSE [r EXCEPT !.v = @ + 1])
    ELSE IF dev \in {"c2", "c3"} THEN [r EXCEPT !.v = @ + 1]
    ELSE IF dev = "a1" THEN (LET v2 == IF HasBit(r.v, k) THEN r.v ELSE r.v + Bit(k) IN
                             IF v2 = 3 /\ ~r.done THEN [r EXCEPT !.v = v2, !.done = TRUE] ELSE [r EXCEPT !.v = v2])
    ELSE (IF k # r.v THEN r ELSE IF r.v + 1 >= 2 THEN [r EXCEPT !.v = 0, !.en = FALSE, !.done = FALSE] ELSE [r EXCEPT !.v = @ + 1])
ModeOf(dev) == IF dev \in {"c1", "a1", "q1"} THEN "gm1" ELSE "gm2"
\* achievement transitions (restart_after_stop_possible: true)
AchF(kind, st) ==
    CASE kind = "enable" -> IF st \in {"disabled", "started"} THEN "enabled" ELSE st
      [] kind = "start" -> IF st \in {"enabled", "stopped"} THEN "started" ELSE st
      [] kind = "complete" -> IF st = "started" THEN "completed" ELSE st
      [] kind = "stop" -> IF st = "started" THEN "stopped" ELSE st
      [] kind = "disable" -> IF st \in {"enabled", "stopped"} THEN "disabled" ELSE st
\* ---- steps ------------------------------------------------------------------------------------------------------
Init == /\ cfg \in Configs /\ ph = "idle" /\ np = 0 /\ cur = 0 /\ P = [p \in Players |-> NoP] /\ bound = NoBound /\ vol = Vol0
        /\ ending = FALSE /\ evs = {} /\ tevs = {} /\ act = [op |-> "init"] /\ nops = 0 /\ nadv = 0 /\ ngames = 0 /\ bops = 0
Step(a, P2, b2, v2) == P' = P2 /\ bound' = b2 /\ vol' = v2 /\ evs' = ChangeEvs(P, P2) /\ tevs' = {} /\ act' = a
Me == P[cur]
SetMe(r) == [P EXCEPT ![cur] = r]
OpIn(fam, phs) == /\ fam \in Acts /\ ph \in phs /\ nops < MaxOps /\ nops' = nops + 1 /\ bops < MaxBallOps /\ bops' = bops + 1
                  /\ UNCHANGED <<cfg, ph, np, cur, ending, nadv, ngames>>
Op(fam) == OpIn(fam, {"ball"})
\* what still works while the ended ball waits for gm2's held stop: gm2 and its devices, the clock, plain variable writes
OpE(fam) == OpIn(fam, {"ball", "ending"})
\* write through a device of mode m into the player record it is attached to
Via(m, f(_)) == [P EXCEPT ![bound[m]] = f(@)]

NewGame == /\ ph = "idle" /\ ngames < MaxGames /\ ngames' = ngames + 1 /\ bops' = 0
           /\ ph' = "between" /\ np' = 1 /\ cur' = 1 /\ ending' = FALSE
           /\ P' = [p \in Players |-> IF p = 1 THEN JoinP(1) ELSE NoP] /\ bound' = NoBound /\ vol' = Vol0 /\ evs' = {} /\ tevs' = {}
           /\ act' = [op |-> "newgame"] /\ UNCHANGED <<cfg, nops, nadv>>
\* a start request for a game mode while no player's turn is running is refused: nothing changes
ModeReq(m) == /\ "modereq" \in Acts /\ ph \in {"idle", "between"} /\ nops < MaxOps /\ nops' = nops + 1 /\ bops < MaxReq /\ bops' = bops + 1
              /\ Step([op |-> "modereq", m |-> m], P, bound, vol)
              /\ UNCHANGED <<cfg, ph, np, cur, ending, nadv, ngames>>
\* a start request for game mode m while the ended ball waits for the held stop of gm2 (it is still cur's turn).  The
\* statement does not say whether it is granted (run: m is running afterwards).  If it is, m's devices show cur's state -
\* and m lets go of cur like every other game mode before anybody else is up (Release -> EndOfBall)
LateReq(m, run) == /\ OpIn("late", {"ending"}) /\ (bound[m] # 0 => run)
                   /\ LET a == [op |-> "latereq", m |-> m, run |-> run] IN
                      IF run /\ bound[m] = 0 THEN Step(a, SetMe(LoadG1(Me)), [bound EXCEPT ![m] = cur], vol)
                      ELSE Step(a, P, bound, vol)
TurnStart == /\ ph = "between" /\ ph' = "ball" /\ bops' = 0
             /\ Step([op |-> "turnstart"], SetMe(StartBall([Me EXCEPT !.ball = @ + 1])),
                     [gm1 |-> cur, gm2 |-> IF Me.rs THEN cur ELSE 0], IF Me.rs THEN VolFresh ELSE Vol0)
             /\ UNCHANGED <<cfg, np, cur, ending, nops, nadv, ngames>>
AddPlayer == /\ "addplayer" \in Acts /\ ph = "ball" /\ nops < MaxOps /\ nops' = nops + 1
             /\ LET ok == Me.ball = 1 /\ np < cfg.maxp /\ ~ending IN
                /\ np' = IF ok THEN np + 1 ELSE np
                /\ P' = IF ok THEN [P EXCEPT ![np + 1] = JoinP(np + 1)] ELSE P
             /\ evs' = {} /\ tevs' = {} /\ act' = [op |-> "addplayer"]
             /\ UNCHANGED <<cfg, ph, cur, bound, vol, ending, nadv, ngames, bops>>
\* k add requests within one instant: all of them are judged on the game as it is now (no player of the burst exists yet
\* when the last request is judged), then the players are created one after the other - the i-th of them is the
\* (np + i)-th player of the game.  Bursts that do not fit into the free slots are not modelled (C06:AddRace)
AddBurst(k) == /\ "burst" \in Acts /\ ph = "ball" /\ k \in 2..3 /\ nops < MaxOps /\ nops' = nops + 1
               /\ LET ok == Me.ball = 1 /\ np < cfg.maxp /\ ~ending IN
                  /\ (ok => np + k <= cfg.maxp)
                  /\ np' = IF ok THEN np + k ELSE np
                  /\ P' = IF ok THEN [p \in Players |-> IF p \in (np + 1)..(np + k) THEN JoinP(p) ELSE P[p]] ELSE P
               /\ evs' = {} /\ tevs' = {} /\ act' = [op |-> "addburst", k |-> k]
               /\ UNCHANGED <<cfg, ph, cur, bound, vol, ending, nadv, ngames, bops>>
Score == Op("score") /\ Step([op |-> "score"], SetMe([Me EXCEPT !.score = @ + 100]), bound, vol)
SetVar(kind) == Op("var") /\ Step([op |-> "var", kind |-> kind],
                                 SetMe([Me EXCEPT !.bonus = IF kind = "set" THEN 5 ELSE @ + 1]), bound, vol)
\* a variable_player entry of game mode gm1 with an explicit target 'player: n' (kind add: score + 7, set: bonus = 9): the
\* write goes to player n whoever is up.  A player n who has not joined (yet): the statement does not say - the entry is
\* dropped or (fb) applied to the player who is up
PVarTarget(n, fb) == IF n <= np THEN n ELSE IF fb THEN cur ELSE 0
PVarWrite(r, kind) == IF kind = "set" THEN [r EXCEPT !.bonus = 9] ELSE [r EXCEPT !.score = @ + 7]
PVar(kind, n, fb) == /\ Op("pvar") /\ n \in 1..2 /\ (n <= np => ~fb)
                     /\ LET t == PVarTarget(n, fb)
                            a == [op |-> "pvar", kind |-> kind, n |-> n, fb |-> fb]
                        IN Step(a, IF t = 0 THEN P ELSE [P EXCEPT ![t] = PVarWrite(@, kind)], bound, vol)
AwardEB == Op("eb") /\ Me.eb < MaxEB /\ Step([op |-> "awardeb"], SetMe([Me EXCEPT !.eb = @ + 1]), bound, vol)
LB(dev, kind, k) ==
    /\ OpE("lb") /\ (dev \in {"a1", "q1"} /\ kind = "hit" => k \in {0, 1}) /\ (~(dev \in {"a1", "q1"} /\ kind = "hit") => k = 0)
    /\ LET m == ModeOf(dev)
           a == [op |-> "lb", dev |-> dev, kind |-> kind, k |-> k]
           F(r) == CASE kind = "hit" -> HitF(dev, r, k) [] kind = "enable" -> [r EXCEPT !.en = TRUE]
                     [] kind = "disable" -> [r EXCEPT !.en = FALSE]
           pts == IF dev = "c1" THEN 10 ELSE IF dev = "c2" THEN 1 ELSE 0
       IN IF bound[m] = 0 THEN Step(a, P, bound, vol)
          ELSE IF dev = "c3" THEN Step(a, P, bound, [vol EXCEPT !.c3 = F(@)])
          ELSE LET W(r) == [r EXCEPT ![dev] = F(@)]
                   P1 == Via(m, W)
                   \* variable_player on logicblock_<dev>_hit scores for the CURRENT player
                   P2 == IF kind = "hit" /\ P[bound[m]][dev].en THEN [P1 EXCEPT ![cur].score = @ + pts] ELSE P1
               IN Step(a, P2, bound, vol)
Shot(i, kind) ==
    /\ OpE("shot") /\ i \in 1..3
    /\ LET m == IF i = 3 THEN "gm2" ELSE "gm1"
           a == [op |-> "shot", i |-> i, kind |-> kind]
           b == bound[m]
           en == IF i = 3 THEN vol.e3 ELSE P[b].e[i] = 1
           Adv1(r) == [r EXCEPT !.s[i] = IF @ < 2 THEN @ + 1 ELSE @]
           SetE(r) == [r EXCEPT !.e[i] = IF kind = "enable" THEN 1 ELSE 0]
       IN IF b = 0 THEN Step(a, P, bound, vol)
          ELSE IF kind = "hit" THEN Step(a, IF en THEN Via(m, Adv1) ELSE P, bound, vol)
          ELSE IF i = 3 THEN Step(a, P, bound, [vol EXCEPT !.e3 = (kind = "enable")])
          ELSE Step(a, Via(m, SetE), bound, vol)
Rotate == /\ Op("shot")
          /\ LET Sw(r) == [r EXCEPT !.s = <<@[2], @[1], @[3]>>] IN Step([op |-> "rotate"], Via("gm1", Sw), bound, vol)
Ach(kind, ns) == /\ Op("ach") /\ ns \in AchStates
                 /\ LET W(r) == [r EXCEPT !.ach = ns] IN Step([op |-> "ach", kind |-> kind], Via("gm1", W), bound, vol)
ModeStart == /\ OpE("mode")
             /\ IF bound.gm2 # 0 THEN Step([op |-> "modestart"], P, bound, vol)
                ELSE Step([op |-> "modestart"], SetMe(LoadG2(Me)), [bound EXCEPT !.gm2 = cur], VolFresh)
\* stop request for gm2; h: a handler holds the mode_gm2_stopping queue event (the stop completes at Release)
ModeStop(h) == /\ OpE("mode") /\ (h => "hold" \in Acts /\ bound.gm2 # 0 /\ ~vol.stp)
               /\ LET a == [op |-> "modestop", h |-> h] IN
                  IF bound.gm2 = 0 \/ vol.stp THEN Step(a, P, bound, vol)
                  ELSE IF h THEN Step(a, P, bound, [vol EXCEPT !.stp = TRUE])
                  ELSE Step(a, P, [bound EXCEPT !.gm2 = 0], Vol0)
\* a write to a string/None/int player variable of player q (the public Player API: player[var] = val)
SetTV(q, var, val) ==
    /\ OpE("tv") /\ q \in 1..np /\ var \in TVars /\ val \in TVals
    /\ LET cell == P[q].tv[var]
           prev == TVRead(cell)
           chg == Chg(prev, val)
           posted == (Truthy(chg) \/ cell = "-") /\ val # "n"      \* only ints, floats and strings are announced
       IN /\ P' = [P EXCEPT ![q].tv[var] = val] /\ tevs' = IF posted THEN {<<var, val, prev, chg, q>>} ELSE {}
          /\ evs' = {} /\ act' = [op |-> "settv", q |-> q, var |-> var, val |-> val] /\ UNCHANGED <<bound, vol>>
\* a read of variable var of player q through path: nothing changes (q may be any player, also one who has not joined -
\* the Player API needs the player object, current_player.x reads the player who is up)
Read(q, var, path) ==
    /\ OpIn("read", {"between", "ball", "ending"}) /\ q \in Players /\ var \in RVars /\ path \in RPaths
    /\ (path \in {"attr", "item"} => q <= np) /\ (path \in {"tmplcur", "condcur"} => q = cur)
    /\ Step([op |-> "read", q |-> q, var |-> var, path |-> path], P, bound, vol)
Timer(kind) == /\ OpE("timer")
               /\ LET v2 == CASE kind = "start" -> IF vol.trun THEN vol ELSE [vol EXCEPT !.trun = TRUE, !.tpause = 0]
                              [] kind = "stop" -> [vol EXCEPT !.trun = FALSE, !.tpause = 0]
                              [] kind = "pause" -> [vol EXCEPT !.trun = FALSE, !.tpause = 2]
                  IN Step([op |-> "timer", kind |-> kind], P, bound, IF bound.gm2 = 0 THEN vol ELSE v2)
\* one second passes: a running timer ticks (into the player its mode belongs to), a timed pause runs out
Adv == /\ "timer" \in Acts /\ ph \in {"ball", "ending"} /\ nadv < MaxAdv /\ nadv' = nadv + 1 /\ bops < MaxBallOps /\ bops' = bops + 1
       /\ LET T(r) == [r EXCEPT !.tick = @ + 1]
              v2 == IF vol.tpause > 0 THEN [vol EXCEPT !.tpause = @ - 1, !.trun = (vol.tpause = 1)] ELSE vol
          IN Step([op |-> "adv"], IF vol.trun /\ bound.gm2 # 0 THEN Via("gm2", T) ELSE P, bound, v2)
       /\ UNCHANGED <<cfg, ph, np, cur, ending, nops, ngames>>
\* the ball ends (drain, or end_game): game modes stop, their devices let go of the player; then an extra ball
\* for the same player, or the turn ends: next player / game over
EndOfBall(a, endNow) ==
    LET me == [Me EXCEPT !.rs = (bound.gm2 # 0)] IN
    IF me.eb > 0 /\ ~endNow     \* a pending extra ball is not played once end_game was requested (fix 88b41f2)
    THEN /\ Step(a, SetMe(StartBall([me EXCEPT !.eb = @ - 1])), [gm1 |-> cur, gm2 |-> IF me.rs THEN cur ELSE 0],
                 IF me.rs THEN VolFresh ELSE Vol0)
         /\ ending' = endNow /\ ph' = "ball" /\ UNCHANGED <<np, cur>>
    ELSE IF endNow \/ (me.ball >= cfg.bpg /\ cur = np)
    THEN /\ P' = [p \in Players |-> NoP] /\ bound' = NoBound /\ vol' = Vol0 /\ evs' = {} /\ tevs' = {} /\ act' = a
         /\ ph' = "idle" /\ np' = 0 /\ cur' = 0 /\ ending' = FALSE
    ELSE /\ Step(a, SetMe(me), NoBound, Vol0)
         /\ ph' = "between" /\ cur' = (IF cur < np THEN cur + 1 ELSE 1) /\ ending' = endNow /\ UNCHANGED np
\* the ball ends while the stop of gm2 is held: gm1 stops, gm2 is on the player's restart list, and the end of the ball
\* waits for gm2 - nobody else is up before gm2 let go of the player
WaitForStop(a, endNow) == /\ Step(a, SetMe([Me EXCEPT !.rs = TRUE]), [gm1 |-> 0, gm2 |-> cur], [vol EXCEPT !.stp = TRUE])
                          /\ ph' = "ending" /\ ending' = endNow /\ UNCHANGED <<np, cur>>
\* h: gm2 is running and a handler holds the stop that the end of the ball itself requests
BallEnd(h) == /\ ph = "ball" /\ (h => "hold" \in Acts /\ bound.gm2 # 0 /\ ~vol.stp)
              /\ LET a == [op |-> "ballend", h |-> h] IN IF h \/ vol.stp THEN WaitForStop(a, ending) ELSE EndOfBall(a, ending)
              /\ bops' = 0 /\ UNCHANGED <<cfg, nops, nadv, ngames>>
EndGame == /\ "endgame" \in Acts /\ ph = "ball" /\ bops < MaxBallOps /\ bops' = 0
           /\ LET a == [op |-> "endgame"] IN IF vol.stp THEN WaitForStop(a, TRUE) ELSE EndOfBall(a, TRUE)
           /\ UNCHANGED <<cfg, nops, nadv, ngames>>
\* the handler lets the held stop go: gm2 stops; a ball end that waited for it goes on
Release == /\ vol.stp /\ ph \in {"ball", "ending"}
           /\ LET a == [op |-> "release"] IN
              IF ph = "ball" THEN Step(a, P, [bound EXCEPT !.gm2 = 0], Vol0) /\ UNCHANGED <<ph, np, cur, ending, bops>>
              ELSE EndOfBall(a, ending) /\ bops' = 0
           /\ UNCHANGED <<cfg, nops, nadv, ngames>>
Next == \/ NewGame \/ TurnStart \/ AddPlayer \/ Score \/ AwardEB \/ Rotate \/ ModeStart \/ Adv \/ EndGame \/ Release
        \/ \E h \in BOOLEAN : ModeStop(h) \/ BallEnd(h)
        \/ \E k \in 2..3 : AddBurst(k)
        \/ \E q \in Players, var \in TVars, val \in TVals : SetTV(q, var, val)
        \/ \E m \in {"gm1", "gm2"} : ModeReq(m) \/ \E run \in BOOLEAN : LateReq(m, run)
        \/ \E k \in {"set", "add"} : SetVar(k) \/ \E n \in 1..2, fb \in BOOLEAN : PVar(k, n, fb)
        \/ \E d \in {"c1", "a1", "q1", "c2", "c3"}, k \in {0, 1} : LB(d, "hit", k)
        \/ \E kind \in {"enable", "disable"} : LB("c1", kind, 0)
        \/ \E i \in 1..3, kind \in {"hit", "enable", "disable"} : Shot(i, kind)
        \/ \E kind \in {"enable", "start", "complete", "stop", "disable"} : Ach(kind, AchF(kind, IF bound.gm1 = 0 THEN "none" ELSE P[bound.gm1].ach))
        \/ \E kind \in {"start", "stop", "pause"} : Timer(kind)
        \/ \E q \in Players, var \in ReadVars, path \in ReadPaths : Read(q, var, path)
Spec == Init /\ [][Next]_vars
\* ---- statement of C11 -------------------------------------------------------------------------------------------
\* devices are attached to the current player's state or to nobody; between turns to nobody
\* (while an ended ball waits for the held stop of gm2 it is still cur's turn: gm1 is gone, gm2 still shows cur's state)
Attached == /\ \A m \in {"gm1", "gm2"} : bound[m] \in {0, cur}
            /\ (ph \in {"idle", "between"} => bound = NoBound /\ vol = Vol0)
            /\ (ph = "ball" => bound.gm1 = cur)
            /\ (ph = "ending" => bound.gm2 = cur /\ vol.stp)
            /\ (vol.stp => bound.gm2 = cur)
\* every step taken while cur = p leaves what the other players own untouched
\* (except the one variable that an explicit write to that player's variable names: the Player API, or a
\* variable_player entry with 'player: q')
Frame == [][ \A q \in Players : (q # cur /\ P[q].ex /\ ph' # "idle") =>
                \/ P'[q] = P[q]
                \/ act'.op = "settv" /\ act'.q = q /\ P'[q] = [P[q] EXCEPT !.tv[act'.var] = act'.val]
                \/ act'.op = "pvar" /\ act'.n = q /\ P'[q] = PVarWrite(P[q], act'.kind) ]_vars
\* when a ball starts for p the devices show exactly what p owned before (configured initial values on first use)
BallStarts == (act'.op = "turnstart") \/ (act'.op \in {"ballend", "endgame"} /\ ph' = "ball")
              \/ (act'.op = "release" /\ ph = "ending" /\ ph' = "ball")
Restore == [][ BallStarts =>
               LET p == cur' old == P[p] IN
               /\ bound'.gm1 = p /\ bound'.gm2 \in {0, p}
               /\ Live'.c1 = (IF old.c1.x THEN old.c1 ELSE NewLB) /\ Live'.a1 = (IF old.a1.x THEN old.a1 ELSE NewLB)
               /\ Live'.q1 = (IF old.q1.x THEN old.q1 ELSE NewLB)
               /\ Live'.s[1] = old.s[1] /\ Live'.s[2] = old.s[2]
               /\ Live'.e[1] = (old.e[1] # 0) /\ Live'.e[2] = (old.e[2] = 1)
               /\ Live'.ach = (IF old.ach = "none" THEN "disabled" ELSE old.ach)
               /\ (bound'.gm2 = p => /\ Live'.c2 = (IF old.c2.x THEN old.c2 ELSE NewLB) /\ Live'.s[3] = old.s[3]
                                      /\ Live'.tick = (IF old.tick = -1 THEN 0 ELSE old.tick)
                                      /\ Live'.c3 = NewLB /\ Live'.e[3])       \* not persisted: as configured
               /\ P'[p].score = old.score /\ P'[p].bonus = old.bonus /\ P'[p].tv = old.tv ]_vars
\* a new game (and a player joining) starts from the configured initial values; nothing survives a game
FreshGame == /\ [][ act'.op = "newgame" => P' = [p \in Players |-> IF p = 1 THEN JoinP(1) ELSE NoP] /\ bound' = NoBound ]_vars
             /\ [][ (act'.op = "addplayer" /\ np' # np) => np' = np + 1 /\ P'[np'] = JoinP(np') ]_vars
             /\ [][ (act'.op = "addburst" /\ np' # np) => np' = np + act'.k /\ \A p \in (np + 1)..np' : P'[p] = JoinP(p) ]_vars
\* every player has a number of his own: the players of a game are numbered 1..np in the order in which they joined,
\* however close together their add requests were made
NumbersDistinct == /\ \A p, q \in 1..np : p # q => P[p].num # P[q].num
                   /\ \A p \in Players : P[p].num = (IF p <= np THEN p ELSE 0)
\* ... and a number is for the whole game
NumbersKept == [][ \A p \in Players : (P[p].ex /\ ph' # "idle") => P'[p].num = P[p].num ]_vars
NothingSurvives == ph = "idle" => \A p \in Players : P[p] = NoP
\* each change of a player variable posts exactly one event with value, prev_value, change = value - prev_value, player
VarEvent == [][ act'.op \notin {"newgame", "addplayer", "addburst"} /\ ph' # "idle" =>
                /\ \A p \in Players, var \in IntVars : (P[p].ex /\ P'[p].ex /\ Val(P'[p], var) # Val(P[p], var)) =>
                      Cardinality({x \in evs' : x[1] = var /\ x[5] = p}) = 1
                /\ \A x \in evs' : /\ x[4] = x[2] - x[3] /\ x[4] # 0 /\ x[5] \in 1..np'
                                   /\ x[2] = Val(P'[x[5]], x[1]) /\ x[3] = Val(P[x[5]], x[1])
                \* string / None / int valued variables: a change to a value of a simple type posts exactly one event; every
                \* event carries what the variable reads now, what it read before (None and "" are values, a missing variable
                \* reads 0), their difference resp. whether they differ, and the owner; only creating a variable may post an
                \* event without a change
                /\ \A p \in Players, var \in TVars :
                      LET a == TVRead(P[p].tv[var])  b == TVRead(P'[p].tv[var]) IN
                      (P[p].ex /\ P'[p].ex /\ a # b /\ b # "n") => Cardinality({x \in tevs' : x[1] = var /\ x[5] = p}) = 1
                /\ \A x \in tevs' : /\ x[5] \in 1..np' /\ x[1] \in TVars
                                    /\ x[2] = TVRead(P'[x[5]].tv[x[1]]) /\ x[3] = TVRead(P[x[5]].tv[x[1]])
                                    /\ x[4] = Chg(x[3], x[2])
                                    /\ (Truthy(x[4]) \/ P[x[5]].tv[x[1]] = "-") ]_vars
\* a read is not a write: it creates, changes, initialises and announces nothing (and so the first load of a device for a
\* player still starts from the configured defaults: LoadG1/LoadG2 see the same record)
ReadPure == [][ act'.op = "read" => /\ P' = P /\ bound' = bound /\ vol' = vol /\ evs' = {} /\ tevs' = {}
                                     /\ ph' = ph /\ np' = np /\ cur' = cur /\ ending' = ending ]_vars
TypeOK == /\ ph \in {"idle", "between", "ball", "ending"} /\ np \in 0..MaxP /\ cur \in 0..MaxP /\ (ph # "idle" => cur \in 1..np)
          /\ \A p \in Players : P[p].ex <=> p <= np
=============================================================================
