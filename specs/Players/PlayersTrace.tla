---------------------------- MODULE PlayersTrace ----------------------------
(* One logged line per executed action: e.op + arguments, and observed AFTER the action                 *)
(*   e.pl   - deep snapshot of ALL players of the running game (player.vars projected to the shape of   *)
(*            Players!P: LogicBlockState -> [x, v, en, done], missing variables -> the NoP defaults)     *)
(*            (num: the player variable "number" of the player at that position of game.player_list)     *)
(*   e.live - what the device objects and the mode controller show (shape of Players!Live)              *)
(*   e.evs  - the player_<var> events delivered during the action: <<var, value, prev_value, change, player_num>> *)
(*   e.tevs - the same for the string/None/int variables, values written as in Players!TVals            *)
(*   e.cur  - the number of the player who is up (game.player), e.turn - the player the game modes hold  *)
(*            (Mode.player; judged during a ball only)                                                   *)
(*   e.vs   - the variable NAMES of every player (sorted keys of player.vars), e.xevs - the names of the player_<var>  *)
(*            events seen for variables that hold objects / lists / dicts or that nobody ever writes              *)
(*   read lines: e.rv - the value read (as in Players!TVals; "?" an object, "-" not seen: a condition), e.rt - its   *)
(*            truth value, e.has - is_player_var(var) of player q after the read                                 *)
(* The model follows the logged actions; the monitors (INVARIANTs of the trace cfg, evaluated on the    *)
(* last consumed line o and the model state) carry the statement of C11.                                *)
EXTENDS Players, TraceIO
VARIABLES tid, l, o, po, pcur, dead
tvars == <<vars, tid, l, o, po, pcur, dead>>
TL == TraceLines[tid].ev
TConfigs == {}
TInit == /\ tid \in 1..Len(TraceLines) /\ l = 1 /\ o = [op |-> "init"] /\ po = [op |-> "init"] /\ pcur = 0 /\ dead = FALSE
         /\ cfg = TraceLines[tid].cfg /\ ph = "idle" /\ np = 0 /\ cur = 0 /\ P = [p \in Players |-> NoP] /\ bound = NoBound
         /\ vol = Vol0 /\ ending = FALSE /\ evs = {} /\ tevs = {} /\ act = [op |-> "init"] /\ nops = 0 /\ nadv = 0 /\ ngames = 0 /\ bops = 0
\* the achievement's own transition table is not part of the statement: the new state is taken from the log
ObsAch(e) == IF cur \in 1..Len(e.pl) THEN e.pl[cur].ach ELSE "none"
TStep(e) ==
    \/ e.op = "newgame" /\ NewGame
    \/ e.op = "modereq" /\ ModeReq(e.m)
    \/ e.op = "latereq" /\ LateReq(e.m, e.run)
    \/ e.op = "turnstart" /\ TurnStart
    \/ e.op = "addplayer" /\ AddPlayer
    \/ e.op = "addburst" /\ AddBurst(e.k)
    \/ e.op = "score" /\ Score
    \/ e.op = "var" /\ SetVar(e.kind)
    \/ e.op = "pvar" /\ PVar(e.kind, e.n, e.fb)
    \/ e.op = "awardeb" /\ AwardEB
    \/ e.op = "lb" /\ LB(e.dev, e.kind, e.k)
    \/ e.op = "shot" /\ Shot(e.i, e.kind)
    \/ e.op = "rotate" /\ Rotate
    \/ e.op = "ach" /\ Ach(e.kind, ObsAch(e))
    \/ e.op = "modestart" /\ ModeStart
    \/ e.op = "modestop" /\ ModeStop(e.h)
    \/ e.op = "release" /\ Release
    \/ e.op = "settv" /\ SetTV(e.q, e.var, e.val)
    \/ e.op = "timer" /\ Timer(e.kind)
    \/ e.op = "adv" /\ Adv
    \/ e.op = "ballend" /\ BallEnd(e.h)
    \/ e.op = "endgame" /\ EndGame
    \/ e.op = "read" /\ Read(e.q, e.var, e.path)
\* Code-as-is deviation "LateModeStart" (contradicts the statement; only allowed when named in Deviations): a game mode
\* started while the ended ball waited for another mode's stop is not stopped when the ball finally ends - it is still
\* running, attached to the player who played that ball, when the turn is over (e.turn = 0) and the next player is up
\* (with a single player: the same player's next ball finds it running instead of starting it).  What the model would say from
\* there on is not defined: the rest of such a trace is not judged (dead).
\* (Without the name in Deviations no step explains that line: the trace is rejected there.)
DevLate(e) == e.op = "release" /\ ph = "ending" /\ bound.gm1 = cur /\ e.live.g1 /\ e.turn = 0
TNext == /\ l <= Len(TL)
         /\ IF dead THEN dead' = TRUE /\ UNCHANGED vars
            ELSE IF DevLate(TL[l]) THEN "LateModeStart" \in Deviations /\ dead' = TRUE /\ UNCHANGED vars
            ELSE dead' = FALSE /\ TStep(TL[l])
         /\ o' = TL[l] /\ po' = o /\ pcur' = cur /\ l' = l + 1 /\ UNCHANGED tid
TSpec == TInit /\ [][TNext]_tvars
Reporter == TraceReport(tid, l, Len(TL))
\* ---- monitors ---------------------------------------------------------------------------------------------------
Seen == o.op # "init" /\ ~dead
NPl == IF Seen THEN Len(o.pl) ELSE 0
\* Frame: whatever happened while pcur was up, every other player's variables and persisted device state are
\* exactly what they were (the model's P[q] for q # pcur is unchanged by construction: Players!Frame)
FrameOK == Seen /\ o.op \notin {"newgame"} =>
              \A q \in 1..NPl : (q # pcur /\ q <= np /\ ~(o.op = "addplayer" /\ q = np)) => o.pl[q] = P[q]
SameLive(a, b) == /\ [a EXCEPT !.tick = 0] = [b EXCEPT !.tick = 0]
                  /\ (b.g2 => a.tick = b.tick)        \* the tick count of an unloaded timer is nobody's state
\* FreshGame: a new game / a joining player starts from the configured initial values, nothing of an earlier game shows
FreshOK == Seen => /\ (o.op = "newgame" => NPl = 1 /\ o.pl[1] = JoinP(1) /\ SameLive(o.live, Live))
                   /\ (o.op = "addplayer" => NPl = np /\ o.pl[np] = P[np])
                   \* a burst of add requests: as many new players as the model says, each from the configured initial values
                   /\ (o.op = "addburst" => NPl = np /\ \A q \in 1..np : P[q] = JoinP(q) => o.pl[q] = JoinP(q))
\* NumbersDistinct: the players are numbered 1..n in the order in which they joined - nobody shares his number
NumbersOK == Seen => \A q \in 1..NPl : o.pl[q].num = q
                   /\ (ph = "idle" => NPl = 0 /\ o.live.g1 = FALSE /\ o.live.g2 = FALSE)
\* Restore: when a ball has just started for cur, the devices show what cur owned, and cur's record is what was saved
BallStarted == o.op = "turnstart" \/ (o.op \in {"ballend", "endgame", "release"}/\ ph = "ball")
RestoreOK == Seen /\ BallStarted => NPl = np /\ o.pl[cur] = P[cur] /\ SameLive(o.live, Live)
\* VarEvent: the real (value or change non-zero) player_<var> events are exactly the model's, each once
RealEvs == SelectSeq(o.evs, LAMBDA x : x[4] # 0 \/ x[2] # x[3])
RealT(x) == Truthy(x[4]) \/ x[2] # x[3]
RealTEvs == SelectSeq(o.tevs, RealT)
ModelTEvs == {x \in tevs : RealT(x)}
VarEventOK == Seen => /\ SeqToSet(RealEvs) = evs /\ Len(RealEvs) = Cardinality(evs)
                      /\ Len(o.xevs) = 0       \* objects / lists / dicts and variables nobody writes: never announced
                      /\ SeqToSet(RealTEvs) = ModelTEvs /\ Len(RealTEvs) = Cardinality(ModelTEvs)
\* whose turn it is: the player who is up, and (during a ball) the player the game modes work for; an ended ball that
\* waits for a mode to stop is still the turn of the player who played it
TurnOK == Seen => o.cur = cur /\ (ph \in {"ball", "ending"} => o.turn = cur)
\* the devices show the current player's state (or nothing when their mode is not running)
LiveOK == Seen => SameLive(o.live, Live)
\* the acting player's own record follows the model
OwnOK == Seen => NPl = np /\ (pcur \in 1..np => o.pl[pcur] = P[pcur]) /\ (cur \in 1..np => o.pl[cur] = P[cur])
\* the variable SETS: a read leaves the variable names of every player as they were; whatever else happened while pcur
\* was up, nobody else got or lost a variable (except the one that a write to that player's variable names)
MinN(a, b) == IF a < b THEN a ELSE b
VarSetOK == Seen /\ po.op # "init" /\ o.op # "newgame" =>
               \A q \in 1..MinN(Len(o.vs), Len(po.vs)) :
                  (o.op = "read" \/ q # pcur) =>
                     SeqToSet(o.vs[q]) = SeqToSet(po.vs[q]) \cup (IF o.op = "settv" /\ o.q = q THEN {o.var} ELSE {})
\* a read returns what player q owns (0 for a variable that does not exist, nothing for a player who has not joined), and
\* is_player_var(var) still says what the model says: the devices still find "no state yet" on their first load for q
ReadOK == Seen /\ o.op = "read" =>
             LET rv == RVal(o.q, o.var) IN
             /\ Len(o.vs) = np
             /\ (rv # "?" => /\ (o.path \in ValuePaths => o.rv = rv) /\ o.rt = RTruth(rv))
             /\ (o.q > np => ~o.has)
             /\ (o.q <= np /\ o.var \in HasKnown => o.has = Has(P[o.q], o.var))
=============================================================================
