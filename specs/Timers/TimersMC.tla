------------------------------ MODULE TimersMC ------------------------------
EXTENDS Timers
MCNoEnd == -99
MCConfigs ==
  { [id |-> 1, dir |-> "up",   start |-> 0, end |-> 3,   max |-> 0, restart |-> FALSE, ival |-> 1, startRunning |-> FALSE],
    [id |-> 2, dir |-> "down", start |-> 3, end |-> 0,   max |-> 4, restart |-> TRUE,  ival |-> 2, startRunning |-> TRUE],
    [id |-> 3, dir |-> "up",   start |-> 1, end |-> -99, max |-> 3, restart |-> FALSE, ival |-> 1, startRunning |-> TRUE],
    [id |-> 4, dir |-> "up",   start |-> 0, end |-> 2,   max |-> 0, restart |-> TRUE,  ival |-> 1, startRunning |-> FALSE],
    [id |-> 5, dir |-> "down", start |-> 2, end |-> 0,   max |-> 0, restart |-> FALSE, ival |-> 1, startRunning |-> FALSE] }
=============================================================================
