------------------------------- MODULE Timers -------------------------------
(* Reference model of the `timers:` device (mpf/devices/timer.py) driven by a PeriodicTask, in   *)
(* abstract time units.  All transitions are functions on a state record so that the call chains *)
(* of the code (complete -> stop -> restart -> jump -> start ...) are transcribed one to one.     *)
(* `out` is the sequence of timer_<name>_* events (with their ticks argument) the step posts.    *)
(* Every F-operator takes the current time t as first argument.                                   *)
EXTENDS Integers, Sequences, TLC
CONSTANTS Configs,      \* set of records [id, dir, start, end, max, restart, ival, startRunning]
          NoEnd,        \* value of cfg.end meaning "no end value"
          MaxTime, MaxOps, Vals, Ivals, Pauses
VARIABLES cfg, now, s, alive, nops, act
\* s = [ticks, running, sys, ival, pauseAt, out]; sys = next tick time of the PeriodicTask (0: none)
vars == <<cfg, now, s, alive, nops, act>>

Emit(st, e) == [st EXCEPT !.out = Append(@, <<e, st.ticks>>)]
Done(st) == \/ cfg.dir = "up" /\ cfg.end # NoEnd /\ st.ticks >= cfg.end
            \/ cfg.dir = "down" /\ st.ticks <= cfg.end
Cap(v) == IF cfg.max > 0 /\ v > cfg.max THEN cfg.max ELSE v
StopF(st) == Emit([st EXCEPT !.running = FALSE, !.sys = 0, !.pauseAt = 0], "stopped")

RECURSIVE CompleteF(_, _), RestartF(_, _), JumpF(_, _, _), CheckDoneF(_, _), StartF(_, _), TickEventsF(_, _)
CheckDoneF(t, st) == IF Done(st) THEN CompleteF(t, st) ELSE st
TickEventsF(t, st) == IF Done(st) THEN CompleteF(t, st) ELSE Emit(st, "tick")
StartF(t, st) == IF st.running THEN st
                 ELSE IF Done(st) THEN CompleteF(t, st)
                 ELSE TickEventsF(t, Emit([st EXCEPT !.running = TRUE, !.pauseAt = 0, !.sys = t + st.ival], "started"))
JumpF(t, st, v) == CheckDoneF(t, [st EXCEPT !.ticks = Cap(v), !.sys = IF st.running THEN t + st.ival ELSE 0])
RestartF(t, st) == LET s1 == JumpF(t, st, cfg.start) IN IF ~s1.running THEN StartF(t, s1) ELSE TickEventsF(t, s1)
CompleteF(t, st) == LET s1 == Emit(StopF(st), "complete") IN IF cfg.restart THEN RestartF(t, s1) ELSE s1

PauseF(t, st, p) == Emit([st EXCEPT !.running = FALSE, !.sys = 0,
                                    !.pauseAt = IF p > 0 THEN t + p ELSE st.pauseAt], "paused")
AddF(t, st, k) == CheckDoneF(t, Emit([st EXCEPT !.ticks = Cap(st.ticks + k)], "time_added"))
SubF(t, st, k) == CheckDoneF(t, Emit([st EXCEPT !.ticks = st.ticks - k], "time_subtracted"))
SetIvalF(t, st, i) == [st EXCEPT !.ival = i, !.sys = IF st.running THEN t + i ELSE 0]
\* the periodic task fires: one tick in the configured direction, next tick exactly one interval later
TickFireF(t, st) == TickEventsF(t, [st EXCEPT !.ticks = IF cfg.dir = "down" THEN @ - 1 ELSE @ + 1, !.sys = @ + st.ival])
PauseEndF(t, st) == StartF(t, [st EXCEPT !.pauseAt = 0])
Fresh == [ticks |-> cfg.start, running |-> FALSE, sys |-> 0, ival |-> cfg.ival, pauseAt |-> 0, out |-> <<>>]
Clr(st) == [st EXCEPT !.out = <<>>]

Init == /\ cfg \in Configs /\ now = 0 /\ alive = FALSE /\ nops = 0 /\ act = [op |-> "init"] /\ s = Fresh

NothingDue == (s.running => s.sys > now) /\ (s.pauseAt # 0 => s.pauseAt > now)
Call(st2, a) == /\ alive /\ NothingDue /\ nops < MaxOps
                /\ s' = st2 /\ nops' = nops + 1 /\ act' = a /\ UNCHANGED <<cfg, now, alive>>
Start    == Call(StartF(now, Clr(s)), [op |-> "start"])
Stop     == Call(StopF(Clr(s)), [op |-> "stop"])
Pause(p) == Call(PauseF(now, Clr(s), p), [op |-> "pause", v |-> p])
Add(k)   == Call(AddF(now, Clr(s), k), [op |-> "add", v |-> k])
Sub(k)   == Call(SubF(now, Clr(s), k), [op |-> "subtract", v |-> k])
Jump(v)  == Call(JumpF(now, Clr(s), v), [op |-> "jump", v |-> v])
Reset    == Call(JumpF(now, Clr(s), cfg.start), [op |-> "reset"])
Restart  == Call(RestartF(now, Clr(s)), [op |-> "restart"])
SetIval(i) == Call(SetIvalF(now, Clr(s), i), [op |-> "set_interval", v |-> i])
\* the owning mode starts: the device is loaded with its start value and starts if configured
ModeStart == /\ ~alive /\ nops < MaxOps /\ alive' = TRUE /\ nops' = nops + 1
             /\ s' = (IF cfg.startRunning THEN StartF(now, Fresh) ELSE Fresh)
             /\ act' = [op |-> "mode_start"] /\ UNCHANGED <<cfg, now>>
\* the owning mode stops: the timer is stopped and can never tick again
ModeStop == /\ alive /\ NothingDue /\ nops < MaxOps /\ alive' = FALSE /\ nops' = nops + 1
            /\ s' = StopF(Clr(s)) /\ act' = [op |-> "mode_stop"] /\ UNCHANGED <<cfg, now>>
\* time advances by one unit; whatever becomes due at the new instant runs (tick or end of pause)
Adv == /\ NothingDue /\ now < MaxTime /\ now' = now + 1
       /\ s' = LET c == Clr(s) IN
               IF c.running /\ c.sys = now + 1 THEN TickFireF(now + 1, c)
               ELSE IF c.pauseAt = now + 1 THEN PauseEndF(now + 1, c)
               ELSE c
       /\ act' = [op |-> "adv"] /\ UNCHANGED <<cfg, alive, nops>>
Next == \/ Start \/ Stop \/ Reset \/ Restart \/ ModeStart \/ ModeStop \/ Adv
        \/ \E p \in Pauses : Pause(p)
        \/ \E k \in Vals : Add(k) \/ Sub(k) \/ Jump(k)
        \/ \E i \in Ivals : SetIval(i)
Spec == Init /\ [][Next]_vars

\* ---- the statement of C13 (timer half), declaratively, over single steps -------------------------
Evs(st) == {st.out[i][1] : i \in DOMAIN st.out}
NTick(st) == LET RECURSIVE cnt(_) cnt(i) == IF i = 0 THEN 0 ELSE cnt(i - 1) + (IF st.out[i][1] = "tick" THEN 1 ELSE 0)
             IN cnt(Len(st.out))
\* the count only moves by itself (an Adv step) while the timer is running, and then by exactly one
\* step in its direction (a completion with restart may then reset it)
TicksOnlyWhileRunning ==
    [][ (act'.op = "adv" /\ s'.ticks # s.ticks) => (s.running /\ s.sys = now') ]_vars
NeverTickWhenStopped ==
    [][ (act'.op = "adv" /\ ~s.running /\ ~(s.pauseAt = now')) => s' = Clr(s) ]_vars
\* no drift: while running undisturbed the next tick is always exactly one interval after the last
NoDrift == [][ (act'.op = "adv" /\ s.running /\ s'.running /\ "complete" \notin Evs(s'))
                 => (IF s.sys = now' THEN s'.sys = s.sys + s.ival ELSE s'.sys = s.sys) ]_vars
\* complete is posted exactly when the count is at/over its end value in that very step, and a
\* timer at rest is never left sitting on a completed count while running
CompleteIffAtEnd == s.running => ~Done(s)
RunningHasTimer == s.running <=> s.sys # 0
TypeOK == /\ now \in 0..MaxTime /\ s.running \in BOOLEAN /\ (s.running => s.sys > 0) /\ s.ival \in Ivals \cup {cfg.ival}
=============================================================================
