SPECIFICATION Spec
CONSTANTS
  NoEnd <- MCNoEnd
  Configs <- MCConfigs
  MaxTime = 6
  MaxOps = 5
  Vals = {1, 2, 5}
  Ivals = {1, 2}
  Pauses = {0, 1, 3}
INVARIANT TypeOK
INVARIANT CompleteIffAtEnd
INVARIANT RunningHasTimer
PROPERTY TicksOnlyWhileRunning
PROPERTY NeverTickWhenStopped
PROPERTY NoDrift
CHECK_DEADLOCK FALSE
