----------------------------- MODULE TimersTrace -----------------------------
(* Every recorded execution of a real `timers:` device must be a behaviour of Timers: each line  *)
(* names the call (or "adv" = one time unit elapsed) and carries the timer_* events posted by    *)
(* that step with their ticks argument, and the device's ticks / running attributes afterwards.  *)
EXTENDS Timers, TraceIO
VARIABLES tid, l
tvars == <<vars, tid, l>>
Ev == TraceLines[tid].ev
TInit == /\ tid \in 1..Len(TraceLines) /\ l = 1
         /\ cfg = TraceLines[tid].cfg /\ now = 0 /\ alive = FALSE /\ nops = 0 /\ act = [op |-> "init"]
         /\ s = [ticks |-> TraceLines[tid].cfg.start, running |-> FALSE, sys |-> 0, ival |-> TraceLines[tid].cfg.ival,
                 pauseAt |-> 0, out |-> <<>>]
\* only what the statement speaks about is compared: tick and complete events (with the count they
\* carry), the count itself and whether the timer is running
Rel(q) == SelectSeq(q, LAMBDA x : x[1] \in {"tick", "complete"})
Obs(e) == /\ Rel(s'.out) = Rel(e.out) /\ (alive' => s'.ticks = e.ticks) /\ s'.running = e.running
Step(e) ==
    /\ \/ e.op = "start" /\ Start
       \/ e.op = "stop" /\ Stop
       \/ e.op = "pause" /\ Pause(e.v)
       \/ e.op = "add" /\ Add(e.v)
       \/ e.op = "subtract" /\ Sub(e.v)
       \/ e.op = "jump" /\ Jump(e.v)
       \/ e.op = "reset" /\ Reset
       \/ e.op = "restart" /\ Restart
       \/ e.op = "set_interval" /\ SetIval(e.v)
       \/ e.op = "mode_start" /\ ModeStart
       \/ e.op = "mode_stop" /\ ModeStop
       \/ e.op = "adv" /\ Adv
    /\ Obs(e)
TNext == l <= Len(Ev) /\ Step(Ev[l]) /\ l' = l + 1 /\ UNCHANGED tid
TNoEnd == -99
TConfigs == {}
TSpec == TInit /\ [][TNext]_tvars
Reporter == TraceReport(tid, l, Len(Ev))
=============================================================================
