SPECIFICATION TSpec
CONSTANTS
  NoEnd <- TNoEnd
  Configs <- TConfigs
  MaxTime = 1000000
  MaxOps = 1000000
  Vals = {}
  Ivals = {}
  Pauses = {}
INVARIANT Reporter
PROPERTY TicksOnlyWhileRunning
PROPERTY NeverTickWhenStopped
PROPERTY NoDrift
CHECK_DEADLOCK FALSE
