------------------------------- MODULE HwRules -------------------------------
(* Reference model for C10: the switch-to-coil rules on a platform are exactly those of the enabled     *)
(* flippers, autofire coils and kickbacks (mpf/devices/flipper.py, autofire.py, kickback.py,            *)
(* core/platform_controller.py), across the game lifecycle that carries the default enable / disable    *)
(* events (ball_started; ball_will_end, service_mode_entered; tilt -> end of ball; game end).           *)
(*                                                                                                      *)
(* One action per request the real code receives.  Device state is one record `s` so that lifecycle     *)
(* steps that run several handlers (ball_started -> enable all; ball_will_end -> disable all) are plain *)
(* function composition.  Time is in abstract units (driver: 1 unit = 100 ms).                          *)
(*                                                                                                      *)
(* Deviations (code as is, see drivers/c10.py):                                                         *)
(*   "RepulseLeftOn"   Flipper.disable() switches coils off only when the flipper was sw_flip()ed: a    *)
(*                     coil energised by the software EOS repulse stays energised after disable.        *)
(*   "TiltCarriesOver" a tilt while ball_ending is held is not cleared when that ball has ended: the    *)
(*                     next ball is started, devices are enabled, with game.tilted still set.           *)
EXTENDS Integers, Sequences, FiniteSets, TLC
CONSTANTS Dev,          \* device table: id -> [id, kind, dual, eos, rep, eosl, tmo, delay, btn, eosw, main, hold, auto, swap]
                        \* (eosl: eos_active_ms_before_repulse of a software-repulse flipper, in time units)
          Configs,      \* records [active: devices that receive explicit requests, holdS, holdE: queue events held]
          BPG,          \* balls per game
          ReEnable, SearchHold, MaxHits,
          MaxOps, MaxTime, MaxGames, Deviations
VARIABLES cfg, phase, ball, tflag, pendEnd, collect, snap, last, s, btn, eos, eosAt, now, nops, games, act
vars == <<cfg, phase, ball, tflag, pendEnd, collect, snap, last, s, btn, eos, eosAt, now, nops, games, act>>

Devices == DOMAIN Dev
Flippers == {d \in Devices : Dev[d].kind = "flipper"}
Autos == Devices \ Flippers                              \* autofire coils and kickbacks
FlipAuto == {d \in Devices : Dev[d].kind \in {"flipper", "autofire"}}
Reps == {d \in Flippers : Dev[d].rep}                    \* EOS repulse emulated in software (switch handlers)
EosLong(r) == Dev[r].eosl                                \* how long the EOS switch must have been closed before an opening is a knock-down
TmoDevs == {d \in Autos : Dev[d].tmo}
FCoilsOf(f) == {Dev[f].main} \cup (IF Dev[f].dual THEN {Dev[f].hold} ELSE {})
FCoils == UNION {FCoilsOf(f) : f \in Flippers}
HeldCoil(f) == IF Dev[f].dual THEN Dev[f].hold ELSE Dev[f].main     \* the coil sw_flip leaves energised
EosSw == {Dev[f].eosw : f \in {x \in Flippers : Dev[x].eos}}
DefaultEn == {d \in FlipAuto : Dev[d].auto}    \* enable_events default: ball_started (kickbacks have none; nor has the
                                                \* second of two flippers that share button and coil, e.g. normal/novice)
\* ---- the A..I table of flipper.py, and autofire.py ------------------------------------------------------------
KPER == "pulse_on_hit_and_enable_and_release"
Rules(d) == LET v == Dev[d] IN
    IF v.btn = "" THEN {}      \* a flipper without activation switch (driven by sw_flip events only) has no rules
    ELSE IF v.kind = "flipper"
    THEN (IF v.eos
          THEN (IF v.dual THEN {<<v.btn, v.main, "pulse_on_hit_and_release_and_disable">>,
                                <<v.eosw, v.main, "pulse_on_hit_and_release_and_disable">>}
                ELSE {<<v.btn, v.main, "pulse_on_hit_and_enable_and_release_and_disable">>,
                      <<v.eosw, v.main, "pulse_on_hit_and_enable_and_release_and_disable">>})
          ELSE IF v.dual THEN {<<v.btn, v.main, "pulse_on_hit_and_release">>} ELSE {<<v.btn, v.main, KPER>>})
         \cup (IF v.dual THEN {<<v.btn, v.hold, KPER>>} ELSE {})
    ELSE {<<v.btn, v.main, IF v.delay THEN "delayed_pulse_on_hit" ELSE "pulse_on_hit">>}
Keys(R) == {<<r[1], r[2]>> : r \in R}

InPlay == phase = "ballLive" /\ ~tflag

InitWith(c) ==
    /\ cfg = c /\ phase = "noGame" /\ ball = 0 /\ tflag = FALSE /\ pendEnd = FALSE /\ collect = FALSE /\ snap = FALSE
    /\ last = FALSE
    /\ s = [en |-> [d \in Devices |-> FALSE], man |-> [d \in Devices |-> FALSE],
            flip |-> [f \in Flippers |-> FALSE], on |-> [k \in FCoils |-> FALSE],
            reAt |-> [a \in Autos |-> 0], hits |-> [a \in Autos |-> 0], srAt |-> [f \in Flippers |-> 0],
            rules |-> {}, mgr |-> {}, hBtn |-> [r \in Reps |-> FALSE], hLong |-> [r \in Reps |-> FALSE],
            longAt |-> [r \in Reps |-> 0], calls |-> {}, pulsed |-> {}, viol |-> FALSE]
    /\ btn = [r \in Reps |-> FALSE] /\ eos = [r \in Reps |-> FALSE] /\ eosAt = [r \in Reps |-> 0]
    /\ now = 0 /\ nops = 0 /\ games = 0 /\ act = [op |-> "init"]
Init == \E c \in Configs : InitWith(c)

\* ---- device operations (functions on the device-state record) -------------------------------------------------
\* enable(): idempotent; installs each rule of the variant once; a software EOS manager starts with fresh flags and
\* only catches an EOS closure that is still shorter than the debounce time
DoEnable(st, S, t) ==
    LET N == {d \in S : ~st.en[d]}
        R == UNION {Rules(d) : d \in N}
    IN [st EXCEPT !.en = [d \in Devices |-> st.en[d] \/ d \in N],
                  !.rules = st.rules \cup R,
                  !.viol = st.viol \/ (Keys(R) \cap Keys(st.rules) # {}),
                  !.calls = st.calls \cup {<<"set", r[1], r[2], r[3]>> : r \in R},
                  !.mgr = st.mgr \cup (N \cap Reps),
                  !.hBtn = [r \in Reps |-> IF r \in N THEN FALSE ELSE st.hBtn[r]],
                  !.hLong = [r \in Reps |-> IF r \in N THEN FALSE ELSE st.hLong[r]],
                  !.longAt = [r \in Reps |-> IF r \in N THEN (IF eos[r] /\ eosAt[r] + EosLong(r) > t THEN eosAt[r] + EosLong(r) ELSE 0)
                                             ELSE st.longAt[r]]]
\* disable(): idempotent; removes all rules, their handlers, a pending re-enable timer (even when not enabled) and
\* leaves no coil of the flipper energised
DoDisable(st, S) ==
    LET N == {d \in S : st.en[d]}
        R == UNION {Rules(d) : d \in N}
        off == UNION {FCoilsOf(f) : f \in {x \in N \cap Flippers : st.flip[x] \/ "RepulseLeftOn" \notin Deviations}}
    IN [st EXCEPT !.en = [d \in Devices |-> st.en[d] /\ d \notin N],
                  !.man = [d \in Devices |-> st.man[d] /\ d \notin S],
                  !.rules = st.rules \ R,
                  !.viol = st.viol \/ ~(R \subseteq st.rules),
                  !.calls = st.calls \cup {<<"clear", r[1], r[2], "">> : r \in R},
                  !.mgr = st.mgr \ N,
                  !.longAt = [r \in Reps |-> IF r \in N THEN 0 ELSE st.longAt[r]],
                  !.flip = [f \in Flippers |-> st.flip[f] /\ f \notin N],
                  !.on = [c \in FCoils |-> st.on[c] /\ c \notin off],
                  !.reAt = [a \in Autos |-> IF a \in S THEN 0 ELSE st.reAt[a]]]
\* timeout protection: too many hits inside the watch window remove the rule for a while (the request stays)
TimeoutDisable(st, d) == [DoDisable(st, {d}) EXCEPT !.man = st.man, !.reAt[d] = now + ReEnable]
Hit1(st, d) == IF ~st.en[d] \/ ~Dev[d].tmo THEN st
               ELSE LET st1 == [st EXCEPT !.hits[d] = IF @ < MaxHits THEN @ + 1 ELSE @] IN
                    IF st1.hits[d] >= MaxHits THEN TimeoutDisable(st1, d) ELSE st1
\* sw_flip(): the coil that holds is enabled; with two coils the main coil is pulsed by software
FlipEff(st, f) == IF ~st.en[f] THEN st
                  ELSE [st EXCEPT !.flip[f] = TRUE, !.on = [c \in FCoils |-> st.on[c] \/ c = HeldCoil(f)],
                                  !.pulsed = IF Dev[f].dual THEN @ \cup {Dev[f].main} ELSE @]
ReleaseSet(st, F) == [st EXCEPT !.flip = [f \in Flippers |-> st.flip[f] /\ f \notin F],
                                !.on = [c \in FCoils |-> st.on[c] /\ c \notin UNION {FCoilsOf(f) : f \in F}]]
\* calls / pulsed: what reached the platform in the current step only
S0 == [s EXCEPT !.calls = {}, !.pulsed = {}]

\* ---- explicit requests (control events or direct calls), at any time ------------------------------------------
Req == nops < MaxOps /\ nops' = nops + 1
Same == UNCHANGED <<cfg, phase, ball, tflag, pendEnd, collect, snap, last, btn, eos, eosAt, now, games>>
\* (flippers that share button and coil are only ever switched by their swap event: enabling both is a config error)
Enable(d) == /\ d \in cfg.active /\ Dev[d].swap = "" /\ Req /\ Same
             /\ s' = [DoEnable(S0, {d}, now) EXCEPT !.man[d] = IF InPlay THEN @ ELSE TRUE]
             /\ act' = [op |-> "enable", d |-> d]
Disable(d) == /\ d \in cfg.active /\ Req /\ Same /\ s' = DoDisable(S0, {d}) /\ act' = [op |-> "disable", d |-> d]
\* one event that is a disable event of a and an enable event of b (a, b share button and coil): disable runs first
Swap(a, b) == /\ a \in cfg.active /\ b \in cfg.active /\ Dev[a].swap = b /\ phase = "ballLive" /\ s.en[a] /\ Req /\ Same
              /\ s' = DoEnable(DoDisable(S0, {a}), {b}, now)
              /\ act' = [op |-> "swap", a |-> a, b |-> b]
SwFlip(f) == /\ f \in cfg.active \cap Flippers /\ Req /\ Same /\ s' = FlipEff(S0, f) /\ act' = [op |-> "flip", d |-> f]
SwRelease(f) == /\ f \in cfg.active \cap Flippers /\ Req /\ Same /\ s' = ReleaseSet(S0, {f}) /\ act' = [op |-> "release", d |-> f]
\* the ball search callback of a device: a flipper flips and releases after its hold time (the timer restarts),
\* an autofire coil is just pulsed
BallSearch(d) == /\ d \in cfg.active /\ Req /\ Same /\ act' = [op |-> "search", d |-> d]
                 /\ s' = IF d \in Flippers THEN [FlipEff(S0, d) EXCEPT !.srAt[d] = now + SearchHold] ELSE S0
\* n activations of the autofire switch at this instant
Hit(d, n) == /\ d \in cfg.active \cap Autos /\ n \in 1..2 /\ Req /\ Same /\ act' = [op |-> "hit", d |-> d, n |-> n]
             /\ s' = IF n = 1 THEN Hit1(S0, d) ELSE Hit1(Hit1(S0, d), d)
\* cabinet button / EOS switch of a flipper whose EOS repulse is emulated by switch handlers
SameSw == UNCHANGED <<cfg, phase, ball, tflag, pendEnd, collect, snap, last, now, games>>
BtnPress(r) == /\ r \in cfg.active \cap Reps /\ ~btn[r] /\ Req /\ SameSw /\ UNCHANGED <<eos, eosAt>>
               /\ btn' = [btn EXCEPT ![r] = TRUE] /\ act' = [op |-> "btn", d |-> r, st |-> 1]
               /\ s' = IF r \in s.mgr THEN [S0 EXCEPT !.hBtn[r] = TRUE] ELSE S0
BtnRelease(r) == /\ r \in cfg.active \cap Reps /\ btn[r] /\ Req /\ SameSw /\ UNCHANGED <<eos, eosAt>>
                 /\ btn' = [btn EXCEPT ![r] = FALSE] /\ act' = [op |-> "btn", d |-> r, st |-> 0]
                 /\ s' = IF r \in s.mgr THEN [S0 EXCEPT !.hBtn[r] = FALSE, !.on[Dev[r].main] = FALSE] ELSE S0
EosClose(r) == /\ r \in cfg.active \cap Reps /\ ~eos[r] /\ Req /\ SameSw /\ UNCHANGED btn
               /\ eos' = [eos EXCEPT ![r] = TRUE] /\ eosAt' = [eosAt EXCEPT ![r] = now]
               /\ act' = [op |-> "eos", d |-> r, st |-> 1]
               /\ s' = IF r \in s.mgr THEN [S0 EXCEPT !.longAt[r] = now + EosLong(r)] ELSE S0
EosOpen(r) == /\ r \in cfg.active \cap Reps /\ eos[r] /\ Req /\ SameSw /\ UNCHANGED <<btn, eosAt>>
              /\ eos' = [eos EXCEPT ![r] = FALSE] /\ act' = [op |-> "eos", d |-> r, st |-> 0]
              /\ s' = IF r \in s.mgr /\ s.hBtn[r] /\ s.hLong[r]
                      THEN [S0 EXCEPT !.longAt[r] = 0, !.hLong[r] = FALSE,      \* repulse: one coil: hold again; two: pulse
                                      !.on[Dev[r].main] = IF Dev[r].dual THEN @ ELSE TRUE,
                                      !.pulsed = IF Dev[r].dual THEN {Dev[r].main} ELSE {}]
                      ELSE [S0 EXCEPT !.longAt[r] = 0]
\* one unit of time: hit windows run out; due timers fire (ball search release, EOS debounce, autofire re-enable)
Adv == /\ now < MaxTime /\ now' = now + 1
       /\ UNCHANGED <<cfg, phase, ball, tflag, pendEnd, collect, snap, last, btn, eos, eosAt, nops, games>>
       /\ LET SR == {f \in Flippers : s.srAt[f] = now'}
              LG == {r \in Reps : s.longAt[r] = now'}
              RE == {a \in Autos : s.reAt[a] = now'}
              st1 == [S0 EXCEPT !.hits = [a \in Autos |-> 0],
                                !.srAt = [f \in Flippers |-> IF f \in SR THEN 0 ELSE @[f]],
                                !.hLong = [r \in Reps |-> @[r] \/ r \in LG],
                                !.longAt = [r \in Reps |-> IF r \in LG THEN 0 ELSE @[r]],
                                !.reAt = [a \in Autos |-> IF a \in RE THEN 0 ELSE @[a]]]
          IN s' = DoEnable(ReleaseSet(st1, SR), RE, now')
       /\ act' = [op |-> "adv"]

\* ---- game lifecycle ------------------------------------------------------------------------------------------
\* Queue events run their handlers one after the other in priority order over a snapshot of the handler list: a hold
\* of ball_ending by a mode (cfg.holdE, driver priority 50) comes before the tilt mode's own ball_ending handler
\* (priority -1), which exists only if the tilt happened before ball_ending was posted (`snap`).
\* tflag: game.tilted;  pendEnd: the ball was ended (tilt) while ball_starting was held;  collect: the tilt mode waits
\* for the balls on the playfield.
GameEnds(lst) == lst \/ ball = BPG
\* ball_starting (held when cfg.holdS) then ball_started
BeginBall(st) == IF cfg.holdS THEN phase' = "ballStarting" /\ s' = st
                 ELSE phase' = "ballLive" /\ s' = DoEnable(st, DefaultEn, now)
\* ball_ended: next ball, or the game ends
AfterBall(st, lst) == IF GameEnds(lst) THEN phase' = "noGame" /\ s' = st /\ ball' = 0 /\ last' = FALSE
                      ELSE ball' = ball + 1 /\ last' = FALSE /\ BeginBall(st)
LSame == UNCHANGED <<cfg, btn, eos, eosAt, now, nops>>
StartGame == /\ phase = "noGame" /\ games < MaxGames /\ games' = games + 1 /\ LSame
             /\ ball' = 1 /\ tflag' = FALSE /\ pendEnd' = FALSE /\ collect' = FALSE /\ snap' = FALSE /\ last' = FALSE
             /\ BeginBall(S0) /\ act' = [op |-> "start"]
\* ball_will_end has been handled (st); ball_ending is posted
EndBall(st, lst) ==
    IF cfg.holdE THEN phase' = "ballEnding" /\ s' = st /\ last' = lst /\ snap' = tflag /\ UNCHANGED <<ball, tflag>>
    ELSE tflag' = FALSE /\ snap' = FALSE /\ AfterBall(st, lst)        \* a tilt handler, if any, finds nothing to collect
\* ball_started enables; a tilt that arrived while ball_starting was held ends the ball right away
ReleaseStart == /\ phase = "ballStarting" /\ LSame /\ UNCHANGED <<games, collect>> /\ act' = [op |-> "relstart"]
                /\ LET st1 == DoEnable(S0, DefaultEn, now) IN
                   IF pendEnd THEN pendEnd' = FALSE /\ EndBall(DoDisable(st1, Devices), last)
                   ELSE phase' = "ballLive" /\ s' = st1 /\ UNCHANGED <<ball, tflag, last, pendEnd, snap>>
Drain == /\ phase = "ballLive" /\ LSame /\ UNCHANGED <<games, pendEnd, collect>> /\ act' = [op |-> "drain"]
         /\ EndBall(DoDisable(S0, Devices), last)
EndGame == /\ phase = "ballLive" /\ LSame /\ UNCHANGED <<games, pendEnd, collect>> /\ act' = [op |-> "endgame"]
           /\ EndBall(DoDisable(S0, Devices), TRUE)
\* the hold of ball_ending is released: the tilt mode's handler (if in the snapshot) runs, then the ball has ended
ReleaseEnd == /\ phase = "ballEnding" /\ LSame /\ UNCHANGED <<games, pendEnd, collect>> /\ act' = [op |-> "relend"]
              /\ IF tflag /\ collect
                 THEN phase' = "tilted" /\ s' = S0 /\ UNCHANGED <<ball, last, tflag, snap>>
                 ELSE /\ tflag' = (tflag /\ ~snap /\ "TiltCarriesOver" \in Deviations /\ ~GameEnds(last))
                      /\ snap' = FALSE /\ AfterBall(S0, last)
\* the tilt switch.  With a ball in play: devices are disabled at once and the ball ends when the balls are collected;
\* while the ball is starting: it ends as soon as it has started; while it is ending: nothing left to disable.
\* (not offered while the last ball is ending: a tilt-mode handler would be left behind for the next game)
Tilt == /\ Req /\ UNCHANGED <<cfg, btn, eos, eosAt, now, games, ball, last>> /\ act' = [op |-> "tilt"]
        /\ ~(phase = "ballEnding" /\ GameEnds(last))
        /\ IF phase = "ballLive" /\ ~tflag
           THEN /\ tflag' = TRUE /\ collect' = TRUE /\ s' = DoDisable(S0, Devices) /\ UNCHANGED pendEnd
                /\ IF cfg.holdE THEN phase' = "ballEnding" /\ snap' = TRUE ELSE phase' = "tilted" /\ UNCHANGED snap
           ELSE IF phase = "ballStarting" /\ ~tflag
           THEN tflag' = TRUE /\ pendEnd' = TRUE /\ s' = S0 /\ UNCHANGED <<phase, collect, snap>>
           ELSE IF phase = "ballEnding" /\ ~tflag
           THEN tflag' = TRUE /\ s' = S0 /\ UNCHANGED <<phase, pendEnd, collect, snap>>
           ELSE s' = S0 /\ UNCHANGED <<phase, pendEnd, tflag, collect, snap>>
\* the tilted balls have drained
TiltDrain == /\ collect /\ phase \in {"ballEnding", "tilted"} /\ LSame /\ UNCHANGED <<games, pendEnd>>
             /\ act' = [op |-> "tiltdrain"] /\ collect' = FALSE /\ tflag' = FALSE
             /\ IF phase = "tilted" THEN snap' = FALSE /\ AfterBall(S0, last)
                ELSE s' = S0 /\ UNCHANGED <<phase, ball, last, snap>>
\* service mode stops the game and posts service_mode_entered (no further game in this run, see driver)
ServiceEnter == /\ phase \notin {"service", "tilted"} /\ ~collect /\ LSame /\ act' = [op |-> "service"]
                /\ phase' = "service" /\ s' = DoDisable(S0, Devices) /\ tflag' = FALSE /\ pendEnd' = FALSE
                /\ collect' = FALSE /\ snap' = FALSE /\ last' = FALSE /\ ball' = 0 /\ games' = MaxGames
ServiceExit == /\ phase = "service" /\ LSame /\ UNCHANGED <<games, ball, tflag, pendEnd, collect, snap, last>>
               /\ phase' = "noGame" /\ s' = S0 /\ act' = [op |-> "svcexit"]

Next == \/ \E d \in Devices : Enable(d) \/ Disable(d) \/ BallSearch(d) \/ SwFlip(d) \/ SwRelease(d)
                              \/ BtnPress(d) \/ BtnRelease(d) \/ EosClose(d) \/ EosOpen(d) \/ \E n \in 1..2 : Hit(d, n)
        \/ \E a \in {d \in Devices : Dev[d].swap # ""} : Swap(a, Dev[a].swap)
        \/ Adv \/ StartGame \/ ReleaseStart \/ Drain \/ EndGame \/ ReleaseEnd \/ Tilt \/ TiltDrain
        \/ ServiceEnter \/ ServiceExit
Spec == Init /\ [][Next]_vars

\* ---- statement of C10 ------------------------------------------------------------------------------------------
\* the platform table is exactly the rules of the enabled devices
RulesExact == s.rules = UNION {Rules(d) : d \in {x \in Devices : s.en[x]}}
\* no set_*_rule on an occupied (switch, coil), no clear of an absent one
InstallOnce == ~s.viol
\* switch handlers that belong to a rule (software EOS repulse) exist iff the rule exists
HandlersExact == s.mgr = {r \in Reps : s.en[r]}
\* ball ended / tilted / service / no game: nothing is enabled except by an explicit request made since
SafeWhenNotInPlay == ~InPlay => \A d \in FlipAuto : s.en[d] => s.man[d]
\* no flipper coil is left energised once its flipper is disabled
NoCoilLeftOn == \A f \in Flippers : ~s.en[f] => \A c \in FCoilsOf(f) : s.on[c] => \E g \in Flippers : s.en[g] /\ c \in FCoilsOf(g)
\* nothing of the software EOS repulse survives the disable: no switch handler, no pending "closed long enough" timer
NoSoftDriveLeft == \A r \in Reps : ~s.en[r] => (r \notin s.mgr /\ s.longAt[r] = 0)
\* the cabinet button and the EOS switch of a disabled flipper are dead: whatever the history of presses, closures,
\* repulses and time before the disable, they neither energise nor release a coil nor bring the flipper back
ButtonDead == [][\A r \in Reps : (act'.op \in {"btn", "eos"} /\ act'.d = r /\ ~s.en[r])
                                   => (s'.on = s.on /\ s'.pulsed = {} /\ ~s'.en[r])]_vars
\* time alone never energises a flipper coil (timers only release: ball search; the EOS timer only arms the repulse)
TimeNeverEnergises == [][act'.op = "adv" => (s'.pulsed = {} /\ \A c \in FCoils : s'.on[c] => s.on[c])]_vars
\* software never pulses a coil of a flipper that is disabled
NoPulseWhenDisabled == \A c \in s.pulsed : \E f \in Flippers : s.en[f] /\ c \in FCoilsOf(f)
\* a pending timeout re-enable exists only where re-enabling would be legitimate
NoStrayReenable == \A a \in Autos : s.reAt[a] # 0 => (InPlay \/ s.man[a])
TypeOK == /\ phase \in {"noGame", "ballStarting", "ballLive", "ballEnding", "tilted", "service"}
          /\ ball \in 0..BPG /\ tflag \in BOOLEAN /\ pendEnd \in BOOLEAN /\ last \in BOOLEAN
          /\ collect \in BOOLEAN /\ snap \in BOOLEAN
          /\ (phase \in {"noGame", "service"} => ~tflag /\ ~pendEnd /\ ~collect)
          /\ (phase = "tilted" => tflag /\ collect) /\ (collect => tflag /\ phase \in {"ballEnding", "tilted"})
          /\ \A r \in Reps : s.longAt[r] # 0 => (r \in s.mgr /\ eos[r])
=============================================================================
