---------------------------- MODULE HwRulesTrace ----------------------------
(* One line per step the driver performed on the real machine (explicit request, switch change, one unit of    *)
(* time, lifecycle step), with what was observed at the platform interface after the loop had run:              *)
(*   en     device._enabled of every device                                                                     *)
(*   rules  the platform's rule table as [switch, coil, kind]                                                   *)
(*   calls  every set_*_rule / clear_hw_rule that reached the platform in this step, per table key, with        *)
(*          ok = the key was free (set) / present (clear) just before the call                                  *)
(*   on     coils whose last software command was enable (RecDriver)                                            *)
(*   pulsed flipper coils that software pulsed in this step (sw_flip of a two-coil flipper, software EOS repulse)   *)
(*   mgr    flippers with live software-EOS-repulse switch handlers (mgrok: each has exactly its 4 handlers)    *)
(*   psu    (switch, coil) of the registered PSU-notification switch handlers                                   *)
(*   game / ball / tilted   machine.game, player.ball, game.tilted                                              *)
EXTENDS HwRules, TraceIO
VARIABLES tid, l
tvars == <<vars, tid, l>>
TL == TraceLines[tid].ev
TInit == /\ tid \in 1..Len(TraceLines) /\ l = 1
         /\ LET c == TraceLines[tid].cfg IN InitWith([active |-> SeqToSet(c.active), holdS |-> c.holdS, holdE |-> c.holdE])
Obs(e) ==
    /\ \A d \in Devices : s'.en[d] = e.en[d]
    /\ s'.rules = SeqToSet(e.rules)
    \* InstallOnce as observed: every call hit a free / present key, and the calls are those of the model, once each
    /\ \A i \in DOMAIN e.calls : e.calls[i].ok
    /\ s'.calls = {<<c.op, c.sw, c.coil, c.kind>> : c \in SeqToSet(e.calls)} /\ Len(e.calls) = Cardinality(s'.calls)
    /\ {c \in FCoils : s'.on[c]} = SeqToSet(e.on)
    /\ s'.pulsed = SeqToSet(e.pulsed)
    /\ s'.mgr = SeqToSet(e.mgr) /\ e.mgrok
    /\ SeqToSet(e.psu) = {<<r[1], r[2]>> : r \in {x \in s'.rules : x[1] \notin EosSw}} /\ Len(e.psu) = Cardinality(SeqToSet(e.psu))
    /\ e.tilted = tflag' /\ e.game = (phase' \notin {"noGame", "service"}) /\ (e.game => e.ball = ball')
Step(e) ==
    /\ \/ e.op = "enable" /\ Enable(e.d)
       \/ e.op = "disable" /\ Disable(e.d)
       \/ e.op = "swap" /\ Swap(e.a, e.b)
       \/ e.op = "flip" /\ SwFlip(e.d)
       \/ e.op = "release" /\ SwRelease(e.d)
       \/ e.op = "search" /\ BallSearch(e.d)
       \/ e.op = "hit" /\ Hit(e.d, e.n)
       \/ e.op = "btn" /\ e.st = 1 /\ BtnPress(e.d)
       \/ e.op = "btn" /\ e.st = 0 /\ BtnRelease(e.d)
       \/ e.op = "eos" /\ e.st = 1 /\ EosClose(e.d)
       \/ e.op = "eos" /\ e.st = 0 /\ EosOpen(e.d)
       \/ e.op = "adv" /\ Adv
       \/ e.op = "start" /\ StartGame
       \/ e.op = "relstart" /\ ReleaseStart
       \/ e.op = "drain" /\ Drain
       \/ e.op = "endgame" /\ EndGame
       \/ e.op = "relend" /\ ReleaseEnd
       \/ e.op = "tilt" /\ Tilt
       \/ e.op = "tiltdrain" /\ TiltDrain
       \/ e.op = "service" /\ ServiceEnter
       \/ e.op = "svcexit" /\ ServiceExit
    /\ Obs(e)
TNext == l <= Len(TL) /\ Step(TL[l]) /\ l' = l + 1 /\ UNCHANGED tid
TSpec == TInit /\ [][TNext]_tvars
Reporter == TraceReport(tid, l, Len(TL))
=============================================================================
