------------------------------ MODULE MachineVars ------------------------------
(* Reference model of mpf.core.machine_vars.MachineVariables as far as persistence is concerned:   *)
(* the persisted subset is handed to the data manager (save_all) whenever a persistent variable    *)
(* changes or has an expiry to refresh; at boot the stored variables are loaded unless their       *)
(* expiry time has passed.  Every variable name has a fixed policy (persist, expire seconds).      *)
(* Two kinds of variables:                                                                         *)
(*  - created by code at run time (declared = FALSE): the owner applies the policy with            *)
(*    configure_machine_var() before each set_machine_var(), as credits, game, settings and        *)
(*    service code do; the variable does not exist until it is set or loaded;                      *)
(*  - DECLARED IN THE CONFIG (declared = TRUE; `machine_vars:` section with initial_value,          *)
(*    value_type, persist - like master_volume in mpfconfig.yaml): the variable exists from every  *)
(*    boot on; it starts from the value that was persisted and from the configured initial value   *)
(*    (value id `init`) only when nothing was persisted; code sets it with a bare                  *)
(*    set_machine_var(); the config section has no expiry (expire = 0).                            *)
(*    `pdefault`: the config does not spell out `persist:` (the documented default, true, applies). *)
(* Time is the wall clock in abstract units.                                                       *)
(* Deviations: named behaviours of the code as it is that are NOT part of the design (the          *)
(* properties below are checked with Deviations = {}; a recorded execution that only a deviation   *)
(* explains is reported under the name of that deviation):                                         *)
(*  "DefaultPersistLostOnReload": _load_initial_machine_vars re-applies the persist flag of a      *)
(*    declared variable that was loaded from disk from the RAW config element (`element.get(       *)
(*    'persist', False)`), so a variable that is persistent by default is not persistent any more  *)
(*    after the first boot that loaded it.                                                         *)
EXTENDS Integers, FiniteSets, TLC
CONSTANTS Configs,     \* set of policies: [name -> [persist: BOOLEAN, expire: Nat (0 = no expiry),
                       \*                            declared: BOOLEAN, init: value id, pdefault: BOOLEAN]]
          Deviations,
          Vals,        \* value ids
          Advs, Downs, \* possible clock advances / power-off durations
          MaxTime, MaxOps
VARIABLES cfg,         \* the policy in force
          mv,          \* [name -> [present, v, timeout, pers]]  MachineVariables.machine_vars (timeout 0 = None,
                       \*                                   pers = the variable's persist flag)
          disk,        \* [name -> [present, v, expire]]   what the data manager was last handed
          now, nops, act
vars == <<cfg, mv, disk, now, nops, act>>
Names == DOMAIN cfg
Absent == [present |-> FALSE, v |-> 0, timeout |-> 0, pers |-> FALSE]
NoDisk == [present |-> FALSE, v |-> 0, expire |-> 0]
\* _load_initial_machine_vars: a declared variable that was not loaded starts from its initial value
Fresh(k) == IF cfg[k].declared THEN [present |-> TRUE, v |-> cfg[k].init, timeout |-> 0, pers |-> cfg[k].persist]
            ELSE Absent
\* a variable that was loaded from the store: set with persist=True; then the config's flag for a declared one
Loaded(k, v) == [present |-> TRUE, v |-> v, timeout |-> 0,
                 pers |-> IF ~cfg[k].declared THEN TRUE
                          ELSE IF "DefaultPersistLostOnReload" \in Deviations /\ cfg[k].pdefault THEN FALSE
                          ELSE cfg[k].persist]
Snapshot(m) == [k \in Names |-> IF m[k].pers /\ m[k].present
                                THEN [present |-> TRUE, v |-> m[k].v, expire |-> m[k].timeout] ELSE NoDisk]
Init == /\ cfg \in Configs /\ mv = [k \in Names |-> Fresh(k)] /\ disk = [k \in Names |-> NoDisk]
        /\ now = 0 /\ nops = 0 /\ act = [op |-> "init"]
\* [configure_machine_var(n, persist, expire_secs) followed by] set_machine_var(n, v)
Set(n, v) ==
    /\ nops < MaxOps /\ nops' = nops + 1
    /\ LET p == cfg[n]
           to == IF p.expire > 0 THEN now + p.expire ELSE 0
           changed == ~mv[n].present \/ mv[n].v # v
           pers == IF p.declared THEN mv[n].pers ELSE p.persist
           m2 == [mv EXCEPT ![n] = [present |-> TRUE, v |-> v, timeout |-> to, pers |-> pers]]
       IN /\ mv' = m2
          /\ disk' = IF pers /\ (changed \/ p.expire > 0) THEN Snapshot(m2) ELSE disk
    /\ act' = [op |-> "set", n |-> n, v |-> v, persist |-> cfg[n].persist, expire |-> cfg[n].expire,
               declared |-> cfg[n].declared]
    /\ UNCHANGED <<cfg, now>>
Adv(d) == /\ nops < MaxOps /\ nops' = nops + 1 /\ now + d <= MaxTime /\ now' = now + d
          /\ act' = [op |-> "adv", d |-> d] /\ UNCHANGED <<cfg, mv, disk>>
\* power off for `down` units, then boot: load_machine_vars with the expiry check; every loaded variable is set
\* again with persist=True (and without expiry until its owner configures it again), which rewrites the store with
\* the loaded variables; after that the declared variables that were not loaded get their initial value (which is
\* not handed to the data manager before the next write)
Reboot(down) ==
    /\ nops < MaxOps /\ nops' = nops + 1 /\ now + down <= MaxTime /\ now' = now + down
    /\ LET ok(k) == disk[k].present /\ ~(disk[k].expire > 0 /\ disk[k].expire < now + down)
           m2 == [k \in Names |-> IF ok(k) THEN Loaded(k, disk[k].v) ELSE Fresh(k)]
       IN /\ mv' = m2
          /\ disk' = IF \E k \in Names : ok(k)
                     THEN [k \in Names |-> IF ok(k) THEN [present |-> TRUE, v |-> disk[k].v, expire |-> 0] ELSE NoDisk]
                     ELSE disk
    /\ act' = [op |-> "reboot", down |-> down] /\ UNCHANGED cfg
Next == \/ \E n \in Names, v \in Vals : Set(n, v)
        \/ \E d \in Advs : Adv(d)
        \/ \E d \in Downs : Reboot(d)
Spec == Init /\ [][Next]_vars
\* ------------------------------------------------------------------------------------ properties
\* the statement: persistent variables reload with equal values unless their expiry time has passed - whatever the
\* value, also for variables declared in the config: their initial value is used only when nothing was persisted
PersistReload ==
    [][ act'.op = "reboot" =>
          \A n \in Names : (cfg[n].persist /\ mv[n].present) =>
              IF mv[n].timeout > 0 /\ mv[n].timeout < now' THEN ~mv'[n].present
              ELSE mv'[n].present /\ mv'[n].v = mv[n].v ]_vars
\* a declared variable exists after every boot; one that is not persisted restarts from its initial value, and one
\* that still has (or was set back to) its initial value keeps it over a reboot
DeclaredRestart ==
    [][ act'.op = "reboot" =>
          \A n \in Names : cfg[n].declared =>
              /\ mv'[n].present
              /\ ~cfg[n].persist => mv'[n].v = cfg[n].init
              /\ mv[n].v = cfg[n].init => mv'[n].v = cfg[n].init ]_vars
DeclaredExists == \A n \in Names : cfg[n].declared => mv[n].present
\* a variable the config / its owner marks persistent is marked persistent
MarkedPersistent == \A n \in Names : mv[n].present => (cfg[n].persist => mv[n].pers)
\* "the file keeps it": the store f mirrors the persistent variables of m; only a declared variable that has its
\* initial value may be missing from the store (it restarts from that value anyway)
Keeps(f, m) == \A n \in Names : (cfg[n].persist /\ m[n].present) =>
                   \/ f[n].present /\ f[n].v = m[n].v
                   \/ ~f[n].present /\ cfg[n].declared /\ m[n].v = cfg[n].init
\* why PersistReload holds: the store always mirrors the persistent variables
StoreInSync == /\ Keeps(disk, mv)
               /\ \A n \in Names : (cfg[n].persist /\ mv[n].present /\ disk[n].present) => disk[n].expire = mv[n].timeout
=============================================================================
