------------------------------ MODULE MachineVars ------------------------------
(* Reference model of mpf.core.machine_vars.MachineVariables as far as persistence is concerned:   *)
(* the persisted subset is handed to the data manager (save_all) whenever a persistent variable    *)
(* changes or has an expiry to refresh; at boot the stored variables are loaded unless their       *)
(* expiry time has passed.  Every variable name has a fixed policy (persist, expire seconds) which *)
(* its owner applies with configure_machine_var() before each set_machine_var(), as credits, game, *)
(* settings and service code do.  Time is the wall clock in abstract units.                        *)
EXTENDS Integers, FiniteSets, TLC
CONSTANTS Configs,     \* set of policies: [name -> [persist: BOOLEAN, expire: Nat]] (0 = no expiry)
          Vals,        \* value ids
          Advs, Downs, \* possible clock advances / power-off durations
          MaxTime, MaxOps
VARIABLES cfg,         \* the policy in force
          mv,          \* [name -> [present, v, timeout]]  MachineVariables.machine_vars (timeout 0 = None)
          disk,        \* [name -> [present, v, expire]]   what the data manager was last handed
          now, nops, act
vars == <<cfg, mv, disk, now, nops, act>>
Names == DOMAIN cfg
Absent == [present |-> FALSE, v |-> 0, timeout |-> 0]
NoDisk == [present |-> FALSE, v |-> 0, expire |-> 0]
Snapshot(m) == [k \in Names |-> IF cfg[k].persist /\ m[k].present
                                THEN [present |-> TRUE, v |-> m[k].v, expire |-> m[k].timeout] ELSE NoDisk]
Init == /\ cfg \in Configs /\ mv = [k \in Names |-> Absent] /\ disk = [k \in Names |-> NoDisk]
        /\ now = 0 /\ nops = 0 /\ act = [op |-> "init"]
\* configure_machine_var(n, persist, expire_secs) followed by set_machine_var(n, v)
Set(n, v) ==
    /\ nops < MaxOps /\ nops' = nops + 1
    /\ LET p == cfg[n]
           to == IF p.expire > 0 THEN now + p.expire ELSE 0
           changed == ~mv[n].present \/ mv[n].v # v
           m2 == [mv EXCEPT ![n] = [present |-> TRUE, v |-> v, timeout |-> to]]
       IN /\ mv' = m2
          /\ disk' = IF p.persist /\ (changed \/ p.expire > 0) THEN Snapshot(m2) ELSE disk
    /\ act' = [op |-> "set", n |-> n, v |-> v, persist |-> cfg[n].persist, expire |-> cfg[n].expire]
    /\ UNCHANGED <<cfg, now>>
Adv(d) == /\ nops < MaxOps /\ nops' = nops + 1 /\ now + d <= MaxTime /\ now' = now + d
          /\ act' = [op |-> "adv", d |-> d] /\ UNCHANGED <<cfg, mv, disk>>
\* power off for `down` units, then boot: load_machine_vars with the expiry check; every loaded variable is set
\* again with persist=True (and without expiry until its owner configures it again), which rewrites the store
Reboot(down) ==
    /\ nops < MaxOps /\ nops' = nops + 1 /\ now + down <= MaxTime /\ now' = now + down
    /\ LET ok(k) == disk[k].present /\ ~(disk[k].expire > 0 /\ disk[k].expire < now + down)
           m2 == [k \in Names |-> IF ok(k) THEN [present |-> TRUE, v |-> disk[k].v, timeout |-> 0] ELSE Absent]
       IN /\ mv' = m2
          /\ disk' = IF \E k \in Names : ok(k) THEN Snapshot(m2) ELSE disk
    /\ act' = [op |-> "reboot", down |-> down] /\ UNCHANGED cfg
Next == \/ \E n \in Names, v \in Vals : Set(n, v)
        \/ \E d \in Advs : Adv(d)
        \/ \E d \in Downs : Reboot(d)
Spec == Init /\ [][Next]_vars
\* ------------------------------------------------------------------------------------ properties
\* the statement: persistent variables reload with equal values unless their expiry time has passed
PersistReload ==
    [][ act'.op = "reboot" =>
          \A n \in Names : (cfg[n].persist /\ mv[n].present) =>
              IF mv[n].timeout > 0 /\ mv[n].timeout < now' THEN ~mv'[n].present
              ELSE mv'[n].present /\ mv'[n].v = mv[n].v ]_vars
\* why it holds: the store always mirrors the persistent variables
StoreInSync == \A n \in Names : (cfg[n].persist /\ mv[n].present) =>
                   disk[n].present /\ disk[n].v = mv[n].v /\ disk[n].expire = mv[n].timeout
=============================================================================
