------------------------------ MODULE DataManager ------------------------------
(* Reference model of mpf.core.data_manager.DataManager (one writer thread per manager) on top of  *)
(* mpf.core.file_manager.FileManager.save (global busy flag, temp file + os.replace) and the YAML  *)
(* interface.  Processes: main (SaveAll, Shutdown), writer[i] with the program counter of          *)
(* DataManager._writing_thread, environment (IoError at the four steps of a file save, Crash of    *)
(* the whole process at any point).  Fault model: a write can fail in three ways - an injected      *)
(* fault of kind "io" (an OSError: disk full, permissions, failing rename) or of kind "exc" (any     *)
(* other exception: ValueError of a broken stream, a bug in a dumper ...) at the copy and at each of *)
(* the four steps of a file save, or because of the DATA handed to save_all: a version of kind       *)
(* "norepr" cannot be represented by the YAML dumper (decimal.Decimal, arbitrary objects: the dump   *)
(* raises after the temp file was opened and before it is complete), a version of kind "nocopy"      *)
(* cannot even be deep-copied (locks, generators).  The design treats all of them alike: that one    *)
(* write fails, the data file keeps its complete earlier version, the writer goes on.                *)
(* A writer step is what the real thread does between two of its                                     *)
(* blocking / scheduling points:                                                                   *)
(*   initSleep   time.sleep(min_wait_secs) before the loop                                         *)
(*   waitDirty   self._dirty.wait(1)                                                               *)
(*   waitBusy    one poll of FileManager.is_busy                                                   *)
(*   clearDirty  self._dirty.clear(), then self.data is read                                       *)
(*   copy        copy.deepcopy(that object) and the entry of FileManager.save (is_busy = True)     *)
(*   saveOpen    open(temp_file, 'w')                                                              *)
(*   saveWrite   first part of the YAML text reaches the temp file                                 *)
(*   saveClose   rest of the text, close                                                           *)
(*   replace     os.replace(temp, filename); is_busy = False                                       *)
(*   rateSleep   time.sleep(min_wait_secs) after a save                                            *)
(*   exited      thread function returned                                                          *)
(* The `while not stopper` test and the shutdown-flush test are evaluated without blocking when a  *)
(* sleep or a timed-out wait returns (LoopCheck).                                                  *)
(* With Deviations = {} this is the DESIGN that satisfies the statement of C15; each named         *)
(* deviation adds a behaviour the code has or had (used records which ones a behaviour needed):    *)
(* BusyCheckThenAct is the code as it is (known finding); BusyFlagLeaksOnError,                    *)
(* FinalFlushUsesClearedCopy and StaleYamlEmitterAfterError were repaired in mpf (518babe, 1595980, *)
(* 163cf22) and are kept as regression deviations: a trace that needs one again is reported under  *)
(* that name.                                                                                      *)
(* WriterDiesOnSaveError (a failure inside FileManager.save that the handler of the writer loop    *)
(* does not catch ends the thread: nothing of that manager is written any more) is not in the code *)
(* and is kept to name that class of regression; WriterDiesOnCopyError is the same for a failing   *)
(* copy.deepcopy, which in the code as it is sits outside the try block.                           *)
(* The clean shutdown of a machine is a SEQUENCE of steps of the main thread                       *)
(* (mpf/core/machine.py: stop -> _run_loop -> _do_stop -> shutdown), and data is handed to the      *)
(* managers while it runs (mpc is the main thread's position in it):                                *)
(*   StopRequested  machine.stop() (or the `quit` event): the loop is asked to end; callbacks that  *)
(*                  are still running may save                                                      *)
(*   DoStop         _do_stop() begins: the `shutdown` event is posted and its handlers run          *)
(*   Handler        one more handler of the `shutdown` event (or of an event posted by one) starts; *)
(*                  handlers save data (SaveAll, also through a persistent machine variable) and    *)
(*                  may be slow: the writers take steps in between                                  *)
(*   StopperSet     all handlers are done; shutdown() sets machine.thread_stopper                   *)
(*   ProcessExit    the process ends (mpf game: logging is shut down, sys.exit()); in the design    *)
(*                  the main thread has waited for the writers before (they are joined)             *)
(* after StopperSet every writer does its final flush and ends.  Data handed over at any point BEFORE *)
(* StopperSet is covered by the statement ("however saves and the shutdown are timed").  Shutdown   *)
(* is the whole sequence without handlers in one step (part 1 of the driver sets the stopper of a   *)
(* stub machine itself).  StopperSetEarly names the class of regression where the stopper is set    *)
(* before the last handler is done: a writer may then end while data is still being handed over.    *)
(* NoJoinBeforeExit: the process ends without waiting for the writers (threads that the interpreter *)
(* does not wait for are gone wherever they are: asleep in the rate limit, in the middle of a write).*)
EXTENDS Integers, Sequences, FiniteSets, TLC
CONSTANTS NM,           \* number of data managers
          MaxSaves,     \* budget of SaveAll calls (= number of versions)
          MaxErrors,    \* budget of injected faults (both kinds)
          MaxBad,       \* budget of versions that cannot be written (kinds norepr, nocopy)
          MaxCrashes,   \* budget of process crashes
          MaxHandlers,  \* budget of handlers of the shutdown event
          StopSeq,      \* BOOLEAN: the stop sequence of a machine step by step (otherwise Shutdown in one step)
          Deviations
M == 1..NM
FaultKinds == {"io", "exc"}                \* injected: an OSError / any other exception
Kinds == {"ok", "norepr", "nocopy"}        \* of a version handed to save_all
VARIABLES pc,         \* [M -> program counter]
          fin,        \* [M -> BOOLEAN] the writer has left its loop (shutdown flush path)
          dirty,      \* [M -> BOOLEAN] DataManager._dirty
          data,       \* [M -> version] DataManager.data (0 = the empty dict of a fresh manager)
          cp,         \* [M -> version] the writer's local copy being saved (0 = None)
          file,       \* [M -> version] the data file: 0 absent, k complete version k, -1 torn
          tmp,        \* [M -> [st: absent|partial|complete, v]] the temp file next to it
          isBusy,     \* FileManager.is_busy (class attribute shared by all managers)
          stopper,    \* machine.thread_stopper
          poisoned,   \* an exception escaped from a YAML dump in this process
          errSince,   \* [M -> BOOLEAN] an injected error hit the save of the manager's latest data
          who,        \* ghost: who[v] = manager that version v was handed to
          kind,       \* ghost: kind[v] = kind of version v
          used,       \* deviations this behaviour has made use of
          mpc,        \* main thread: "run", "stopreq" (stop requested), "handlers" (in _do_stop), "stopped",
                      \* "exited" (the process has ended)
          nh,         \* handlers of the shutdown event started so far
          nerrs, ncrash, act
vars == <<pc, fin, dirty, data, cp, file, tmp, isBusy, stopper, poisoned, errSince, who, kind, used, mpc, nh, nerrs, ncrash, act>>
mainv == <<mpc, nh>>

CS == {"clearDirty", "copy", "saveOpen", "saveWrite", "saveClose", "replace"}
PCs == {"initSleep", "waitDirty", "waitBusy", "rateSleep", "exited"} \cup CS
NoTmp == [st |-> "absent", v |-> 0]
Holders == {i \in M : pc[i] \in CS}
KindOf(v) == IF v = 0 THEN "ok" ELSE kind[v]
NBad == Cardinality({v \in 1..Len(kind) : kind[v] # "ok"})

Init == /\ pc = [i \in M |-> "initSleep"] /\ fin = [i \in M |-> FALSE] /\ dirty = [i \in M |-> FALSE]
        /\ data = [i \in M |-> 0] /\ cp = [i \in M |-> 0] /\ file = [i \in M |-> 0] /\ tmp = [i \in M |-> NoTmp]
        /\ isBusy = FALSE /\ stopper = FALSE /\ poisoned = FALSE /\ errSince = [i \in M |-> FALSE]
        /\ who = <<>> /\ kind = <<>> /\ used = {} /\ mpc = "run" /\ nh = 0 /\ nerrs = 0 /\ ncrash = 0
        /\ act = [op |-> "init"]

\* ---------------------------------------------------------------------------------------- main
\* data can be handed over until the stop sequence has set the stopper (not: until the stopper happens to be set)
SaveAll(i, k) ==
    /\ mpc \notin {"stopped", "exited"} /\ Len(who) < MaxSaves /\ (k # "ok" => NBad < MaxBad)
    /\ data' = [data EXCEPT ![i] = Len(who) + 1] /\ who' = Append(who, i) /\ kind' = Append(kind, k)
    /\ dirty' = [dirty EXCEPT ![i] = TRUE] /\ errSince' = [errSince EXCEPT ![i] = FALSE]
    /\ act' = [op |-> "save", i |-> i, v |-> Len(who) + 1, k |-> k]
    /\ UNCHANGED <<pc, fin, cp, file, tmp, isBusy, stopper, poisoned, used, mainv, nerrs, ncrash>>
Shutdown ==
    /\ mpc = "run" /\ stopper' = TRUE /\ mpc' = "stopped" /\ act' = [op |-> "shutdown"]
    /\ UNCHANGED <<pc, fin, dirty, data, cp, file, tmp, isBusy, poisoned, errSince, who, kind, used, nh, nerrs, ncrash>>
\* ------------------------------------------------------------ the stop sequence of a machine, step by step
MainStep(to, op) ==
    /\ mpc' = to /\ act' = [op |-> op]
    /\ UNCHANGED <<pc, fin, dirty, data, cp, file, tmp, isBusy, poisoned, errSince, who, kind, used, nerrs, ncrash>>
StopRequested == mpc = "run" /\ MainStep("stopreq", "stop") /\ UNCHANGED <<stopper, nh>>
DoStop == mpc \in {"run", "stopreq"} /\ MainStep("handlers", "dostop") /\ UNCHANGED <<stopper, nh>>
Handler == mpc = "handlers" /\ nh < MaxHandlers /\ nh' = nh + 1 /\ MainStep("handlers", "h") /\ UNCHANGED stopper
StopperSet == mpc = "handlers" /\ stopper' = TRUE /\ MainStep("stopped", "stopped") /\ UNCHANGED nh
\* the process ends; the design waits for the writers first
ProcessExit ==
    /\ mpc = "stopped" /\ mpc' = "exited" /\ act' = [op |-> "exit"]
    /\ \/ (\A i \in M : pc[i] = "exited") /\ UNCHANGED <<pc, cp, isBusy, used>>
       \/ /\ "NoJoinBeforeExit" \in Deviations /\ (\E i \in M : pc[i] # "exited")
          /\ pc' = [i \in M |-> "exited"] /\ cp' = [i \in M |-> 0] /\ isBusy' = FALSE
          /\ used' = used \cup {"NoJoinBeforeExit"}
    /\ UNCHANGED <<fin, dirty, data, file, tmp, stopper, poisoned, errSince, who, kind, nh, nerrs, ncrash>>
\* regression class: something in the stop sequence sets the stopper before the handlers are done
EarlyStopper ==
    /\ "StopperSetEarly" \in Deviations /\ mpc \in {"stopreq", "handlers"} /\ ~stopper
    /\ stopper' = TRUE /\ used' = used \cup {"StopperSetEarly"} /\ act' = [op |-> "earlystopper"]
    /\ UNCHANGED <<pc, fin, dirty, data, cp, file, tmp, isBusy, poisoned, errSince, who, kind, mainv, nerrs, ncrash>>
\* the process dies; only the files survive; a new process loads them
Crash ==
    /\ ncrash < MaxCrashes /\ ncrash' = ncrash + 1
    /\ pc' = [i \in M |-> "initSleep"] /\ fin' = [i \in M |-> FALSE] /\ dirty' = [i \in M |-> FALSE]
    /\ data' = file /\ cp' = [i \in M |-> 0] /\ isBusy' = FALSE /\ stopper' = FALSE /\ poisoned' = FALSE
    /\ errSince' = [i \in M |-> FALSE] /\ mpc' = "run" /\ nh' = 0 /\ act' = [op |-> "crash"]
    /\ UNCHANGED <<file, tmp, who, kind, used, nerrs>>
\* harness aid to look behind a leaked flag: never enabled in the design (isBusy => some holder)
ForceRelease ==
    /\ isBusy /\ Holders = {} /\ isBusy' = FALSE /\ act' = [op |-> "unwedge"]
    /\ UNCHANGED <<pc, fin, dirty, data, cp, file, tmp, stopper, poisoned, errSince, who, kind, used, mainv, nerrs, ncrash>>

\* -------------------------------------------------------------------------------------- writer
WAct(i, f) == act' = [op |-> "w", i |-> i, pc |-> pc[i], fault |-> f] /\ UNCHANGED mainv
\* `while not stopper:` and, once the loop is left, `if dirty: flush`
LoopCheck(i) ==
    IF ~stopper THEN /\ pc' = [pc EXCEPT ![i] = "waitDirty"] /\ UNCHANGED <<fin, used>>
    ELSE /\ fin' = [fin EXCEPT ![i] = TRUE]
         /\ \/ /\ pc' = [pc EXCEPT ![i] = IF dirty[i] THEN "waitBusy" ELSE "exited"] /\ UNCHANGED used
            \* code as is: the flush tests the local copy, which is None after every completed save
            \/ /\ "FinalFlushUsesClearedCopy" \in Deviations /\ dirty[i]
               /\ pc' = [pc EXCEPT ![i] = "exited"] /\ used' = used \cup {"FinalFlushUsesClearedCopy"}
SleepDone(i) ==
    /\ pc[i] \in {"initSleep", "rateSleep"} /\ LoopCheck(i) /\ WAct(i, "none")
    /\ UNCHANGED <<dirty, data, cp, file, tmp, isBusy, stopper, poisoned, errSince, who, kind, nerrs, ncrash>>
WaitDirty(i) ==
    /\ pc[i] = "waitDirty" /\ WAct(i, "none")
    /\ IF dirty[i] THEN pc' = [pc EXCEPT ![i] = "waitBusy"] /\ UNCHANGED <<fin, used>> ELSE LoopCheck(i)
    /\ UNCHANGED <<dirty, data, cp, file, tmp, isBusy, stopper, poisoned, errSince, who, kind, nerrs, ncrash>>
WaitBusy(i) ==
    /\ pc[i] = "waitBusy" /\ WAct(i, "none")
    /\ \/ isBusy /\ UNCHANGED <<pc, isBusy, used>>                          \* poll again after 0.2 s
       \/ ~isBusy /\ pc' = [pc EXCEPT ![i] = "clearDirty"] /\ isBusy' = TRUE /\ UNCHANGED used     \* test and set
       \* code as is: the flag is only set at the entry of FileManager.save, two steps later
       \/ /\ ~isBusy /\ "BusyCheckThenAct" \in Deviations
          /\ pc' = [pc EXCEPT ![i] = "clearDirty"] /\ UNCHANGED isBusy /\ used' = used \cup {"BusyCheckThenAct"}
    /\ UNCHANGED <<fin, dirty, data, cp, file, tmp, stopper, poisoned, errSince, who, kind, nerrs, ncrash>>
\* `self._dirty.clear(); data = copy.deepcopy(self.data)`: the reference self.data is read right after the clear
\* (save_all replaces the dict, it does not mutate it), the deep copy of that object is the next step
ClearDirty(i) ==
    /\ pc[i] = "clearDirty" /\ WAct(i, "none")
    /\ dirty' = [dirty EXCEPT ![i] = FALSE] /\ cp' = [cp EXCEPT ![i] = data[i]] /\ pc' = [pc EXCEPT ![i] = "copy"]
    /\ UNCHANGED <<fin, data, file, tmp, isBusy, stopper, poisoned, errSince, who, kind, used, nerrs, ncrash>>
\* the end of a failed write: back to the loop (or end of the thread on the flush path, which has no handler)
Resume(i) == pc' = [pc EXCEPT ![i] = IF fin[i] THEN "exited" ELSE "rateSleep"]
\* the failed write hit the save of the manager's latest data: that version is excused from being on disk
Excuse(i) == errSince' = [errSince EXCEPT ![i] = @ \/ (cp[i] = data[i])]
\* copy.deepcopy raised (injected, or a version that cannot be copied): FileManager.save was not entered
CopyErr(i) ==
    /\ cp' = [cp EXCEPT ![i] = 0]
    /\ \/ /\ Resume(i)
          /\ \/ isBusy' = FALSE /\ UNCHANGED used                 \* the flag taken by the test-and-set is given back
             \/ /\ "BusyCheckThenAct" \in Deviations /\ UNCHANGED isBusy      \* code as is: not set yet
                /\ used' = used \cup {"BusyCheckThenAct"}
       \* code as is: the deepcopy is outside the try block of the writer loop; the exception ends the thread
       \/ /\ "WriterDiesOnCopyError" \in Deviations /\ ~fin[i] /\ pc' = [pc EXCEPT ![i] = "exited"]
          /\ \/ isBusy' = FALSE /\ used' = used \cup {"WriterDiesOnCopyError"}
             \/ /\ "BusyCheckThenAct" \in Deviations /\ UNCHANGED isBusy
                /\ used' = used \cup {"WriterDiesOnCopyError", "BusyCheckThenAct"}
\* an exception leaves FileManager.save
ErrExit(i, extra) ==
    /\ cp' = [cp EXCEPT ![i] = 0]
    /\ \/ /\ Resume(i)
          /\ \/ isBusy' = FALSE /\ used' = used \cup extra
             \* code as it was: is_busy stays True when the interface's save (or os.replace) raises
             \/ /\ "BusyFlagLeaksOnError" \in Deviations /\ UNCHANGED isBusy
                /\ used' = used \cup extra \cup {"BusyFlagLeaksOnError"}
       \* a handler in the writer loop that does not catch this failure: the exception ends the thread for good
       \/ /\ "WriterDiesOnSaveError" \in Deviations /\ ~fin[i] /\ pc' = [pc EXCEPT ![i] = "exited"]
          /\ isBusy' = FALSE /\ used' = used \cup extra \cup {"WriterDiesOnSaveError"}
Injected(i, f) ==
    /\ f \in FaultKinds /\ nerrs < MaxErrors /\ nerrs' = nerrs + 1 /\ WAct(i, f) /\ Excuse(i)
\* the data itself makes this step fail (nothing injected)
DataErr(i) == WAct(i, "none") /\ Excuse(i) /\ UNCHANGED nerrs
Copy(i, f) ==
    /\ pc[i] = "copy"
    /\ \/ /\ f = "none" /\ KindOf(cp[i]) # "nocopy" /\ WAct(i, f)
          /\ isBusy' = TRUE /\ pc' = [pc EXCEPT ![i] = "saveOpen"] /\ UNCHANGED <<cp, errSince, used, nerrs>>
       \/ /\ f = "none" /\ KindOf(cp[i]) = "nocopy" /\ DataErr(i) /\ CopyErr(i)
       \/ /\ Injected(i, f) /\ CopyErr(i)
    /\ UNCHANGED <<fin, dirty, data, file, tmp, stopper, poisoned, who, kind, ncrash>>
\* A version that cannot be represented fails after the temp file has been opened and before it is complete; at
\* which of the three steps is up to the dumper (ruamel represents the whole document before it emits anything).
SaveOpen(i, f) ==
    /\ pc[i] = "saveOpen"
    /\ \/ /\ f = "none" /\ WAct(i, f)
          /\ tmp' = [tmp EXCEPT ![i] = [st |-> "partial", v |-> cp[i]]] /\ pc' = [pc EXCEPT ![i] = "saveWrite"]
          /\ UNCHANGED <<cp, isBusy, poisoned, errSince, used, nerrs>>
       \/ /\ Injected(i, f) /\ ErrExit(i, {}) /\ UNCHANGED <<tmp, poisoned>>
       \/ /\ f = "none" /\ KindOf(cp[i]) = "norepr" /\ DataErr(i)
          /\ tmp' = [tmp EXCEPT ![i] = [st |-> "partial", v |-> cp[i]]]
          /\ ErrExit(i, {}) /\ poisoned' = TRUE
       \* code as it was: the module-level ruamel instance keeps the context of the failed dump; every later dump
       \* raises 'I/O operation on closed file' right after the temp file has been opened
       \/ /\ f = "none" /\ WAct(i, f) /\ "StaleYamlEmitterAfterError" \in Deviations /\ poisoned
          /\ tmp' = [tmp EXCEPT ![i] = [st |-> "partial", v |-> cp[i]]]
          /\ ErrExit(i, {"StaleYamlEmitterAfterError"}) /\ UNCHANGED <<poisoned, errSince, nerrs>>
    /\ UNCHANGED <<fin, dirty, data, file, stopper, who, kind, ncrash>>
SaveWrite(i, f) ==
    /\ pc[i] = "saveWrite"
    /\ \/ /\ f = "none" /\ WAct(i, f) /\ pc' = [pc EXCEPT ![i] = "saveClose"]
          /\ UNCHANGED <<cp, isBusy, poisoned, errSince, used, nerrs>>
       \/ /\ Injected(i, f) /\ ErrExit(i, {}) /\ poisoned' = TRUE
       \/ /\ f = "none" /\ KindOf(cp[i]) = "norepr" /\ DataErr(i) /\ ErrExit(i, {}) /\ poisoned' = TRUE
    /\ UNCHANGED <<fin, dirty, data, file, tmp, stopper, who, kind, ncrash>>
SaveClose(i, f) ==
    /\ pc[i] = "saveClose"
    /\ \/ /\ f = "none" /\ KindOf(cp[i]) = "ok" /\ WAct(i, f) /\ pc' = [pc EXCEPT ![i] = "replace"]
          /\ tmp' = [tmp EXCEPT ![i] = [st |-> "complete", v |-> cp[i]]]
          /\ UNCHANGED <<cp, isBusy, poisoned, errSince, used, nerrs>>
       \/ /\ Injected(i, f) /\ ErrExit(i, {}) /\ poisoned' = TRUE /\ UNCHANGED tmp
       \/ /\ f = "none" /\ KindOf(cp[i]) # "ok" /\ DataErr(i) /\ ErrExit(i, {}) /\ poisoned' = TRUE /\ UNCHANGED tmp
    /\ UNCHANGED <<fin, dirty, data, file, stopper, who, kind, ncrash>>
Replace(i, f) ==
    /\ pc[i] = "replace"
    /\ \/ /\ f = "none" /\ WAct(i, f)
          /\ file' = [file EXCEPT ![i] = IF tmp[i].st = "complete" THEN tmp[i].v ELSE -1]
          /\ tmp' = [tmp EXCEPT ![i] = NoTmp] /\ isBusy' = FALSE /\ cp' = [cp EXCEPT ![i] = 0]
          /\ Resume(i)
          /\ UNCHANGED <<poisoned, errSince, used, nerrs>>
       \/ /\ Injected(i, f) /\ ErrExit(i, {}) /\ UNCHANGED <<file, tmp, poisoned>>
    /\ UNCHANGED <<fin, dirty, data, stopper, who, kind, ncrash>>
W(i, f) == \/ f = "none" /\ (SleepDone(i) \/ WaitDirty(i) \/ WaitBusy(i) \/ ClearDirty(i))
           \/ Copy(i, f) \/ SaveOpen(i, f) \/ SaveWrite(i, f) \/ SaveClose(i, f) \/ Replace(i, f)

Next == \/ \E i \in M, k \in Kinds : SaveAll(i, k)
        \/ (~StopSeq /\ Shutdown) \/ (StopSeq /\ (StopRequested \/ DoStop \/ Handler \/ StopperSet \/ ProcessExit)) \/ EarlyStopper
        \/ Crash \/ ForceRelease
        \/ \E i \in M, f \in {"none"} \cup FaultKinds : W(i, f)
Spec == Init /\ [][Next]_vars
FairSpec == Spec /\ \A i \in M : WF_vars(W(i, "none"))

\* ------------------------------------------------------------------------------------ properties
TypeOK == /\ pc \in [M -> PCs] /\ fin \in [M -> BOOLEAN] /\ dirty \in [M -> BOOLEAN]
          /\ data \in [M -> 0..MaxSaves] /\ cp \in [M -> 0..MaxSaves] /\ file \in [M -> -1..MaxSaves]
          /\ \A i \in M : tmp[i].st \in {"absent", "partial", "complete"} /\ tmp[i].v \in 0..MaxSaves
          /\ isBusy \in BOOLEAN /\ stopper \in BOOLEAN /\ poisoned \in BOOLEAN /\ used \subseteq Deviations
          /\ Len(kind) = Len(who) /\ \A v \in 1..Len(kind) : kind[v] \in Kinds
          /\ mpc \in {"run", "stopreq", "handlers", "stopped", "exited"} /\ nh \in 0..MaxHandlers
\* at every instant (hence at every crash point) the data file is absent or a complete version handed to its manager
\* (one that could be written at all)
NeverTorn == \A i \in M : file[i] = 0 \/ (file[i] \in 1..Len(who) /\ who[file[i]] = i /\ kind[file[i]] = "ok")
\* a writer that has run to its end after the shutdown leaves the last saved data on disk: whatever was handed over
\* before the stop sequence set the stopper (in the run, after the stop request, by handlers of the shutdown event)
DurableAfterShutdown == \A i \in M : pc[i] = "exited" => (file[i] = data[i] \/ errSince[i])
\* ... and once the process has ended after a clean shutdown, that holds for every manager
DurableAfterExit == mpc = "exited" => \A i \in M : file[i] = data[i] \/ errSince[i]
SingleWriter == Cardinality(Holders) <= 1
BusyWhileWriting == Holders # {} => isBusy
\* liveness (under FairSpec): a failed write - whatever made it fail - does not stop later saves: the latest data
\* of a manager reaches the disk unless the write of exactly that version failed
Written == \A i \in M : dirty[i] ~> (file[i] = data[i] \/ errSince[i])
BusyFree == isBusy ~> ~isBusy
WriterEnds == \A i \in M : stopper ~> (pc[i] = "exited" \/ ~stopper)
=============================================================================
