------------------------------ MODULE DataManager ------------------------------
(* Reference model of mpf.core.data_manager.DataManager (one writer thread per manager) on top of  *)
(* mpf.core.file_manager.FileManager.save (global busy flag, temp file + os.replace) and the YAML  *)
(* interface.  Processes: main (SaveAll, Shutdown), writer[i] with the program counter of          *)
(* DataManager._writing_thread, environment (IoError at the four steps of a file save, Crash of    *)
(* the whole process at any point).  A writer step is what the real thread does between two of its *)
(* blocking / scheduling points:                                                                   *)
(*   initSleep   time.sleep(min_wait_secs) before the loop                                         *)
(*   waitDirty   self._dirty.wait(1)                                                               *)
(*   waitBusy    one poll of FileManager.is_busy                                                   *)
(*   clearDirty  self._dirty.clear(), then self.data is read                                       *)
(*   copy        copy.deepcopy(that object) and the entry of FileManager.save (is_busy = True)     *)
(*   saveOpen    open(temp_file, 'w')                                                              *)
(*   saveWrite   first part of the YAML text reaches the temp file                                 *)
(*   saveClose   rest of the text, close                                                           *)
(*   replace     os.replace(temp, filename); is_busy = False                                       *)
(*   rateSleep   time.sleep(min_wait_secs) after a save                                            *)
(*   exited      thread function returned                                                          *)
(* The `while not stopper` test and the shutdown-flush test are evaluated without blocking when a  *)
(* sleep or a timed-out wait returns (LoopCheck).                                                  *)
(* With Deviations = {} this is the DESIGN that satisfies the statement of C15; each named         *)
(* deviation adds a behaviour the code has or had (used records which ones a behaviour needed):    *)
(* BusyCheckThenAct is the code as it is (known finding); BusyFlagLeaksOnError,                    *)
(* FinalFlushUsesClearedCopy and StaleYamlEmitterAfterError were repaired in mpf (518babe, 1595980, *)
(* 163cf22) and are kept as regression deviations: a trace that needs one again is reported under  *)
(* that name.                                                                                      *)
EXTENDS Integers, Sequences, FiniteSets, TLC
CONSTANTS NM,           \* number of data managers
          MaxSaves,     \* budget of SaveAll calls (= number of versions)
          MaxErrors,    \* budget of injected I/O errors
          MaxCrashes,   \* budget of process crashes
          Deviations
M == 1..NM
VARIABLES pc,         \* [M -> program counter]
          fin,        \* [M -> BOOLEAN] the writer has left its loop (shutdown flush path)
          dirty,      \* [M -> BOOLEAN] DataManager._dirty
          data,       \* [M -> version] DataManager.data (0 = the empty dict of a fresh manager)
          cp,         \* [M -> version] the writer's local copy being saved (0 = None)
          file,       \* [M -> version] the data file: 0 absent, k complete version k, -1 torn
          tmp,        \* [M -> [st: absent|partial|complete, v]] the temp file next to it
          isBusy,     \* FileManager.is_busy (class attribute shared by all managers)
          stopper,    \* machine.thread_stopper
          poisoned,   \* an exception escaped from a YAML dump in this process
          errSince,   \* [M -> BOOLEAN] an injected error hit the save of the manager's latest data
          who,        \* ghost: who[v] = manager that version v was handed to
          used,       \* deviations this behaviour has made use of
          nerrs, ncrash, act
vars == <<pc, fin, dirty, data, cp, file, tmp, isBusy, stopper, poisoned, errSince, who, used, nerrs, ncrash, act>>

CS == {"clearDirty", "copy", "saveOpen", "saveWrite", "saveClose", "replace"}
PCs == {"initSleep", "waitDirty", "waitBusy", "rateSleep", "exited"} \cup CS
NoTmp == [st |-> "absent", v |-> 0]
Holders == {i \in M : pc[i] \in CS}

Init == /\ pc = [i \in M |-> "initSleep"] /\ fin = [i \in M |-> FALSE] /\ dirty = [i \in M |-> FALSE]
        /\ data = [i \in M |-> 0] /\ cp = [i \in M |-> 0] /\ file = [i \in M |-> 0] /\ tmp = [i \in M |-> NoTmp]
        /\ isBusy = FALSE /\ stopper = FALSE /\ poisoned = FALSE /\ errSince = [i \in M |-> FALSE]
        /\ who = <<>> /\ used = {} /\ nerrs = 0 /\ ncrash = 0 /\ act = [op |-> "init"]

\* ---------------------------------------------------------------------------------------- main
SaveAll(i) ==
    /\ ~stopper /\ Len(who) < MaxSaves
    /\ data' = [data EXCEPT ![i] = Len(who) + 1] /\ who' = Append(who, i)
    /\ dirty' = [dirty EXCEPT ![i] = TRUE] /\ errSince' = [errSince EXCEPT ![i] = FALSE]
    /\ act' = [op |-> "save", i |-> i, v |-> Len(who) + 1]
    /\ UNCHANGED <<pc, fin, cp, file, tmp, isBusy, stopper, poisoned, used, nerrs, ncrash>>
Shutdown ==
    /\ ~stopper /\ stopper' = TRUE /\ act' = [op |-> "shutdown"]
    /\ UNCHANGED <<pc, fin, dirty, data, cp, file, tmp, isBusy, poisoned, errSince, who, used, nerrs, ncrash>>
\* the process dies; only the files survive; a new process loads them
Crash ==
    /\ ncrash < MaxCrashes /\ ncrash' = ncrash + 1
    /\ pc' = [i \in M |-> "initSleep"] /\ fin' = [i \in M |-> FALSE] /\ dirty' = [i \in M |-> FALSE]
    /\ data' = file /\ cp' = [i \in M |-> 0] /\ isBusy' = FALSE /\ stopper' = FALSE /\ poisoned' = FALSE
    /\ errSince' = [i \in M |-> FALSE] /\ act' = [op |-> "crash"]
    /\ UNCHANGED <<file, tmp, who, used, nerrs>>
\* harness aid to look behind a leaked flag: never enabled in the design (isBusy => some holder)
ForceRelease ==
    /\ isBusy /\ Holders = {} /\ isBusy' = FALSE /\ act' = [op |-> "unwedge"]
    /\ UNCHANGED <<pc, fin, dirty, data, cp, file, tmp, stopper, poisoned, errSince, who, used, nerrs, ncrash>>

\* -------------------------------------------------------------------------------------- writer
WAct(i, f) == act' = [op |-> "w", i |-> i, pc |-> pc[i], fault |-> f]
\* `while not stopper:` and, once the loop is left, `if dirty: flush`
LoopCheck(i) ==
    IF ~stopper THEN /\ pc' = [pc EXCEPT ![i] = "waitDirty"] /\ UNCHANGED <<fin, used>>
    ELSE /\ fin' = [fin EXCEPT ![i] = TRUE]
         /\ \/ /\ pc' = [pc EXCEPT ![i] = IF dirty[i] THEN "waitBusy" ELSE "exited"] /\ UNCHANGED used
            \* code as is: the flush tests the local copy, which is None after every completed save
            \/ /\ "FinalFlushUsesClearedCopy" \in Deviations /\ dirty[i]
               /\ pc' = [pc EXCEPT ![i] = "exited"] /\ used' = used \cup {"FinalFlushUsesClearedCopy"}
SleepDone(i) ==
    /\ pc[i] \in {"initSleep", "rateSleep"} /\ LoopCheck(i) /\ WAct(i, "none")
    /\ UNCHANGED <<dirty, data, cp, file, tmp, isBusy, stopper, poisoned, errSince, who, nerrs, ncrash>>
WaitDirty(i) ==
    /\ pc[i] = "waitDirty" /\ WAct(i, "none")
    /\ IF dirty[i] THEN pc' = [pc EXCEPT ![i] = "waitBusy"] /\ UNCHANGED <<fin, used>> ELSE LoopCheck(i)
    /\ UNCHANGED <<dirty, data, cp, file, tmp, isBusy, stopper, poisoned, errSince, who, nerrs, ncrash>>
WaitBusy(i) ==
    /\ pc[i] = "waitBusy" /\ WAct(i, "none")
    /\ \/ isBusy /\ UNCHANGED <<pc, isBusy, used>>                          \* poll again after 0.2 s
       \/ ~isBusy /\ pc' = [pc EXCEPT ![i] = "clearDirty"] /\ isBusy' = TRUE /\ UNCHANGED used     \* test and set
       \* code as is: the flag is only set at the entry of FileManager.save, two steps later
       \/ /\ ~isBusy /\ "BusyCheckThenAct" \in Deviations
          /\ pc' = [pc EXCEPT ![i] = "clearDirty"] /\ UNCHANGED isBusy /\ used' = used \cup {"BusyCheckThenAct"}
    /\ UNCHANGED <<fin, dirty, data, cp, file, tmp, stopper, poisoned, errSince, who, nerrs, ncrash>>
\* `self._dirty.clear(); data = copy.deepcopy(self.data)`: the reference self.data is read right after the clear
\* (save_all replaces the dict, it does not mutate it), the deep copy of that object is the next step
ClearDirty(i) ==
    /\ pc[i] = "clearDirty" /\ WAct(i, "none")
    /\ dirty' = [dirty EXCEPT ![i] = FALSE] /\ cp' = [cp EXCEPT ![i] = data[i]] /\ pc' = [pc EXCEPT ![i] = "copy"]
    /\ UNCHANGED <<fin, data, file, tmp, isBusy, stopper, poisoned, errSince, who, used, nerrs, ncrash>>
Copy(i) ==
    /\ pc[i] = "copy" /\ WAct(i, "none")
    /\ isBusy' = TRUE /\ pc' = [pc EXCEPT ![i] = "saveOpen"]
    /\ UNCHANGED <<fin, dirty, data, cp, file, tmp, stopper, poisoned, errSince, who, used, nerrs, ncrash>>
\* an exception leaves FileManager.save: back to the loop (or end of the thread on the flush path)
ErrExit(i, extra) ==
    /\ pc' = [pc EXCEPT ![i] = IF fin[i] THEN "exited" ELSE "rateSleep"]
    /\ cp' = [cp EXCEPT ![i] = 0]
    /\ \/ isBusy' = FALSE /\ used' = used \cup extra
       \* code as is: is_busy stays True when the interface's save (or os.replace) raises
       \/ /\ "BusyFlagLeaksOnError" \in Deviations /\ UNCHANGED isBusy
          /\ used' = used \cup extra \cup {"BusyFlagLeaksOnError"}
Injected(i) ==
    /\ nerrs < MaxErrors /\ nerrs' = nerrs + 1 /\ WAct(i, "io")
    /\ errSince' = [errSince EXCEPT ![i] = @ \/ (cp[i] = data[i])]
SaveOpen(i, f) ==
    /\ pc[i] = "saveOpen"
    /\ \/ /\ f = "none" /\ WAct(i, f)
          /\ tmp' = [tmp EXCEPT ![i] = [st |-> "partial", v |-> cp[i]]] /\ pc' = [pc EXCEPT ![i] = "saveWrite"]
          /\ UNCHANGED <<cp, isBusy, poisoned, errSince, used, nerrs>>
       \/ /\ f = "io" /\ Injected(i) /\ ErrExit(i, {}) /\ UNCHANGED <<tmp, poisoned>>
       \* code as is: the module-level ruamel instance keeps the context of the failed dump; every later dump
       \* raises 'I/O operation on closed file' right after the temp file has been opened
       \/ /\ f = "none" /\ WAct(i, f) /\ "StaleYamlEmitterAfterError" \in Deviations /\ poisoned
          /\ tmp' = [tmp EXCEPT ![i] = [st |-> "partial", v |-> cp[i]]]
          /\ ErrExit(i, {"StaleYamlEmitterAfterError"}) /\ UNCHANGED <<poisoned, errSince, nerrs>>
    /\ UNCHANGED <<fin, dirty, data, file, stopper, who, ncrash>>
SaveWrite(i, f) ==
    /\ pc[i] = "saveWrite"
    /\ \/ /\ f = "none" /\ WAct(i, f) /\ pc' = [pc EXCEPT ![i] = "saveClose"]
          /\ UNCHANGED <<cp, isBusy, poisoned, errSince, used, nerrs>>
       \/ /\ f = "io" /\ Injected(i) /\ ErrExit(i, {}) /\ poisoned' = TRUE
    /\ UNCHANGED <<fin, dirty, data, file, tmp, stopper, who, ncrash>>
SaveClose(i, f) ==
    /\ pc[i] = "saveClose"
    /\ \/ /\ f = "none" /\ WAct(i, f) /\ pc' = [pc EXCEPT ![i] = "replace"]
          /\ tmp' = [tmp EXCEPT ![i] = [st |-> "complete", v |-> cp[i]]]
          /\ UNCHANGED <<cp, isBusy, poisoned, errSince, used, nerrs>>
       \/ /\ f = "io" /\ Injected(i) /\ ErrExit(i, {}) /\ poisoned' = TRUE /\ UNCHANGED tmp
    /\ UNCHANGED <<fin, dirty, data, file, stopper, who, ncrash>>
Replace(i, f) ==
    /\ pc[i] = "replace"
    /\ \/ /\ f = "none" /\ WAct(i, f)
          /\ file' = [file EXCEPT ![i] = IF tmp[i].st = "complete" THEN tmp[i].v ELSE -1]
          /\ tmp' = [tmp EXCEPT ![i] = NoTmp] /\ isBusy' = FALSE /\ cp' = [cp EXCEPT ![i] = 0]
          /\ pc' = [pc EXCEPT ![i] = IF fin[i] THEN "exited" ELSE "rateSleep"]
          /\ UNCHANGED <<poisoned, errSince, used, nerrs>>
       \/ /\ f = "io" /\ Injected(i) /\ ErrExit(i, {}) /\ UNCHANGED <<file, tmp, poisoned>>
    /\ UNCHANGED <<fin, dirty, data, stopper, who, ncrash>>
W(i, f) == \/ f = "none" /\ (SleepDone(i) \/ WaitDirty(i) \/ WaitBusy(i) \/ ClearDirty(i) \/ Copy(i))
           \/ SaveOpen(i, f) \/ SaveWrite(i, f) \/ SaveClose(i, f) \/ Replace(i, f)

Next == \/ \E i \in M : SaveAll(i)
        \/ Shutdown \/ Crash \/ ForceRelease
        \/ \E i \in M, f \in {"none", "io"} : W(i, f)
Spec == Init /\ [][Next]_vars
FairSpec == Spec /\ \A i \in M : WF_vars(W(i, "none"))

\* ------------------------------------------------------------------------------------ properties
TypeOK == /\ pc \in [M -> PCs] /\ fin \in [M -> BOOLEAN] /\ dirty \in [M -> BOOLEAN]
          /\ data \in [M -> 0..MaxSaves] /\ cp \in [M -> 0..MaxSaves] /\ file \in [M -> -1..MaxSaves]
          /\ \A i \in M : tmp[i].st \in {"absent", "partial", "complete"} /\ tmp[i].v \in 0..MaxSaves
          /\ isBusy \in BOOLEAN /\ stopper \in BOOLEAN /\ poisoned \in BOOLEAN /\ used \subseteq Deviations
\* at every instant (hence at every crash point) the data file is absent or a complete version handed to its manager
NeverTorn == \A i \in M : file[i] = 0 \/ (file[i] \in 1..Len(who) /\ who[file[i]] = i)
\* a writer that has run to its end after Shutdown leaves the last saved data on disk
DurableAfterShutdown == \A i \in M : pc[i] = "exited" => (file[i] = data[i] \/ errSince[i])
SingleWriter == Cardinality(Holders) <= 1
BusyWhileWriting == Holders # {} => isBusy
\* liveness (under FairSpec): a failed write does not stop later saves
Written == \A i \in M : dirty[i] ~> (file[i] = data[i] \/ errSince[i])
BusyFree == isBusy ~> ~isBusy
WriterEnds == \A i \in M : stopper ~> (pc[i] = "exited" \/ ~stopper)
=============================================================================
