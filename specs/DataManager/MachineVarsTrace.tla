--------------------------- MODULE MachineVarsTrace ---------------------------
(* Recorded executions of the real MachineVariables on booted machines.  A reboot shuts the        *)
(* machine down, passes what its data manager was last handed through the real YAML writer and     *)
(* loader and boots a new machine on it with the wall clock moved on.  Logged for a reboot: for    *)
(* every persistent name whether the variable exists afterwards and whether its value equals the   *)
(* value last set (the comparison is made by the driver on the real values).                       *)
EXTENDS MachineVars, TraceIO
VARIABLES tid, l
tvars == <<vars, tid, l>>
TL == TraceLines[tid].ev
TConfigs == {}
TInit == /\ tid \in 1..Len(TraceLines) /\ l = 1 /\ cfg = TraceLines[tid].cfg
         /\ mv = [k \in Names |-> Absent] /\ disk = [k \in Names |-> NoDisk]
         /\ now = 0 /\ nops = 0 /\ act = [op |-> "init"]
Step(e) ==
    \/ e.op = "set" /\ Set(e.n, e.v)
    \/ e.op = "adv" /\ Adv(e.d)
    \/ e.op = "reboot" /\ Reboot(e.down)
         /\ \A n \in Names : cfg[n].persist =>
                /\ e.obs[n].present = mv'[n].present
                /\ mv'[n].present => e.obs[n].eq
TNext == l <= Len(TL) /\ Step(TL[l]) /\ l' = l + 1 /\ UNCHANGED tid
TSpec == TInit /\ [][TNext]_tvars
Reporter == TraceReport(tid, l, Len(TL))
=============================================================================
