--------------------------- MODULE MachineVarsTrace ---------------------------
(* Recorded executions of the real MachineVariables on booted machines (the machine config         *)
(* declares the variables whose policy says declared = TRUE in its machine_vars: section).  A      *)
(* reboot shuts the machine down, passes what its data manager was last handed through the real    *)
(* YAML writer and loader and boots a new machine on it with the wall clock moved on.              *)
(* Logged for a reboot, for every persistent or declared name: whether the variable exists         *)
(* afterwards, the id of its value (the driver only translates real values to the ids of its value *)
(* table, -1 = none of them) and its persist flag.  Logged for every set and reboot: `file`, the    *)
(* variables the data file holds at that moment (present, value id).                               *)
EXTENDS MachineVars, TraceIO
VARIABLES tid, l
tvars == <<vars, tid, l>>
TL == TraceLines[tid].ev
TConfigs == {}
TInit == /\ tid \in 1..Len(TraceLines) /\ l = 1 /\ cfg = TraceLines[tid].cfg
         /\ mv = [k \in Names |-> Fresh(k)] /\ disk = [k \in Names |-> NoDisk]
         /\ now = 0 /\ nops = 0 /\ act = [op |-> "init"]
\* the variables seen after a boot are the ones of the model
Seen(obs) == \A n \in Names : (cfg[n].persist \/ cfg[n].declared) =>
                /\ obs[n].present = mv'[n].present
                /\ mv'[n].present => /\ obs[n].v = mv'[n].v
                                     /\ obs[n].pers = mv'[n].pers
\* the file: validated against the design, it has to keep the persistent variables (the statement); when named
\* deviations are switched on to explain a rejected execution it has to be exactly the store of the model (but for
\* entries whose expiry time has passed: the model keeps them until the next write, a boot that loads any other
\* variable of the machine - also one the policy does not name - rewrites the file without them)
FileOK(f) == IF Deviations = {} THEN Keeps(f, mv')
             ELSE \A n \in Names : /\ f[n].present => disk'[n].present /\ f[n].v = disk'[n].v
                                   /\ (disk'[n].present /\ ~f[n].present) =>
                                          disk'[n].expire > 0 /\ disk'[n].expire < now'
Step(e) ==
    \/ e.op = "set" /\ Set(e.n, e.v) /\ FileOK(e.file)
    \/ e.op = "adv" /\ Adv(e.d)
    \/ e.op = "reboot" /\ Reboot(e.down) /\ Seen(e.obs) /\ FileOK(e.file)
TNext == l <= Len(TL) /\ Step(TL[l]) /\ l' = l + 1 /\ UNCHANGED tid
TSpec == TInit /\ [][TNext]_tvars
Reporter == TraceReport(tid, l, Len(TL))
=============================================================================
