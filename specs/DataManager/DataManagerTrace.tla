--------------------------- MODULE DataManagerTrace ---------------------------
(* Every recorded execution of the real DataManager / FileManager / YamlInterface (writer threads  *)
(* run under the driver's cooperative scheduler) must be a behaviour of DataManager.               *)
(* Logged lines:                                                                                   *)
(*   save      main called save_all(value of version v) on manager i; k = kind of the value: "ok", *)
(*             "norepr" (holds something the YAML dumper cannot represent), "nocopy" (holds        *)
(*             something copy.deepcopy cannot copy)                                                *)
(*   shutdown  machine.thread_stopper.set() (stub machine of part 1)                               *)
(*   stop      machine.stop() / the `quit` event on a booted machine (part 3)                      *)
(*   dostop    MachineController._do_stop() was entered (called by the real _run_loop after a stop *)
(*             request, or directly)                                                               *)
(*   h         one more handler of the `shutdown` event (or of an event posted by such a handler)  *)
(*             was called by the event manager; the lines up to the next h / stopped were executed *)
(*             inside it                                                                           *)
(*   stopped   _do_stop() has returned (shutdown() has set the stopper and stopped the machine)    *)
(*   exit      the process has ended with exit code 0; `disk` is what its data files hold now      *)
(* A trace with "free": true is the record of a real `mpf game` process (part 4: nothing patched,  *)
(* real threads, real time): the steps of its writer threads are not observed - any number of      *)
(* them may have happened between two lines - and `disk` is only known at the exit line.           *)
(* When the stopper is set is NOT compared: what the statement is about is the data on disk once   *)
(* the writers have ended, and that every writer step is one the model can take (a writer that     *)
(* ends before the handlers are done is not).                                                      *)
(*   w         writer i was released from scheduling point `pc` (fault "io": an OSError was raised *)
(*             there, "exc": an exception of another class) and ran to its next point `npc`        *)
(*   crash     the process died here: the data directory was copied and re-loaded by new managers; *)
(*             `loaded` are the versions their loaders produced                                    *)
(*   unwedge   the harness reset a leaked FileManager.is_busy while no writer was saving           *)
(*   end       after shutdown every writer was stepped until it ended (or a step budget ran out)   *)
(* `disk` = version of each data file as parsed by the real loader after the step (0 absent,       *)
(* -1 torn / not a version that was ever saved).  The busy flag itself is not compared.            *)
EXTENDS DataManager, TraceIO
VARIABLES tid, l, ended
tvars == <<vars, tid, l, ended>>
TL == TraceLines[tid].ev
TInit == /\ tid \in 1..Len(TraceLines) /\ l = 1 /\ ended = FALSE /\ Init
Free == "free" \in DOMAIN TraceLines[tid] /\ TraceLines[tid].free
Disk(d) == \A i \in M : file'[i] = d[i]
Obs(e) == IF Free THEN TRUE ELSE Disk(e.disk)
\* the point the real thread reached.  On the shutdown-flush path the statement does not say whether the flag is
\* cleared / a fresh copy is taken (the code does `FileManager.save(self.filename, copy.deepcopy(self.data))`
\* without a clear): there the model may still be one or two silent steps (see TNext) behind the logged point;
\* the next line of this writer requires its pc to have caught up
Npc(i, npc) == \/ pc'[i] = npc
               \/ fin'[i] /\ ((pc'[i] = "clearDirty" /\ npc \in {"copy", "saveOpen"}) \/ (pc'[i] = "copy" /\ npc = "saveOpen"))
Step(e) ==
    \/ e.op = "save" /\ SaveAll(e.i, e.k) /\ data'[e.i] = e.v /\ Obs(e) /\ UNCHANGED ended
    \/ e.op = "shutdown" /\ Shutdown /\ Disk(e.disk) /\ UNCHANGED ended
    \/ e.op = "stop" /\ StopRequested /\ Obs(e) /\ UNCHANGED ended
    \/ e.op = "dostop" /\ DoStop /\ Obs(e) /\ UNCHANGED ended
    \/ e.op = "h" /\ Handler /\ Obs(e) /\ UNCHANGED ended
    \/ e.op = "stopped" /\ StopperSet /\ Obs(e) /\ UNCHANGED ended
    \/ e.op = "w" /\ pc[e.i] = e.pc /\ W(e.i, e.fault) /\ Npc(e.i, e.npc) /\ Disk(e.disk) /\ UNCHANGED ended
    \/ e.op = "crash" /\ Crash /\ (\A i \in M : file[i] = e.loaded[i]) /\ UNCHANGED ended
    \/ e.op = "unwedge" /\ ForceRelease /\ UNCHANGED ended
    \/ e.op = "exit" /\ ProcessExit /\ (\A i \in M : file[i] = e.disk[i]) /\ ended' = TRUE
    \/ e.op = "end" /\ (\A i \in M : e.exited[i] = (pc[i] = "exited")) /\ (\A i \in M : file[i] = e.disk[i])
                    /\ ended' = TRUE /\ UNCHANGED vars
TNext == \/ l <= Len(TL) /\ Step(TL[l]) /\ l' = l + 1 /\ UNCHANGED tid
         \* the statement does not say whether the shutdown flush clears the flag / takes a fresh copy:
         \* on that path these two steps may be absent from the real thread
         \/ \E i \in M : fin[i] /\ (ClearDirty(i) \/ Copy(i, "none")) /\ UNCHANGED <<tid, l, ended>>
         \* a real process: unobserved steps of the writer threads
         \/ Free /\ (\E i \in M : W(i, "none")) /\ UNCHANGED <<tid, l, ended>>
         \* second pass only (never enabled with Deviations = {}): the stopper was set before the handlers were done
         \/ EarlyStopper /\ UNCHANGED <<tid, l, ended>>
TSpec == TInit /\ [][TNext]_tvars
Reporter == TraceReport(tid, l, Len(TL))
\* monitors (first pass, Deviations = {})
AllExitedAtEnd == ended => \A i \in M : pc[i] = "exited"
\* second pass (all deviations enabled): which deviations does an explanation of the whole trace need?
UsedReport == (l = Len(TL) + 1) => PrintT("USED " \o ToString(tid) \o " " \o ToString(used))
=============================================================================
