----------------------------- MODULE ExtraBallsMC -----------------------------
EXTENDS ExtraBalls
MCConfigs == {[id |-> 1, gen |-> TRUE, gmpg |-> 0, gmpb |-> 0, ml |-> 0, mem |-> TRUE, eb |-> <<[en |-> TRUE, mpg |-> 1, grp |-> TRUE], [en |-> TRUE, mpg |-> 2, grp |-> TRUE]>>],
   [id |-> 2, gen |-> TRUE, gmpg |-> 0, gmpb |-> 0, ml |-> 1, mem |-> TRUE, eb |-> <<[en |-> TRUE, mpg |-> 0, grp |-> TRUE], [en |-> TRUE, mpg |-> 1, grp |-> FALSE]>>],
   [id |-> 3, gen |-> TRUE, gmpg |-> 0, gmpb |-> 1, ml |-> 2, mem |-> FALSE, eb |-> <<[en |-> TRUE, mpg |-> 0, grp |-> TRUE], [en |-> TRUE, mpg |-> 0, grp |-> TRUE]>>],
   [id |-> 4, gen |-> TRUE, gmpg |-> 2, gmpb |-> 0, ml |-> 0, mem |-> FALSE, eb |-> <<[en |-> TRUE, mpg |-> 0, grp |-> TRUE], [en |-> TRUE, mpg |-> 2, grp |-> FALSE]>>],
   [id |-> 5, gen |-> TRUE, gmpg |-> 2, gmpb |-> 1, ml |-> 2, mem |-> TRUE, eb |-> <<[en |-> TRUE, mpg |-> 2, grp |-> TRUE], [en |-> TRUE, mpg |-> 0, grp |-> TRUE]>>],
   [id |-> 6, gen |-> FALSE, gmpg |-> 0, gmpb |-> 0, ml |-> 0, mem |-> TRUE, eb |-> <<[en |-> TRUE, mpg |-> 0, grp |-> TRUE], [en |-> FALSE, mpg |-> 0, grp |-> FALSE]>>],
   [id |-> 7, gen |-> TRUE, gmpg |-> 1, gmpb |-> 1, ml |-> 1, mem |-> TRUE, eb |-> <<[en |-> TRUE, mpg |-> 1, grp |-> TRUE], [en |-> FALSE, mpg |-> 1, grp |-> TRUE]>>],
   [id |-> 8, gen |-> TRUE, gmpg |-> 1, gmpb |-> 0, ml |-> 2, mem |-> TRUE, eb |-> <<[en |-> TRUE, mpg |-> 0, grp |-> TRUE], [en |-> TRUE, mpg |-> 0, grp |-> FALSE]>>],
   [id |-> 9, gen |-> TRUE, gmpg |-> 0, gmpb |-> 1, ml |-> 0, mem |-> TRUE, eb |-> <<[en |-> TRUE, mpg |-> 0, grp |-> TRUE], [en |-> TRUE, mpg |-> 1, grp |-> FALSE]>>],
   [id |-> 10, gen |-> TRUE, gmpg |-> 0, gmpb |-> 0, ml |-> 0, mem |-> FALSE, eb |-> <<[en |-> TRUE, mpg |-> 1, grp |-> TRUE], [en |-> TRUE, mpg |-> 1, grp |-> TRUE]>>]}
MCNoDev == {}
MCAllDev == {"keeplit", "nounlit", "lightcrash", "lightnocount"}
MCGenDev == {"keeplit", "nounlit", "lightnocount"}
=============================================================================
