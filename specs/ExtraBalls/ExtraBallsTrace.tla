--------------------------- MODULE ExtraBallsTrace ---------------------------
(* One recorded execution of the real extra balls / extra ball group of one configuration inside a running (fake) game. *)
(* Logged per step: the operation, the number of times each event of the statement was posted during the step (a bag:    *)
(* the order inside a step is not compared), and afterwards, while a game runs: number of players, current player, its  *)
(* ball number, and per player extra_balls, lit count, the group's per-game / per-ball counts, each extra ball's count. *)
EXTENDS ExtraBalls, TraceIO
VARIABLES tid, l
tvars == <<vars, tid, l>>
TL == TraceLines[tid].ev
TConfigs == {}
TAllDev == {"keeplit", "nounlit", "lightcrash", "lightnocount"}
TInit == /\ tid \in 1..Len(TraceLines) /\ l = 1 /\ cfg = TraceLines[tid].cfg
         /\ ph = "idle" /\ np = 1 /\ cur = 1 /\ ball = [p \in P |-> 0] /\ xb = [p \in P |-> 0]
         /\ ebn = [p \in P |-> [i \in EBs |-> 0]] /\ gg = [p \in P |-> 0] /\ gb = [p \in P |-> 0] /\ lit = [p \in P |-> 0]
         /\ out = Zero /\ act = [op |-> "init"] /\ nops = 0 /\ ngames = 0 /\ crashed = FALSE
ObsState(e) == /\ e.run = (ph' = "ball")
               /\ e.run => /\ e.np = np' /\ e.cur = cur' /\ e.ball = ball'[cur']
                           /\ \A p \in 1..np' : /\ e.xb[p] = xb'[p] /\ e.lit[p] = lit'[p] /\ e.gg[p] = gg'[p] /\ e.gb[p] = gb'[p]
                                                /\ \A i \in EBs : e.ebn[p][i] = ebn'[p][i]
Step(e) ==
    IF e.op = "crash" THEN e.after = "glight" /\ e.attr /\ GLight /\ crashed'
    ELSE /\ \/ e.op = "gaward" /\ GAward
            \/ e.op = "gawardlit" /\ GAwardLit
            \/ e.op = "glight" /\ GLight /\ ~crashed'
            \/ e.op = "eblight" /\ EbLight(e.i)
            \/ e.op = "ebaward" /\ EbAward(e.i)
            \/ e.op = "newgame" /\ NewGame
            \/ e.op = "addplayer" /\ AddPlayer
            \/ e.op = "ballend" /\ BallEnd
            \/ e.op = "endgame" /\ EndGame
         /\ out' = e.out
         /\ ObsState(e)
TNext == l <= Len(TL) /\ Step(TL[l]) /\ l' = l + 1 /\ UNCHANGED tid
TSpec == TInit /\ [][TNext]_tvars
Reporter == TraceReport(tid, l, Len(TL))
=============================================================================
