----------------------------- MODULE ExtraBalls -----------------------------
(* STATEMENT (X07, written from the docstrings / event descriptions of mpf/devices/extra_ball.py,                       *)
(* mpf/devices/extra_ball_group.py, the config_spec sections extra_balls / extra_ball_groups and Game._award_extra_ball): *)
(* For any sequence of light / award events on extra balls (members of a group or not), light / award / award_lit events   *)
(* on the group, ball ends, player additions, game ends and new games (1..MaxP players, BPG balls):                       *)
(*  - an extra ball is awarded at most `max_per_game` times per player per game (0 = unlimited); a group awards at most    *)
(*    `max_per_game` per player per game and at most `max_per_ball` per TURN (the count is reset when the turn starts,     *)
(*    not when the same player shoots again); at most `max_lit` extra balls of a group are lit at once per player;         *)
(*  - every award raises player.extra_balls of the current player by exactly one and posts `extra_ball_awarded` exactly    *)
(*    once, together with the device's own `extra_ball_<name>_awarded` / `extra_ball_group_<name>_awarded`;                 *)
(*  - a refused light / award (device or group `enabled: false`, a limit reached, no player) changes nothing and posts the *)
(*    award_disabled events instead (`extra_ball_award_disabled`, `extra_ball_<name>_award_disabled`, and                  *)
(*    `extra_ball_group_<name>_award_disabled` for a member / for the group); nothing is awarded then;                      *)
(*  - lighting posts `extra_ball_<name>_lit` and, in a group, `extra_ball_group_<name>_lit_awarded` + `..._lit` and raises  *)
(*    the player's lit count; `award_lit` consumes exactly one lit extra ball and awards it, and does nothing when none is *)
(*    lit; `..._unlit` is posted when the last lit one is used up, and when an award reaches a limit of the group (then     *)
(*    none stays lit: "if this award puts us over the max limits, make sure none are lit");                                *)
(*  - `..._lit` is posted again at each ball start of a player who still has a lit one (`lit_memory: true` keeps the lit    *)
(*    count over the turns, otherwise it is cleared at turn end); lit count and award counts are per player, reset by a     *)
(*    new game;                                                                                                            *)
(*  - in the game: a player with extra_balls > 0 whose ball ends plays the next ball with the same ball number, with        *)
(*    extra_balls decremented by one, without a turn change (so without a reset of the per-ball count).                     *)
(*                                                                                                                        *)
(* Deviations (the code contradicts its documentation; named so that the check describes the code as it is):               *)
(*  "keeplit"      ExtraBallGroup.award clears the player variable literally called 'extra_ball_group_{}_num_lit' (format   *)
(*                 forgotten): the lit count is NOT cleared when an award reaches a limit (unlit is still posted)           *)
(*  "nounlit"      ExtraBallGroup.award_lit passes posted_unlit_events=True in both branches: when lit extra balls remain   *)
(*                 and the award reaches a limit, `_unlit` is never posted                                                  *)
(*  "lightcrash"   ExtraBallGroup.light calls the non-existing self._extra_ball_award_disabled() when lighting is refused   *)
(*                 (AttributeError) instead of posting the disabled events promised by its docstring                       *)
(*  "lightnocount" ExtraBall.light does not count against max_per_game although its docstring says it does                   *)
EXTENDS Naturals, Sequences, FiniteSets, TLC
CONSTANTS Configs, MaxOps, MaxP, BPG, MaxGames, Deviations
VARIABLES cfg, ph, np, cur, ball, xb, ebn, gg, gb, lit, out, act, nops, ngames, crashed
gamev == <<ph, np, cur, ball, ngames>>
devv == <<xb, ebn, gg, gb, lit>>
vars == <<cfg, ph, np, cur, ball, xb, ebn, gg, gb, lit, out, act, nops, ngames, crashed>>
P == 1..MaxP
EBs == {1, 2}
Zero == [dis |-> 0, awd |-> 0, g_awd |-> 0, g_dis |-> 0, g_lit |-> 0, g_litawd |-> 0, g_unlit |-> 0,
         e1_lit |-> 0, e2_lit |-> 0, e1_awd |-> 0, e2_awd |-> 0, e1_dis |-> 0, e2_dis |-> 0]
Bump(o, n) == [o EXCEPT ![n] = @ + 1]
ELit(i) == IF i = 1 THEN "e1_lit" ELSE "e2_lit"
EAwd(i) == IF i = 1 THEN "e1_awd" ELSE "e2_awd"
EDis(i) == IF i = 1 THEN "e1_dis" ELSE "e2_dis"
Dev(d) == d \in Deviations

GOver(g, b) == (cfg.gmpg > 0 /\ cfg.gmpg <= g) \/ (cfg.gmpb > 0 /\ cfg.gmpb <= b)
GEn(p) == ph = "ball" /\ cfg.gen /\ ~GOver(gg[p], gb[p])
GOkLight == GEn(cur) /\ ~(cfg.ml > 0 /\ cfg.ml <= lit[cur])
EbOkAward(i) == /\ ph = "ball" /\ cfg.eb[i].en /\ (cfg.eb[i].grp => GEn(cur))
                /\ ~(cfg.eb[i].mpg > 0 /\ cfg.eb[i].mpg <= ebn[cur][i])
EbOkLight(i) == EbOkAward(i) /\ (cfg.eb[i].grp => GOkLight)

Init == /\ cfg \in Configs /\ ph = "idle" /\ np = 1 /\ cur = 1 /\ ball = [p \in P |-> 0] /\ xb = [p \in P |-> 0]
        /\ ebn = [p \in P |-> [i \in EBs |-> 0]] /\ gg = [p \in P |-> 0] /\ gb = [p \in P |-> 0] /\ lit = [p \in P |-> 0]
        /\ out = Zero /\ act = [op |-> "init"] /\ nops = 0 /\ ngames = 0 /\ crashed = FALSE
Op(a) == /\ ~crashed /\ nops < MaxOps /\ nops' = nops + 1 /\ act' = a /\ UNCHANGED cfg

\* ExtraBallGroup.award once it is allowed; lit0: lit count before, posted: unlit already posted by award_lit, o: events so far
DoGAward(lit0, posted, o) ==
    LET g1 == gg[cur] + 1
        b1 == gb[cur] + 1
        over == GOver(g1, b1)
        o1 == Bump(Bump(o, "g_awd"), "awd")
    IN /\ gg' = [gg EXCEPT ![cur] = g1] /\ gb' = [gb EXCEPT ![cur] = b1] /\ xb' = [xb EXCEPT ![cur] = @ + 1]
       /\ lit' = [lit EXCEPT ![cur] = IF over /\ ~Dev("keeplit") THEN 0 ELSE lit0]
       /\ out' = IF over /\ ~posted THEN Bump(o1, "g_unlit") ELSE o1
GRefuse(o) == out' = Bump(o, "g_dis") /\ UNCHANGED <<xb, gg, gb, lit>>
Nothing == out' = Zero /\ UNCHANGED devv

GAward == /\ Op([op |-> "gaward"]) /\ UNCHANGED <<gamev, ebn, crashed>>
          /\ IF GEn(cur) THEN DoGAward(lit[cur], FALSE, Zero) ELSE GRefuse(Zero)
GAwardLit == /\ Op([op |-> "gawardlit"]) /\ UNCHANGED <<gamev, ebn, crashed>>
             /\ IF ph # "ball" THEN out' = Zero /\ UNCHANGED <<xb, gg, gb, lit>>
                ELSE IF ~GEn(cur) THEN GRefuse(Zero)
                ELSE IF lit[cur] < 1 THEN out' = Zero /\ UNCHANGED <<xb, gg, gb, lit>>
                ELSE LET l1 == lit[cur] - 1
                     IN DoGAward(l1, l1 = 0 \/ Dev("nounlit"), IF l1 = 0 THEN Bump(Zero, "g_unlit") ELSE Zero)
GLight == /\ Op([op |-> "glight"]) /\ UNCHANGED <<gamev, ebn>>
          /\ IF GOkLight THEN /\ lit' = [lit EXCEPT ![cur] = @ + 1] /\ out' = Bump(Bump(Zero, "g_litawd"), "g_lit")
                              /\ UNCHANGED <<xb, gg, gb, crashed>>
             ELSE IF Dev("lightcrash") THEN crashed' = TRUE /\ Nothing
             ELSE GRefuse(Zero) /\ UNCHANGED crashed
EbRefuse(i) == /\ out' = LET o == Bump(Bump(Zero, "dis"), EDis(i)) IN IF cfg.eb[i].grp THEN Bump(o, "g_dis") ELSE o
               /\ UNCHANGED devv
EbLight(i) == /\ Op([op |-> "eblight", i |-> i]) /\ UNCHANGED <<gamev, crashed>>
              /\ IF ph # "ball" THEN Nothing
                 ELSE IF EbOkLight(i)
                 THEN /\ ebn' = IF Dev("lightnocount") THEN ebn ELSE [ebn EXCEPT ![cur][i] = @ + 1]
                      /\ UNCHANGED <<xb, gg, gb>>
                      /\ IF cfg.eb[i].grp
                         THEN lit' = [lit EXCEPT ![cur] = @ + 1] /\ out' = Bump(Bump(Bump(Zero, ELit(i)), "g_litawd"), "g_lit")
                         ELSE lit' = lit /\ out' = Bump(Zero, ELit(i))
                 ELSE EbRefuse(i)
EbAward(i) == /\ Op([op |-> "ebaward", i |-> i]) /\ UNCHANGED <<gamev, crashed>>
              /\ IF ph # "ball" THEN Nothing
                 ELSE IF EbOkAward(i)
                 THEN /\ ebn' = [ebn EXCEPT ![cur][i] = @ + 1]
                      /\ IF cfg.eb[i].grp THEN DoGAward(lit[cur], FALSE, Bump(Zero, EAwd(i)))
                         ELSE /\ xb' = [xb EXCEPT ![cur] = @ + 1] /\ out' = Bump(Bump(Zero, EAwd(i)), "awd")
                              /\ UNCHANGED <<gg, gb, lit>>
                 ELSE EbRefuse(i)

LitEv(l) == IF l > 0 THEN Bump(Zero, "g_lit") ELSE Zero
NewGame == /\ ph = "idle" /\ ngames < MaxGames /\ Op([op |-> "newgame"]) /\ ngames' = ngames + 1
           /\ ph' = "ball" /\ np' = 1 /\ cur' = 1 /\ ball' = [p \in P |-> IF p = 1 THEN 1 ELSE 0]
           /\ xb' = [p \in P |-> 0] /\ ebn' = [p \in P |-> [i \in EBs |-> 0]] /\ gg' = [p \in P |-> 0]
           /\ gb' = [p \in P |-> 0] /\ lit' = [p \in P |-> 0] /\ out' = Zero /\ UNCHANGED crashed
AddPlayer == /\ ph = "ball" /\ ball[cur] = 1 /\ np < MaxP /\ Op([op |-> "addplayer"]) /\ np' = np + 1
             /\ out' = Zero /\ UNCHANGED <<ph, cur, ball, ngames, devv, crashed>>
BallEnd == /\ ph = "ball" /\ Op([op |-> "ballend"]) /\ UNCHANGED <<ebn, gg, np, ngames, crashed>>
           /\ IF xb[cur] > 0
              THEN /\ xb' = [xb EXCEPT ![cur] = @ - 1] /\ out' = LitEv(lit[cur]) /\ UNCHANGED <<ph, cur, ball, gb, lit>>
              ELSE LET litE == IF cfg.mem THEN lit ELSE [lit EXCEPT ![cur] = 0]
                       nx == IF cur = np THEN 1 ELSE cur + 1
                   IN /\ lit' = litE /\ xb' = xb
                      /\ IF ball[cur] >= BPG /\ cur = np
                         THEN ph' = "idle" /\ out' = Zero /\ UNCHANGED <<cur, ball, gb>>
                         ELSE /\ cur' = nx /\ ball' = [ball EXCEPT ![nx] = @ + 1] /\ gb' = [gb EXCEPT ![nx] = 0]
                              /\ out' = LitEv(litE[nx]) /\ ph' = ph
EndGame == /\ ph = "ball" /\ Op([op |-> "endgame"]) /\ ph' = "idle" /\ out' = Zero
           /\ lit' = IF cfg.mem THEN lit ELSE [lit EXCEPT ![cur] = 0]
           /\ UNCHANGED <<np, cur, ball, ngames, xb, ebn, gg, gb, crashed>>

Next == \/ GAward \/ GAwardLit \/ GLight \/ \E i \in EBs : EbLight(i) \/ EbAward(i)
        \/ NewGame \/ AddPlayer \/ BallEnd \/ EndGame
Spec == Init /\ [][Next]_vars

\* ---- properties ------------------------------------------------------------------------------------------------------
TypeOK == /\ ph \in {"idle", "ball"} /\ np \in P /\ cur \in 1..np /\ \A p \in P : ball[p] \in 0..BPG
          /\ \A n \in DOMAIN out : out[n] \in 0..2
EbLimit == \A p \in P, i \in EBs : cfg.eb[i].mpg > 0 => ebn[p][i] <= cfg.eb[i].mpg
GroupGameLimit == \A p \in P : cfg.gmpg > 0 => gg[p] <= cfg.gmpg
GroupBallLimit == \A p \in P : cfg.gmpb > 0 => gb[p] <= cfg.gmpb
LitLimit == \A p \in P : cfg.ml > 0 => lit[p] <= cfg.ml
DisabledInert == /\ ~cfg.gen => \A p \in P : gg[p] = 0 /\ lit[p] = 0
                 /\ \A i \in EBs, p \in P : ~cfg.eb[i].en => ebn[p][i] = 0
\* documented intent (does not hold with deviation "keeplit"): a player who reached a limit of the group has none lit
NoneLitAtLimit == /\ \A p \in P : (cfg.gmpg > 0 /\ gg[p] >= cfg.gmpg) => lit[p] = 0
                  /\ (ph = "ball" /\ cfg.gmpb > 0 /\ gb[cur] >= cfg.gmpb) => lit[cur] = 0
DevOps == {"gaward", "gawardlit", "glight", "eblight", "ebaward"}
IsDev == act'.op \in DevOps
\* one extra ball, one extra_ball_awarded and the device's own event per award; only the current player is touched
AwardAccounting == [][IsDev => /\ out'.awd \in {0, 1} /\ xb' = [xb EXCEPT ![cur] = @ + out'.awd]
                               /\ out'.awd = 1 <=> (out'.g_awd = 1 \/ out'.e1_awd = 1 \/ out'.e2_awd = 1)
                               /\ out'.g_awd = 1 => (gg'[cur] = gg[cur] + 1 /\ gb'[cur] = gb[cur] + 1)
                               /\ \A p \in P \ {cur} : lit'[p] = lit[p] /\ gg'[p] = gg[p] /\ gb'[p] = gb[p] /\ ebn'[p] = ebn[p]]_vars
RefusedChangesNothing == [][(IsDev /\ (out'.dis > 0 \/ out'.g_dis > 0)) => (UNCHANGED devv /\ out'.awd = 0 /\ out'.g_unlit = 0
                                                                            /\ out'.g_lit = 0)]_vars
OutsideBallInert == [][(IsDev /\ ph = "idle") => UNCHANGED devv /\ out'.awd = 0]_vars
AwardLitConsumesOne == [][(act'.op = "gawardlit") =>
                            /\ (lit[cur] = 0 \/ ~GEn(cur)) => (out'.awd = 0 /\ UNCHANGED devv)
                            /\ (lit[cur] > 0 /\ GEn(cur)) => (out'.awd = 1 /\ lit'[cur] <= lit[cur] - 1)
                            /\ (lit[cur] = 1 /\ GEn(cur)) => out'.g_unlit = 1]_vars
ShootAgain == [][(act'.op = "ballend" /\ xb[cur] > 0) =>
                    (cur' = cur /\ ball' = ball /\ ph' = "ball" /\ xb' = [xb EXCEPT ![cur] = @ - 1] /\ gb' = gb /\ lit' = lit)]_vars
TurnResetsPerBall == [][(act'.op = "ballend" /\ xb[cur] = 0 /\ ph' = "ball") => (gb'[cur'] = 0 /\ ball'[cur'] = ball[cur'] + 1)]_vars
RelitAtBallStart == [][(act'.op = "ballend" /\ ph' = "ball") => (out'.g_lit = 1 <=> lit'[cur'] > 0)]_vars
NoMemoryClears == [][(act'.op \in {"ballend", "endgame"} /\ ~cfg.mem /\ ~(act'.op = "ballend" /\ xb[cur] > 0)) => lit'[cur] = 0]_vars
=============================================================================
