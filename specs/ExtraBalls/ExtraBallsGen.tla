---------------------------- MODULE ExtraBallsGen ----------------------------
(* Schedule generator (tlc -simulate only): the KIND of the next step is drawn first, then its arguments, so that ball   *)
(* ends / player additions are not starved by the device operations.                                                     *)
EXTENDS ExtraBallsMC
VARIABLES pick
gvars == <<vars, pick>>
Kinds == <<"eblight", "eblight", "ebaward", "ebaward", "glight", "gaward", "gawardlit", "gawardlit", "ballend", "ballend",
           "addplayer", "newgame", "newgame", "newgame", "endgame">>
CanDo(kd) == CASE kd = "newgame" -> ph = "idle" /\ ngames < MaxGames
               [] kd = "addplayer" -> ph = "ball" /\ ball[cur] = 1 /\ np < MaxP
               [] kd = "ballend" -> ph = "ball"
               [] kd = "endgame" -> ph = "ball" /\ nops % 7 = 0
               [] kd = "glight" -> GOkLight \/ (nops > 6 /\ nops % 4 = 0)
               [] OTHER -> ph = "ball" \/ nops % 3 = 0
GInit == Init /\ pick = 0
Draw == /\ pick = 0 /\ ~crashed /\ nops < MaxOps /\ \E k \in 1..Len(Kinds) : CanDo(Kinds[k]) /\ pick' = k
        /\ UNCHANGED vars
Do == /\ pick # 0 /\ pick' = 0
      /\ LET kd == Kinds[pick] IN
         \/ kd = "eblight" /\ \E i \in EBs : EbLight(i)
         \/ kd = "ebaward" /\ \E i \in EBs : EbAward(i)
         \/ kd = "glight" /\ GLight
         \/ kd = "gaward" /\ GAward
         \/ kd = "gawardlit" /\ GAwardLit
         \/ kd = "ballend" /\ BallEnd
         \/ kd = "addplayer" /\ AddPlayer
         \/ kd = "newgame" /\ NewGame
         \/ kd = "endgame" /\ EndGame
GNext == Draw \/ Do
GSpec == GInit /\ [][GNext]_gvars
=============================================================================
