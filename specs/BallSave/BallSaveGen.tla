----------------------------- MODULE BallSaveGen -----------------------------
(* Schedule generator (tlc -simulate only): the KIND of the next step is drawn first (weights in Kinds), then its    *)
(* arguments, so that the many-argument steps do not starve the others.                                              *)
EXTENDS BallSave
VARIABLES pick
gvars == <<vars, pick>>
BsKinds == <<"bs_enable", "bs_enable", "bs_disable", "bs_timer_start", "bs_early", "bs_early", "bs_eject", "extra",
             "drain", "drain", "drain", "drain", "adv", "adv", "adv", "adv">>
MbKinds == <<"mb_enable", "mb_enable", "mb_disable", "mb_reset", "mb_start", "mb_start", "mb_start", "mb_stop", "mb_stop",
             "mb_add", "mb_add", "mb_soa", "drain", "drain", "drain", "drain", "adv", "adv", "adv", "adv">>
Kinds == IF IsBs THEN BsKinds ELSE MbKinds
Do(kd) == CASE kd = "bs_enable" -> BsEnableA [] kd = "bs_disable" -> BsDisableA [] kd = "bs_timer_start" -> BsTimerA
            [] kd = "bs_early" -> BsEarlyA [] kd = "bs_eject" -> BsEjectA [] kd = "extra" -> Extra
            [] kd = "mb_enable" -> MbEnableA [] kd = "mb_disable" -> MbDisableA [] kd = "mb_reset" -> MbResetA
            [] kd = "mb_start" -> MbStartA [] kd = "mb_stop" -> MbStopA [] kd = "mb_add" -> MbAddA [] kd = "mb_soa" -> MbSoaA
            [] kd = "drain" -> \E n \in 1..MaxDrain : Drain(n)
            [] kd = "adv" -> Adv
GInit == Init /\ pick = 0
CanCall == ~w.over /\ NothingDue /\ nops < MaxOps
CanDo(kd) == CASE kd = "adv" -> ~w.over /\ NothingDue /\ now < MaxTime
               [] kd = "bs_timer_start" -> CanCall /\ cfg.tse
               [] kd = "bs_eject" -> CanCall /\ cfg.delayed
               [] kd = "extra" -> CanCall /\ w.bip < Min(cfg.known, MaxBip)
               [] kd = "mb_start" -> CanCall /\ w.bip + cfg.count <= cfg.known
               [] kd = "mb_add" -> CanCall /\ w.bip < cfg.known /\ w.bip < MaxBip
               [] kd = "mb_soa" -> CanCall /\ w.bip + cfg.count <= cfg.known /\ w.bip < MaxBip
               [] kd = "drain" -> CanCall /\ w.pf >= 1
               [] OTHER -> CanCall
Draw == pick = 0 /\ (\E i \in 1..Len(Kinds) : CanDo(Kinds[i]) /\ pick' = i) /\ UNCHANGED vars
Act == pick # 0 /\ pick' = 0 /\ Do(Kinds[pick])
GNext == Draw \/ Act
GSpec == GInit /\ [][GNext]_gvars
=============================================================================
