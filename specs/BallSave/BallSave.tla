------------------------------- MODULE BallSave -------------------------------
(* X04 - ball saves and multiballs (mpf/devices/ball_save.py, mpf/devices/multiball.py) together with the game's       *)
(* balls_in_play accounting (mpf/modes/game/code/game.py, Game.ball_drained on the `ball_drain` relay event).          *)
(*                                                                                                                     *)
(* STATEMENT (from the class / method docstrings, the event descriptions and config_spec.yaml):                        *)
(* For any sequence of enable / disable / timer_start / early_ball_save / delayed_eject events of a ball save, of      *)
(* enable / disable / reset / start / stop / add_a_ball / start_or_add_a_ball events of a multiball, of drains (one or *)
(* several balls in one `ball_drain` relay event) and of passing time, during one ball of a running game:              *)
(*  B1 a ball save is active from its enabling until it is disabled; its timer starts with the enabling (or, when       *)
(*     timer_start_events are configured, with the first such event while enabled) and, when active_time > 0, the save *)
(*     disables itself exactly active_time + grace_period later; `ball_save_X_timer_start` is posted once per          *)
(*     enabling, `..._hurry_up` only at timer start + active_time - hurry_up_time, `..._grace_period` only at timer    *)
(*     start + active_time (each at most once per timer, exactly once when that instant lies before the self-disable), *)
(*     `..._enabled` exactly when it becomes enabled and `..._disabled` exactly when it becomes disabled;              *)
(*  B2 while active each drained ball is saved - taken out of the `balls` count of the relay event, announced by       *)
(*     `ball_save_X_saving_ball` (balls = number saved, which is at least one) and replaced by exactly one ball        *)
(*     requested from the source playfield (player_controlled = not auto_launch; with delayed_eject_events the request *)
(*     waits for that event) - up to balls_to_save balls per enabling (unlimited when -1; only a last ball with        *)
(*     only_last_ball); when no saves remain the save disables itself; a save which is not active never changes the    *)
(*     drain count; an early ball save saves one ball before it drains, and the next drained ball is taken out of the  *)
(*     count without a second replacement;                                                                             *)
(*  B3 balls_in_play never changes because of a saved ball and decreases by exactly the balls the savers left in the   *)
(*     count; balls on (or requested for) the playfield = balls_in_play + early saved balls not yet drained.           *)
(*  M1 multiball start, when enabled and not running, raises balls_in_play to ball_count (`total`) or by ball_count    *)
(*     (`add`), requests exactly the added balls and posts `multiball_X_started` (balls = target) once; a start while  *)
(*     disabled or already running is ignored;                                                                         *)
(*  M2 while shoot again runs (shoot_again ms after the start, unlimited when negative, none when 0; after add_a_ball  *)
(*     add_a_ball_shoot_again) every drained ball is returned (`multiball_X_shoot_again`, one requested ball each, the  *)
(*     drain count reduced); when it ends `multiball_X_shoot_again_ended` is posted once (after the grace period),     *)
(*     `..._hurry_up` / `..._grace_period` once each; stop ends shoot again at once;                                  *)
(*  M3 after shoot again, when a drain leaves at most one ball in play, `multiball_X_ended` is posted once and the     *)
(*     multiball can be started again; add_a_ball adds one ball to a running multiball only.                           *)
(*                                                                                                                     *)
(* The model is one world record `w` (game: bip, pf, over; ball save: ben, bts, rem, early, sched, bD/bG/bH timers;     *)
(* multiball: men, sa, tgt, gr, hu, sh, ch, mD/mG/mH timers; outputs of the last step: out, adds, res) and functions   *)
(* on it which transcribe the methods of the devices one to one.  Time is in abstract units.                           *)
(* Named deviations (code as is; empty set = the statement):                                                           *)
(*   SavingZero          ball_save_X_saving_ball is posted with balls=0 when only_last_ball refuses to save             *)
(*   EnableForgetsEarly  BallSave.enable() zeroes early_saved although the early saved ball has not drained yet         *)
(*   StopKeepsTimers     Multiball.stop() does not cancel the disable_shoot_again / grace_period / hurry_up delays      *)
(*   StopIdle            Multiball.stop() when no shoot again runs posts shoot_again_ended and arms the `ended` counter *)
(*   EndedDoubleCount    Multiball._ball_drain_count_balls subtracts the drained balls from balls_in_play a 2nd time    *)
EXTENDS Integers, Sequences, FiniteSets, TLC
CONSTANTS Configs,      \* records [id, kind, active, grace, hurry, bts, tse, olb, delayed, auto, count, ctype, sa, mgrace, mhurry, aab, known]
          Deviations, MaxTime, MaxOps, MaxDrain, MaxBip
VARIABLES cfg, now, w, nops, act
vars == <<cfg, now, w, nops, act>>
Dev(d) == d \in Deviations
Min(a, b) == IF a < b THEN a ELSE b
Max(a, b) == IF a > b THEN a ELSE b
Emit(x, e, n, f) == [x EXCEPT !.out = Append(@, <<e, n, f>>)]
Clr(x) == [x EXCEPT !.out = <<>>, !.adds = <<>>, !.res = 0]
\* playfield.add_ball(balls=n, player_controlled=pc)
AddBall(x, n, pc) == IF n > 0 THEN [x EXCEPT !.adds = Append(@, <<n, pc>>), !.pf = @ + n] ELSE x
PC == IF cfg.auto THEN 0 ELSE 1
Unlimited == cfg.bts = -1
\* ---------------------------------------------------------------- ball save ----------------------------------------
BsTimerStart(t, x) ==
    IF x.bts \/ ~x.ben THEN x
    ELSE LET x1 == Emit([x EXCEPT !.bts = TRUE], "bs_timer_start", 0, 0)
         IN IF cfg.active > 0
            THEN [x1 EXCEPT !.bD = t + cfg.active + cfg.grace, !.bG = t + cfg.active, !.bH = t + cfg.active - cfg.hurry]
            ELSE x1
BsEnable(t, x) ==
    IF x.ben THEN x
    ELSE LET x1 == [x EXCEPT !.ben = TRUE, !.rem = cfg.bts, !.early = IF Dev("EnableForgetsEarly") THEN 0 ELSE @]
             x2 == IF cfg.active > 0 /\ ~cfg.tse THEN BsTimerStart(t, x1) ELSE x1
         IN Emit(x2, "bs_enabled", 0, 0)
BsDisable(x) ==
    IF ~x.ben THEN x
    ELSE Emit([x EXCEPT !.ben = FALSE, !.bts = FALSE, !.bD = 0, !.bG = 0, !.bH = 0], "bs_disabled", 0, 0)
NumToSave(x, avail) ==
    IF x.bip <= 0 \/ (cfg.olb /\ x.bip > 1) THEN 0
    ELSE LET a1 == IF cfg.olb THEN Min(avail, 1) ELSE avail
             a2 == Min(a1, x.bip)
         IN IF Unlimited THEN a2 ELSE Min(a2, x.rem)
BsSchedule(x, n) == IF cfg.delayed THEN [x EXCEPT !.sched = @ + n] ELSE AddBall(x, n, PC)
BsReduce(x, n) ==
    LET x1 == IF Unlimited THEN x ELSE [x EXCEPT !.rem = @ - n]
    IN IF ~Unlimited /\ x1.rem <= 0 THEN BsDisable(x1) ELSE x1
\* handlers of the relay event return <<world, balls>>
BsDrain(x, balls) ==
    IF ~x.ben \/ balls <= 0 THEN <<x, balls>>
    ELSE LET n  == NumToSave(x, balls)
             x1 == IF n > 0 \/ Dev("SavingZero") THEN Emit(x, "bs_saving", n, 0) ELSE x
         IN <<BsReduce(BsSchedule(x1, n), n), balls - n>>
BsEarly(x) ==
    IF ~x.ben \/ NumToSave(x, 1) = 0 \/ x.early > 0 THEN x
    ELSE BsReduce(BsSchedule(Emit([x EXCEPT !.early = 1], "bs_saving", 1, 1), 1), 1)
EarlyDrain(x, balls) == IF x.early > 0 /\ balls > 0 THEN <<[x EXCEPT !.early = 0], balls - 1>> ELSE <<x, balls>>
BsDelayedEject(x) == AddBall([x EXCEPT !.sched = 0], x.sched, PC)
\* ---------------------------------------------------------------- multiball ----------------------------------------
MbStartShootAgain(t, x, sa, gp, hu) ==
    LET x1 == IF sa > 0 THEN [x EXCEPT !.mD = t + sa + gp] ELSE x
        x2 == IF gp > 0 THEN [x1 EXCEPT !.gr = TRUE, !.mG = t + sa] ELSE x1
    IN IF hu > 0 THEN [x2 EXCEPT !.hu = TRUE, !.mH = t + sa - hu] ELSE x2
\* Multiball.stop() as it is
MbStopCode(x) ==
    LET x1 == [x EXCEPT !.sa = FALSE, !.sh = 0]
        x2 == IF x1.gr THEN Emit([x1 EXCEPT !.gr = FALSE], "mb_grace_period", 0, 0) ELSE x1
        x3 == IF x2.hu THEN Emit([x2 EXCEPT !.hu = FALSE], "mb_hurry_up", 0, 0) ELSE x2
        x4 == [Emit(x3, "mb_sa_ended", 0, 0) EXCEPT !.ch = TRUE]
    IN IF Dev("StopKeepsTimers") THEN x4 ELSE [x4 EXCEPT !.mD = 0, !.mG = 0, !.mH = 0]
MbIdle(x) == ~x.sa /\ x.sh = 0
MbStop(x) == IF MbIdle(x) /\ ~Dev("StopIdle") THEN x ELSE MbStopCode(x)
MbStart(t, x) ==
    IF ~x.men \/ x.tgt > 0 THEN x
    ELSE LET x1 == [x EXCEPT !.sa = TRUE]
             added == IF cfg.ctype = "total" THEN Max(cfg.count - x.bip, 0) ELSE cfg.count
             x2 == IF cfg.ctype = "total" THEN [x1 EXCEPT !.bip = Max(@, cfg.count), !.tgt = cfg.count]
                   ELSE [x1 EXCEPT !.bip = @ + cfg.count, !.tgt = x.bip + cfg.count]
             x3 == AddBall(x2, added, 0)
             x4 == IF cfg.sa = 0 THEN MbStopCode(x3)
                   ELSE MbStartShootAgain(t, [x3 EXCEPT !.sh = @ + 1], cfg.sa, cfg.mgrace, cfg.mhurry)
         IN Emit(x4, "mb_started", x4.tgt, 0)
MbAddABall(t, x) ==
    IF x.tgt <= 0 THEN x
    ELSE LET x1 == AddBall([x EXCEPT !.tgt = @ + 1, !.bip = @ + 1], 1, 0)
         IN IF x1.sa THEN x1
            ELSE IF cfg.aab = 0 THEN MbStopCode([x1 EXCEPT !.sa = TRUE])
            ELSE MbStartShootAgain(t, [x1 EXCEPT !.sa = TRUE, !.sh = @ + 1], cfg.aab, 0, 0)
MbStartOrAdd(t, x) == IF x.tgt > 0 THEN MbAddABall(t, x) ELSE MbStart(t, x)
MbReset(x) == [x EXCEPT !.men = FALSE, !.sa = FALSE]
\* one registration of Multiball._ball_drain_shoot_again
MbShoot(x, balls) ==
    LET to == x.tgt - x.bip + balls
    IN IF to <= 0 THEN <<x, balls>>
       ELSE LET n == Min(to, balls)
            IN <<AddBall(Emit(x, "mb_shoot_again", n, 0), n, 0), balls - n>>
RECURSIVE MbShootChain(_, _, _)
MbShootChain(k, x, balls) == IF k = 0 THEN <<x, balls>>
                             ELSE LET r == MbShoot(x, balls) IN MbShootChain(k - 1, r[1], r[2])
\* Game.ball_drained (priority of the game mode, after the savers)
GameDrain(x, balls) == IF balls > 0 THEN [x EXCEPT !.bip = Max(0, @ - balls)] ELSE x
\* Multiball._ball_drain_count_balls (priority 1: after the game)
MbCount(x, balls) ==
    IF ~x.ch THEN x
    ELSE IF (IF Dev("EndedDoubleCount") THEN x.bip - balls < 1 ELSE x.bip <= 1)
         THEN Emit([x EXCEPT !.tgt = 0, !.ch = FALSE], "mb_ended", 0, 0)
         ELSE x
DrainF(x, n) ==
    LET r1 == EarlyDrain([x EXCEPT !.pf = @ - n], n)
        r2 == BsDrain(r1[1], r1[2])
        r3 == MbShootChain(r2[1].sh, r2[1], r2[2])
        x4 == GameDrain(r3[1], r3[2])
        x5 == MbCount(x4, r3[2])
    IN [x5 EXCEPT !.res = r3[2], !.over = (x5.bip = 0)]
\* ---------------------------------------------------------------- timers -------------------------------------------
TimerKeys == {"bD", "bG", "bH", "mD", "mG", "mH"}
Due(x, t) == {k \in TimerKeys : x[k] = t}
Fire(x, k) ==
    CASE k = "bD" -> BsDisable([x EXCEPT !.bD = 0])
      [] k = "bG" -> Emit([x EXCEPT !.bG = 0], "bs_grace_period", 0, 0)
      [] k = "bH" -> Emit([x EXCEPT !.bH = 0], "bs_hurry_up", 0, 0)
      [] k = "mD" -> MbStopCode([x EXCEPT !.mD = 0])
      [] k = "mG" -> Emit([x EXCEPT !.mG = 0, !.gr = FALSE], "mb_grace_period", 0, 0)
      [] k = "mH" -> Emit([x EXCEPT !.mH = 0, !.hu = FALSE], "mb_hurry_up", 0, 0)
\* the callbacks due at one instant run in an order the statement does not fix
RECURSIVE FireAll(_, _)
FireAll(x, t) == IF Due(x, t) = {} THEN {x} ELSE UNION {FireAll(Fire(x, k), t) : k \in Due(x, t)}
NothingDue == \A k \in TimerKeys : w[k] = 0 \/ w[k] > now
\* ---------------------------------------------------------------- actions ------------------------------------------
Fresh == [bip |-> 1, pf |-> 1, over |-> FALSE,
          ben |-> FALSE, bts |-> FALSE, rem |-> 0, early |-> 0, sched |-> 0, bD |-> 0, bG |-> 0, bH |-> 0,
          men |-> FALSE, sa |-> FALSE, tgt |-> 0, gr |-> FALSE, hu |-> FALSE, sh |-> 0, ch |-> FALSE, mD |-> 0, mG |-> 0, mH |-> 0,
          out |-> <<>>, adds |-> <<>>, res |-> 0]
Init == cfg \in Configs /\ now = 0 /\ nops = 0 /\ act = [op |-> "init"] /\ w = Fresh
IsBs == cfg.kind = "bs"
IsMb == cfg.kind = "mb"
Call(x2, a) == /\ ~w.over /\ NothingDue /\ nops < MaxOps /\ w' = x2 /\ nops' = nops + 1 /\ act' = a /\ UNCHANGED <<cfg, now>>
BsEnableA  == IsBs /\ Call(BsEnable(now, Clr(w)), [op |-> "bs_enable"])
BsDisableA == IsBs /\ Call(BsDisable(Clr(w)), [op |-> "bs_disable"])
BsTimerA   == IsBs /\ cfg.tse /\ Call(BsTimerStart(now, Clr(w)), [op |-> "bs_timer_start"])
BsEarlyA   == IsBs /\ Call(BsEarly(Clr(w)), [op |-> "bs_early"])
BsEjectA   == IsBs /\ cfg.delayed /\ Call(BsDelayedEject(Clr(w)), [op |-> "bs_eject"])
MbEnableA  == IsMb /\ Call([Clr(w) EXCEPT !.men = TRUE], [op |-> "mb_enable"])
MbDisableA == IsMb /\ Call([Clr(w) EXCEPT !.men = FALSE], [op |-> "mb_disable"])
MbResetA   == IsMb /\ Call(MbReset(Clr(w)), [op |-> "mb_reset"])
MbStartA   == IsMb /\ w.bip + cfg.count <= cfg.known /\ Call(MbStart(now, Clr(w)), [op |-> "mb_start"])
MbStopA    == IsMb /\ Call(MbStop(Clr(w)), [op |-> "mb_stop"])
MbAddA     == IsMb /\ w.bip < cfg.known /\ w.bip < MaxBip /\ Call(MbAddABall(now, Clr(w)), [op |-> "mb_add"])
MbSoaA     == IsMb /\ w.bip + cfg.count <= cfg.known /\ w.bip < MaxBip /\ Call(MbStartOrAdd(now, Clr(w)), [op |-> "mb_soa"])
\* environment: another ball becomes live by other means (game.balls_in_play += 1, the ball is on the playfield)
Extra      == IsBs /\ w.bip < Min(cfg.known, MaxBip) /\ Call([Clr(w) EXCEPT !.bip = @ + 1, !.pf = @ + 1], [op |-> "extra"])
\* environment: n balls which are on the playfield drain in one ball_drain event
Drain(n)   == n >= 1 /\ n <= w.pf /\ Call(DrainF(Clr(w), n), [op |-> "drain", n |-> n])
Adv == /\ ~w.over /\ NothingDue /\ now < MaxTime /\ now' = now + 1
       /\ w' \in FireAll(Clr(w), now + 1)
       /\ act' = [op |-> "adv"] /\ UNCHANGED <<cfg, nops>>
Next == \/ BsEnableA \/ BsDisableA \/ BsTimerA \/ BsEarlyA \/ BsEjectA
        \/ MbEnableA \/ MbDisableA \/ MbResetA \/ MbStartA \/ MbStopA \/ MbAddA \/ MbSoaA
        \/ Extra \/ Adv \/ \E n \in 1..MaxDrain : Drain(n)
Spec == Init /\ [][Next]_vars
\* ---------------------------------------------------------------- the statement ------------------------------------
Has(x, e) == \E i \in DOMAIN x.out : x.out[i][1] = e
Count(x, e) == Cardinality({i \in DOMAIN x.out : x.out[i][1] = e})
RECURSIVE SumAdds(_)
SumAdds(s) == IF s = <<>> THEN 0 ELSE s[1][1] + SumAdds(Tail(s))
RECURSIVE SumEv(_, _)
SumEv(s, e) == IF s = <<>> THEN 0 ELSE (IF s[1][1] = e THEN s[1][2] ELSE 0) + SumEv(Tail(s), e)
IsDrain == act'.op = "drain"
TypeOK == /\ now \in 0..MaxTime /\ w.bip \in 0..cfg.known /\ w.pf \in 0..(cfg.known + 1) /\ w.early \in 0..1
          /\ w.sched >= 0 /\ w.sh \in 0..MaxOps /\ w.tgt >= 0 /\ (w.over <=> w.bip = 0)
\* B3: balls on / requested for the playfield = balls in play + early saved balls which have not drained
Conservation == w.pf + w.sched = w.bip + w.early
\* B3: balls_in_play decreases by exactly the balls the savers left in the count, and every ball taken out of the count is
\* either an early saved one or replaced by exactly one requested (or scheduled) ball
BipExact == [][ IsDrain => /\ w'.bip = w.bip - w'.res /\ w'.res >= 0 /\ w'.res <= act'.n
                           /\ act'.n - w'.res = SumAdds(w'.adds) + (w'.sched - w.sched) + (w.early - w'.early) ]_vars
\* B2: a save which is not active (and no pending early save, no multiball shoot again) never changes the drain count
InactiveInert == [][ (IsDrain /\ ~w.ben /\ w.early = 0 /\ w.sh = 0) => (w'.res = act'.n /\ w'.adds = <<>> /\ ~Has(w', "bs_saving")) ]_vars
\* B2: balls saved by the ball save in a step = balls announced = balls requested/scheduled; never more than the saves left;
\* the save disables itself with the last one; saving_ball always announces at least one ball
SaveBudget == [][ (IsBs /\ IsDrain /\ w.ben) =>
                    LET saved == SumEv(w'.out, "bs_saving")
                    IN /\ saved = SumAdds(w'.adds) + (w'.sched - w.sched)
                       /\ (~Unlimited => saved <= w.rem /\ w'.rem = w.rem - saved /\ (w'.rem = 0 <=> ~w'.ben))
                       /\ (Unlimited => w'.ben)
                       /\ (~cfg.olb => saved = Min(act'.n - (IF w.early > 0 THEN 1 ELSE 0), IF Unlimited THEN w.bip ELSE Min(w.rem, w.bip)))
                       /\ (cfg.olb /\ w.bip > 1 => saved = 0)
                       /\ \A i \in DOMAIN w'.out : w'.out[i][1] = "bs_saving" => w'.out[i][2] >= 1 ]_vars
AddsCarryLaunchMode == [][ IsBs => \A i \in DOMAIN w'.adds : w'.adds[i][2] = PC ]_vars
\* B1: enabled / disabled events exactly on the transitions, timers only while enabled, self-disable in time
BsEvents == [][ /\ (Has(w', "bs_disabled") <=> (w.ben /\ ~w'.ben)) /\ (Has(w', "bs_enabled") <=> (~w.ben /\ w'.ben))
                /\ Count(w', "bs_disabled") <= 1 /\ Count(w', "bs_enabled") <= 1 /\ Count(w', "bs_timer_start") <= 1
                /\ Count(w', "bs_hurry_up") <= 1 /\ Count(w', "bs_grace_period") <= 1
                /\ (Has(w', "bs_timer_start") <=> (~w.bts /\ w'.bts))
                /\ (Has(w', "bs_hurry_up") => act'.op = "adv" /\ w.bH = now' /\ w'.bH = 0)
                /\ (Has(w', "bs_grace_period") => act'.op = "adv" /\ w.bG = now' /\ w'.bG = 0)
                /\ ((act'.op = "adv" /\ w.bH = now' /\ w.bD > now') => Has(w', "bs_hurry_up"))
                /\ ((act'.op = "adv" /\ w.bG = now' /\ w.bD > now') => Has(w', "bs_grace_period"))
                /\ ((act'.op = "adv" /\ w.bD = now') => ~w'.ben) ]_vars
BsTimers == /\ (~w.ben => w.bD = 0 /\ w.bG = 0 /\ w.bH = 0 /\ ~w.bts)
            /\ (w.bD # 0 => w.bts /\ w.bD >= now /\ w.bD <= now + cfg.active + cfg.grace /\ w.bG <= w.bD /\ w.bH <= w.bG)
            /\ (w.ben /\ w.bts /\ cfg.active > 0 => w.bD # 0)
            /\ (w.ben /\ ~Unlimited => w.rem >= 1)
\* M1
MbStartExact == [][ /\ (Has(w', "mb_started") <=> (act'.op \in {"mb_start", "mb_soa"} /\ w.men /\ w.tgt = 0))
                    /\ Count(w', "mb_started") <= 1
                    /\ (Has(w', "mb_started") =>
                          /\ w'.bip = (IF cfg.ctype = "total" THEN Max(w.bip, cfg.count) ELSE w.bip + cfg.count)
                          /\ SumAdds(w'.adds) = w'.bip - w.bip /\ w'.tgt = w'.bip)
                    /\ ((act'.op = "mb_start" /\ (~w.men \/ w.tgt > 0)) => w' = Clr(w))
                    /\ ((act'.op \in {"mb_add", "mb_soa"} /\ w.tgt > 0) => (w'.bip = w.bip + 1 /\ SumAdds(w'.adds) = 1 /\ w'.tgt = w.tgt + 1))
                    /\ ((act'.op = "mb_add" /\ w.tgt = 0) => w' = Clr(w)) ]_vars
\* M2
ShootAgainReturnsAll == [][ (IsMb /\ IsDrain /\ w.sh > 0) => (w'.res = 0 /\ w'.bip = w.bip /\ SumEv(w'.out, "mb_shoot_again") = act'.n
                                                             /\ SumAdds(w'.adds) = act'.n) ]_vars
MbEvents == [][ /\ Count(w', "mb_sa_ended") <= 1 /\ Count(w', "mb_ended") <= 1
                /\ Count(w', "mb_hurry_up") <= 1 /\ Count(w', "mb_grace_period") <= 1
                /\ (Has(w', "mb_sa_ended") => (w.sa \/ w.sh > 0 \/ act'.op \in {"mb_start", "mb_soa", "mb_add"}) /\ ~w'.sa /\ w'.sh = 0)
                /\ ((act'.op = "mb_stop" /\ (w.sa \/ w.sh > 0)) => Has(w', "mb_sa_ended"))
                /\ ((act'.op = "mb_stop" /\ MbIdle(w)) => w' = Clr(w))
                /\ ((act'.op = "adv" /\ w.mD = now') => Has(w', "mb_sa_ended"))
                /\ (Has(w', "mb_hurry_up") => w.hu /\ ~w'.hu) /\ (Has(w', "mb_grace_period") => w.gr /\ ~w'.gr) ]_vars
\* M3
MbEndedExact == [][ /\ (Has(w', "mb_ended") => IsDrain /\ w.tgt > 0 /\ w'.tgt = 0 /\ w'.bip <= 1 /\ w.ch /\ ~w'.ch)
                    /\ ((IsDrain /\ w.ch /\ w'.bip <= 1) => Has(w', "mb_ended")) ]_vars
MbShape == /\ (w.sa => w.tgt > 0) /\ (w.sh > 0 => w.tgt > 0) /\ (w.tgt > 0 => w.bip <= w.tgt)
           /\ (w.ch => w.tgt > 0)
           /\ (w.mD # 0 => w.sh > 0 /\ w.mD > now - 1) /\ (w.mG # 0 => w.mD # 0) /\ (w.mH # 0 => w.mD # 0)
=============================================================================
