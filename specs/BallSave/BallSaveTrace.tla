---------------------------- MODULE BallSaveTrace ----------------------------
(* Trace validation for X04: every logged line is one call / event / time unit executed on the real BallSave /      *)
(* Multiball devices inside a running (fake) game; the line carries the observations the statement talks about.      *)
EXTENDS BallSave, TraceIO
VARIABLES tid, l
tvars == <<vars, tid, l>>
TL == TraceLines[tid].ev
TConfigs == {}
TInit == /\ tid \in 1..Len(TraceLines) /\ l = 1 /\ cfg = TraceLines[tid].cfg /\ now = 0 /\ nops = 0
         /\ act = [op |-> "init"] /\ w = Fresh
\* observed after the step: events posted (in order), add_ball requests, result of the relay event, balls in play and the
\* monitored attributes of the devices
Obs(x, e) == /\ x.out = e.out /\ x.adds = e.adds /\ x.res = e.res /\ x.bip = e.bip
             /\ x.ben = e.ben /\ x.rem = e.rem /\ x.bts = e.bts /\ x.men = e.men /\ x.tgt = e.tgt /\ x.sa = e.sa
Step(e) ==
    /\ \/ e.op = "bs_enable" /\ BsEnableA
       \/ e.op = "bs_disable" /\ BsDisableA
       \/ e.op = "bs_timer_start" /\ BsTimerA
       \/ e.op = "bs_early" /\ BsEarlyA
       \/ e.op = "bs_eject" /\ BsEjectA
       \/ e.op = "mb_enable" /\ MbEnableA
       \/ e.op = "mb_disable" /\ MbDisableA
       \/ e.op = "mb_reset" /\ MbResetA
       \/ e.op = "mb_start" /\ MbStartA
       \/ e.op = "mb_stop" /\ MbStopA
       \/ e.op = "mb_add" /\ MbAddA
       \/ e.op = "mb_soa" /\ MbSoaA
       \/ e.op = "extra" /\ Extra
       \/ e.op = "drain" /\ Drain(e.n)
       \/ e.op = "adv" /\ Adv
       \/ e.op = "obs" /\ UNCHANGED vars
    /\ (e.op = "obs" => Obs(w, e))
    /\ (e.op # "obs" => Obs(w', e))
TNext == l <= Len(TL) /\ Step(TL[l]) /\ l' = l + 1 /\ UNCHANGED tid
TSpec == TInit /\ [][TNext]_tvars
Reporter == TraceReport(tid, l, Len(TL))
=============================================================================
