---------------------------- MODULE PeriodicTrace ----------------------------
EXTENDS Periodic, TraceIO
VARIABLES tid, l
tvars == <<vars, tid, l>>
Ev == TraceLines[tid].ev
TInit == tid \in 1..Len(TraceLines) /\ l = 1 /\ Init
Step(e) ==
    \/ e.op = "create" /\ Create(e.ival) /\ sched' = e.sched
    \/ e.op = "cancel" /\ Cancel
    \/ e.op = "run" /\ Run(e.late) /\ lastRan' = e.ran /\ now' = e.t
                    /\ (IF e.sched = -2 THEN sched' = 0 ELSE sched' = e.sched)
TNext == l <= Len(Ev) /\ Step(Ev[l]) /\ l' = l + 1 /\ UNCHANGED tid
TSpec == TInit /\ [][TNext]_tvars
Reporter == TraceReport(tid, l, Len(Ev))
=============================================================================
