SPECIFICATION Spec
CONSTANTS
  Ivals = {1, 2, 3}
  Lates = {0, 1, 2, 4}
  MaxRuns = 6
INVARIANT NoDrift
PROPERTY NeverAfterCancel
PROPERTY NotEarly
CHECK_DEADLOCK FALSE
