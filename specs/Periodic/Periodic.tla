------------------------------ MODULE Periodic ------------------------------
(* mpf.core.clock.PeriodicTask on a loop that may run callbacks late.  The k-th call is scheduled *)
(* at base + k*interval whatever the lateness of earlier calls (absolute accumulation).          *)
EXTENDS Integers, Sequences, TLC
CONSTANTS Ivals, Lates, MaxRuns
VARIABLES now, ival, k, sched, cancelled, lastRan, runs
\* sched: time handed to call_at for the pending call (0 = none); k: number of calls scheduled so far
vars == <<now, ival, k, sched, cancelled, lastRan, runs>>
Init == now = 0 /\ ival = 0 /\ k = 0 /\ sched = 0 /\ cancelled = FALSE /\ lastRan = 0 /\ runs = 0
Create(i) == /\ ival = 0 /\ ival' = i /\ k' = 1 /\ sched' = i /\ UNCHANGED <<now, cancelled, lastRan, runs>>
Max(a, b) == IF a > b THEN a ELSE b
\* the loop runs the pending call, `late` units after its scheduled time (or at once if overdue)
Run(late) == /\ sched # 0 /\ runs < MaxRuns
             /\ now' = Max(now, sched + late)
             /\ runs' = runs + 1
             /\ IF cancelled THEN lastRan' = 0 /\ sched' = 0 /\ UNCHANGED k
                ELSE lastRan' = 1 /\ k' = k + 1 /\ sched' = (k + 1) * ival
             /\ UNCHANGED <<ival, cancelled>>
Cancel == ival # 0 /\ ~cancelled /\ cancelled' = TRUE /\ UNCHANGED <<now, ival, k, sched, lastRan, runs>>
Next == (\E i \in Ivals : Create(i)) \/ (\E d \in Lates : Run(d)) \/ Cancel
Spec == Init /\ [][Next]_vars
NoDrift == sched # 0 => sched = k * ival
NeverAfterCancel == [][cancelled => lastRan' = 0 \/ UNCHANGED lastRan]_vars
NotEarly == [][sched # 0 /\ runs' > runs => now' >= sched]_vars
=============================================================================
