SPECIFICATION TSpec
CONSTANTS
  Ivals = {}
  Lates = {}
  MaxRuns = 1000000
INVARIANT NoDrift
INVARIANT Reporter
CHECK_DEADLOCK FALSE
