SPECIFICATION GSpec
CONSTANTS
  Keys = {1, 2, 3}
  Prios = {0, 1, 2}
  Cols = {0, 1, 2, 3, 4, 5}
  Fades = {0, 1, 2, 3}
  MaxTime = 14
  MaxOps = 12
CHECK_DEADLOCK FALSE
