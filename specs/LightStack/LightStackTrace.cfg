SPECIFICATION TSpec
CONSTANTS
  Keys = {1, 2, 3}
  Prios = {0, 1, 2}
  Cols = {}
  Fades = {}
  MaxTime = 1000000
  MaxOps = 1000000
INVARIANT Reporter
INVARIANT RangeSane
INVARIANT TopWins
INVARIANT EmptyIsOff
INVARIANT FadeOutGone
INVARIANT OneEntryPerKey
INVARIANT EndedFadeOutTransparent
CHECK_DEADLOCK FALSE
