SPECIFICATION Spec
CONSTANTS
  Keys = {1, 2}
  Prios = {0, 1}
  Cols = {0, 100, 255}
  Fades = {0, 2}
  MaxTime = 4
  MaxOps = 4
INVARIANT RangeSane
INVARIANT TopWins
INVARIANT EmptyIsOff
INVARIANT FadeOutGone
INVARIANT OneEntryPerKey
PROPERTY RemoveRestores
CHECK_DEADLOCK FALSE
