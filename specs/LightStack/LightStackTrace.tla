--------------------------- MODULE LightStackTrace ---------------------------
(* One colour channel of one recorded execution of a real Light.  Logged per call: arguments, the *)
(* start colour the light chose for a fade, the logical colour (get_color) afterwards; per time   *)
(* step additionally the brightness last commanded to every hardware channel, the corrected      *)
(* logical colour it must equal once all fades have finished, and the keys still in the stack.    *)
EXTENDS LightStack, TraceIO
VARIABLES tid, l
tvars == <<vars, tid, l>>
TL == TraceLines[tid].ev
TInit == /\ tid \in 1..Len(TraceLines) /\ l = 1 /\ Init
ObsLogical(e) == InR(e.lg, Range(stack', now'))
ObsHw(e) == AtRest(stack', now') => e.hw = e.exp
\* the keys the real light holds after a time step are exactly those of the model: in particular a key removed with a fade
\* is gone when its fade-out has ended, also when fade-outs of other keys began or ended meanwhile (e.ks: list of keys)
ObsKeys(e) == {e.ks[i] : i \in DOMAIN e.ks} = KeysOf(stack')
Step(e) ==
    /\ \/ e.op = "color" /\ Color(e.c, e.f, e.p, e.k, e.sc)
       \/ e.op = "remove" /\ Remove(e.k, e.f, e.sc)
       \/ e.op = "clear" /\ ClearStack
       \/ e.op = "adv" /\ Adv /\ ObsHw(e) /\ ObsKeys(e)
    /\ ObsLogical(e)
TNext == l <= Len(TL) /\ Step(TL[l]) /\ l' = l + 1 /\ UNCHANGED tid
TSpec == TInit /\ [][TNext]_tvars
Reporter == TraceReport(tid, l, Len(TL))
=============================================================================
