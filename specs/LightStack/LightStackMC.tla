----------------------------- MODULE LightStackMC -----------------------------
(* Model-checking configuration "overlapping fade-outs": behaviours start from stacks already holding two or three keys *)
(* (one of them still fading), so that a small budget of calls exhausts every combination of: faded removal of one key,  *)
(* faded removal of another key (above or below, ending before / with / after the first) while the first is running,     *)
(* a removed key being set again with a lower / the same / a higher priority during or after the fade-outs.              *)
EXTENDS LightStack
Steady(p, k, c) == [prio |-> p, key |-> k, sc |-> c, dc |-> c, dt |-> 0, fo |-> FALSE]
Fading(p, k, c0, c, t) == [prio |-> p, key |-> k, sc |-> c0, dc |-> c, dt |-> t, fo |-> FALSE]
MCInitStacks == { {Steady(0, 1, 100), Steady(1, 2, 255)},
                  {Steady(0, 1, 100), Steady(1, 2, 255), Steady(1, 3, 0)},
                  {Steady(0, 1, 255), Fading(0, 2, 0, 100, 1), Steady(1, 3, 0)} }
\* the calls of this configuration: removals of any key, colour commands for keys which are fading out or gone, time
MCNext == \/ \E k \in Keys, f \in Fades, sc \in Cols : Remove(k, f, sc)
          \/ \E c \in Cols, f \in Fades, p \in Prios, sc \in Cols, k \in Keys \ KeysOf({e \in stack : ~e.fo}) : Color(c, f, p, k, sc)
          \/ Adv
MCSpec == Init /\ [][MCNext]_vars
=============================================================================
