---------------------------- MODULE LightStackGen ----------------------------
(* Schedule generator for LightStack (used with `tlc -simulate` only; nothing is checked here).                    *)
(* TLC's simulator picks uniformly among ALL successor states.  In LightStack!Next a colour command has            *)
(* |Cols|*|Fades|*|Prios|*|Keys|*|Cols| successors, a removal at most |Keys|*|Fades|*|Cols| and the passing of     *)
(* time exactly one, so random behaviours of Next are "MaxOps colour commands at time 0, then nothing but time":   *)
(* no command ever lands inside a running fade and hardly anything is ever removed.  Here the KIND of the next     *)
(* step is drawn first (variable `pick`, weights in PickW), then its arguments; the start colour of a fade is      *)
(* not a free choice of a schedule, so it is fixed (any admissible value does: the driver logs the real one).      *)
(* Kinds that make the class "several removal fades of different keys in flight at once" likely are separate:      *)
(*   "fremove"  faded removal of a key that is in the stack and not fading out yet                                *)
(*   "readd"    colour command for a key that is fading out, or that has been removed before (any priority)        *)
EXTENDS LightStack
VARIABLES pick, gone
gvars == <<vars, pick, gone>>
Kinds == <<"color", "color", "color", "remove", "fremove", "fremove", "fremove", "readd", "readd",
           "adv", "adv", "adv", "adv", "clear">>
PosFades == {f \in Fades : f > 0}
Live == {e \in stack : ~e.fo}
FadingOut == {e \in stack : e.fo}
CanDo(kd) == CASE kd = "adv" -> now < MaxTime
               [] kd = "fremove" -> nops < MaxOps /\ Live # {} /\ PosFades # {}
               [] kd = "readd" -> nops < MaxOps /\ (FadingOut # {} \/ gone # {})
               [] kd = "clear" -> nops < MaxOps /\ Cardinality(stack) > 1     \* not before something has been built up
               [] OTHER -> nops < MaxOps
GColor(c, f, p, k) == Color(c, f, p, k, c)
GRemove(k, f) == Remove(k, f, IF HasKey(k) THEN Range({Entry(k)}, now)[1] ELSE 0)
GInit == Init /\ pick = 0 /\ gone = {}
Draw == /\ pick = 0 /\ \E i \in 1..Len(Kinds) : CanDo(Kinds[i]) /\ pick' = i
        /\ UNCHANGED <<vars, gone>>
Do == /\ pick # 0 /\ pick' = 0
      /\ LET kd == Kinds[pick] IN
         \/ kd = "color" /\ \E c \in Cols, f \in Fades, p \in Prios, k \in Keys : GColor(c, f, p, k)
         \/ kd = "remove" /\ \E k \in Keys, f \in Fades : GRemove(k, f)
         \/ kd = "fremove" /\ \E e \in Live, f \in PosFades : GRemove(e.key, f)
         \/ kd = "readd" /\ \E k \in KeysOf(FadingOut) \cup gone, c \in Cols, f \in Fades, p \in Prios : GColor(c, f, p, k)
         \/ kd = "adv" /\ Adv
         \/ kd = "clear" /\ ClearStack
      \* keys which have been in the stack and are not any more
      /\ gone' = (gone \cup KeysOf(stack)) \ KeysOf(stack')
GNext == Draw \/ Do
GSpec == GInit /\ [][GNext]_gvars
=============================================================================
