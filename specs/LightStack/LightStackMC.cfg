SPECIFICATION MCSpec
CONSTANTS
  Keys = {1, 2, 3}
  Prios = {0, 1}
  Cols = {0, 255}
  Fades = {0, 1, 2}
  MaxTime = 3
  MaxOps = 3
  InitStacks <- MCInitStacks
INVARIANT RangeSane
INVARIANT TopWins
INVARIANT EmptyIsOff
INVARIANT FadeOutGone
INVARIANT OneEntryPerKey
INVARIANT EndedFadeOutTransparent
PROPERTY RemoveRestores
PROPERTY ReAddTakesEffect
CHECK_DEADLOCK FALSE
