------------------------------ MODULE LightStack ------------------------------
(* Reference model of a light's priority stack (mpf/devices/light.py), one colour channel, in     *)
(* abstract time units.  An entry is a colour set under a key and a priority, optionally reached  *)
(* by a fade; removing a key with a fade turns its entry into a fade-out towards whatever lies    *)
(* beneath.  The statement fixes the logical colour exactly whenever no fade is running and only  *)
(* bounds it (between the endpoints) while one is; the model therefore keeps, for every fade, the *)
(* start colour that was observed when it began and works with value ranges.                      *)
EXTENDS Integers, Sequences, FiniteSets, TLC
CONSTANTS Keys, Prios, Cols, Fades, MaxTime, MaxOps
VARIABLES now, stack, nops, act
\* stack: set of [prio, key, sc, dc, dt, fo]  sc/dc start/destination colour, dt = time the fade ends
\* (0: no fade), fo = TRUE for a fade-out entry (dc unused)
vars == <<now, stack, nops, act>>
\* the stacks a behaviour may start from: the empty one (a light after boot).  Model-checking configurations may replace
\* this definition by stacks which already hold several keys (LightStackMC), so that the whole budget MaxOps is spent
\* on what happens to them: removals of different keys fading out at once, removed keys being set again
InitStacks == {{}}
Init == now = 0 /\ stack \in InitStacks /\ nops = 0 /\ act = [op |-> "init"]
Above(a, b) == a.prio > b.prio \/ (a.prio = b.prio /\ a.key > b.key)
Min(a, b) == IF a < b THEN a ELSE b
Max(a, b) == IF a > b THEN a ELSE b
Top(S) == CHOOSE e \in S : \A f \in S : f = e \/ Above(e, f)
\* range <<lo, hi>> of the logical colour of the (sub)stack S at time t
RECURSIVE Range(_, _)
Range(S, t) ==
    IF S = {} THEN <<0, 0>>
    ELSE LET e == Top(S)  R == Range(S \ {e}, t) IN
         IF e.fo THEN (IF t >= e.dt THEN R ELSE <<Min(e.sc, R[1]), Max(e.sc, R[2])>>)
         ELSE IF e.dt = 0 \/ t >= e.dt THEN <<e.dc, e.dc>>
         ELSE <<Min(e.sc, e.dc), Max(e.sc, e.dc)>>
AtRest(S, t) == \A e \in S : e.dt = 0 \/ t >= e.dt
Logical(S, t) == Range(S, t)[1]        \* meaningful when lo = hi (in particular at rest)
Exact(S, t) == Range(S, t)[1] = Range(S, t)[2]
\* the part of the stack a new entry (prio, key) is laid over / the part starting at key's entry
Sub(p, k) == {e \in stack : ~Above(e, [prio |-> p, key |-> k])}
HasKey(k) == \E e \in stack : e.key = k
Entry(k) == CHOOSE e \in stack : e.key = k
InR(x, R) == R[1] <= x /\ x <= R[2]
Budget == nops < MaxOps /\ nops' = nops + 1
\* color() / on() / off(): sc is the colour the fade starts from.  The statement does not say which colour
\* a new fade starts from, so sc is a free (observed) parameter; the fade then stays between sc and c.
Color(c, f, p, k, sc) ==
    /\ Budget /\ UNCHANGED now
    /\ IF HasKey(k) /\ p < Entry(k).prio
       THEN UNCHANGED stack       \* lower priority than the existing entry of this key: ignored
       ELSE /\ stack' = {e \in stack : e.key # k}
                        \cup {[prio |-> p, key |-> k, sc |-> IF f > 0 THEN sc ELSE c, dc |-> c,
                               dt |-> IF f > 0 THEN now + f ELSE 0, fo |-> FALSE]}
    /\ act' = [op |-> "color", c |-> c, f |-> f, p |-> p, k |-> k]
Remove(k, f, sc) ==
    /\ Budget /\ UNCHANGED now
    /\ IF ~HasKey(k) THEN UNCHANGED stack
       ELSE LET e == Entry(k) IN
            IF f > 0 /\ ~e.fo
            \* the fade-out starts from the colour the removed key itself shows at this instant (its own colour, or a point
            \* of its own running fade) - the endpoints of the removal are that colour and whatever lies beneath
            THEN /\ InR(sc, Range({e}, now))
                 /\ stack' = (stack \ {e}) \cup {[prio |-> e.prio, key |-> k, sc |-> sc, dc |-> 0, dt |-> now + f, fo |-> TRUE]}
            ELSE stack' = stack \ {e}
    /\ act' = [op |-> "remove", k |-> k, f |-> f]
ClearStack == /\ Budget /\ stack' = {} /\ UNCHANGED now /\ act' = [op |-> "clear"]
\* one unit of time passes; fade-outs that end now disappear
Adv == /\ now < MaxTime /\ now' = now + 1 /\ stack' = {e \in stack : ~(e.fo /\ e.dt <= now + 1)}
       /\ UNCHANGED nops /\ act' = [op |-> "adv"]
Next == \/ \E c \in Cols, f \in Fades, p \in Prios, k \in Keys, sc \in Cols : Color(c, f, p, k, sc)
        \/ \E k \in Keys, f \in Fades, sc \in Cols : Remove(k, f, sc)
        \/ ClearStack \/ Adv
Spec == Init /\ [][Next]_vars
\* ---- statement of C09 over the model -----------------------------------------------------------------------
RangeSane == Range(stack, now)[1] <= Range(stack, now)[2]
\* at rest the logical colour is that of the highest entry (fade-outs have gone)
TopWins == (stack # {} /\ AtRest(stack, now) /\ ~Top(stack).fo) => Logical(stack, now) = Top(stack).dc
EmptyIsOff == stack = {} => Logical(stack, now) = 0
\* removing a key without fade restores exactly the colour beneath it
RemoveRestores == [][ (act'.op = "remove" /\ act'.f = 0 /\ now' = now) =>
                        Range(stack', now) = Range({e \in stack : e.key # act'.k}, now) ]_vars
\* ---- faded removals (also several of them, of different keys, in flight at once) ----------------------------------
\* a removed key is gone once its fade-out has ended: no fade-out entry outlives its end time ...
FadeOutGone == \A e \in stack : e.fo => now < e.dt
\* ... every key has at most one entry ...
OneEntryPerKey == \A e, g \in stack : e.key = g.key => e = g
\* ... and so a colour command for a key that is not in the stack (never set, removed, or removed with a fade-out that has
\* ended - no matter which other fade-outs were running meanwhile) takes effect with whatever priority it is given
ReAddTakesEffect == [][ (act'.op = "color" /\ nops' = nops + 1 /\ ~HasKey(act'.k)) =>
                          \E e \in stack' : e.key = act'.k /\ e.prio = act'.p /\ e.dc = act'.c /\ ~e.fo ]_vars
\* a fade-out is transparent once it has ended, whatever else is still fading out: the colour is then that of the part
\* of the stack which is not a finished fade-out
EndedFadeOutTransparent == Range(stack, now) = Range({e \in stack : ~(e.fo /\ now >= e.dt)}, now)
\* the keys of the stack (the Trace module compares them with the keys the real light still holds)
KeysOf(S) == {e.key : e \in S}
\* while a fade runs the colour stays between its endpoints (range never wider than the colours involved)
WithinEndpoints == \A e \in stack : InR(Range({e}, now)[1], <<Min(e.sc, e.dc), Max(e.sc, e.dc)>>) \/ e.fo
=============================================================================
