--------------------------- MODULE SerialFraming ---------------------------
(* C14 (framing half): the three incremental serial decoders of MPF, transcribed with their     *)
(* carry-over state, fed with an arbitrary split of a byte stream produced by boards + a faulty *)
(* channel.                                                                                      *)
(*   OPP   mpf/platforms/opp/opp_serial_communicator.py _parse_msg  + opp.py read_*_inp_resp     *)
(*   FAST  mpf/platforms/fast/communicators/base.py parse_incoming_raw_bytes/_dispatch_incoming  *)
(*   PKONE mpf/platforms/pkone/pkone_serial_communicator.py _parse_msg + pkone.py receive_switch *)
(* Bytes are integers 0..255.  A "byte class" is a set of concrete bytes given by the link       *)
(* configuration (cfg.noise, the bytes of cfg.frames / cfg.fill); the decoders only use the      *)
(* predicates IsAddr / = 8 / = 25 / = 255 / = 13 / = 69 / >= 128 / hex digit of a byte and the   *)
(* CRC-8 of the OPP protocol, so the model is exact for every instantiation of the classes.      *)
(* Phase "send": the boards start frames (StartFrame) and fillers; the channel passes, drops,    *)
(* replaces or inserts single bytes within a budget.  Phase "recv": Deliver(k) hands the next k  *)
(* bytes to the decoder (every path = one chunking).  The whole-stream decoder is the ghost      *)
(* Whole(pos).                                                                                   *)
(* Reports come in two kinds: single switch events (FAST "-L:"/"/L:", PKONE "PSW") and full-state *)
(* reports (every OPP read-input frame; FAST "SA:" = all switches of the NET board as raw bits,    *)
(* mpf/platforms/fast/communicators/net_neuron.py / net_nano.py _process_sa).  dec.sw is the       *)
(* receiver state "switch states as last reported"; it is carried across the whole SEQUENCE of    *)
(* messages (a full-state report overrides what events said before it, also when it is byte-      *)
(* identical to an earlier full-state report), and dec.hist records it after every decoded message. *)
EXTENDS Integers, Sequences, FiniteSets, TLC, Bitwise
CONSTANTS Configs,      \* set of link configurations [proto, frames, fill, noise, keys, sws, infl, P, G, saf, san, inv, swc, cards]
                        \*   (OPP: cards = the Gen2 cards on the chain with the wing layout each reports at start-up, see
                        \*    "wing layouts" below; keys is not used: what may report follows from the wings)
                        \*   (FAST: saf = comma separated fields in front of the data of an "SA:" report (1 Neuron/Retro,
                        \*    3 Nano), san = data bytes of a report, inv = numbers of the normally-closed switches)
          MaxFrames, MaxFaults (* drops + replacements + insertions *), MaxInsert, MaxFill, MaxChunk,
          Deviations    \* named code-as-is behaviours that break the statement (see *Apply / *Run)
VARIABLES cfg, wire, pending, nfr, nins, nflt, nfill,
          started,      \* frames handed to the channel by the boards, in order
          clean,        \* [at, f, g]: frames that reached the wire unharmed since the last channel fault
                        \*   (g = number of fillers, e.g. OPP end-of-message bytes, between that fault and the frame)
          gsince,       \* fillers since the last channel fault
          curAt, curF, curDirty, phase, pos, dec, act
vars == <<cfg, wire, pending, nfr, nins, nflt, nfill, started, clean, gsince, curAt, curF, curDirty, phase, pos, dec, act>>

CrcT == <<
    0, 7, 14, 9, 28, 27, 18, 21, 56, 63, 54, 49, 36, 35, 42, 45,
    112, 119, 126, 121, 108, 107, 98, 101, 72, 79, 70, 65, 84, 83, 90, 93,
    224, 231, 238, 233, 252, 251, 242, 245, 216, 223, 214, 209, 196, 195, 202, 205,
    144, 151, 158, 153, 140, 139, 130, 133, 168, 175, 166, 161, 180, 179, 186, 189,
    199, 192, 201, 206, 219, 220, 213, 210, 255, 248, 241, 246, 227, 228, 237, 234,
    183, 176, 185, 190, 171, 172, 165, 162, 143, 136, 129, 134, 147, 148, 157, 154,
    39, 32, 41, 46, 59, 60, 53, 50, 31, 24, 17, 22, 3, 4, 13, 10,
    87, 80, 89, 94, 75, 76, 69, 66, 111, 104, 97, 102, 115, 116, 125, 122,
    137, 142, 135, 128, 149, 146, 155, 156, 177, 182, 191, 184, 173, 170, 163, 164,
    249, 254, 247, 240, 229, 226, 235, 236, 193, 198, 207, 200, 221, 218, 211, 212,
    105, 110, 103, 96, 117, 114, 123, 124, 81, 86, 95, 88, 77, 74, 67, 68,
    25, 30, 23, 16, 5, 2, 11, 12, 33, 38, 47, 40, 61, 58, 51, 52,
    78, 73, 64, 71, 82, 85, 92, 91, 118, 113, 120, 127, 106, 109, 100, 99,
    62, 57, 48, 55, 34, 37, 44, 43, 6, 1, 8, 15, 26, 29, 20, 19,
    174, 169, 160, 167, 178, 181, 188, 187, 150, 145, 152, 159, 138, 141, 132, 131,
    222, 217, 208, 215, 194, 197, 204, 203, 230, 225, 232, 239, 250, 253, 244, 243 >>
RECURSIVE CrcFrom(_, _)
CrcFrom(c, s) == IF s = <<>> THEN c ELSE CrcFrom(CrcT[(c ^^ Head(s)) + 1], Tail(s))
Crc8(s) == CrcFrom(255, s)          \* OPP: CRC-8, polynomial 7, initial value 0xff

Bit(x, j) == (x \div (2 ^ j)) % 2
SeqSet(s) == {s[i] : i \in DOMAIN s}
Rest(s, n) == SubSeq(s, n + 1, Len(s))
IndexOf(s, b) == IF \E i \in 1..Len(s) : s[i] = b
                 THEN CHOOSE i \in 1..Len(s) : s[i] = b /\ \A j \in 1..(i - 1) : s[j] # b ELSE 0
HasHigh(m) == \E i \in 1..Len(m) : m[i] >= 128      \* not decodable as text (cfg.noise uses 255 only)

\* ---------------------------------------------------------------- OPP Gen2 wing layouts
\* c.cards = << [a |-> address byte of the card, w |-> <<code of wing 0, .., code of wing 3>>], .. >>: the answer of every
\* card to GET_GEN2_CFG at start-up (wing codes: mpf/platforms/opp/opp_rs232_intf.py WING_*).  What a card reports, and
\* which bits of a report are switches, follows from its wings (OPP protocol; opp.py _parse_gen2_board builds the
\* decoder's tables inp_addr_dict / matrix_inp_addr_dict / inp_dict from it):
\*   direct inputs (read-input report, command 8, 32 bits: wing j owns bits 8j .. 8j+7):
\*       1 solenoid wing: inputs 0-3 of its byte      2 input wing: 0-7
\*       6 neopixel wing: all but 4 (the pixel data)   8 neopixel + solenoid wing: 1-3
\*     every other wing (3 incandescent, 7 hi-side incandescent, 13 8-solenoid, 11/12 lamp matrix column/row,
\*     4/10 switch matrix out, 5 switch matrix in, 0 not populated) has no direct inputs
\*   switch matrix (read-matrix report, command 25, 64 bits): a card with a matrix-out wing (4, or 10 on the low wings)
\* A card without direct inputs never sends (and is never asked for) a read-input report, one without a matrix never a
\* matrix report: such a report is not a valid report of that card.
WingInputs(w) == IF w = 1 THEN 0..3 ELSE IF w = 2 THEN 0..7 ELSE IF w = 6 THEN (0..7) \ {4} ELSE IF w = 8 THEN 1..3 ELSE {}
CardInputs(card) == UNION {{8 * (j - 1) + b : b \in WingInputs(card.w[j])} : j \in 1..4}
CardHasInputs(card) == \E j \in 1..4 : card.w[j] \in {1, 2, 6, 8}            \* CardInputs(card) # {}
CardHasMatrix(card) == \E j \in 1..4 : card.w[j] \in {4, 10}
MayReport(c, a, k) == \E n \in 1..Len(c.cards) : c.cards[n].a = a /\ (IF k = 8 THEN CardHasInputs(c.cards[n])
                                                                              ELSE k = 25 /\ CardHasMatrix(c.cards[n]))
\* the (card, kind of report) pairs of the chain, as address byte * 256 + command byte
CardKeys(card) == (IF CardHasInputs(card) THEN {card.a * 256 + 8} ELSE {}) \cup (IF CardHasMatrix(card) THEN {card.a * 256 + 25} ELSE {})
OppKeys(c) == UNION {CardKeys(c.cards[n]) : n \in 1..Len(c.cards)}

\* ---------------------------------------------------------------- decoder state
InitSw(c) == IF c.proto = "opp"
             THEN [k \in OppKeys(c) |-> IF k % 256 = 8 THEN <<255, 255, 255, 255>>
                                                        ELSE <<255, 255, 255, 255, 255, 255, 255, 255>>]
             ELSE [k \in SeqSet(c.keys) |-> 0]
\* infl: PKONE messages_in_flight (commands sent and not yet answered; every terminator decrements it, never below 0)
\* hist: the switch states after each message of out (the receiver state along the sequence of messages)
InitDec(c) == [buf |-> <<>>, base |-> 0, lost |-> FALSE, dead |-> FALSE, infl |-> c.infl, out |-> <<>>, sw |-> InitSw(c),
               hist |-> <<>>]
Drop(d, n) == [d EXCEPT !.buf = Rest(@, n), !.base = @ + n]
Emit(d, m) == [d EXCEPT !.out = Append(@, [at |-> d.base, m |-> m])]
SetSw(d, k, v) == IF k \in DOMAIN d.sw THEN [d EXCEPT !.sw[k] = v] ELSE d
Rec(d) == [d EXCEPT !.hist = Append(@, d.sw)]        \* the message handler has returned (or raised): remember the states

\* ---------------------------------------------------------------- OPP
IsAddr(b) == (b \div 32) = 1                        \* (byte & 0xe0) == 0x20
OppOk(m) == Len(m) \in {7, 11} /\ IsAddr(m[1]) /\ Len(m) = (IF m[2] = 8 THEN 7 ELSE 11) /\ m[2] \in {8, 25}
            /\ Crc8(SubSeq(m, 1, Len(m) - 1)) = m[Len(m)]
\* read_gen2_inp_resp / read_matrix_inp_resp: CRC first, then the card must exist
OppApplySw(sw, m) == LET k == m[1] * 256 + m[2] IN       \* card key: address byte, command byte
    IF OppOk(m) /\ k \in DOMAIN sw THEN [sw EXCEPT ![k] = SubSeq(m, 3, Len(m) - 1)] ELSE sw
OppTake(d, n) == LET m == SubSeq(d.buf, 1, n) IN Rec([Drop(Emit(d, m), n) EXCEPT !.sw = OppApplySw(d.sw, m)])
RECURSIVE OppScan(_)
OppScan(d) == IF d.buf = <<>> THEN d
              ELSE IF IsAddr(d.buf[1]) THEN [d EXCEPT !.lost = FALSE] ELSE OppScan(Drop(d, 1))
RECURSIVE OppRun(_)
OppRun(d) ==
    IF Len(d.buf) <= 2 THEN d
    ELSE IF d.lost THEN OppRun(OppScan(d))
    ELSE IF IsAddr(d.buf[1]) THEN
        IF d.buf[2] = 8 THEN (IF Len(d.buf) >= 7 THEN OppRun(OppTake(d, 7)) ELSE d)
        ELSE IF d.buf[2] = 25 THEN (IF Len(d.buf) >= 11 THEN OppRun(OppTake(d, 11)) ELSE d)
        ELSE OppRun([Drop(d, 2) EXCEPT !.lost = TRUE])
    ELSE IF d.buf[1] = 255 THEN OppRun(Drop(d, 1))
    ELSE OppRun([Drop(d, 1) EXCEPT !.lost = TRUE])

\* ---------------------------------------------------------------- FAST (switch event lines "-L:hh" / "/L:hh", on a Nano "-N:hh" / "/N:hh"; reports "SA:")
HexVal(b) == IF b \in 48..57 THEN b - 48 ELSE IF b \in 65..70 THEN b - 55 ELSE IF b \in 97..102 THEN b - 87 ELSE 0 - 1
AllHex(s) == s # <<>> /\ \A i \in 1..Len(s) : HexVal(s[i]) >= 0
RECURSIVE HexNum(_, _)
HexNum(acc, s) == IF s = <<>> THEN acc ELSE HexNum(acc * 16 + HexVal(Head(s)), Tail(s))
\* what Python's int(s, 16) accepts over the byte classes used here (sign, hex digits)
PyHexOk(s) == AllHex(s) \/ (Len(s) >= 2 /\ s[1] = 45 /\ AllHex(Tail(s)))
PyHexVal(s) == IF s[1] = 45 THEN 0 - HexNum(0, Tail(s)) ELSE HexNum(0, s)
\* c.swc: letter of the switch events of this controller ("L" local switches of a Neuron / Retro, "N" network switches of a Nano)
FastSwHdr(c, m) == Len(m) >= 3 /\ m[1] \in {45, 47} /\ m[2] = c.swc /\ m[3] = 58
FastOk(c, m) == FastSwHdr(c, m) /\ Len(m) = 5 /\ AllHex(Rest(m, 3))       \* well-formed per the FAST serial protocol
\* full-state report "SA:" f1 "," .. f<saf> "," data: the fields are two hex digits each, the last of them is the number
\* of data bytes (c.san for this controller); data = two hex digits per byte, switch k is bit k % 8 of byte k \div 8
\* (raw, electrical state: a normally-closed switch is active when its bit is 0)
RECURSIVE Fields(_)
Fields(s) == LET p == IndexOf(s, 44) IN IF p = 0 THEN <<s>> ELSE <<SubSeq(s, 1, p - 1)>> \o Fields(Rest(s, p))
FastSaHdr(m) == Len(m) >= 3 /\ m[1] = 83 /\ m[2] = 65 /\ m[3] = 58
FastSaOk(c, m) == FastSaHdr(m) /\ LET fs == Fields(Rest(m, 3)) IN
    /\ Len(fs) = c.saf + 1
    /\ \A i \in 1..c.saf : Len(fs[i]) = 2 /\ AllHex(fs[i])
    /\ HexNum(0, fs[c.saf]) = c.san
    /\ Len(fs[c.saf + 1]) = 2 * c.san /\ AllHex(fs[c.saf + 1])
SaData(m) == LET fs == Fields(Rest(m, 3)) IN fs[Len(fs)]
SaBit(data, k) == Bit(HexVal(data[2 * (k \div 8) + 1]) * 16 + HexVal(data[2 * (k \div 8) + 2]), k % 8)
\* the switches covered by data take the reported state, the others keep theirs
SaSw(c, sw, data) == [k \in DOMAIN sw |-> IF k < 4 * Len(data)
                                          THEN (IF k \in SeqSet(c.inv) THEN 1 - SaBit(data, k) ELSE SaBit(data, k))
                                          ELSE sw[k]]
\* _process_sa as written: exactly saf + 1 fields, bytearray.fromhex(last field); the other fields are not looked at
PySaOk(c, p) == LET fs == Fields(p) IN Len(fs) = c.saf + 1 /\ Len(fs[Len(fs)]) % 2 = 0
                                       /\ \A i \in 1..Len(fs[Len(fs)]) : HexVal(fs[Len(fs)][i]) >= 0
FastApplySw(c, sw, m) ==
    IF FastSaOk(c, m) THEN SaSw(c, sw, SaData(m))
    ELSE IF FastOk(c, m) /\ HexNum(0, Rest(m, 3)) \in DOMAIN sw
         THEN [sw EXCEPT ![HexNum(0, Rest(m, 3))] = IF m[1] = 45 THEN 1 ELSE 0] ELSE sw
FastApply(c, d, m) ==
    IF FastSaHdr(m) /\ ~FastSaOk(c, m) THEN
        \* as written: a report with a wrong field count / odd or non-hex data raises; any other one is applied to the
        \* switches its data covers, and raises (KeyError) when a configured switch is not covered
        IF ~PySaOk(c, Rest(m, 3)) THEN (IF "MalformedRaises" \in Deviations THEN [d EXCEPT !.dead = TRUE] ELSE d)
        ELSE LET data == SaData(m)
                 d1 == IF "MalformedAccepted" \in Deviations THEN [d EXCEPT !.sw = SaSw(c, d.sw, data)] ELSE d
             IN IF (\E k \in DOMAIN d.sw : k >= 4 * Len(data)) /\ "MalformedRaises" \in Deviations
                THEN [d1 EXCEPT !.dead = TRUE] ELSE d1
    ELSE IF ~FastSwHdr(c, m) \/ FastOk(c, m) THEN [d EXCEPT !.sw = FastApplySw(c, d.sw, m)]
    ELSE IF PyHexOk(Rest(m, 3))
         THEN (IF "MalformedAccepted" \in Deviations THEN SetSw(d, PyHexVal(Rest(m, 3)), IF m[1] = 45 THEN 1 ELSE 0) ELSE d)
         ELSE (IF "MalformedRaises" \in Deviations THEN [d EXCEPT !.dead = TRUE] ELSE d)
RECURSIVE FastRun(_, _)
FastRun(c, d) ==
    IF d.dead THEN d ELSE
    LET p == IndexOf(d.buf, 13) IN
    IF p = 0 THEN d ELSE
    LET m == SubSeq(d.buf, 1, p - 1)
        d1 == Drop(d, p) IN
    IF m = <<>> THEN FastRun(c, d1)
    ELSE IF HasHigh(m) THEN (IF "DecodeErrorRaises" \in Deviations THEN [d1 EXCEPT !.dead = TRUE] ELSE FastRun(c, d1))
    ELSE FastRun(c, Rec(FastApply(c, [d1 EXCEPT !.out = Append(@, [at |-> d.base, m |-> m])], m)))

\* ---------------------------------------------------------------- PKONE (switch event "PSW" b nn s "E")
IsDig(b) == b \in 48..57
AllDig(s) == s # <<>> /\ \A i \in 1..Len(s) : IsDig(s[i])
RECURSIVE DecNum(_, _)
DecNum(acc, s) == IF s = <<>> THEN acc ELSE DecNum(acc * 10 + (Head(s) - 48), Tail(s))
PkSwHdr(m) == Len(m) >= 3 /\ m[1] = 80 /\ m[2] = 83 /\ m[3] = 87
PkOk(m) == PkSwHdr(m) /\ Len(m) = 7 /\ AllDig(Rest(m, 3)) /\ m[7] \in {48, 49}
PkKey(p) == (p[1] - 48) * 100 + DecNum(0, SubSeq(p, 2, IF Len(p) < 3 THEN Len(p) ELSE 3))
PkApplySw(sw, m) == IF PkOk(m) /\ PkKey(Rest(m, 3)) \in DOMAIN sw THEN [sw EXCEPT ![PkKey(Rest(m, 3))] = m[7] - 48] ELSE sw
\* receive_switch as written: int(p[0]), int(p[1:3]), int(p[-1])
PkPyOk(p) == Len(p) >= 2 /\ IsDig(p[1]) /\ AllDig(SubSeq(p, 2, IF Len(p) < 3 THEN Len(p) ELSE 3)) /\ IsDig(p[Len(p)])
PkApply(d, m) ==
    IF ~PkSwHdr(m) \/ PkOk(m) THEN [d EXCEPT !.sw = PkApplySw(d.sw, m)]
    ELSE LET p == Rest(m, 3) IN
         \* (the switch controller takes any state digit other than 0 as "active")
         IF PkPyOk(p) THEN (IF "MalformedAccepted" \in Deviations THEN SetSw(d, PkKey(p), IF p[Len(p)] = 48 THEN 0 ELSE 1) ELSE d)
         ELSE (IF "MalformedRaises" \in Deviations THEN [d EXCEPT !.dead = TRUE] ELSE d)
RECURSIVE PkRun(_)
PkRun(d) ==
    IF d.dead THEN d ELSE
    LET p == IndexOf(d.buf, 69) IN
    IF p = 0 THEN d ELSE
    LET m == SubSeq(d.buf, 1, p - 1)
        d1 == [Drop(d, p) EXCEPT !.infl = IF @ - 1 < 0 THEN 0 ELSE @ - 1] IN
    IF m = <<>> THEN PkRun(d1)
    ELSE IF HasHigh(m) THEN (IF "DecodeErrorRaises" \in Deviations THEN [d1 EXCEPT !.dead = TRUE] ELSE PkRun(d1))
    ELSE IF m = <<80, 87, 68>> THEN PkRun(d1)                    \* "PWD" is in ignored_messages
    ELSE PkRun(Rec(PkApply([d1 EXCEPT !.out = Append(@, [at |-> d.base, m |-> m])], m)))

\* ---------------------------------------------------------------- common
Run(c, d) == IF c.proto = "opp" THEN OppRun(d) ELSE IF c.proto = "fast" THEN FastRun(c, d) ELSE PkRun(d)
Feed(c, d, chunk) == IF d.dead THEN d ELSE Run(c, [d EXCEPT !.buf = @ \o chunk])
ApplySw(c, sw, m) == IF c.proto = "opp" THEN OppApplySw(sw, m)
                     ELSE IF c.proto = "fast" THEN FastApplySw(c, sw, m) ELSE PkApplySw(sw, m)
\* the carry-over up to what the decoder will do with it anyway before looking at new bytes
NormCarry(c, d) == IF d.dead THEN [buf |-> <<>>, lost |-> FALSE]
                   ELSE IF c.proto = "opp" /\ d.lost THEN [buf |-> OppScan(d).buf, lost |-> OppScan(d).lost]
                   ELSE [buf |-> d.buf, lost |-> d.lost]
Norm(c, d) == [out |-> d.out, sw |-> d.sw, hist |-> d.hist, dead |-> d.dead, infl |-> d.infl, carry |-> NormCarry(c, d)]
FrameMsg(c, f) == IF c.proto = "opp" THEN f ELSE SubSeq(f, 1, Len(f) - 1)     \* without the terminator
RECURSIVE FoldSw(_, _, _)
FoldSw(c, sw, ms) == IF ms = <<>> THEN sw ELSE FoldSw(c, ApplySw(c, sw, Head(ms)), Tail(ms))
\* switch states as the list of 0/1 of the configured switches cfg.sws (OPP inputs are active low)
OppSwState(sw, s) == LET p == sw[s.a * 256 + s.c] IN 1 - Bit(p[Len(p) - (s.i \div 8)], s.i % 8)
Digest(c, sw) == IF c.proto = "opp"
    THEN [j \in 1..Len(c.sws) |-> OppSwState(sw, c.sws[j])]
    ELSE [j \in 1..Len(c.sws) |-> sw[c.sws[j]]]

\* ---------------------------------------------------------------- environment
Init == /\ cfg \in Configs /\ wire = <<>> /\ pending = <<>> /\ nfr = 0 /\ nins = 0 /\ nflt = 0 /\ nfill = 0
        /\ started = <<>> /\ clean = <<>> /\ gsince = 0 /\ curAt = 0 /\ curF = <<>> /\ curDirty = FALSE /\ phase = "send" /\ pos = 0
        /\ dec = InitDec(cfg) /\ act = [op |-> "init"]
Done(w, pend, dirty) ==    \* bookkeeping when the last byte of the current frame has left the channel
    IF pend = <<>> /\ curF # <<>> /\ ~dirty THEN Append(clean, [at |-> curAt, f |-> curF, g |-> gsince]) ELSE clean
StartFrame(f) ==
    /\ phase = "send" /\ pending = <<>> /\ nfr < MaxFrames
    /\ pending' = f /\ nfr' = nfr + 1 /\ started' = Append(started, f) /\ curAt' = Len(wire) /\ curF' = f /\ curDirty' = FALSE
    /\ act' = [op |-> "frame", f |-> f]
    /\ UNCHANGED <<cfg, wire, nins, nflt, nfill, clean, gsince, phase, pos, dec>>
Fill(x) ==
    /\ phase = "send" /\ pending = <<>> /\ nfill < MaxFill
    /\ wire' = wire \o x /\ nfill' = nfill + 1 /\ curF' = <<>> /\ gsince' = gsince + 1 /\ act' = [op |-> "fill", x |-> x]
    /\ UNCHANGED <<cfg, pending, nfr, nins, nflt, started, clean, curAt, curDirty, phase, pos, dec>>
Pass ==
    /\ phase = "send" /\ pending # <<>>
    /\ wire' = Append(wire, Head(pending)) /\ pending' = Tail(pending)
    /\ clean' = Done(wire', pending', curDirty) /\ act' = [op |-> "pass"]
    /\ UNCHANGED <<cfg, nfr, nins, nflt, nfill, started, gsince, curAt, curF, curDirty, phase, pos, dec>>
DropByte ==
    /\ phase = "send" /\ pending # <<>> /\ nflt < MaxFaults
    /\ pending' = Tail(pending) /\ nflt' = nflt + 1 /\ curDirty' = TRUE /\ clean' = <<>> /\ gsince' = 0 /\ act' = [op |-> "drop"]
    /\ UNCHANGED <<cfg, wire, nfr, nins, nfill, started, curAt, curF, phase, pos, dec>>
Replace(b) ==
    /\ phase = "send" /\ pending # <<>> /\ nflt < MaxFaults /\ b # Head(pending)
    /\ wire' = Append(wire, b) /\ pending' = Tail(pending) /\ nflt' = nflt + 1 /\ curDirty' = TRUE /\ clean' = <<>>
    /\ gsince' = 0 /\ act' = [op |-> "rep", b |-> b]
    /\ UNCHANGED <<cfg, nfr, nins, nfill, started, curAt, curF, phase, pos, dec>>
Insert(b) ==
    /\ phase = "send" /\ nins < MaxInsert /\ nflt < MaxFaults
    /\ wire' = Append(wire, b) /\ nins' = nins + 1 /\ nflt' = nflt + 1 /\ curDirty' = TRUE /\ clean' = <<>>
    /\ gsince' = 0 /\ act' = [op |-> "ins", b |-> b]
    /\ UNCHANGED <<cfg, pending, nfr, nfill, started, curAt, curF, phase, pos, dec>>
EndOfTransmission ==
    /\ phase = "send" /\ pending = <<>> /\ wire # <<>> /\ phase' = "recv" /\ act' = [op |-> "eot"]
    /\ UNCHANGED <<cfg, wire, pending, nfr, nins, nflt, nfill, started, clean, gsince, curAt, curF, curDirty, pos, dec>>
Deliver(k) ==
    /\ phase = "recv" /\ pos + k <= Len(wire)
    /\ dec' = Feed(cfg, dec, SubSeq(wire, pos + 1, pos + k)) /\ pos' = pos + k /\ act' = [op |-> "deliver", k |-> k]
    /\ UNCHANGED <<cfg, wire, pending, nfr, nins, nflt, nfill, started, clean, gsince, curAt, curF, curDirty, phase>>
Next == \/ \E f \in cfg.frames : StartFrame(f)
        \/ \E x \in cfg.fill : Fill(x)
        \/ Pass \/ DropByte \/ EndOfTransmission
        \/ \E b \in cfg.noise : Replace(b) \/ Insert(b)
        \/ \E k \in 1..MaxChunk : Deliver(k)
Spec == Init /\ [][Next]_vars

\* ---------------------------------------------------------------- properties
Whole(n) == Feed(cfg, InitDec(cfg), SubSeq(wire, 1, n))
AtEnd == phase = "recv" /\ pos = Len(wire)
\* the valid frames offered by the configuration really are valid (cross-check of Crc8 with the code's CRC)
FramesValid == (wire = <<>> /\ pending = <<>>) => \A f \in cfg.frames :      \* (cfg never changes: the initial state only) (cfg.proto = "opp" => OppOk(f)) /\ (cfg.proto = "fast" => FastOk(cfg, FrameMsg(cfg, f)) \/ FastSaOk(cfg, FrameMsg(cfg, f)))
                                     /\ (cfg.proto = "pkone" => PkOk(FrameMsg(cfg, f)))
\* decoded messages, switch states and (normalised) carry-over depend only on the bytes delivered so far
ChunkInvariance == phase = "recv" => Norm(cfg, dec) = Norm(cfg, Whole(pos))
\* only well-formed frames (correct length and checksum) ever act on switch states ...
BadFrameInert == dec.sw = FoldSw(cfg, InitSw(cfg), [i \in 1..Len(dec.out) |-> dec.out[i].m]) /\ ~dec.dead
\* ... at every point of the message sequence: the states after the i-th decoded message are those of the well-formed
\* ones among the first i (a full-state report replaces, an event changes one switch)
SequenceFollowsReports == ~dec.dead => /\ Len(dec.hist) = Len(dec.out)
    /\ \A i \in 1..Len(dec.out) : dec.hist[i] = FoldSw(cfg, InitSw(cfg), [j \in 1..i |-> dec.out[j].m])
\* OPP wing layouts: the configured switches sit on inputs which the wings of their card provide (cfg never changes:
\* looked at in the initial state only) ...
LayoutValid == (cfg.proto = "opp" /\ wire = <<>> /\ pending = <<>>) => \A j \in 1..Len(cfg.sws) : LET s == cfg.sws[j] IN
    \E n \in 1..Len(cfg.cards) : /\ cfg.cards[n].a = s.a
                                  /\ \/ s.c = 8 /\ s.i \in CardInputs(cfg.cards[n])
                                     \/ s.c = 25 /\ CardHasMatrix(cfg.cards[n]) /\ s.i \in 0..63
\* ... and whatever the layout of the cards on the chain: a CRC-correct report of a card that has that kind of inputs
\* sets every configured switch of that card and kind to what the report says (a cleared bit = closed), and no message
\* changes any other switch (a report with a wrong CRC, of an unknown card, of a card without such inputs changes none)
ReportedBit(m, i) == Bit(m[Len(m) - 1 - (i \div 8)], i % 8)      \* input / matrix switch i of the report m (last data byte: 0-7)
WingReportsApplied == (cfg.proto = "opp" /\ ~dec.dead) => \A i \in 1..Len(dec.hist) :
    LET m == dec.out[i].m
        valid == OppOk(m) /\ MayReport(cfg, m[1], m[2])
        before == IF i = 1 THEN InitSw(cfg) ELSE dec.hist[i - 1]
    IN \A j \in 1..Len(cfg.sws) : LET s == cfg.sws[j] IN
        OppSwState(dec.hist[i], s) = IF valid /\ m[1] = s.a /\ m[2] = s.c THEN 1 - ReportedBit(m, s.i) ELSE OppSwState(before, s)
\* ... and on a checksummed link no switch state is ever invented: it is one that a board reported
NoInventedState == cfg.proto = "opp" =>
    \A k \in DOMAIN dec.sw : dec.sw[k] = InitSw(cfg)[k]
                             \/ \E i \in 1..Len(started) : started[i][1] * 256 + started[i][2] = k
                                                           /\ SubSeq(started[i], 3, Len(started[i]) - 1) = dec.sw[k]
\* after the last channel fault every intact frame beyond the first cfg.P ones - or, on links whose traffic is
\* grouped by a filler (the OPP end-of-message byte closing every poll response), beyond the first cfg.G groups -
\* is decoded
Resync == AtEnd => \A i \in 1..Len(clean) : (i > cfg.P \/ clean[i].g >= cfg.G) =>
              \E j \in 1..Len(dec.out) : dec.out[j].at = clean[i].at /\ dec.out[j].m = FrameMsg(cfg, clean[i].f)
\* on a fault-free stream the switch states are those of the last report of each board / switch
LastReportWins == (AtEnd /\ nflt = 0 /\ nins = 0) =>
    dec.sw = FoldSw(cfg, InitSw(cfg), [i \in 1..Len(started) |-> FrameMsg(cfg, started[i])])
=============================================================================
