------------------------ MODULE SerialFramingTrace ------------------------
(* One trace = one concrete byte stream (TR.wire) pushed through the REAL decoder of TR.cfg.proto once per      *)
(* chunking.  Each line e is one chunking: e.t = "m": bit i-1 of e.m set <=> a read boundary after byte i;       *)
(* e.t = "k": e.k = list of read sizes.  Logged observations: e.o = ids (index into TR.tbl) of the messages       *)
(* handed to the message processor, in order; e.h = for each of them the states of the configured switches when    *)
(* its handler had returned or raised (bit j-1 = switch cfg.sws[j]); e.s = the states at the end; e.c / e.ls =      *)
(* bytes carried over / lost-synch flag; e.f = PKONE in-flight counter; e.dd = the decoder raised (reader task   *)
(* dead).  A line is accepted iff                                                                                  *)
(* the observations equal the model's decode of the same chunking AND the model's whole-stream decode.            *)
(* OPP: TR.cfg.cards is the wing layout the emulated cards of the booted machine reported at start-up; which      *)
(* reports are valid (InitSw / OppApplySw via OppKeys) is derived from it by the model, not by the driver.        *)
EXTENDS SerialFraming, TraceIO
VARIABLES tid, l
tvars == <<vars, tid, l>>
TR == TraceLines[tid]
TL == TR.ev
TConfigs == {}
TInit == /\ tid \in 1..Len(TraceLines) /\ l = 1 /\ cfg = TraceLines[tid].cfg /\ wire = TraceLines[tid].wire
         /\ pending = <<>> /\ nfr = 0 /\ nins = 0 /\ nflt = 0 /\ nfill = 0 /\ started = <<>> /\ clean = <<>> /\ gsince = 0
         /\ curAt = 0 /\ curF = <<>> /\ curDirty = FALSE /\ phase = "trace" /\ pos = 0
         /\ dec = InitDec(TraceLines[tid].cfg) /\ act = [op |-> "init"]
RECURSIVE FeedMask(_, _, _, _)
FeedMask(d, mask, s, i) ==
    IF i > Len(wire) THEN d
    ELSE IF i = Len(wire) \/ Bit(mask, i - 1) = 1 THEN FeedMask(Feed(cfg, d, SubSeq(wire, s, i)), mask, i + 1, i + 1)
    ELSE FeedMask(d, mask, s, i + 1)
RECURSIVE FeedSizes(_, _, _)
FeedSizes(d, ks, s) == IF ks = <<>> THEN d
                       ELSE FeedSizes(Feed(cfg, d, SubSeq(wire, s + 1, s + Head(ks))), Tail(ks), s + Head(ks))
IdOf(m) == IF \E i \in 1..Len(TR.tbl) : TR.tbl[i] = m THEN CHOOSE i \in 1..Len(TR.tbl) : TR.tbl[i] = m ELSE 0
OutIds(d) == [i \in 1..Len(d.out) |-> IdOf(d.out[i].m)]
RECURSIVE MaskOf(_)
MaskOf(s) == IF s = <<>> THEN 0 ELSE Head(s) + 2 * MaskOf(Tail(s))
HistMasks(d) == [i \in 1..Len(d.hist) |-> MaskOf(Digest(cfg, d.hist[i]))]
Step(e) ==
    e.t \in {"m", "k"} /\          \* a {t: "crash"} line (the harness itself failed) is never accepted
    LET d == IF e.t = "m" THEN FeedMask(InitDec(cfg), e.m, 1, 1) ELSE FeedSizes(InitDec(cfg), e.k, 0)
        w == Whole(Len(wire))
    IN /\ e.o = OutIds(d) /\ e.h = HistMasks(d) /\ e.s = Digest(cfg, d.sw) /\ e.dd = d.dead /\ (d.dead \/ e.f = d.infl)
       /\ NormCarry(cfg, [d EXCEPT !.buf = e.c, !.lost = e.ls]) = NormCarry(cfg, d)
       /\ Norm(cfg, d) = Norm(cfg, w)              \* ChunkInvariance on this very stream
       /\ dec' = d
       /\ UNCHANGED <<cfg, wire, pending, nfr, nins, nflt, nfill, started, clean, gsince, curAt, curF, curDirty, phase, pos, act>>
TNext == l <= Len(TL) /\ Step(TL[l]) /\ l' = l + 1 /\ UNCHANGED tid
TSpec == TInit /\ [][TNext]_tvars
Reporter == TraceReport(tid, l, Len(TL))
=============================================================================
