--------------------------- MODULE BallWorldMCDefs ---------------------------
(* The two harness topologies (machines/balls, machines/balls2) as constants for the cfg files. *)
MCDevs == {"bd_trough", "bd_plunger", "bd_lock"}
MCCap == [d \in MCDevs |-> IF d = "bd_trough" THEN 3 ELSE IF d = "bd_lock" THEN 2 ELSE 1]
MCTarget == [d \in MCDevs |-> IF d = "bd_trough" THEN "bd_plunger" ELSE "pf"]
MCCap2 == [d \in MCDevs |-> IF d = "bd_trough" THEN 3 ELSE 2]
MCTarget2 == [d \in MCDevs |-> IF d = "bd_plunger" THEN "pf" ELSE "bd_plunger"]
\* third topology: as the second, but a one-slot launcher and the lock confirms its ejects by a switch on the way
MCCap3 == [d \in MCDevs |-> IF d = "bd_trough" THEN 3 ELSE IF d = "bd_lock" THEN 2 ELSE 1]
MCTarget3 == MCTarget2
\* fourth topology: as the first, but the lock counts its balls by an entrance switch and holds them (ball_hold)
MCCap4 == MCCap
MCTarget4 == MCTarget
\* fifth: the first topology inside a running game with an unlimited ball save (eject_delay 2 s) and add-a-ball requests
MCCap5 == MCCap
MCTarget5 == MCTarget
\* sixth: trough and a holding lock both feed the one-slot launcher; held balls serve requests when the trough is empty
MCCap6 == MCCap3
MCTarget6 == MCTarget2
MCNoAtt == [d \in MCDevs |-> 0]
\* topology balls3: the trough gives up after three failed attempts
MCAtt3 == [d \in MCDevs |-> IF d = "bd_trough" THEN 3 ELSE 0]
\* seventh: the launcher has a second target behind a diverter - the lock, which asks for balls itself (two hops from the
\* trough); ejects towards a device can go astray (ball lost in transit); nothing can be shot into the lock
MCCap7 == MCCap
MCTarget7 == MCTarget
MCNoAlt == [d \in MCDevs |-> {}]
MCAlt7 == [d \in MCDevs |-> IF d = "bd_plunger" THEN {"bd_lock"} ELSE {}]
\* eighth: the fifth topology (game, ball save, multiball) with the lock as a ball_locks device of the multiball
MCCap8 == MCCap
MCTarget8 == MCTarget
=============================================================================
