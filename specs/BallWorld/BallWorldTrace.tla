--------------------------- MODULE BallWorldTrace ---------------------------
(* A recorded run of real ball devices against the harness' physical world.  World moves and     *)
(* player actions are logged by the world double (with ball ids), `fire` by the coil drivers MPF  *)
(* pulsed.  Every line carries MPF's counts (m): bounded always (C04), and on `rest` lines (world *)
(* quiet for longer than every timeout) equal to the physical truth, all devices idle, every     *)
(* requested ball delivered and nothing left pending (C04 + C05).                                *)
(* `hold` / `held` / `unhold`: a handler of the environment on the device's eject_attempt queue   *)
(* event is armed / has caught an attempt (queue.wait()) / lets it go (queue.clear()); the fire   *)
(* that follows is a Fire like any other: the target must have room when the coil is pulsed.      *)
EXTENDS BallWorld, TraceIO
VARIABLES tid, l
tvars == <<vars, tid, l>>
TL == TraceLines[tid].ev
TInit == /\ tid \in 1..Len(TraceLines) /\ l = 1 /\ Init
\* C04: no count is ever negative or above a device's capacity
Bounded(e) == /\ \A d \in Devs : e.m[d] >= 0 /\ e.m[d] <= Cap[d]
              /\ e.m.pf >= 0
Step(e) ==
    /\ Bounded(e)
    /\ \/ e.op = "fire" /\ Fire(e.d, e.t)
       \/ e.op = "leave" /\ Leave(e.d, e.b, e.kind)
       \/ e.op = "noleave" /\ NoLeave(e.d)
       \/ e.op = "arrive" /\ Arrive(e.b) /\ act'.at = e.at
       \/ e.op = "drain" /\ Drain(e.b)
       \/ e.op = "shot" /\ Shot(e.b, e.d)
       \/ e.op = "escape" /\ Escape(e.b, e.d)
       \/ e.op = "bounce" /\ Bounce(e.b, e.d)
       \/ e.op = "release" /\ Release(e.d)
       \/ e.op = "broken" /\ Broken(e.d)
       \/ e.op = "request" /\ Request
       \/ e.op = "reqdev" /\ ReqDev(e.d)
       \/ e.op = "hold" /\ HoldArm(e.d)
       \/ e.op = "held" /\ Held(e.d)
       \/ e.op = "unhold" /\ Unhold(e.d)
       \/ /\ e.op = "rest" /\ Quiet /\ UNCHANGED vars
          \* C04: at rest every count equals the physical truth and they sum to the balls known
          /\ \A d \in Devs : e.m[d] = Cardinality(In(d))
          /\ e.m.pf = Cardinality(In("pf")) /\ e.known = Cardinality(Balls)
          \* C05: every device back to idle, every request served if a ball was available, nothing pending
          \* (a device may keep waiting for a ball only for a request no ball exists for)
          \* C05: a device that has given up (state eject_broken) must have said so; once a device is broken the remaining
          \* requests may be unservable, so idle / delivery are only demanded while no device is broken
          /\ \A i \in DOMAIN e.states : e.states[i] = "eject_broken" => e.devs[i] \in broken
          /\ (broken # {} \/ e.idle \/ ((want > Avail \/ (\E d \in Requestable : DevUnserved(d) /\ In(Home) = {}) \/ (everlost /\ In(Home) = {}))
                                           /\ SeqToSet(e.states) \subseteq {"idle", "waiting_for_ball"}))
          \* (a ball more than requested on the playfield is not what either statement forbids: reported as an
          \*  observation by the driver, not judged here)
          /\ (broken # {} \/ Cardinality(In("pf")) >= Served)
          \* C05: a ball requested for a device itself has been delivered there (over however many hops, also after a ball was
          \* lost on the way) unless no ball is left in the trough to send
          /\ (broken # {} \/ \A d \in Requestable : DevUnserved(d) => In(Home) = {})
TNext == l <= Len(TL) /\ Step(TL[l]) /\ l' = l + 1 /\ UNCHANGED tid
TSpec == TInit /\ [][TNext]_tvars
Reporter == TraceReport(tid, l, Len(TL))
=============================================================================
