----------------------------- MODULE BallWorldMC -----------------------------
EXTENDS BallWorld, BallWorldMCDefs
\* the world never holds more balls in a device than fit (so RoomAt is the right guard for Fire)
NeverOverfull == \A d \in Devs : Cardinality(In(d)) <= Cap[d]
=============================================================================
