------------------------------ MODULE BallWorld ------------------------------
(* The physical machine as the statements of C04 / C05 see it: balls with locations, devices with *)
(* capacities, ejects commanded by MPF (coil fired) and resolved by physics (the ball leaves and   *)
(* arrives, or falls back, or does not move), drains and lock shots by the player, and requests    *)
(* for balls on the playfield.  MPF's own bookkeeping is not modelled: its counts are OBSERVED and *)
(* judged against this world - bounded at every step, equal to the physical truth at rest.         *)
EXTENDS Integers, Sequences, FiniteSets, TLC
CONSTANTS Balls, Devs, Cap, Target, Shootable,   \* Shootable: devices a playfield ball can be shot into
          Escapable,   \* devices a resting ball can leave by itself (bounce out, get lost)
          Holding,     \* devices whose balls are held (ball_hold over the full capacity): ejected only on release
          Sourcing,    \* holding devices on a path to the playfield: their held balls are available to serve requests
          EntranceCounted,   \* devices that count balls by an entrance switch (a ball can roll over it and bounce back)
          Saved,       \* TRUE: a game with an unlimited ball save is running - every drained ball is owed back to the playfield
          MaxAtt,      \* [Devs -> Nat] max_eject_attempts of each device (0: unlimited)
          Alt,         \* [Devs -> SUBSET (Devs \cup {"pf"})] further eject targets of a device (a diverter behind it); MPF picks one per eject
          Losable,     \* devices whose ejected ball can go astray on the way to another device: it never arrives there, it ends up
                       \* loose on the playfield without anybody seeing it (ball_missing handling)
          Requestable, \* devices that ask for balls for themselves (device.request_ball(): lock / staging requests)
          Holdable,    \* devices whose balldevice_<d>_ball_eject_attempt queue event a handler of the environment may hold back
             \* Cap[d] capacity, Target[d] where d ejects to ("pf" = playfield)
          MaxOps
VARIABLES loc,      \* [Balls -> <<"at", p, p, "ok">> | <<"transit", src, dst, kind>>]  (p a device or "pf"; kind "ok" | "back")
          fired,    \* devices whose eject coil was fired and whose ball has not reacted yet
          want,     \* balls the environment has asked to be on the playfield (requests minus drains), >= 0
          rel,      \* [Devs -> Nat] held balls that were released and have not left their device yet
          fails,    \* [Devs -> Nat] consecutive ejects of the device that did not get a ball to its target in time
          broken,   \* devices that have reported themselves broken (balldevice_<name>_broken)
          att,      \* [Devs -> "free" | "armed" | "held"]: the environment's handler of the device's eject_attempt queue event -
                    \* not holding / will hold the next attempt / is holding an attempt MPF has posted (queue.wait(), not cleared yet)
          dest,     \* [Devs -> place] where MPF aimed the last fired eject of the device (Target[d] while the device is not fired)
          wantd,    \* [Devs -> Nat] balls the environment has asked to be delivered INTO the device (and to stay there)
          stray,    \* balls that went astray and lie on the playfield (or roll there) unrequested, until they drain
          everlost, \* TRUE once a ball has gone astray: from then on which request a stray ball counts for (none, or the one whose
                    \* path ended on the playfield) is MPF's choice, and `want` is only a lower bound of what is owed
          nops, act
vars == <<loc, fired, want, rel, fails, broken, att, dest, wantd, stray, everlost, nops, act>>
Home == "bd_trough"     \* the trough: where all balls start and drains end
At(p) == <<"at", p, p, "ok">>
Init == /\ loc = [b \in Balls |-> At(Home)] /\ fired = {} /\ want = 0 /\ rel = [d \in Devs |-> 0] /\ fails = [d \in Devs |-> 0] /\ broken = {} /\ att = [d \in Devs |-> "free"] /\ dest = [d \in Devs |-> Target[d]] /\ wantd = [d \in Devs |-> 0] /\ stray = {} /\ everlost = FALSE /\ nops = 0 /\ act = [op |-> "init"]
In(p) == {b \in Balls : loc[b] = At(p)}
Transit(b) == loc[b][1] = "transit"
To(p) == {b \in Balls : Transit(b) /\ ((loc[b][4] = "ok" /\ loc[b][3] = p) \/ (loc[b][4] = "back" /\ loc[b][2] = p))}
Budget == nops < MaxOps /\ nops' = nops + 1
\* the failure counter of a device is only kept where attempts are limited, and saturates at the limit
IncF(d, n) == IF MaxAtt[d] > 0 /\ n < MaxAtt[d] THEN n + 1 ELSE n
\* MPF fires the eject coil of d.  C04: never towards a device that has no room for the ball
Coming(t) == Cardinality(To(t)) + Cardinality({d \in fired : dest[d] = t})
RoomAt(t) == IF t = "pf" THEN TRUE ELSE Cap[t] - Cardinality(In(t)) - Coming(t) > 0
\* (whether a held ball may be ejected without a release is not something C04 / C05 speak about: not judged)
\* t: the target MPF has chosen for this eject (the diverter behind d is set accordingly): one of the device's eject targets
Fire(d, t) == /\ d \notin fired /\ (t = Target[d] \/ t \in Alt[d]) /\ RoomAt(t)
              /\ fired' = fired \cup {d} /\ dest' = [dest EXCEPT ![d] = t] /\ act' = [op |-> "fire", d |-> d, t |-> t]
              /\ UNCHANGED <<loc, want, rel, fails, broken, nops, att, wantd, stray, everlost>>
\* physics: the fired device's ball leaves towards the target (and may fall back), or does not move at all
\* (a device that counts by an entrance switch cannot sense a failed eject - the ball never passes the entrance again -
\*  so failed ejects of such devices are outside what any controller could get right and are not part of the world)
\* kind "late": as "ok", but the ball takes longer than the eject timeout to arrive (a late confirmation for MPF; for the
\* world it is a ball on its way like any other)
\* kind "lost": the ball leaves d and goes astray: it never reaches the device it was fired at, it comes to lie on the
\* playfield unseen (no switch is hit).  Only ejects towards another device can be lost that way, and only devices without
\* an attempt limit are driven with it (whether a lost ball counts as a failed attempt is not something the statement fixes)
Leave(d, b, kind) == /\ d \in fired /\ loc[b] = At(d) /\ (d \in EntranceCounted => kind = "ok")
                     /\ (kind = "lost" => d \in Losable /\ dest[d] # "pf" /\ MaxAtt[d] = 0)
                     /\ loc' = [loc EXCEPT ![b] = IF kind = "lost" THEN <<"transit", d, "pf", "ok">>
                                                   ELSE <<"transit", d, dest[d], IF kind = "late" THEN "ok" ELSE kind>>]
                     /\ fired' = fired \ {d} /\ dest' = [dest EXCEPT ![d] = Target[d]] /\ act' = [op |-> "leave", d |-> d, kind |-> kind]
                     /\ rel' = [rel EXCEPT ![d] = IF kind # "back" /\ @ > 0 THEN @ - 1 ELSE @]
                     \* (a late ball is a failed attempt for the device too: its eject timed out)
                     /\ fails' = [fails EXCEPT ![d] = IF kind = "ok" THEN 0 ELSE IncF(d, @)] /\ UNCHANGED <<want, broken, nops, att, wantd>>
                     /\ stray' = (IF kind = "lost" THEN stray \cup {b} ELSE stray) /\ everlost' = (everlost \/ kind = "lost")
NoLeave(d) == /\ d \in fired /\ d \notin EntranceCounted /\ fired' = fired \ {d} /\ dest' = [dest EXCEPT ![d] = Target[d]] /\ act' = [op |-> "noleave", d |-> d]
              /\ fails' = [fails EXCEPT ![d] = IncF(d, @)] /\ UNCHANGED <<loc, want, rel, broken, nops, att, wantd, stray, everlost>>
Arrive(b) == /\ Transit(b)
             /\ loc' = [loc EXCEPT ![b] = At(IF loc[b][4] = "ok" THEN loc[b][3] ELSE loc[b][2])]
             /\ act' = [op |-> "arrive", at |-> IF loc[b][4] = "ok" THEN loc[b][3] ELSE loc[b][2]]
             /\ UNCHANGED <<fired, want, rel, fails, broken, nops, att, dest, wantd, stray, everlost>>
\* a device that has used up its attempts reports itself broken (C05: rather than hanging silently)
Broken(d) == /\ MaxAtt[d] > 0 /\ fails[d] >= MaxAtt[d] /\ d \notin broken /\ broken' = broken \cup {d}
             /\ act' = [op |-> "broken", d |-> d] /\ UNCHANGED <<loc, fired, want, rel, fails, nops, att, dest, wantd, stray, everlost>>
\* the player: a ball on the playfield drains into the trough / is shot into the lock
Drain(b) == /\ Budget /\ loc[b] = At("pf") /\ loc' = [loc EXCEPT ![b] = <<"transit", "pf", Home, "ok">>]
            /\ want' = (IF Saved THEN want ELSE IF want > 0 THEN want - 1 ELSE 0) /\ act' = [op |-> "drain"] /\ stray' = stray \ {b} /\ UNCHANGED <<fired, rel, fails, broken, att, dest, wantd, everlost>>
Shot(b, d) == /\ Budget /\ loc[b] = At("pf") /\ d \in Shootable
              /\ Cap[d] - Cardinality(In(d)) - Coming(d) > 0
              /\ loc' = [loc EXCEPT ![b] = <<"transit", "pf", d, "ok">>] /\ act' = [op |-> "shot", d |-> d]
              \* a ball shot into a hold stays there: one ball less that belongs on the playfield
              /\ want' = (IF d \in Holding /\ want > 0 THEN want - 1 ELSE want) /\ UNCHANGED <<fired, rel, fails, broken, att, dest, wantd, stray, everlost>>
\* a playfield ball rolls over the entrance switch of a full entrance-counted device and bounces back
Bounce(b, d) == /\ Budget /\ loc[b] = At("pf") /\ d \in Shootable /\ d \in EntranceCounted
                /\ Cap[d] - Cardinality(In(d)) - Coming(d) = 0 /\ d \notin fired /\ rel[d] = 0
                /\ act' = [op |-> "bounce", d |-> d] /\ UNCHANGED <<loc, fired, want, rel, fails, broken, att, dest, wantd, stray, everlost>>
\* the held balls of d are released (release_all event): they belong on the playfield again
Release(d) == /\ Budget /\ d \in Holding /\ d \notin fired /\ rel[d] = 0 /\ Coming(d) = 0 /\ In(d) # {}
              /\ rel' = [rel EXCEPT ![d] = Cardinality(In(d))] /\ want' = want + Cardinality(In(d))
              /\ act' = [op |-> "release", d |-> d] /\ UNCHANGED <<loc, fired, fails, broken, att, dest, wantd, stray, everlost>>
\* a ball leaves a device by itself (bounces out, is lost from a lock) and ends up loose on the playfield
Escape(b, d) == /\ Budget /\ d \in Escapable /\ loc[b] = At(d) /\ d \notin fired
                /\ loc' = [loc EXCEPT ![b] = <<"transit", d, "pf", "ok">>] /\ act' = [op |-> "escape", d |-> d]
                \* a ball lost from the trough is one more ball that belongs on the playfield now; a ball lost from a
                \* device that was going to eject it to the playfield anyway changes nothing
                /\ want' = (IF d = Home THEN want + 1 ELSE want) /\ UNCHANGED <<fired, rel, fails, broken, att, dest, wantd, stray, everlost>>
\* a ball is requested for the playfield (ball start, ball save, multiball add, manual request)
Request == /\ Budget /\ want' = want + 1 /\ act' = [op |-> "request"] /\ UNCHANGED <<loc, fired, rel, fails, broken, att, dest, wantd, stray, everlost>>
\* a ball is requested for a device itself (device.request_ball(): a lock wants a ball, a staging device is filled); it may
\* have to travel over several hops (trough -> launcher -> the device)
ReqDev(d) == /\ Budget /\ d \in Requestable /\ wantd[d] < Cap[d] /\ want + wantd[d] < Cardinality(Balls)
             /\ wantd' = [wantd EXCEPT ![d] = @ + 1] /\ act' = [op |-> "reqdev", d |-> d]
             /\ UNCHANGED <<loc, fired, want, rel, fails, broken, att, dest, stray, everlost>>
\* A handler of the environment (a diverter that has to move or cool down, a queue_relay_player, a blocking show) holds the
\* eject_attempt QUEUE event of d back: it is armed (HoldArm), catches the next attempt MPF posts for d (Held: queue.wait())
\* and lets it go some time later (Unhold: queue.clear()) - while balls keep moving: the target of the held eject may fill
\* up or empty in the meantime.  The fire that follows is judged like every other one (guard of Fire: room NOW, not room
\* when the attempt was announced).  When and whether MPF posts the attempt is its own business: Held is not constrained.
HoldArm(d) == /\ Budget /\ d \in Holdable /\ att[d] = "free" /\ att' = [att EXCEPT ![d] = "armed"]
              /\ act' = [op |-> "hold", d |-> d] /\ UNCHANGED <<loc, fired, want, rel, fails, broken, dest, wantd, stray, everlost>>
Held(d) == /\ att[d] = "armed" /\ att' = [att EXCEPT ![d] = "held"]
           /\ act' = [op |-> "held", d |-> d] /\ UNCHANGED <<loc, fired, want, rel, fails, broken, nops, dest, wantd, stray, everlost>>
Unhold(d) == /\ att[d] = "held" /\ att' = [att EXCEPT ![d] = "free"]
             /\ act' = [op |-> "unhold", d |-> d] /\ UNCHANGED <<loc, fired, want, rel, fails, broken, nops, dest, wantd, stray, everlost>>
NextBase == \/ \E d \in Devs : NoLeave(d) \/ (\E t \in Devs \cup {"pf"} : Fire(d, t)) \/ \E b \in Balls, k \in {"ok", "back", "late", "lost"} : Leave(d, b, k)
            \/ \E b \in Balls : Arrive(b) \/ Drain(b) \/ \E d \in Devs : Shot(b, d) \/ Escape(b, d) \/ Bounce(b, d)
            \/ \E d \in Devs : Release(d) \/ Broken(d) \/ ReqDev(d)
            \/ Request
Next == \/ NextBase
        \/ \E d \in Devs : HoldArm(d) \/ Held(d) \/ Unhold(d)
Spec == Init /\ [][Next]_vars
\* the world without held attempts (schedule generation for the executions that do not use them)
SpecBase == Init /\ [][NextBase]_vars
\* ---- statements of C04 / C05 over observed MPF counts ------------------------------------------------------
Quiet == fired = {} /\ (\A b \in Balls : ~Transit(b)) /\ \A d \in Devs : att[d] # "held"
Min(a, b) == IF a <= b THEN a ELSE b
RECURSIVE SumKept(_)
\* balls that were requested for a device and lie in it: they belong there
Kept(d) == Min(wantd[d], Cardinality(In(d)))
SumKept(S) == IF S = {} THEN 0 ELSE LET d == CHOOSE x \in S : TRUE IN Kept(d) + SumKept(S \ {d})
Avail == Cardinality(Balls) - Cardinality(UNION {In(d) : d \in Holding \ Sourcing}) - SumKept(Requestable) - Cardinality(stray)
   \* balls not held out of reach, not kept where they were asked for, not astray (a ball that went astray is not a delivered
   \* request for MPF unless the path it was on ended on the playfield: both views are accepted)
\* a request of a device for itself is unserved although a ball lies in the trough (a path exists in every topology driven)
DevUnserved(d) == wantd[d] > Cardinality(In(d))
Served == IF want <= Avail THEN want ELSE Avail
\* at rest every requested ball is on the playfield (if there are that many balls) and nothing else is
PfAtRest == Cardinality(In("pf"))
Conserved == \A b \in Balls : loc[b][2] \in Devs \cup {"pf"} /\ loc[b][3] \in Devs \cup {"pf"}
TypeOK == want >= 0 /\ fired \subseteq Devs /\ Conserved /\ \A d \in Devs : rel[d] >= 0 /\ rel[d] <= Cap[d] /\ att[d] \in {"free", "armed", "held"} /\ (att[d] # "free" => d \in Holdable) /\ dest[d] \in Devs \cup {"pf"} /\ wantd[d] \in 0..Cap[d] /\ stray \subseteq Balls /\ everlost \in BOOLEAN
=============================================================================
