------------------------------- MODULE CoilMulti -------------------------------
(* Several coils operated concurrently (C08: "... is switched off again when that time is up,     *)
(* whatever else happens in between" - what happens in between includes OTHER coils being         *)
(* operated).  The machine is a PRODUCT of independent coils: every coil has its own software      *)
(* pulse timer (sw, the 'timed_disable' of mpf/devices/driver.py) and its own hold watchdog (ho,   *)
(* 'enable_limit_reached', max_hold_duration).  Output numbers are unique per platform only: two   *)
(* coils may carry the same number on different platforms (num / plat in the configuration, they   *)
(* play no role in what a coil does), a name may be a prefix of another's.                          *)
(* Per coil the model is the one of Coil.tla restricted to requests without max_wait_ms: pulse      *)
(* (timed by the platform up to its platMax, by a software timer beyond), enable, timed_enable,     *)
(* disable, with the refusals of the limits.  Every command that reaches a platform driver is       *)
(* <<kind, pulse_ms, pulse_power, hold_power, duration, time>> (time: when it was issued).          *)
EXTENDS Integers, Sequences, FiniteSets, TLC
CONSTANTS Configs,   \* machines: functions coil name -> [num, plat, platMax, defPulseMs, maxPulseMs, allowEnable, maxHP, maxHoldDur, defTE]
          NONE,      \* marks an omitted argument
          MsVals, TeVals, Steps, MaxTime, MaxOps
VARIABLES cfg, now, st, nops, act
\* st[c] = [on, sw, ho, out, err]: on "off" | "hold" | "swpulse"; sw / ho: when the software pulse timer / the hold watchdog
\* of THIS coil fires (0: not pending); out: commands that reached the coil's platform driver in the last step; err: the
\* last call (on this coil) was refused
vars == <<cfg, now, st, nops, act>>
Coils == DOMAIN cfg
Off == [on |-> "off", sw |-> 0, ho |-> 0, out |-> <<>>, err |-> FALSE]
Init == /\ cfg \in Configs /\ now = 1 /\ st = [c \in DOMAIN cfg |-> Off] /\ nops = 0 /\ act = [op |-> "init"]
\* ---- one coil (k: its configuration, s: its state, t: the time) ---------------------------------------------------
PMs(k, x) == IF x = NONE THEN k.defPulseMs ELSE x
TE(k, x) == IF x = NONE THEN k.defTE ELSE x
HP(k) == IF k.maxHP # 0 THEN k.maxHP ELSE IF k.allowEnable THEN 100 ELSE 0
MsOK(k, ms) == ms >= 0 /\ (k.maxPulseMs = 0 \/ ms <= k.maxPulseMs)
TeOK(k, te) == te >= 0 /\ (k.maxHoldDur = 0 \/ te <= k.maxHoldDur)
Emit(s, kind, ms, pp, hp, dur, t) == [s EXCEPT !.out = Append(@, <<kind, ms, pp, hp, dur, t>>)]
Refused(s) == [s EXCEPT !.err = TRUE]
DoDisable(s, t) == [Emit(s, "disable", 0, 0, 0, 0, t) EXCEPT !.on = "off", !.ho = 0]
DoPulse(k, s, t, msA) ==
    LET ms == PMs(k, msA) IN
    IF ~MsOK(k, ms) THEN Refused(s)
    ELSE IF ms > 0 /\ ms <= k.platMax THEN Emit(s, "pulse", ms, 100, 0, 0, t)
    \* longer than the platform can time: switched on now, switched off by the coil's software timer
    ELSE [Emit(s, "enable", 0, 100, 100, 0, t) EXCEPT !.on = "swpulse", !.sw = t + ms]
\* held: the coil's max_hold_duration watchdog runs from here unless it runs already
DoEnable(k, s, t) ==
    IF ~MsOK(k, k.defPulseMs) \/ HP(k) = 0 THEN Refused(s)
    ELSE [Emit(s, "enable", k.defPulseMs, 100, HP(k), 0, t)
             EXCEPT !.on = "hold", !.ho = IF k.maxHoldDur # 0 /\ s.ho = 0 THEN t + k.maxHoldDur ELSE s.ho]
\* the platform switches it off by itself
DoTimedEnable(k, s, t, teA) ==
    IF ~MsOK(k, k.defPulseMs) \/ ~TeOK(k, TE(k, teA)) THEN Refused(s)
    ELSE Emit(s, "timed_enable", k.defPulseMs, 100, HP(k), TE(k, teA), t)
\* the timers of one coil: all that are due fire in time order, the two of them due at the same instant in any order
Min(S) == CHOOSE m \in S : \A y \in S : m <= y
Timers(s) == {s.sw, s.ho} \ {0}
Fire(s, t) == (IF s.sw = t THEN {[DoDisable(s, t) EXCEPT !.sw = 0]} ELSE {}) \cup (IF s.ho = t THEN {DoDisable(s, t)} ELSE {})
RECURSIVE Drain(_, _)
Drain(s, lim) == LET due == {x \in Timers(s) : x <= lim} IN
                 IF due = {} THEN {s} ELSE UNION {Drain(f, lim) : f \in Fire(s, Min(due))}
Fresh(s) == [s EXCEPT !.out = <<>>, !.err = FALSE]
\* ---- the machine: a call concerns ONE coil, time passes for every coil on its own --------------------------------
Call(c, r, a) == /\ nops < MaxOps /\ nops' = nops + 1 /\ UNCHANGED <<cfg, now>> /\ act' = a
                 /\ st' = [x \in Coils |-> IF x = c THEN r ELSE Fresh(st[x])]
Pulse(c, msA) == Call(c, DoPulse(cfg[c], Fresh(st[c]), now, msA), [op |-> "pulse", c |-> c, ms |-> msA])
Enable(c) == Call(c, DoEnable(cfg[c], Fresh(st[c]), now), [op |-> "enable", c |-> c])
TimedEnable(c, teA) == Call(c, DoTimedEnable(cfg[c], Fresh(st[c]), now, teA), [op |-> "timed_enable", c |-> c, te |-> teA])
Disable(c) == Call(c, DoDisable(Fresh(st[c]), now), [op |-> "disable", c |-> c])
RECURSIVE Prod(_, _, _)
Prod(S, f, lim) == IF S = {} THEN {f}
                   ELSE LET c == CHOOSE x \in S : TRUE IN
                        UNION {Prod(S \ {c}, [f EXCEPT ![c] = r], lim) : r \in Drain(Fresh(st[c]), lim)}
Adv(d) == /\ now + d <= MaxTime /\ now' = now + d /\ UNCHANGED <<cfg, nops>> /\ act' = [op |-> "adv", d |-> d]
          /\ st' \in Prod(Coils, st, now + d)
Next == \/ \E c \in Coils, ms \in MsVals : Pulse(c, ms)
        \/ \E c \in Coils : Enable(c) \/ Disable(c)
        \/ \E c \in Coils, te \in TeVals : TimedEnable(c, te)
        \/ \E d \in Steps : Adv(d)
Spec == Init /\ [][Next]_vars
\* ---- statement of C08, for coils operated concurrently ----------------------------------------------------------
\* an action on one coil leaves every other coil - its state, its pending switch-offs - untouched, and sends its
\* platform driver nothing
Independent == [][\A c \in Coils : (act'.op # "adv" /\ act'.c # c) => st'[c] = Fresh(st[c])]_vars
\* while time passes, a pending switch-off of a coil stays as it is until its time is up (or the coil's own other timer
\* switched the coil off before), whatever the other coils' timers do
KeepsPending == [][\A c \in Coils : act'.op = "adv" =>
                      /\ (st[c].sw > now') => st'[c].sw = st[c].sw
                      /\ (st[c].ho > now') => (st'[c].ho = st[c].ho \/ (st'[c].ho = 0 /\ st'[c].on = "off"))]_vars
HasDisable(o, lo, hi) == \E i \in DOMAIN o : o[i][1] = "disable" /\ o[i][6] >= lo /\ o[i][6] <= hi
\* every coil is switched off when its own time is up: the platform driver gets a disable stamped with that very time
\* (the hold watchdog: unless the coil's own pulse timer has switched it off in the meantime)
OffOnTime == [][\A c \in Coils :
                   /\ (st[c].sw # 0 /\ st[c].sw <= now') => HasDisable(st'[c].out, st[c].sw, st[c].sw)
                   /\ (st[c].ho # 0 /\ st[c].ho <= now') => HasDisable(st'[c].out, now + 1, st[c].ho)]_vars
CmdOK(k, c) == \/ c[1] = "disable"
               \/ /\ c[2] >= 0 /\ (k.maxPulseMs = 0 \/ c[2] <= k.maxPulseMs) /\ c[3] >= 0 /\ c[3] <= 100
                  /\ (c[1] = "pulse" => c[2] <= k.platMax)
                  /\ (c[1] \in {"enable", "timed_enable"} => c[4] >= 0 /\ (c[4] <= HP(k) \/ (c[2] = 0 /\ c[4] = c[3])))
                  /\ (c[1] = "timed_enable" => c[5] >= 0 /\ (k.maxHoldDur = 0 \/ c[5] <= k.maxHoldDur))
Envelope == \A c \in Coils : \A i \in DOMAIN st[c].out : CmdOK(cfg[c], st[c].out[i])
RefuseNotCommand == \A c \in Coils : st[c].err => st[c].out = <<>>
SoftwarePulseEnds == \A c \in Coils : st[c].on = "swpulse" => (st[c].sw # 0 /\ now < st[c].sw)
HoldWatchdog == \A c \in Coils : (st[c].on = "hold" /\ cfg[c].maxHoldDur # 0) =>
                                     (st[c].ho # 0 /\ now < st[c].ho /\ st[c].ho <= now + cfg[c].maxHoldDur)
\* after every step no switch-off that is due is left waiting, on any coil
NothingOverdue == \A c \in Coils : \A x \in Timers(st[c]) : x > now
=============================================================================
