---------------------------- MODULE CoilMultiTrace ----------------------------
(* Traces of several real Drivers of ONE machine operated concurrently (coils that share a number  *)
(* on different platforms, different numbers on one platform, names that are prefixes of others): *)
(* every call on one of the coils and every passage of time, with the commands that reached EACH   *)
(* coil's platform driver during the step (kind, settings, virtual time) and whether the call      *)
(* raised, must equal the product model - in particular a step that concerns coil A shows no       *)
(* command at coil B, and every coil's switch-off comes at its own time.                           *)
EXTENDS CoilMulti, TraceIO
VARIABLES tid, l
tvars == <<vars, tid, l>>
TL == TraceLines[tid].ev
TNONE == -1000
TConfigs == {}
TInit == /\ tid \in 1..Len(TraceLines) /\ l = 1 /\ cfg = TraceLines[tid].cfg /\ now = 1
         /\ st = [c \in DOMAIN TraceLines[tid].cfg |-> Off] /\ nops = 0 /\ act = [op |-> "init"]
Obs(e) == \A c \in Coils : st'[c].out = e.cmds[c] /\ st'[c].err = (e.op # "adv" /\ e.c = c /\ e.err)
Step(e) ==
    \/ e.op = "pulse" /\ Pulse(e.c, e.ms) /\ Obs(e)
    \/ e.op = "enable" /\ Enable(e.c) /\ Obs(e)
    \/ e.op = "timed_enable" /\ TimedEnable(e.c, e.te) /\ Obs(e)
    \/ e.op = "disable" /\ Disable(e.c) /\ Obs(e)
    \/ e.op = "adv" /\ Adv(e.d) /\ Obs(e)
TNext == l <= Len(TL) /\ Step(TL[l]) /\ l' = l + 1 /\ UNCHANGED tid
TSpec == TInit /\ [][TNext]_tvars
Reporter == TraceReport(tid, l, Len(TL))
=============================================================================
