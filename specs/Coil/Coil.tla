--------------------------------- MODULE Coil ---------------------------------
(* Reference model of mpf/devices/driver.py as the statement of C08 wants it: every entry point  *)
(* (pulse / enable / timed_enable / disable, also through control events, and the hardware rules  *)
(* built by the platform controller) either refuses with an error or emits platform commands      *)
(* inside the coil's configured envelope; software-timed pulses and max_hold_duration switch the  *)
(* coil off again.  Powers are integer percent, times are ms.                                     *)
(*  - the defaults default_pulse_ms / default_timed_enable_ms may come from a placeholder         *)
(*    (machine variable, operator setting) and change while the machine runs (SetDef): cfg is a   *)
(*    variable and every request is judged against the default of the moment;                     *)
(*  - a request may carry max_wait_ms: the power supply, shared with another coil (OtherPulse),   *)
(*    then postpones it while it is busy (pend); the postponed command is emitted when its time   *)
(*    comes (Adv) and is bound by the same watchdogs as an immediate one;                         *)
(*  - the coil may ALSO be the channel of a light (lights with platform: drivers - flashers, GI   *)
(*    strings on a driver output; cfg.light): the light sets a brightness by enabling the coil    *)
(*    with that hold power and the default pulse (LightStep; brightness 0: disable), a software   *)
(*    fade is a train of such steps, one every Tick ms (LightOn(b, f), fade).  The coil's envelope *)
(*    - power limits, refusal, hold watchdog - binds these steps exactly as it binds enable().    *)
EXTENDS Integers, Sequences, FiniteSets, TLC
CONSTANTS Configs,   \* records [id, defPulseMs, maxPulseMs, defPP, maxPP, defHP, maxHP, allowEnable, maxHoldDur, defTE, pwte, dynP, dynT, light]
          NONE,      \* marks an omitted argument
          PlatMaxPulse, MsVals, PowVals, TeVals, Steps, MaxTime, MaxOps,
          MwVals,    \* max_wait_ms values of requests (NONE: the request does not wait for the power supply)
          OtherMs,   \* pulse lengths of the other coil on the same power supply
          DefVals,   \* values the placeholder behind a default takes at runtime
          Rel,       \* release_wait_ms of the power supply
          MaxPend,   \* bound on postponed requests
          LightVals, \* brightness values (percent) asked of the light on the coil
          FadeMs,    \* fade times of these requests (0: at once)
          Tick       \* interval of the steps of a software fade
VARIABLES cfg, now, on, swOffAt, holdOffAt, busy, pend, out, err, nops, act,
          fade,      \* the software fade of the light in progress: from b0 at t0 to b1 at t1, next step at nx (0: none)
          lb,        \* the brightness the light set last
          since      \* when the coil was last switched from not-held to held
\* on: "off" | "hold" | "swpulse";  out: platform commands emitted by the last step, each
\* <<kind, pulse_ms, pulse_power, hold_power, duration>>;  err: the last call was refused
\* busy: the power supply is busy until then (0: idle);  pend: postponed requests [at, k, ms, pp, hp], oldest first
vars == <<cfg, now, on, swOffAt, holdOffAt, busy, pend, out, err, nops, act, fade, lb, since>>
NoFade == [b0 |-> 0, t0 |-> 0, b1 |-> 0, t1 |-> 0, nx |-> 0]
Init == /\ cfg \in Configs /\ now = 1 /\ on = "off" /\ swOffAt = 0 /\ holdOffAt = 0 /\ busy = 0 /\ pend = <<>>
        /\ out = <<>> /\ err = FALSE /\ nops = 0 /\ act = [op |-> "init"] /\ fade = NoFade /\ lb = 0 /\ since = 0
PMs(x) == IF x = NONE THEN cfg.defPulseMs ELSE x
PP(x) == IF x = NONE THEN (IF cfg.defPP # 0 THEN cfg.defPP ELSE 100) ELSE x
HP(x) == IF x # NONE THEN x ELSE IF cfg.defHP # 0 THEN cfg.defHP ELSE IF cfg.maxHP # 0 THEN cfg.maxHP
         ELSE IF cfg.allowEnable THEN 100 ELSE 0
TE(x) == IF x = NONE THEN cfg.defTE ELSE x
PPLimit == IF cfg.maxPP # 0 THEN cfg.maxPP ELSE cfg.defPP
HPLimit == IF cfg.maxHP # 0 THEN cfg.maxHP ELSE IF cfg.allowEnable THEN 100 ELSE cfg.defHP
\* "a request above a limit or with a negative duration or power is refused"
MsOK(ms) == ms >= 0 /\ (cfg.maxPulseMs = 0 \/ ms <= cfg.maxPulseMs)
PowOK(pp) == pp >= 0 /\ pp <= PPLimit
PulseOK(ms, pp) == MsOK(ms) /\ PowOK(pp)
HoldOK(hp) == hp >= 0 /\ hp <= HPLimit
\* the same for a hold power given in 1/100 percent (a light's brightness is not a whole percentage)
HoldOKF(hpf) == hpf >= 0 /\ hpf <= 100 * HPLimit
TeOK(te) == te >= 0 /\ (cfg.maxHoldDur = 0 \/ te <= cfg.maxHoldDur)
Max(a, b) == IF a > b THEN a ELSE b
\* ---- the power supply (mpf/devices/power_supply_unit.py) ----------------------------------------------------
\* when no request ever waits (MwVals = {NONE}) the busy time influences nothing and is not tracked
TrackPsu == MwVals # {NONE}
PsuInstant(b, t, ms) == IF ~TrackPsu THEN 0 ELSE IF b # 0 THEN Max(b, t + ms + Rel) ELSE t + ms + Rel
\* <<wait, busy'>> for a request of length ms made at t that may be postponed by at most mw
Psu(b, t, ms, mw) == IF mw = NONE THEN <<0, PsuInstant(b, t, ms)>>
                     ELSE LET b1 == IF b # 0 /\ b < t THEN 0 ELSE b IN
                          IF b1 = 0 \/ mw = 0 \/ b1 > t + mw THEN <<0, PsuInstant(b1, t, ms)>>
                          ELSE <<b1 - t, b1 + ms + Rel>>
\* ---- what the coil does, as functions on a record of its state (used at call time and when a timer fires) ----
Cur == [on |-> on, sw |-> swOffAt, ho |-> holdOffAt, busy |-> busy, pend |-> pend, out |-> <<>>, err |-> FALSE,
        fade |-> fade, lb |-> lb, since |-> since]
DIS == <<"disable", 0, 0, 0, 0>>
Emit(s, c) == [s EXCEPT !.out = Append(@, c)]
Refused(s) == [s EXCEPT !.err = TRUE]
DoDisable(s) == [Emit(s, DIS) EXCEPT !.on = "off", !.ho = 0, !.since = 0]
\* the coil is switched on to be held: the max_hold_duration watchdog runs from here unless it runs already
DoEnableNow(s, t, ms, pp, hp) ==
    [Emit(s, <<"enable", ms, pp, hp, 0>>) EXCEPT !.on = "hold", !.since = IF cfg.maxHoldDur = 0 THEN 0 ELSE IF s.on = "hold" THEN s.since ELSE t,
                                                 !.ho = IF cfg.maxHoldDur # 0 /\ s.ho = 0 THEN t + cfg.maxHoldDur ELSE s.ho]
\* the platform switches it off by itself; the power supply is only told (the command is never postponed)
DoTimedEnable(s, t, ms, pp, hp, te, mw) ==
    IF PulseOK(ms, pp) /\ HoldOK(hp) /\ TeOK(te)
    THEN [Emit(s, <<"timed_enable", ms, pp, hp, te>>) EXCEPT !.busy = Psu(s.busy, t, ms + te, mw)[2]]
    ELSE Refused(s)
DoPulseNow(s, t, ms, pp) ==
    IF cfg.pwte THEN DoTimedEnable(s, t, ms, pp, HP(NONE), TE(NONE), NONE)
    ELSE IF ms > 0 /\ ms <= PlatMaxPulse THEN Emit(s, <<"pulse", ms, pp, 0, 0>>)
    \* longer than the platform can time: switched on now, switched off by a software timer
    ELSE IF ms = 0      \* degenerate: switched on and off again in the same loop iteration
    THEN [Emit(Emit(s, <<"enable", 0, pp, pp, 0>>), DIS) EXCEPT !.on = "off", !.ho = 0, !.sw = 0, !.since = 0]
    ELSE [Emit(s, <<"enable", 0, pp, pp, 0>>) EXCEPT !.on = "swpulse", !.sw = t + ms]
DoPulse(s, t, msA, ppA, mw) ==
    LET ms == PMs(msA)  pp == PP(ppA) IN
    IF ~PulseOK(ms, pp) THEN Refused(s)
    ELSE LET w == Psu(s.busy, t, ms, mw)  s1 == [s EXCEPT !.busy = w[2]] IN
         IF w[1] > 0 THEN [s1 EXCEPT !.pend = Append(@, [at |-> t + w[1], k |-> "pulse", ms |-> ms, pp |-> pp, hp |-> 0])]
         ELSE DoPulseNow(s1, t, ms, pp)
\* hp: the hold power in percent as the platform is told, hpf: the hold power asked for in 1/100 percent (what the limit judges)
DoEnableF(s, t, msA, ppA, hp, hpf, mw) ==
    LET ms == PMs(msA)  pp == PP(ppA) IN
    IF ~MsOK(ms) THEN Refused(s)
    ELSE LET w == Psu(s.busy, t, ms, mw)  s1 == [s EXCEPT !.busy = w[2]] IN     \* the power supply is told first
         IF ~PowOK(pp) \/ ~HoldOKF(hpf) \/ hpf = 0 THEN Refused(s1)
         ELSE IF w[1] > 0 THEN [s1 EXCEPT !.pend = Append(@, [at |-> t + w[1], k |-> "enable", ms |-> ms, pp |-> pp, hp |-> hp])]
         ELSE DoEnableNow(s1, t, ms, pp, hp)
DoEnable(s, t, msA, ppA, hpA, mw) == DoEnableF(s, t, msA, ppA, HP(hpA), 100 * HP(hpA), mw)
\* ---- the light on the coil (mpf/platforms/driver_light_platform.py) ------------------------------------------
\* one brightness step of the light channel: b percent as the platform will be told, bf the same in 1/100 percent
DoLight(s, t, b, bf) == LET s1 == [s EXCEPT !.lb = b] IN
                        IF bf <= 0 THEN DoDisable(s1) ELSE DoEnableF(s1, t, NONE, NONE, b, bf, NONE)
FadeVal(f, t) == IF t >= f.t1 THEN f.b1 ELSE f.b0 + ((f.b1 - f.b0) * (t - f.t0)) \div (f.t1 - f.t0)
\* a step of the software fade; a step the coil refuses ends the fade (the fade task dies with the error)
FireTick(s, t) == LET f == s.fade  v == FadeVal(f, t)
                      s1 == [s EXCEPT !.err = FALSE, !.fade = IF t >= f.t1 THEN NoFade ELSE [f EXCEPT !.nx = t + Tick]]
                      r == DoLight(s1, t, v, 100 * v) IN
                  [r EXCEPT !.err = s.err, !.fade = IF r.err THEN NoFade ELSE r.fade]
\* timers: the software pulse timer, the hold watchdog and the postponed requests; all that are due fire in time order,
\* timers due at the same instant in any order (the statement is silent about it): the set of possible outcomes
Timers(s) == ({s.sw, s.ho, s.fade.nx} \ {0}) \cup {s.pend[i].at : i \in DOMAIN s.pend}
FireSw(s) == [DoDisable(s) EXCEPT !.sw = 0]
FirePend(s, t) == LET p == Head(s.pend)  s1 == [s EXCEPT !.pend = Tail(@)] IN
                  IF p.k = "enable" THEN DoEnableNow(s1, t, p.ms, p.pp, p.hp) ELSE DoPulseNow(s1, t, p.ms, p.pp)
Fire(s, t) == (IF s.sw = t THEN {FireSw(s)} ELSE {}) \cup (IF s.ho = t THEN {DoDisable(s)} ELSE {})
              \cup (IF s.pend # <<>> /\ Head(s.pend).at = t THEN {FirePend(s, t)} ELSE {})
              \cup (IF s.fade.nx = t THEN {FireTick(s, t)} ELSE {})
RECURSIVE Drain(_, _)
Drain(s, lim) == LET due == {x \in Timers(s) : x <= lim} IN
                 IF due = {} THEN {s}
                 ELSE UNION {Drain(f, lim) : f \in Fire(s, CHOOSE m \in due : \A y \in due : m <= y)}
\* time passes up to an instant t at which something else happens (a step of the light): every timer due before t has
\* fired, those due at t may or may not have fired yet (the statement is silent about the order within an instant)
RECURSIVE DrainOpt(_, _)
DrainOpt(s, t) == {s} \cup UNION {DrainOpt(f, t) : f \in Fire(s, t)}
DrainPart(s, t) == UNION {DrainOpt(x, t) : x \in Drain(s, t - 1)}
\* (\E over a singleton: TLC evaluates the record once)
Commit(r, a) == \E s \in {r} : /\ on' = s.on /\ swOffAt' = s.sw /\ holdOffAt' = s.ho /\ busy' = s.busy /\ pend' = s.pend
                                /\ out' = s.out /\ err' = s.err /\ act' = a
                                /\ fade' = s.fade /\ lb' = s.lb /\ since' = s.since
\* ---- actions ----------------------------------------------------------------------------------------------------
Call(mw) == nops < MaxOps /\ nops' = nops + 1 /\ (mw = NONE \/ Len(pend) < MaxPend) /\ UNCHANGED <<cfg, now>>
Pulse(msA, ppA, mw) == Call(mw) /\ Commit(DoPulse(Cur, now, msA, ppA, mw), [op |-> "pulse", ms |-> msA, pp |-> ppA, mw |-> mw])
Enable(msA, ppA, hpA, mw) ==
    Call(mw) /\ Commit(DoEnable(Cur, now, msA, ppA, hpA, mw), [op |-> "enable", ms |-> msA, pp |-> ppA, hp |-> hpA, mw |-> mw])
TimedEnable(teA, hpA, msA, ppA, mw) ==
    Call(NONE) /\ Commit(DoTimedEnable(Cur, now, PMs(msA), PP(ppA), HP(hpA), TE(teA), mw),
                         [op |-> "timed_enable", te |-> teA, hp |-> hpA, ms |-> msA, pp |-> ppA, mw |-> mw])
Disable == Call(NONE) /\ Commit(DoDisable(Cur), [op |-> "disable"])
\* a hardware rule (autofire, flipper ...) is installed with the given or the default settings; hold: a rule that holds
Rule(msA, ppA, hpA, hold) ==
    /\ Call(NONE)
    /\ LET ms == PMs(msA)  pp == PP(ppA)  hp == HP(hpA) IN
       Commit(IF ~PulseOK(ms, pp) \/ (hold /\ (~HoldOK(hp) \/ hp = 0)) THEN Refused(Cur)
              ELSE Emit(Cur, <<"rule", ms, pp, IF hold THEN hp ELSE 0, 0>>),
              [op |-> "rule", ms |-> msA, pp |-> ppA, hp |-> hpA, hold |-> hold])
\* another coil on the same power supply pulses
OtherPulse(ms) == /\ nops < MaxOps /\ nops' = nops + 1 /\ UNCHANGED <<cfg, now>>
                  /\ Commit([Cur EXCEPT !.busy = PsuInstant(busy, now, ms)], [op |-> "other", ms |-> ms])
\* the placeholder behind a default changes its value
SetDef(w, v) == /\ nops < MaxOps /\ nops' = nops + 1 /\ UNCHANGED now
                /\ \/ w = "pulse_ms" /\ cfg.dynP /\ cfg' = [cfg EXCEPT !.defPulseMs = v]
                   \/ w = "timed_enable_ms" /\ cfg.dynT /\ cfg' = [cfg EXCEPT !.defTE = v]
                /\ Commit(Cur, [op |-> "setdef", w |-> w, v |-> v])
\* the light on the coil is asked for brightness b, at once (f = 0) or fading there within f ms; the first step of a
\* fade (the brightness the fade starts from) is made at once
LightOn(b, f) ==
    /\ cfg.light /\ Call(NONE)
    /\ Commit(IF f = 0 THEN DoLight([Cur EXCEPT !.fade = NoFade], now, b, 100 * b)
              ELSE FireTick([Cur EXCEPT !.fade = [b0 |-> lb, t0 |-> now, b1 |-> b, t1 |-> now + f, nx |-> now]], now),
              [op |-> "lighton", b |-> b, f |-> f])
\* one observed step of the light channel (a trace tells the steps of a fade one by one, each at its time)
LightStep(b, bf) == /\ cfg.light /\ Call(NONE) /\ bf - 100 * b <= 50 /\ 100 * b - bf <= 50
                    /\ Commit(DoLight(Cur, now, b, bf), [op |-> "light", b |-> b, bf |-> bf])
\* the light device is asked something (colour, on, off, flash ...): whatever it makes of it reaches the coil as LightSteps
LightReq == cfg.light /\ Commit(Cur, [op |-> "lightreq"]) /\ UNCHANGED <<cfg, now, nops>>
\* time passes; every timer that becomes due fires
Adv(d) == /\ now + d <= MaxTime /\ now' = now + d
          /\ \E r \in Drain(Cur, now + d) : Commit(r, [op |-> "adv", d |-> d])
          /\ UNCHANGED <<cfg, nops>>
AdvPart(d) == /\ now + d <= MaxTime /\ now' = now + d
              /\ \E r \in DrainPart(Cur, now + d) : Commit(r, [op |-> "adv", d |-> d])
              /\ UNCHANGED <<cfg, nops>>
Next == \/ \E ms \in MsVals, pp \in PowVals, mw \in MwVals : Pulse(ms, pp, mw)
        \/ \E ms \in MsVals, pp \in PowVals, hp \in PowVals, mw \in MwVals : Enable(ms, pp, hp, mw)
        \/ \E te \in TeVals, hp \in PowVals, ms \in MsVals, pp \in PowVals, mw \in MwVals : TimedEnable(te, hp, ms, pp, mw)
        \/ \E ms \in MsVals, pp \in PowVals : Rule(ms, pp, NONE, FALSE)
        \/ \E ms \in MsVals, pp \in PowVals, hp \in PowVals : Rule(ms, pp, hp, TRUE)
        \/ \E ms \in OtherMs : OtherPulse(ms)
        \/ \E w \in {"pulse_ms", "timed_enable_ms"}, v \in DefVals : SetDef(w, v)
        \/ \E b \in LightVals, f \in FadeMs : LightOn(b, f)
        \/ Disable \/ \E d \in Steps : Adv(d)
Spec == Init /\ [][Next]_vars
\* ---- statement of C08 -------------------------------------------------------------------------------------
CmdOK(c) == \/ c[1] = "disable"
            \/ /\ c[2] >= 0 /\ (cfg.maxPulseMs = 0 \/ c[2] <= cfg.maxPulseMs)
               /\ c[3] >= 0 /\ c[3] <= PPLimit
               /\ (c[1] = "pulse" => c[4] = 0)
               \* a held command needs a hold power inside the limit; the software-timed pulse holds at
               \* its pulse power and is judged as a pulse
               /\ (c[1] \in {"enable", "timed_enable"} =>
                      c[4] >= 0 /\ (c[4] <= HPLimit \/ (c[2] = 0 /\ c[4] = c[3] /\ act'.op \in {"pulse", "adv"})))
               /\ (c[1] = "rule" => c[4] >= 0 /\ c[4] <= HPLimit)
               /\ (c[1] = "timed_enable" => c[5] >= 0 /\ (cfg.maxHoldDur = 0 \/ c[5] <= cfg.maxHoldDur))
Envelope == [][\A i \in DOMAIN out' : CmdOK(out'[i])]_vars
RefuseNotCommand == err => out = <<>>
SoftwarePulseEnds == on = "swpulse" => (swOffAt # 0 /\ now <= swOffAt)
HoldWatchdog == (on = "hold" /\ cfg.maxHoldDur # 0) => (holdOffAt # 0 /\ now <= holdOffAt /\ holdOffAt <= now + cfg.maxHoldDur)
\* whatever switched it on (enable, a postponed enable, its light, a fade of its light): never held longer than allowed
HeldNoLonger == (on = "hold" /\ cfg.maxHoldDur # 0) => now - since <= cfg.maxHoldDur
\* a postponed request was verified when it was made, waits in time order and never longer than the supply is busy
PendSane == \A i \in DOMAIN pend : /\ pend[i].at > now /\ pend[i].at < busy
                                   /\ MsOK(pend[i].ms) /\ PowOK(pend[i].pp) /\ (pend[i].k = "enable" => HoldOK(pend[i].hp) /\ pend[i].hp # 0)
                                   /\ (i > 1 => pend[i - 1].at < pend[i].at)
\* after every step nothing that is due is left waiting
NothingOverdue == \A x \in Timers(Cur) : x > now
=============================================================================
