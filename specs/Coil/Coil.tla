--------------------------------- MODULE Coil ---------------------------------
(* Reference model of mpf/devices/driver.py as the statement of C08 wants it: every entry point  *)
(* (pulse / enable / timed_enable / disable, also through control events) either refuses with an  *)
(* error or emits platform commands inside the coil's configured envelope; software-timed pulses *)
(* and max_hold_duration switch the coil off again.  Powers are integer percent, times are ms.    *)
EXTENDS Integers, Sequences, FiniteSets, TLC
CONSTANTS Configs,   \* records [id, defPulseMs, maxPulseMs, defPP, maxPP, defHP, maxHP, allowEnable, maxHoldDur, defTE, pwte]
          NONE,      \* marks an omitted argument
          PlatMaxPulse, MsVals, PowVals, TeVals, Steps, MaxTime, MaxOps
VARIABLES cfg, now, on, swOffAt, holdOffAt, out, err, nops, act
\* on: "off" | "hold" | "swpulse";  out: platform commands emitted by the last step, each
\* <<kind, pulse_ms, pulse_power, hold_power, duration>>;  err: the last call was refused
vars == <<cfg, now, on, swOffAt, holdOffAt, out, err, nops, act>>
Init == /\ cfg \in Configs /\ now = 1 /\ on = "off" /\ swOffAt = 0 /\ holdOffAt = 0 /\ out = <<>> /\ err = FALSE
        /\ nops = 0 /\ act = [op |-> "init"]
PMs(x) == IF x = NONE THEN cfg.defPulseMs ELSE x
PP(x) == IF x = NONE THEN (IF cfg.defPP # 0 THEN cfg.defPP ELSE 100) ELSE x
HP(x) == IF x # NONE THEN x ELSE IF cfg.defHP # 0 THEN cfg.defHP ELSE IF cfg.maxHP # 0 THEN cfg.maxHP
         ELSE IF cfg.allowEnable THEN 100 ELSE 0
TE(x) == IF x = NONE THEN cfg.defTE ELSE x
PPLimit == IF cfg.maxPP # 0 THEN cfg.maxPP ELSE cfg.defPP
HPLimit == IF cfg.maxHP # 0 THEN cfg.maxHP ELSE IF cfg.allowEnable THEN 100 ELSE cfg.defHP
\* "a request above a limit or with a negative duration or power is refused"
PulseOK(ms, pp) == ms >= 0 /\ (cfg.maxPulseMs = 0 \/ ms <= cfg.maxPulseMs) /\ pp >= 0 /\ pp <= PPLimit
HoldOK(hp) == hp >= 0 /\ hp <= HPLimit
TeOK(te) == te >= 0 /\ (cfg.maxHoldDur = 0 \/ te <= cfg.maxHoldDur)
NothingDue == (swOffAt # 0 => swOffAt > now) /\ (holdOffAt # 0 => holdOffAt > now)
Refuse(a) == /\ err' = TRUE /\ out' = <<>> /\ act' = a /\ UNCHANGED <<on, swOffAt, holdOffAt>>
Call == NothingDue /\ nops < MaxOps /\ nops' = nops + 1 /\ UNCHANGED <<cfg, now>>
TimedEnableCmd(ms, pp, hp, te, a) ==
    IF PulseOK(ms, pp) /\ HoldOK(hp) /\ TeOK(te)
    THEN /\ err' = FALSE /\ out' = <<<<"timed_enable", ms, pp, hp, te>>>> /\ act' = a
         /\ UNCHANGED <<on, swOffAt, holdOffAt>>         \* the platform switches it off by itself
    ELSE Refuse(a)
Pulse(msA, ppA) ==
    /\ Call
    /\ LET ms == PMs(msA)  pp == PP(ppA)  a == [op |-> "pulse", ms |-> msA, pp |-> ppA] IN
       IF ~PulseOK(ms, pp) THEN Refuse(a)
       ELSE IF cfg.pwte THEN TimedEnableCmd(ms, pp, HP(NONE), TE(NONE), a)
       ELSE IF ms > 0 /\ ms <= PlatMaxPulse
            THEN /\ err' = FALSE /\ out' = <<<<"pulse", ms, pp, 0, 0>>>> /\ act' = a /\ UNCHANGED <<on, swOffAt, holdOffAt>>
            \* longer than the platform can time: switched on now, switched off by a software timer
            ELSE IF ms = 0      \* degenerate: switched on and off again in the same loop iteration
            THEN /\ err' = FALSE /\ out' = <<<<"enable", 0, pp, pp, 0>>, <<"disable", 0, 0, 0, 0>>>> /\ act' = a
                 /\ on' = "off" /\ holdOffAt' = 0 /\ UNCHANGED swOffAt
            ELSE /\ err' = FALSE /\ out' = <<<<"enable", 0, pp, pp, 0>>>> /\ act' = a
                 /\ on' = "swpulse" /\ swOffAt' = now + ms /\ UNCHANGED holdOffAt
Enable(msA, ppA, hpA) ==
    /\ Call
    /\ LET ms == PMs(msA)  pp == PP(ppA)  hp == HP(hpA)  a == [op |-> "enable", ms |-> msA, pp |-> ppA, hp |-> hpA] IN
       IF ~PulseOK(ms, pp) \/ ~HoldOK(hp) \/ hp = 0 THEN Refuse(a)
       ELSE /\ err' = FALSE /\ out' = <<<<"enable", ms, pp, hp, 0>>>> /\ act' = a
            /\ on' = "hold" /\ UNCHANGED swOffAt
            /\ holdOffAt' = IF cfg.maxHoldDur # 0 /\ holdOffAt = 0 THEN now + cfg.maxHoldDur ELSE holdOffAt
TimedEnable(teA, hpA, msA, ppA) ==
    /\ Call
    /\ TimedEnableCmd(PMs(msA), PP(ppA), HP(hpA), TE(teA), [op |-> "timed_enable", te |-> teA, hp |-> hpA, ms |-> msA, pp |-> ppA])
Disable == /\ Call /\ err' = FALSE /\ out' = <<<<"disable", 0, 0, 0, 0>>>> /\ on' = "off" /\ holdOffAt' = 0
           /\ UNCHANGED swOffAt /\ act' = [op |-> "disable"]
\* time passes (to the next timer at most); the software pulse timer / the hold watchdog switch the coil off
Adv(d) == /\ now < MaxTime
          /\ LET nd == {x \in {swOffAt, holdOffAt} : x # 0}
                 t  == IF nd # {} /\ (CHOOSE m \in nd : \A y \in nd : m <= y) <= now + d
                       THEN (CHOOSE m \in nd : \A y \in nd : m <= y) ELSE now + d
                 sw == swOffAt = t   ho == holdOffAt = t
             IN /\ now' = t
                /\ out' = (IF sw THEN <<<<"disable", 0, 0, 0, 0>>>> ELSE <<>>) \o (IF ho THEN <<<<"disable", 0, 0, 0, 0>>>> ELSE <<>>)
                /\ on' = IF sw \/ ho THEN "off" ELSE on
                /\ swOffAt' = IF sw THEN 0 ELSE swOffAt
                /\ holdOffAt' = IF sw \/ ho THEN 0 ELSE holdOffAt
          /\ err' = FALSE /\ act' = [op |-> "adv", d |-> d] /\ UNCHANGED <<cfg, nops>>
Next == \/ \E ms \in MsVals, pp \in PowVals : Pulse(ms, pp)
        \/ \E ms \in MsVals, pp \in PowVals, hp \in PowVals : Enable(ms, pp, hp)
        \/ \E te \in TeVals, hp \in PowVals, ms \in MsVals, pp \in PowVals : TimedEnable(te, hp, ms, pp)
        \/ Disable \/ \E d \in Steps : Adv(d)
Spec == Init /\ [][Next]_vars
\* ---- statement of C08 -------------------------------------------------------------------------------------
CmdOK(c) == \/ c[1] = "disable"
            \/ /\ c[2] >= 0 /\ (cfg.maxPulseMs = 0 \/ c[2] <= cfg.maxPulseMs)
               /\ c[3] >= 0 /\ c[3] <= PPLimit
               /\ (c[1] = "pulse" => c[4] = 0)
               \* a held command needs a hold power inside the limit; the software-timed pulse holds at
               \* its pulse power and is judged as a pulse
               /\ (c[1] \in {"enable", "timed_enable"} => c[4] >= 0 /\ (c[4] <= HPLimit \/ (c[2] = 0 /\ c[4] = c[3] /\ act'.op = "pulse")))
               /\ (c[1] = "timed_enable" => c[5] >= 0 /\ (cfg.maxHoldDur = 0 \/ c[5] <= cfg.maxHoldDur))
Envelope == [][\A i \in DOMAIN out' : CmdOK(out'[i])]_vars
RefuseNotCommand == err => out = <<>>
SoftwarePulseEnds == on = "swpulse" => (swOffAt # 0 /\ now <= swOffAt)
HoldWatchdog == (on = "hold" /\ cfg.maxHoldDur # 0) => (holdOffAt # 0 /\ now <= holdOffAt)
=============================================================================
