------------------------------ MODULE CoilTrace ------------------------------
(* (1) api traces: every call on a real Driver (directly or through its control events), every    *)
(* hardware rule installed for it through the platform controller, every change of the placeholder *)
(* behind its defaults, every pulse of the other coil on its power supply and every passage of     *)
(* time, with the commands that reached the platform (driver object and rule interface) and        *)
(* whether the call raised, must equal the model.  A light on the coil: every brightness step of   *)
(* the light channel (op "light", at the time it happens: an "adv" that ends at such a step has    *)
(* part = TRUE) is a LightStep; what the light device was asked (op "lightreq") changes nothing.   *)
(* (2) device traces (kind "cmd"): commands and rules observed at the platform while other devices *)
(* (ejectors, flippers, coil players, shows ...) actuate coils; only the envelope is judged.       *)
EXTENDS Coil, TraceIO
VARIABLES tid, l
tvars == <<vars, tid, l>>
TL == TraceLines[tid].ev
TNONE == -1000
TConfigs == {}
TInit == /\ tid \in 1..Len(TraceLines) /\ l = 1 /\ cfg = TraceLines[tid].cfg /\ now = 1 /\ on = "off" /\ swOffAt = 0
         /\ holdOffAt = 0 /\ busy = 0 /\ pend = <<>> /\ out = <<>> /\ err = FALSE /\ nops = 0 /\ act = [op |-> "init"]
         /\ fade = NoFade /\ lb = 0 /\ since = 0
Obs(e) == out' = e.cmds /\ err' = e.err
Step(e) ==
    \/ e.op = "pulse" /\ Pulse(e.ms, e.pp, e.mw) /\ Obs(e)
    \/ e.op = "enable" /\ Enable(e.ms, e.pp, e.hp, e.mw) /\ Obs(e)
    \/ e.op = "timed_enable" /\ TimedEnable(e.te, e.hp, e.ms, e.pp, e.mw) /\ Obs(e)
    \/ e.op = "disable" /\ Disable /\ Obs(e)
    \/ e.op = "rule" /\ Rule(e.ms, e.pp, e.hp, e.hold) /\ Obs(e)
    \/ e.op = "other" /\ OtherPulse(e.ms) /\ Obs(e)
    \/ e.op = "setdef" /\ SetDef(e.w, e.v) /\ Obs(e)
    \/ e.op = "adv" /\ (IF e.part THEN AdvPart(e.d) ELSE Adv(e.d)) /\ Obs(e)
    \/ e.op = "light" /\ LightStep(e.b, e.bf) /\ Obs(e)
    \/ e.op = "lightreq" /\ LightReq /\ Obs(e)
    \* a command of some other device: only the envelope applies (on' is irrelevant here)
    \/ /\ e.op = "cmd" /\ out' = <<e.c>> /\ on' = IF e.c[1] = "disable" THEN "off" ELSE "hold"
       /\ UNCHANGED <<cfg, now, swOffAt, holdOffAt, busy, pend, err, nops, fade, lb, since>> /\ act' = [op |-> "cmd"]
       /\ (e.c[1] = "disable" \/ (/\ e.c[2] >= 0 /\ (cfg.maxPulseMs = 0 \/ e.c[2] <= cfg.maxPulseMs)
                                  /\ e.c[3] >= 0 /\ e.c[3] <= PPLimit
                                  /\ (e.c[1] = "rule" => e.c[4] >= 0 /\ e.c[4] <= HPLimit)
                                  /\ (e.c[1] \in {"enable", "timed_enable"} => e.c[4] >= 0 /\ (e.c[4] <= HPLimit \/ (e.c[2] = 0 /\ e.c[4] = e.c[3])))))
TNext == l <= Len(TL) /\ Step(TL[l]) /\ l' = l + 1 /\ UNCHANGED tid
TSpec == TInit /\ [][TNext]_tvars
Reporter == TraceReport(tid, l, Len(TL))
=============================================================================
