-------------------------------- MODULE Tilt --------------------------------
(* Reference model of the tilt mode (mpf/modes/tilt/code/tilt.py) and of what it does to the game                  *)
(* (mpf/modes/game/code/game.py: tilted, slam_tilted, ending, end_ball, the ball / player / game loop).            *)
(*                                                                                                                 *)
(* STATEMENT (X03).  For any timeline of tilt-warning switch hits, tilt_warning events, tilt switch hits / tilt    *)
(* events, slam-tilt hits, tilt_reset_warnings events, added balls, ball drains, end_game requests, game starts    *)
(* and passing time, with warnings_to_tilt W, multiple_hit_window H, settle_time S:                                *)
(*  1. a tilt-warning SWITCH hit less than H after the last ACCEPTED warning is ignored altogether; a              *)
(*     tilt_warning EVENT is never ignored by the window.  A warning is ACCEPTED iff it is not ignored, a game is   *)
(*     running, the game is neither tilted nor ending.                                                             *)
(*  2. every accepted warning raises the current player's `tilt_warnings` by exactly one; if the new count n is    *)
(*     below W exactly `tilt_warning` (warnings=n, warnings_remaining=W-n) and `tilt_warning_<n>` are posted, once *)
(*     each; if n >= W the machine tilts instead (no warning events).  Warnings that are not accepted change no    *)
(*     count and post nothing.                                                                                     *)
(*  3. the machine tilts on the accepted warning that reaches W, on the tilt switch / tilt event and on a slam     *)
(*     tilt, provided a game is running that is neither tilted nor ending: `tilt` is posted exactly once,          *)
(*     game.tilted is set, the ball ends (ball_will_end), and as long as game.tilted is set no warning counts, no   *)
(*     warning event and no second `tilt` is posted, and the ball / player does not change.                        *)
(*  4. `tilt_clear` is posted exactly once per tilt, and game.tilted is cleared with it: only when ALL balls that   *)
(*     were on the playfield at the tilt have drained AND at least S has passed since the last processed warning   *)
(*     (a warning-switch hit not ignored by the window, or a tilt_warning event - whether accepted or not, also    *)
(*     outside a game).  Only then the ball ends (ball_ended) and the next ball / the end of the game follows.     *)
(*  5. the current player's warnings are set to 0 by every reset_warnings_events event while a game is running and *)
(*     not ending (per ball: `ball_will_end`, which also follows a tilt at once; only on request:                  *)
(*     `tilt_reset_warnings`); otherwise counts are kept per player for the whole game; a new game starts at 0.    *)
(*  6. a slam tilt posts `slam_tilt` exactly once (also outside a game); in a game it sets game.slam_tilted and     *)
(*     tilts (unless already tilted); the game ends when that tilt has cleared.  (There is no `slam_tilt_clear`    *)
(*     event in the code; the tilt_clear of the slam-tilted ball is the only clearing event.)                      *)
(*  7. outside a game warnings, tilts and resets change nothing and post nothing.                                  *)
(*                                                                                                                 *)
(* Time in abstract units; state is a record so that the call chains of the code (tilt_warning -> tilt ->          *)
(* end_ball -> ball_will_end -> reset_warnings ...; _tilt_done -> queue.clear -> ball_ended -> next ball) are       *)
(* transcribed one to one.  `out` is the sequence of statement-relevant events processed during the step:          *)
(* <<name, a, b>>.                                                                                                 *)
EXTENDS Integers, Sequences, FiniteSets, TLC
CONSTANTS Configs,      \* records [id, wtt, window, settle, reset ("ball" | "manual"), players, bpg]
          MaxOps, MaxTime, MaxGames, MaxPf
VARIABLES cfg, now, s, nops, ngames, act
vars == <<cfg, now, s, nops, ngames, act>>
Never == -1
Emit(st, e, a, b) == [st EXCEPT !.out = Append(@, <<e, a, b>>)]
Clr(st) == [st EXCEPT !.out = <<>>]
Fresh == [game |-> FALSE, cur |-> 0, ballno |-> <<0, 0>>, warn |-> <<0, 0>>, tilted |-> FALSE, slam |-> FALSE,
          ending |-> FALSE, pf |-> 0, toCollect |-> 0, lastWarn |-> Never, lastSw |-> Never, doneAt |-> Never, out |-> <<>>]
\* ---- game.py -------------------------------------------------------------------------------------------------
GameOver(st) == Emit([st EXCEPT !.game = FALSE, !.cur = 0, !.ballno = <<0, 0>>, !.warn = <<0, 0>>, !.tilted = FALSE,
                               !.slam = FALSE, !.ending = FALSE, !.pf = 0], "game_ended", 0, 0)
\* Game._run after a ball has ended (no extra balls): the game is over after a slam tilt, an end_game request or the last
\* ball of the last player; otherwise the next player's turn starts and its ball is served
NextBall(st) ==
    IF st.slam \/ st.ending \/ (st.ballno[st.cur] >= cfg.bpg /\ st.cur = cfg.players) THEN GameOver(st)
    ELSE LET p == IF st.cur < cfg.players THEN st.cur + 1 ELSE 1
         IN Emit([st EXCEPT !.cur = p, !.ballno[p] = @ + 1, !.pf = 1], "ball_started", 0, 0)
\* Tilt.reset_warnings
ResetF(st) == IF st.game /\ ~st.ending THEN [st EXCEPT !.warn[st.cur] = 0] ELSE st
\* ball_will_end: one of the reset_warnings_events when warnings are reset per ball
BallWillEnd(st) == IF cfg.reset = "ball" THEN ResetF(st) ELSE st
\* Game._end_ball without a tilt: ball_will_end, ball_ending (nobody waits), ball_ended, then the game loop goes on
EndBall(st) == NextBall(Emit(BallWillEnd([st EXCEPT !.pf = 0]), "ball_ended", 0, 0))
\* ---- tilt.py -------------------------------------------------------------------------------------------------
\* Tilt._tilt_done at time t: wait for the rest of the settle time (delay 'tilt'), or clear the tilt and release ball_ending
TiltDone(t, st) ==
    IF st.lastSw # Never /\ st.lastSw + cfg.settle > t THEN [st EXCEPT !.doneAt = st.lastSw + cfg.settle]
    ELSE NextBall(Emit(Emit([st EXCEPT !.tilted = FALSE, !.doneAt = Never], "tilt_clear", 0, 0), "ball_ended", 0, 0))
\* Tilt.tilt
TiltF(t, st) ==
    IF ~st.game \/ st.tilted \/ st.ending THEN st
    ELSE LET s1 == Emit([st EXCEPT !.tilted = TRUE, !.toCollect = st.pf], "tilt", 0, 0)
             s2 == BallWillEnd(s1)                  \* game.end_ball(): ball_will_end, then ball_ending is held by the tilt mode
         IN IF s2.toCollect = 0 THEN TiltDone(t, s2) ELSE s2
\* Tilt.tilt_warning
WarnF(t, st) ==
    LET s0 == [st EXCEPT !.lastSw = t]
    IN IF ~s0.game \/ s0.ending \/ s0.tilted THEN s0
       ELSE LET w == s0.warn[s0.cur] + 1
                s1 == [s0 EXCEPT !.lastWarn = t, !.warn[s0.cur] = w]
            IN IF w >= cfg.wtt THEN TiltF(t, s1)
               ELSE Emit(Emit(s1, "tilt_warning", w, cfg.wtt - w), "tilt_warning_n", w, 0)
InWindow(t, st) == st.lastWarn # Never /\ st.lastWarn + cfg.window > t
\* Tilt._tilt_warning_switch_handler
WarnSwF(t, st) == IF InWindow(t, st) THEN st ELSE WarnF(t, st)
\* Tilt.slam_tilt
SlamF(t, st) == LET s1 == Emit(st, "slam_tilt", 0, 0)
                IN IF ~s1.game THEN s1 ELSE TiltF(t, [s1 EXCEPT !.slam = TRUE])
\* Game.end_game (end_game event; the handler exists while a game runs)
EndGameF(st) == LET s1 == [st EXCEPT !.ending = TRUE] IN IF st.tilted THEN s1 ELSE EndBall(s1)
\* one ball reaches the drain: counted by the tilt mode while tilted, by the game otherwise
DrainF(t, st) ==
    IF st.tilted THEN LET s1 == [st EXCEPT !.pf = @ - 1, !.toCollect = @ - 1]
                      IN IF s1.toCollect <= 0 THEN TiltDone(t, s1) ELSE s1
    ELSE IF st.pf > 1 THEN [st EXCEPT !.pf = @ - 1] ELSE EndBall(st)
StartF(st) == Emit([st EXCEPT !.game = TRUE, !.cur = 1, !.ballno = <<1, 0>>, !.warn = <<0, 0>>, !.tilted = FALSE, !.slam = FALSE,
                              !.ending = FALSE, !.pf = 1], "ball_started", 0, 0)
\* ---- actions ---------------------------------------------------------------------------------------------------
Init == cfg \in Configs /\ now = 0 /\ s = Fresh /\ nops = 0 /\ ngames = 0 /\ act = [op |-> "init"]
Call(st2, a) == /\ nops < MaxOps /\ s' = st2 /\ nops' = nops + 1 /\ act' = a /\ UNCHANGED <<cfg, now, ngames>>
WarnSw  == Call(WarnSwF(now, Clr(s)), [op |-> "warnsw"])
WarnEv  == Call(WarnF(now, Clr(s)), [op |-> "warnev"])
TiltSw  == Call(TiltF(now, Clr(s)), [op |-> "tiltsw"])
Slam    == Call(SlamF(now, Clr(s)), [op |-> "slam"])
Reset   == Call(ResetF(Clr(s)), [op |-> "reset"])
EndGame == s.game /\ Call(EndGameF(Clr(s)), [op |-> "endgame"])
Drain   == s.game /\ s.pf > 0 /\ Call(DrainF(now, Clr(s)), [op |-> "drain"])
AddBall == s.game /\ ~s.tilted /\ s.pf >= 1 /\ s.pf < MaxPf /\ Call([Clr(s) EXCEPT !.pf = @ + 1], [op |-> "addball"])
Start   == /\ ~s.game /\ ngames < MaxGames /\ nops < MaxOps
           /\ s' = StartF(Clr(s)) /\ ngames' = ngames + 1 /\ nops' = nops + 1 /\ act' = [op |-> "start"] /\ UNCHANGED <<cfg, now>>
\* one unit of time passes; the delay armed by _tilt_done may be due at the new instant
Adv == /\ now < MaxTime /\ now' = now + 1
       /\ s' = (IF s.doneAt = now + 1 THEN TiltDone(now + 1, [Clr(s) EXCEPT !.doneAt = Never]) ELSE Clr(s))
       /\ act' = [op |-> "adv"] /\ UNCHANGED <<cfg, nops, ngames>>
Next == WarnSw \/ WarnEv \/ TiltSw \/ Slam \/ Reset \/ EndGame \/ Drain \/ AddBall \/ Start \/ Adv
Spec == Init /\ [][Next]_vars
\* ---- the statement -----------------------------------------------------------------------------------------------
Has(st, e) == \E i \in DOMAIN st.out : st.out[i][1] = e
Cnt(st, e) == Cardinality({i \in DOMAIN st.out : st.out[i][1] = e})
Players == 1..2
TypeOK == /\ s.game \in BOOLEAN /\ s.tilted \in BOOLEAN /\ s.slam \in BOOLEAN /\ s.ending \in BOOLEAN
          /\ s.pf \in 0..MaxPf /\ s.toCollect \in 0..MaxPf /\ s.cur \in 0..cfg.players
          /\ (s.game <=> s.cur # 0) /\ \A p \in Players : s.ballno[p] \in 0..cfg.bpg /\ s.warn[p] >= 0
\* slam_tilted only exists together with a tilt in progress: the game ends when that tilt clears (6)
SlamOnlyWhileTilted == s.slam => s.game /\ s.tilted
\* a tilt in progress always has something to wait for: balls still on the playfield, or the settle timer (4: never stuck)
TiltedWaits == s.tilted => /\ s.game /\ s.toCollect = s.pf
                           /\ (s.toCollect = 0 => s.doneAt # Never /\ s.doneAt > now /\ s.doneAt <= s.lastSw + cfg.settle)
NoTimerWithoutTilt == ~s.tilted => s.doneAt = Never
\* a live ball: at least one ball on the playfield, the game is not ending; no game: empty playfield
LiveBall == /\ (s.game /\ ~s.tilted) => s.pf >= 1 /\ ~s.ending
            /\ ~s.game => s.pf = 0 /\ ~s.tilted /\ ~s.slam
\* reset per ball: the count never reaches warnings_to_tilt without having been reset at once by the tilt (2, 5)
BelowLimitPerBall == cfg.reset = "ball" => \A p \in Players : s.warn[p] < cfg.wtt
\* (1) + (2): exact accounting of every warning
WarningCounts == [][ act'.op \in {"warnsw", "warnev"} =>
    LET accepted == s.game /\ ~s.tilted /\ ~s.ending /\ (act'.op = "warnsw" => (s.lastWarn = Never \/ now - s.lastWarn >= cfg.window))
        w == s.warn[s.cur] + 1
    IN IF accepted
       THEN IF w >= cfg.wtt
            THEN Cnt(s', "tilt") = 1 /\ ~Has(s', "tilt_warning") /\ ~Has(s', "tilt_warning_n")
                 /\ s'.warn[s.cur] = (IF cfg.reset = "ball" THEN 0 ELSE w) /\ s'.tilted
            ELSE s'.out = << <<"tilt_warning", w, cfg.wtt - w>>, <<"tilt_warning_n", w, 0>> >> /\ s'.warn[s.cur] = w /\ ~s'.tilted
       ELSE s'.out = <<>> /\ s'.warn = s.warn /\ s'.tilted = s.tilted /\ s'.game = s.game /\ s'.cur = s.cur ]_vars
WarningEventsOnlyFromWarnings == [][ (Has(s', "tilt_warning") \/ Has(s', "tilt_warning_n")) => act'.op \in {"warnsw", "warnev"} ]_vars
\* (3) exactly one tilt, only from the tilting operations, only into a game that is not tilted; always when due
TiltExactlyOnce == [][ /\ Cnt(s', "tilt") <= 1
                       /\ Has(s', "tilt") => /\ s.game /\ ~s.tilted /\ ~s.ending /\ s'.tilted /\ s'.game
                                             /\ act'.op \in {"warnsw", "warnev", "tiltsw", "slam"}
                                             /\ s'.toCollect = s.pf /\ s'.cur = s.cur /\ s'.ballno = s.ballno
                       /\ (act'.op \in {"tiltsw", "slam"} /\ s.game /\ ~s.tilted /\ ~s.ending) => Has(s', "tilt") ]_vars
FrozenWhileTilted == [][ s.tilted => /\ \A p \in Players : s'.warn[p] <= s.warn[p]
                                     /\ ~Has(s', "tilt") /\ ~Has(s', "tilt_warning") /\ ~Has(s', "tilt_warning_n")
                                     /\ (s'.tilted => s'.cur = s.cur /\ s'.ballno = s.ballno) ]_vars
\* (4) tilt_clear exactly once, exactly when game.tilted is cleared, only with all balls collected and the bob settled
ClearExactlyOnce == [][ Cnt(s', "tilt_clear") <= 1 /\ (Has(s', "tilt_clear") <=> (s.tilted /\ ~s'.tilted)) ]_vars
ClearOnlySettled == [][ Has(s', "tilt_clear") =>
                          /\ act'.op \in {"drain", "adv"}
                          /\ (IF act'.op = "drain" THEN s.pf = 1 ELSE s.pf = 0)
                          /\ (s.lastSw = Never \/ now' >= s.lastSw + cfg.settle) ]_vars
\* ... and as early as that: no balls left and settled => not tilted any more
ClearedWhenSettled == (s.tilted /\ s.pf = 0) => now < s.lastSw + cfg.settle
NextBallAfterClear == [][ (s.tilted /\ (Has(s', "ball_ended") \/ Has(s', "ball_started") \/ Has(s', "game_ended")))
                            => s'.out[1][1] = "tilt_clear" ]_vars
NoBallStartsTilted == [][ Has(s', "ball_started") => ~s'.tilted /\ s'.game /\ s'.pf = 1 ]_vars
\* (5) resets
ResetAsConfigured == [][ act'.op = "reset" => s' = (IF s.game /\ ~s.ending THEN [Clr(s) EXCEPT !.warn[s.cur] = 0] ELSE Clr(s)) ]_vars
KeptUnlessReset == [][ (cfg.reset = "manual" /\ s.game /\ s'.game /\ act'.op \notin {"reset", "warnsw", "warnev"}) => s'.warn = s.warn ]_vars
PerBallReset == [][ (cfg.reset = "ball" /\ s.game /\ s'.game /\ (Has(s', "tilt") \/ Has(s', "ball_ended"))) => s'.warn[s.cur] = 0 ]_vars
NewGameAtZero == [][ act'.op = "start" => s'.warn = <<0, 0>> /\ ~s'.tilted /\ ~s'.slam ]_vars
\* (6) slam tilt
SlamTilt == [][ /\ (act'.op = "slam" <=> Has(s', "slam_tilt")) /\ Cnt(s', "slam_tilt") <= 1
                /\ (act'.op = "slam" /\ s.game) => s'.slam /\ s'.tilted /\ s'.game
                /\ (s.slam /\ Has(s', "tilt_clear")) => ~s'.game /\ Has(s', "game_ended") /\ ~Has(s', "ball_started") ]_vars
\* (7) nothing counts outside a game
OutsideGameInert == [][ (~s.game /\ act'.op \in {"warnsw", "warnev", "tiltsw", "reset", "slam"}) =>
                          /\ ~s'.game /\ s'.warn = s.warn /\ ~s'.tilted /\ ~s'.slam
                          /\ s'.out = (IF act'.op = "slam" THEN << <<"slam_tilt", 0, 0>> >> ELSE <<>>) ]_vars
=============================================================================
