------------------------------- MODULE TiltGen -------------------------------
(* Schedule generator (tlc -simulate only): the KIND of the next step is drawn first with the weights of Kinds, so  *)
(* that time, drains and warnings are well mixed (see LightStackGen).                                              *)
EXTENDS Tilt
VARIABLES pick, idle      \* idle: operations since the machine was last in a game (few: nothing happens there)
gvars == <<vars, pick, idle>>
Kinds == <<"warnsw", "warnsw", "warnsw", "warnsw", "warnev", "tiltsw", "slam", "reset", "endgame", "drain", "drain", "drain",
           "addball", "start", "start", "start", "adv", "adv", "adv", "adv", "adv", "adv">>
CanDo(kd) == CASE kd = "adv" -> now < MaxTime
               [] kd = "start" -> ~s.game /\ ngames < MaxGames /\ nops < MaxOps
               [] kd = "drain" -> s.game /\ s.pf > 0 /\ nops < MaxOps
               [] kd = "endgame" -> s.game /\ nops < MaxOps
               [] kd = "addball" -> s.game /\ ~s.tilted /\ s.pf >= 1 /\ s.pf < MaxPf /\ nops < MaxOps
               [] OTHER -> nops < MaxOps /\ (s.game \/ idle < 2)
GInit == Init /\ pick = 0 /\ idle = 0
Draw == pick = 0 /\ (\E i \in 1..Len(Kinds) : CanDo(Kinds[i]) /\ pick' = i) /\ UNCHANGED <<vars, idle>>
Do == /\ pick # 0 /\ pick' = 0
      /\ LET kd == Kinds[pick] IN
         \/ kd = "warnsw" /\ WarnSw
         \/ kd = "warnev" /\ WarnEv
         \/ kd = "tiltsw" /\ TiltSw
         \/ kd = "slam" /\ Slam
         \/ kd = "reset" /\ Reset
         \/ kd = "endgame" /\ EndGame
         \/ kd = "drain" /\ Drain
         \/ kd = "addball" /\ AddBall
         \/ kd = "start" /\ Start
         \/ kd = "adv" /\ Adv
      /\ idle' = (IF s.game \/ Kinds[pick] = "adv" THEN (IF s'.game THEN 0 ELSE idle) ELSE idle + 1)
GNext == Draw \/ Do
GSpec == GInit /\ [][GNext]_gvars
=============================================================================
