------------------------------ MODULE TiltTrace ------------------------------
(* Trace validation of executions of the real tilt mode + game against Tilt.  Every logged step names the operation *)
(* the driver performed; the observations the statement talks about must equal the model's: the statement-relevant *)
(* events processed during the step (in order, with the arguments of tilt_warning), machine.game, game.tilted,     *)
(* game.slam_tilted, current player, every player's ball number and tilt_warnings, balls on the playfield.         *)
EXTENDS Tilt, TraceIO
VARIABLES tid, l
tvars == <<vars, tid, l>>
TL == TraceLines[tid].ev
TConfigs == {}
TInit == /\ tid \in 1..Len(TraceLines) /\ l = 1 /\ cfg = TraceLines[tid].cfg /\ now = 0 /\ nops = 0 /\ ngames = 0
         /\ act = [op |-> "init"] /\ s = Fresh
Obs(e) == /\ s'.out = e.out /\ s'.game = e.game /\ s'.tilted = e.tilted /\ s'.slam = e.slam /\ s'.cur = e.cur
          /\ s'.warn = e.warn /\ s'.ballno = e.ball /\ s'.pf = e.pf
Step(e) == /\ \/ e.op = "warnsw" /\ WarnSw
              \/ e.op = "warnev" /\ WarnEv
              \/ e.op = "tiltsw" /\ TiltSw
              \/ e.op = "slam" /\ Slam
              \/ e.op = "reset" /\ Reset
              \/ e.op = "endgame" /\ EndGame
              \/ e.op = "drain" /\ Drain
              \/ e.op = "addball" /\ AddBall
              \/ e.op = "start" /\ Start
              \/ e.op = "adv" /\ Adv
           /\ Obs(e)
TNext == l <= Len(TL) /\ Step(TL[l]) /\ l' = l + 1 /\ UNCHANGED tid
TSpec == TInit /\ [][TNext]_tvars
Reporter == TraceReport(tid, l, Len(TL))
=============================================================================
