SPECIFICATION TSpec
CONSTANTS
  Names = {"a", "b", "c"}
  Durs = {0}
  Args = {"p0"}
  MaxTime = 100000
  MaxOps = 100000
INVARIANT TypeOK
INVARIANT Reporter
CHECK_DEADLOCK FALSE
