----------------------------- MODULE DelaysTrace -----------------------------
(* Trace validation: every recorded execution of the real DelayManager must be a behaviour of    *)
(* Delays.  Each line names the call (with arguments) or the callback that ran (with the         *)
(* argument it received and the time), plus the observed pending set (check() for every name).   *)
EXTENDS Delays, TraceIO
VARIABLES tid, l
tvars == <<vars, tid, l>>
Ev == TraceLines[tid].ev
TInit == /\ tid \in 1..Len(TraceLines) /\ l = 1 /\ Init
Obs(e) == pend' = SeqToSet(e.pend)
Step(e) ==
    \/ e.op = "add"    /\ Add(e.n, e.d, e.arg, e.nested) /\ Obs(e)
    \/ e.op = "reset"  /\ Reset(e.n, e.d, e.arg, e.nested) /\ Obs(e)
    \/ e.op = "addif"  /\ AddIfNot(e.n, e.d, e.arg, e.nested) /\ Obs(e)
    \/ e.op = "remove" /\ Remove(e.n, e.nested) /\ Obs(e)
    \/ e.op = "clear"  /\ Clear(e.nested) /\ Obs(e)
    \/ e.op = "runnow" /\ RunNow(e.n, e.nested)
    \/ e.op = "fire"   /\ Fire(e.n) /\ arg[e.n] = e.arg /\ now = e.t
    \/ e.op = "tick"   /\ Tick
    \* end of a loop run: nothing may be overdue and the observed pending set is the model's
    \/ e.op = "sync"   /\ mustfire = "" /\ ~Overdue /\ pend = SeqToSet(e.pend) /\ UNCHANGED vars
TNext == l <= Len(Ev) /\ Step(Ev[l]) /\ l' = l + 1 /\ UNCHANGED tid
TSpec == TInit /\ [][TNext]_tvars
Reporter == TraceReport(tid, l, Len(Ev))
=============================================================================
