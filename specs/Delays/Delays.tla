------------------------------- MODULE Delays -------------------------------
(* Reference model of mpf.core.delays.DelayManager (one manager), in abstract time units.     *)
(* One action per public call; Fire is the loop running a due timer; Tick advances time one     *)
(* unit and is only possible when nothing is (over)due, so a missed callback blocks the model.  *)
(* Nested actions (nested = TRUE) are the calls a delay callback makes while it runs.           *)
EXTENDS Naturals, Sequences, FiniteSets, TLC
CONSTANTS Names, Durs, Args, MaxTime, MaxOps
VARIABLES now,        \* current time (units)
          pend,       \* set of names that have a pending delay   (DelayManager.delays keys)
          due,        \* [Names -> Nat]  due time of the pending delay
          arg,        \* [Names -> Args] stored callback argument
          mustfire,   \* "" or the name whose callback run_now must invoke immediately
          incb,       \* TRUE while a delay callback is running (nested calls allowed)
          nops,       \* number of API calls so far (bounds the model)
          act         \* label: last action with its parameters (for schedule export)
vars == <<now, pend, due, arg, mustfire, incb, nops, act>>

Init == /\ now = 0 /\ pend = {} /\ due = [n \in Names |-> 0] /\ arg = [n \in Names |-> "-"]
        /\ mustfire = "" /\ incb = FALSE /\ nops = 0 /\ act = [op |-> "init"]

Overdue == \E n \in pend : due[n] <= now
\* a top level call happens between loop iterations: everything due has run, no callback active
CallOK(nested) == /\ mustfire = ""
                  /\ nops < MaxOps
                  /\ IF nested THEN incb ELSE ~Overdue
Arm(n, d, a) == /\ pend' = pend \cup {n} /\ due' = [due EXCEPT ![n] = now + d] /\ arg' = [arg EXCEPT ![n] = a]

Add(n, d, a, nested) ==
    /\ CallOK(nested) /\ Arm(n, d, a)
    /\ incb' = nested /\ nops' = nops + 1 /\ UNCHANGED <<now, mustfire>>
    /\ act' = [op |-> "add", n |-> n, d |-> d, arg |-> a, nested |-> nested]
Reset(n, d, a, nested) ==
    /\ CallOK(nested) /\ Arm(n, d, a)
    /\ incb' = nested /\ nops' = nops + 1 /\ UNCHANGED <<now, mustfire>>
    /\ act' = [op |-> "reset", n |-> n, d |-> d, arg |-> a, nested |-> nested]
AddIfNot(n, d, a, nested) ==
    /\ CallOK(nested)
    /\ IF n \in pend THEN UNCHANGED <<pend, due, arg>> ELSE Arm(n, d, a)
    /\ incb' = nested /\ nops' = nops + 1 /\ UNCHANGED <<now, mustfire>>
    /\ act' = [op |-> "addif", n |-> n, d |-> d, arg |-> a, nested |-> nested]
Remove(n, nested) ==
    /\ CallOK(nested) /\ pend' = pend \ {n}
    /\ incb' = nested /\ nops' = nops + 1 /\ UNCHANGED <<now, due, arg, mustfire>>
    /\ act' = [op |-> "remove", n |-> n, nested |-> nested]
Clear(nested) ==
    /\ CallOK(nested) /\ pend' = {}
    /\ incb' = nested /\ nops' = nops + 1 /\ UNCHANGED <<now, due, arg, mustfire>>
    /\ act' = [op |-> "clear", nested |-> nested]
RunNow(n, nested) ==
    /\ CallOK(nested)
    /\ IF n \in pend THEN pend' = pend \ {n} /\ mustfire' = n ELSE UNCHANGED <<pend, mustfire>>
    /\ incb' = nested /\ nops' = nops + 1 /\ UNCHANGED <<now, due, arg>>
    /\ act' = [op |-> "runnow", n |-> n, nested |-> nested]
\* the callback of n runs: either its time has come (loop timer) or run_now asked for it
Fire(n) ==
    /\ \/ /\ mustfire = "" /\ n \in pend /\ due[n] = now /\ pend' = pend \ {n} /\ UNCHANGED mustfire
          /\ act' = [op |-> "fire", n |-> n, arg |-> arg[n], t |-> now, how |-> "timer"]
       \/ /\ mustfire = n /\ mustfire' = "" /\ UNCHANGED pend
          /\ act' = [op |-> "fire", n |-> n, arg |-> arg[n], t |-> now, how |-> "runnow"]
    /\ incb' = TRUE /\ UNCHANGED <<now, due, arg, nops>>
Tick ==
    /\ mustfire = "" /\ ~Overdue /\ now < MaxTime
    /\ now' = now + 1 /\ incb' = FALSE /\ UNCHANGED <<pend, due, arg, mustfire, nops>>
    /\ act' = [op |-> "tick"]

Next == \/ \E n \in Names, d \in Durs, a \in Args, b \in BOOLEAN :
              Add(n, d, a, b) \/ Reset(n, d, a, b) \/ AddIfNot(n, d, a, b)
        \/ \E n \in Names, b \in BOOLEAN : Remove(n, b) \/ RunNow(n, b)
        \/ \E b \in BOOLEAN : Clear(b)
        \/ \E n \in Names : Fire(n)
        \/ Tick
Spec == Init /\ [][Next]_vars

TypeOK == /\ now \in 0..MaxTime /\ pend \subseteq Names /\ mustfire \in Names \cup {""}
          /\ \A n \in pend : due[n] >= now
=============================================================================
