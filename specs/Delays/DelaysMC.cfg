SPECIFICATION MCSpec
CONSTANTS
  Names = {"a", "b"}
  Durs = {0, 1, 2}
  Args = {"p0", "p1"}
  MaxTime = 4
  MaxOps = 4
INVARIANT TypeOK
INVARIANT FiredJustified
INVARIANT RunNowRuns
INVARIANT NoMissed
INVARIANT CheckTruthful
PROPERTY NoOverdueWhenTimeMoves
VIEW View
CHECK_DEADLOCK FALSE
