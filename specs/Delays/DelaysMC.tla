------------------------------ MODULE DelaysMC ------------------------------
(* Design-level check: the reference model satisfies the declarative statement of C13 (delays). *)
(* A history variable records every call and every callback; the property is stated over it.    *)
EXTENDS Delays
VARIABLE hist
mcvars == <<vars, hist>>
MCInit == Init /\ hist = <<>>
MCNext == Next /\ hist' = IF act'.op = "tick" THEN hist ELSE Append(hist, [a |-> act', t |-> now', p |-> pend'])
MCSpec == MCInit /\ [][MCNext]_mcvars

\* index of the arming call whose delay is pending after the first i entries (0 if none)
RECURSIVE LastArmed(_, _)
LastArmed(i, n) ==
    IF i = 0 THEN 0
    ELSE LET e == hist[i] IN
         IF e.a.op \in {"add", "reset"} /\ e.a.n = n THEN i
         ELSE IF e.a.op = "addif" /\ e.a.n = n THEN (IF LastArmed(i - 1, n) # 0 THEN LastArmed(i - 1, n) ELSE i)
         ELSE IF e.a.op = "clear" THEN 0
         ELSE IF e.a.op \in {"remove", "fire"} /\ e.a.n = n THEN 0
         ELSE IF e.a.op = "runnow" /\ e.a.n = n THEN 0
         ELSE LastArmed(i - 1, n)

\* Every callback run is justified: by the pending arming call (same argument, exactly at its due
\* time), or by a run_now call immediately before it (same argument as the then-pending arming call).
FiredJustified ==
    \A i \in DOMAIN hist : hist[i].a.op = "fire" =>
        LET f == hist[i].a IN
        IF f.how = "timer"
        THEN LET j == LastArmed(i - 1, f.n) IN
             /\ j # 0 /\ hist[j].a.arg = f.arg /\ hist[j].t + hist[j].a.d = f.t
        ELSE /\ i > 1 /\ hist[i - 1].a.op = "runnow" /\ hist[i - 1].a.n = f.n
             /\ LET j == LastArmed(i - 2, f.n) IN j # 0 /\ hist[j].a.arg = f.arg /\ f.t = hist[i - 1].t
\* run_now on a pending delay is followed at once by its callback
RunNowRuns ==
    \A i \in DOMAIN hist : (hist[i].a.op = "runnow" /\ LastArmed(i - 1, hist[i].a.n) # 0 /\ i < Len(hist))
        => hist[i + 1].a.op = "fire" /\ hist[i + 1].a.n = hist[i].a.n
\* nothing armed is ever overdue at a top-level call or when time advances, so it fires exactly at its due time
NoMissed == \A n \in Names : LET j == LastArmed(Len(hist), n) IN
                j # 0 => /\ n \in pend
                         /\ hist[j].t + hist[j].a.d >= now
                         /\ (hist[j].t + hist[j].a.d = now => TRUE)
\* check() is truthful: the pending set is exactly the names whose last arming call is still in force
CheckTruthful == \A n \in Names : (n \in pend) <=> (LastArmed(Len(hist), n) # 0)
\* time cannot pass a due delay (exactly-once-at-due together with FiredJustified)
NoOverdueWhenTimeMoves == [][now' # now => \A n \in pend : due[n] >= now']_mcvars
View == <<now, pend, due, arg, mustfire, incb, nops, hist>>
=============================================================================
