--------------------------- MODULE DelaysSuiteTrace ---------------------------
(* One trace = the life of ONE DelayManager in any run of the real code (lib/suite_rec.py; in particular the      *)
(* repository's own tests): every public call with its arguments, every callback it ran with the kwargs received, *)
(* the pending set after each (the view of check()), times in 0.1 ms units.  Time is not ticked: each line carries *)
(* its time and the model may move there only if no pending delay would be passed (a missed callback blocks the    *)
(* trace); a callback must run at its due time (+- 1 unit of rounding), with the stored arguments, exactly once,   *)
(* and never after remove / clear / a re-arm.  Calls may arrive while another delay of the same instant is still   *)
(* due (CallOK's ~Overdue is a discipline of the C13 driver, not of MPF), so the Suite steps drop that guard.      *)
EXTENDS Delays, TraceIO, Integers
VARIABLES tid, l
tvars == <<vars, tid, l>>
TL == TraceLines[tid].ev
TInit == /\ tid \in 1..Len(TraceLines) /\ l = 1
         /\ now = 0 /\ pend = {} /\ due = <<>> /\ arg = <<>> /\ mustfire = "" /\ incb = FALSE /\ nops = 0 /\ act = [op |-> "init"]
\* (due / arg are functions over the names seen so far)
Put(f, n, v) == [x \in DOMAIN f \cup {n} |-> IF x = n THEN v ELSE f[x]]
MoveTo(t) == now <= t /\ (\A n \in pend : due[n] >= t - 1) /\ now' = t
SArm(n, d, a, t) == pend' = pend \cup {n} /\ due' = Put(due, n, t + d) /\ arg' = Put(arg, n, a)
Obs(e) == pend' = SeqToSet(e.pend)
Keep == incb' = incb /\ nops' = nops /\ act' = act
Step(e) ==
    \/ e.op \in {"add", "reset"} /\ mustfire = "" /\ MoveTo(e.t) /\ SArm(e.n, e.d, e.arg, e.t) /\ Obs(e) /\ Keep /\ UNCHANGED mustfire
    \/ e.op = "addif" /\ mustfire = "" /\ MoveTo(e.t) /\ Obs(e) /\ Keep /\ UNCHANGED mustfire
          /\ IF e.n \in pend THEN UNCHANGED <<pend, due, arg>> ELSE SArm(e.n, e.d, e.arg, e.t)
    \/ e.op = "remove" /\ mustfire = "" /\ MoveTo(e.t) /\ pend' = pend \ {e.n} /\ Obs(e) /\ Keep /\ UNCHANGED <<due, arg, mustfire>>
    \/ e.op = "clear" /\ mustfire = "" /\ MoveTo(e.t) /\ pend' = {} /\ Obs(e) /\ Keep /\ UNCHANGED <<due, arg, mustfire>>
    \/ e.op = "runnow" /\ mustfire = "" /\ MoveTo(e.t) /\ Keep /\ UNCHANGED <<due, arg>>
          /\ IF e.n \in pend THEN pend' = pend \ {e.n} /\ mustfire' = e.n ELSE UNCHANGED <<pend, mustfire>>
    \/ e.op = "fire" /\ Keep /\ UNCHANGED <<due, arg>> /\ Obs(e)
          /\ \/ /\ mustfire = "" /\ e.n \in pend /\ due[e.n] \in (e.t - 1)..(e.t + 1) /\ arg[e.n] = e.arg
                /\ now <= e.t /\ (\A n \in pend : due[n] >= e.t - 1) /\ now' = e.t
                /\ pend' = pend \ {e.n} /\ UNCHANGED mustfire
             \/ /\ mustfire = e.n /\ arg[e.n] = e.arg /\ now = e.t /\ mustfire' = "" /\ UNCHANGED <<pend, now>>
    \/ e.op = "sync" /\ mustfire = "" /\ MoveTo(e.t) /\ pend = SeqToSet(e.pend) /\ Keep /\ UNCHANGED <<pend, due, arg, mustfire>>
TNext == l <= Len(TL) /\ Step(TL[l]) /\ l' = l + 1 /\ UNCHANGED tid
TSpec == TInit /\ [][TNext]_tvars
Reporter == TraceReport(tid, l, Len(TL))
=============================================================================
