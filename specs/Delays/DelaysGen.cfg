SPECIFICATION Spec
CONSTANTS
  Names = {"a", "b", "c"}
  Durs = {0, 1, 2, 3}
  Args = {"p0", "p1", "p2"}
  MaxTime = 12
  MaxOps = 14
CHECK_DEADLOCK FALSE
