---------------------------- MODULE BallSearchGen ----------------------------
(* Schedule generator (tlc -simulate only): the KIND of the next step is drawn first, then its arguments; time steps are *)
(* drawn more often than requests so that searches get through their phases.                                            *)
EXTENDS BallSearchMC
VARIABLES pick
gvars == <<vars, pick>>
Kinds == <<"tick", "tick", "tick", "tick", "tick", "tick", "tick", "tick", "tick", "tick", "tick", "tick",
           "hit", "enable", "disable", "block", "unblock", "addball", "capture", "setret", "setret", "cancel">>
CanDo(kd) == CASE kd = "tick" -> now < MaxTime
               [] kd = "addball" -> nops < MaxOps /\ s.balls < MaxBalls /\ s.balls < s.known
               [] kd = "capture" -> nops < MaxOps /\ s.balls > 0 /\ (s.st \/ nops % 3 = 0)
               [] kd = "cancel" -> nops < MaxOps /\ (s.st \/ nops % 5 = 0)
               [] kd \in {"disable", "block"} -> nops < MaxOps /\ (s.st \/ nops % 2 = 0)
               [] OTHER -> nops < MaxOps
GInit == Init /\ pick = 0
Draw == /\ pick = 0 /\ \E k \in 1..Len(Kinds) : CanDo(Kinds[k]) /\ pick' = k
        /\ UNCHANGED vars
Do == /\ pick # 0 /\ pick' = 0
      /\ LET kd == Kinds[pick] IN
         \/ kd = "tick" /\ Tick
         \/ kd = "hit" /\ Hit
         \/ kd = "enable" /\ DoEnable
         \/ kd = "disable" /\ DoDisable
         \/ kd = "block" /\ DoBlock
         \/ kd = "unblock" /\ DoUnblock
         \/ kd = "addball" /\ AddBall
         \/ kd = "capture" /\ Capture
         \/ kd = "cancel" /\ Cancel
         \/ kd = "setret" /\ \E c \in Own, b \in BOOLEAN : SetRet(c, b)
GNext == Draw \/ Do
GSpec == GInit /\ [][GNext]_gvars
=============================================================================
