------------------------------ MODULE BallSearch ------------------------------
(* STATEMENT (X08, written from the docstrings / event descriptions of mpf/core/ball_search.py, the ball search handlers  *)
(* of mpf/devices/playfield.py and the `playfields:` section of config_spec.yaml):                                        *)
(* For any timeline of ball_search enable / disable / block / unblock events, playfield switch hits, balls arriving on    *)
(* the playfield, balls entering a device from the playfield, `cancel_ball_search`, registered callbacks that act (return *)
(* True) or decline (return False), and time passing:                                                                     *)
(*  - enable() only (re)starts the timeout timer (never while blocked, never with `enable_ball_search: false`); every      *)
(*    playfield switch hit restarts it; the search starts exactly when it is enabled, not blocked, and                     *)
(*    `ball_search_timeout` passed without a hit / enable; `ball_search_started` is posted exactly once per search,        *)
(*    followed by the `ball_search_phase_<p>` event (iteration=1) of the phase the search begins with;                     *)
(*  - while the search runs the registered callbacks are called one at a time in the order of their priorities, each with  *)
(*    the current (phase, iteration); after a callback that returned True the search waits `ball_search_interval`          *)
(*    (`ball_search_wait_after_iteration` when that call was in a new iteration whose first acting callback it is), a      *)
(*    declining callback is followed at once by the next one; phase p runs `ball_search_phase_p_searches` iterations over   *)
(*    all callbacks, `ball_search_phase_<p>` (iteration=i) is posted once when iteration i of phase p begins; a phase with  *)
(*    0 searches is skipped;                                                                                               *)
(*  - after the last iteration of the last phase the search gives up exactly once: it stops and is disabled,               *)
(*    `ball_search_failed` is posted immediately after `ball_search_stopped`, the balls of the playfield are written off    *)
(*    (num_balls_known, playfield.balls = 0) and, in a game, `ball_search_failed_action` is executed once: new_ball ->      *)
(*    one add_ball() per lost ball while a known ball remains, otherwise the game ends; end_game -> the game ends;          *)
(*    end_ball -> the ball ends; `cancel_ball_search` gives up a running search the same way and is inert otherwise;        *)
(*  - a playfield switch hit, a ball entering a device, a new ball on the playfield, disable and block stop a running       *)
(*    search at once: `ball_search_stopped` is posted exactly once, every restore callback runs exactly once, no callback   *)
(*    is called afterwards until a new search starts; block also disables; while blocked or disabled no timer runs,         *)
(*    nothing is called and nothing is posted; unblock enables again iff balls are on the playfield; the playfield          *)
(*    disables the search when its last ball leaves and enables it when a ball is added.                                    *)
(*                                                                                                                        *)
(* Deviation (the code contradicts its own comment "check if we should skip this phase"; named so that the check describes *)
(* the code as it is):                                                                                                     *)
(*  "zerophase"  BallSearch._run only skips a phase with 0 searches on ENTRY of _run.  start() posts ball_search_phase_1    *)
(*               although phase 1 is skipped; the phase reached by skipping gets no ball_search_phase_<p> event; when the   *)
(*               previous phase ends inside the loop the 0-search phase is NOT skipped: its event is posted and callbacks   *)
(*               are called with its number until the first one acts, and the next entry of _run then moves on to the next  *)
(*               phase in the middle of an iteration (keeping the iterator position and the iteration number).             *)
EXTENDS Naturals, Sequences, FiniteSets, TLC
CONSTANTS Configs, MaxOps, MaxTime, MaxBalls, Deviations
VARIABLES cfg, s, out, act, nops, now
vars == <<cfg, s, out, act, nops, now>>
Dev(d) == d \in Deviations
\* callbacks: 1, 2 registered by the harness (1 with a restore callback), 3 a real flipper (always acts)
CBs == {1, 2, 3}
N == 3
Own == {1, 2}
ZeroOut == [calls |-> <<>>, evs |-> <<>>, rest |-> 0, addb |-> 0, bend |-> 0, gend |-> 0]
\* callbacks sorted by priority (distinct priorities)
Ord == CHOOSE q \in [1..N -> CBs] : \A i, j \in 1..N : i < j => cfg.prio[q[i]] < cfg.prio[q[j]]
NextP(p) == IF Dev("zerophase") THEN p + 1
            ELSE IF \E q \in (p + 1)..3 : cfg.S[q] > 0 THEN CHOOSE q \in (p + 1)..3 : cfg.S[q] > 0 /\ \A r \in (p + 1)..(q - 1) : cfg.S[r] = 0
            ELSE 4

\* ---- the methods of BallSearch as functions on x = [s |-> state, o |-> observations of the step] --------------------
Ev(x, n, a, b) == [x EXCEPT !.o.evs = Append(@, <<n, a, b>>)]
Stop(x) == IF ~x.s.st THEN x
           ELSE Ev([x EXCEPT !.s.st = FALSE, !.s.tr = 0, !.o.rest = @ + 1], "stopped", 0, 0)
ResetTimer(x) == LET y == Stop(x) IN IF y.s.en THEN [y EXCEPT !.s.ts = cfg.T] ELSE y
Disable(x) == LET y == Stop(x) IN [y EXCEPT !.s.en = FALSE, !.s.ts = 0]
Enable(x) == IF x.s.bl \/ ~cfg.en THEN x ELSE ResetTimer([x EXCEPT !.s.en = TRUE])
SetBalls(x, n) == LET y == [x EXCEPT !.s.balls = n] IN IF n <= 0 THEN Disable(y) ELSE Enable(y)
EndGame(x) == [x EXCEPT !.s.game = FALSE, !.o.gend = @ + 1]
Compensate(x, lost) ==
    IF ~x.s.game THEN x
    ELSE CASE cfg.fa = "new_ball" -> IF x.s.known > 0 THEN [x EXCEPT !.o.addb = @ + lost] ELSE EndGame(x)
           [] cfg.fa = "end_game" -> EndGame(x)
           [] cfg.fa = "end_ball" -> [x EXCEPT !.o.bend = @ + 1]
GiveUp(x) == LET y == Ev(Disable(x), "failed", 0, 0)
                 lost == y.s.balls
             IN Compensate(SetBalls([y EXCEPT !.s.known = @ - lost], 0), lost)
Ret(x, c) == IF c \in Own THEN x.s.ret[c] ELSE TRUE
Park(x, p, i, k, w) == [x EXCEPT !.s.ph = p, !.s.it = i, !.s.pos = k, !.s.tr = IF w THEN cfg.W ELSE cfg.I]
RECURSIVE Loop(_, _, _, _, _)
Loop(x, p, i, k, w) ==
    IF k <= N
    THEN LET c == Ord[k]
             y == [x EXCEPT !.o.calls = Append(@, <<c, p, i>>)]
         IN IF Ret(x, c) THEN Park(y, p, i, k + 1, w) ELSE Loop(y, p, i, k + 1, w)
    ELSE IF i + 1 > cfg.S[p]
         THEN LET q == NextP(p) IN IF q > 3 THEN GiveUp(x) ELSE Loop(Ev(x, "phase", q, 1), q, 1, 1, TRUE)
         ELSE Loop(Ev(x, "phase", p, i + 1), p, i + 1, 1, TRUE)
RECURSIVE Entry(_, _, _, _)
Entry(x, p, i, k) == IF cfg.S[p] = 0 THEN (IF p + 1 > 3 THEN GiveUp(x) ELSE Entry(x, p + 1, i, k))
                     ELSE Loop(x, p, i, k, FALSE)
Start(x) == LET y == Ev([x EXCEPT !.s.st = TRUE, !.s.ts = 0, !.s.ph = 1, !.s.it = 1, !.s.pos = 1], "started", 0, 0)
                f == IF Dev("zerophase") THEN 1 ELSE NextP(0)
            IN IF f > 3 THEN GiveUp(y) ELSE Entry(Ev(y, "phase", f, 1), f, 1, 1)
Run(x) == Entry(x, x.s.ph, x.s.it, x.s.pos)

\* ---- actions ---------------------------------------------------------------------------------------------------------
S0 == [en |-> cfg.en, bl |-> FALSE, st |-> FALSE, ph |-> 1, it |-> 1, pos |-> 1, ts |-> IF cfg.en THEN cfg.T ELSE 0, tr |-> 0,
       balls |-> 1, known |-> cfg.K, game |-> TRUE, ret |-> [c \in Own |-> TRUE]]
Init == /\ cfg \in Configs /\ s = S0 /\ out = ZeroOut /\ act = [op |-> "init"] /\ nops = 0 /\ now = 0
X0 == [s |-> s, o |-> ZeroOut]
Set(x, a) == /\ s' = x.s /\ out' = x.o /\ act' = a /\ UNCHANGED cfg
Op(x, a) == /\ nops < MaxOps /\ nops' = nops + 1 /\ UNCHANGED now /\ Set(x, a)

DoEnable == Op(Enable(X0), [op |-> "enable"])
DoDisable == Op(Disable(X0), [op |-> "disable"])
DoBlock == Op([Disable(X0) EXCEPT !.s.bl = TRUE], [op |-> "block"])
DoUnblock == LET y == [X0 EXCEPT !.s.bl = FALSE] IN Op(IF s.balls > 0 THEN Enable(y) ELSE y, [op |-> "unblock"])
Hit == Op(ResetTimer(X0), [op |-> "hit"])
AddBall == /\ s.balls < MaxBalls /\ s.balls < s.known
           /\ Op(SetBalls(X0, s.balls + 1), [op |-> "addball"])
Capture == /\ s.balls > 0
           /\ LET y == ResetTimer(X0) IN Op(SetBalls(y, y.s.balls - 1), [op |-> "capture"])
Cancel == Op(IF s.st THEN GiveUp(X0) ELSE X0, [op |-> "cancel"])
SetRet(c, b) == /\ s.ret[c] # b /\ Op([X0 EXCEPT !.s.ret[c] = b], [op |-> "setret", c |-> c, b |-> b])
Tick == /\ now < MaxTime /\ now' = now + 1 /\ UNCHANGED nops
        /\ Set(IF s.ts = 1 THEN Start(X0)
               ELSE IF s.tr = 1 THEN Run(X0)
               ELSE [X0 EXCEPT !.s.ts = IF @ > 0 THEN @ - 1 ELSE 0, !.s.tr = IF @ > 0 THEN @ - 1 ELSE 0], [op |-> "tick"])
Next == \/ DoEnable \/ DoDisable \/ DoBlock \/ DoUnblock \/ Hit \/ AddBall \/ Capture \/ Cancel \/ Tick
        \/ \E c \in Own, b \in BOOLEAN : SetRet(c, b)
Spec == Init /\ [][Next]_vars

\* ---- the statement ---------------------------------------------------------------------------------------------------
Count(q, n) == Cardinality({j \in DOMAIN q : q[j][1] = n})
Has(q, n) == Count(q, n) > 0
TypeOK == /\ s.en \in BOOLEAN /\ s.bl \in BOOLEAN /\ s.st \in BOOLEAN /\ s.ph \in 1..4 /\ s.pos \in 1..(N + 1)
          /\ s.ts \in 0..cfg.T /\ s.balls \in 0..MaxBalls /\ s.known \in 0..cfg.K /\ s.game \in BOOLEAN
\* at most one timer; a running search always has its next step scheduled; enabled and not searching = timeout timer running
Timers == /\ ~(s.ts > 0 /\ s.tr > 0)
          /\ s.st <=> (s.tr > 0)
          /\ (s.ts > 0) <=> (s.en /\ ~s.st)
\* nothing runs while blocked or disabled
BlockedInert == /\ s.bl => ~s.en
                /\ ~s.en => (~s.st /\ s.ts = 0 /\ s.tr = 0)
                /\ ~cfg.en => ~s.en
\* (intent only) a running search is in a phase that has searches, within its number of iterations
PhaseBounds == s.st => (s.ph \in 1..3 /\ cfg.S[s.ph] > 0 /\ s.it \in 1..cfg.S[s.ph])
Balls == s.known >= s.balls
\* callbacks are only called from the timers of a search; the search only starts when the timeout expires
OnlyTimers == [][(out'.calls # <<>> \/ Has(out'.evs, "started") \/ Has(out'.evs, "phase")) => (act'.op = "tick" /\ (s.ts = 1 \/ s.tr = 1))]_vars
StartOnTimeout == [][(~s.st /\ s.st') => (act'.op = "tick" /\ s.ts = 1 /\ s.en /\ ~s.bl)]_vars
TimeoutStarts == [][(act'.op = "tick" /\ s.ts = 1) => Count(out'.evs, "started") = 1]_vars
StartedOnce == [][/\ Count(out'.evs, "started") <= 1
                  /\ Has(out'.evs, "started") => (~s.st /\ out'.evs[1][1] = "started")
                  /\ (~s.st /\ s.st') => Has(out'.evs, "started")]_vars
\* a search that ends (found ball, disable, block, give up) posts stopped once and restores once; nothing else posts it
StoppedOnce == [][/\ Count(out'.evs, "stopped") = (IF (s.st \/ Has(out'.evs, "started")) /\ ~s.st' THEN 1 ELSE 0)
                  /\ out'.rest = Count(out'.evs, "stopped")]_vars
FailedAfterStopped == [][\A j \in DOMAIN out'.evs : out'.evs[j][1] = "failed" => (j > 1 /\ out'.evs[j - 1][1] = "stopped" /\ j = Len(out'.evs))]_vars
GiveUpOnce == [][/\ Count(out'.evs, "failed") <= 1
                 /\ Has(out'.evs, "failed") => (~s.en' /\ ~s.st' /\ s.balls' = 0 /\ s.known' = s.known - s.balls)
                 /\ (out'.addb > 0 \/ out'.bend > 0 \/ out'.gend > 0) => (Has(out'.evs, "failed") /\ s.game)
                 /\ out'.addb + out'.bend + out'.gend <= IF cfg.fa = "new_ball" THEN MaxBalls ELSE 1]_vars
\* a stop request leaves no search running and calls nothing
StopsAtOnce == [][act'.op \in {"hit", "disable", "block", "capture", "addball", "cancel"} => (~s.st' /\ out'.calls = <<>>)]_vars
HitRestartsTimer == [][(act'.op = "hit" /\ s.en) => (s.ts' = cfg.T /\ s.en')]_vars
\* calls of one step: priority order inside an iteration, a new iteration begins with the first callback; all but the last declined
CallOrder == [][\A j \in 1..(Len(out'.calls) - 1) :
                  LET a == out'.calls[j] b == out'.calls[j + 1] IN
                  /\ a[1] \in Own /\ ~s.ret[a[1]]
                  /\ \/ a[2] = b[2] /\ a[3] = b[3] /\ cfg.prio[a[1]] < cfg.prio[b[1]]
                     \/ (a[2] < b[2] \/ (a[2] = b[2] /\ a[3] < b[3])) /\ b[1] = Ord[1]]_vars
\* an idle, disabled or blocked search is untouched by time
IdleInert == [][(act'.op = "tick" /\ ~s.en) => (s' = s /\ out' = ZeroOut)]_vars
=============================================================================
