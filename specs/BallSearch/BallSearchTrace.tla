--------------------------- MODULE BallSearchTrace ---------------------------
(* One recorded execution of the real BallSearch of the playfield of one configuration inside a running (fake) game.     *)
(* Logged per step: the request (or one unit of time), the callbacks called during the step with their (phase,           *)
(* iteration) arguments in call order, the ball_search_* events posted in posting order, the number of restore calls,     *)
(* the number of add_ball() requests of the failed action, ball_ending / game_ending counts, and afterwards the           *)
(* attributes enabled / blocked / started (phase, iteration while started), playfield.balls, num_balls_known, game.       *)
EXTENDS BallSearch, TraceIO
VARIABLES tid, l
tvars == <<vars, tid, l>>
TL == TraceLines[tid].ev
TConfigs == {}
TAllDev == {"zerophase"}
TInit == /\ tid \in 1..Len(TraceLines) /\ l = 1 /\ cfg = TraceLines[tid].cfg
         /\ s = S0 /\ out = ZeroOut /\ act = [op |-> "init"] /\ nops = 0 /\ now = 0
Obs(e) == /\ out'.calls = e.calls /\ out'.evs = e.evs /\ out'.rest = e.rest /\ out'.addb = e.addb
          /\ out'.gend = e.gend /\ (out'.gend = 0 => out'.bend = e.bend)
          /\ s'.en = e.en /\ s'.bl = e.bl /\ s'.st = e.st
          /\ (e.st => (s'.ph = e.ph /\ s'.it = e.it))
          /\ s'.balls = e.balls /\ s'.known = e.known /\ s'.game = e.game
Step(e) ==
    /\ \/ e.op = "tick" /\ Tick
       \/ e.op = "hit" /\ Hit
       \/ e.op = "enable" /\ DoEnable
       \/ e.op = "disable" /\ DoDisable
       \/ e.op = "block" /\ DoBlock
       \/ e.op = "unblock" /\ DoUnblock
       \/ e.op = "addball" /\ AddBall
       \/ e.op = "capture" /\ Capture
       \/ e.op = "cancel" /\ Cancel
       \/ e.op = "setret" /\ SetRet(e.c, e.b)
    /\ Obs(e)
TNext == l <= Len(TL) /\ Step(TL[l]) /\ l' = l + 1 /\ UNCHANGED tid
TSpec == TInit /\ [][TNext]_tvars
Reporter == TraceReport(tid, l, Len(TL))
=============================================================================
