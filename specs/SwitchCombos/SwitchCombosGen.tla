--------------------------- MODULE SwitchCombosGen ---------------------------
(* Schedule generator (tlc -simulate only): the kind of the next step is drawn first, then its arguments, so that  *)
(* the passing of time (one successor) is not starved by the many switch changes.                                  *)
EXTENDS SwitchCombosMC
VARIABLES pick
gvars == <<vars, pick>>
Kinds == <<"sw", "sw", "sw", "ev", "ev", "adv", "adv", "adv">>
CanDo(kd) == CASE kd = "adv" -> now < MaxTime
               [] kd = "ev" -> nops < MaxOps /\ Rng(cfg.evs) # {}
               [] OTHER -> nops < MaxOps /\ AllSw # {}
GInit == Init /\ pick = 0
Draw == pick = 0 /\ (\E i \in 1..Len(Kinds) : CanDo(Kinds[i]) /\ pick' = i) /\ UNCHANGED vars
Do == /\ pick # 0 /\ pick' = 0
      /\ LET kd == Kinds[pick] IN
         \/ kd = "sw" /\ \E n \in AllSw, v \in {0, 1} : Sw(n, v)
         \/ kd = "ev" /\ \E n \in Rng(cfg.evs) : Ev(n)
         \/ kd = "adv" /\ Adv
GNext == Draw \/ Do
GSpec == GInit /\ [][GNext]_gvars
=============================================================================
