----------------------------- MODULE SwitchCombos -----------------------------
(* Engine X06: devices that derive events from timed combinations of switches                                      *)
(*   mpf/devices/combo_switch.py, mpf/devices/timed_switch.py, mpf/devices/sequence_shot.py                         *)
(*                                                                                                                  *)
(* STATEMENT (written from the docstrings / event descriptions / config_spec.yaml of the three devices):           *)
(* For any sequence of switch changes, posted events and passing of time (integer time units):                      *)
(*  COMBO SWITCH (switch groups 1 and 2, hold_time, release_time, max_offset_time; -1 = no limit).  A group is       *)
(*   "pressed" while at least one of its switches is active.  A group becomes ACTIVATED when it has been pressed      *)
(*   without interruption for hold_time, and RELEASED when, once all its switches are inactive, it has stayed so      *)
(*   for release_time; a press shorter than hold_time or a gap shorter than release_time changes nothing.             *)
(*   The device is in exactly one of the states inactive / both / one and posts events_when_<state> exactly once      *)
(*   for every change of state and never otherwise.  It enters `both` exactly when a group is activated while the     *)
(*   other group is activated and the two activations are not more than max_offset_time apart; it goes from `both`    *)
(*   to `one` exactly when one of the groups is released, and from `one` to `inactive` only when no group is          *)
(*   activated any more ("Both switches are inactive").  With max_offset_time >= 0, events_when_switches_<g> is       *)
(*   posted once when group g has been activated alone for more than max_offset_time ("only switches_g is active      *)
(*   ... cannot become both later on"), never when the other group was activated in between, never when              *)
(*   max_offset_time is not defined.                                                                                 *)
(*  TIMED SWITCH (switches, state, time).  The device keeps the set of its switches that have been in the             *)
(*   configured state for at least `time` without interruption.  events_when_active is posted exactly when that       *)
(*   set becomes non-empty, events_when_released exactly when it becomes empty again; switches that overlap do        *)
(*   not post again, a switch that leaves the state before `time` posts nothing.                                      *)
(*  SEQUENCE SHOT (switch_sequence or event_sequence, sequence_timeout, delay_switch_list / delay_event_list,         *)
(*   cancel_switches / cancel_events).  Every occurrence of the first event starts a new sequence in flight           *)
(*   (several are tracked independently), unless a delay switch / event occurred less than its time ago.  Any other   *)
(*   event advances the oldest-listed sequence in flight that waits for exactly this event, and nothing else; an      *)
(*   event no sequence waits for changes nothing (a wrong order does not complete).  <name>_hit is posted exactly      *)
(*   once each time a sequence in flight receives its last event (for a one-step sequence: each time the event        *)
(*   occurs outside a delay window).  A sequence in flight is dropped, and <name>_timeout posted once, when            *)
(*   sequence_timeout has passed since its start; a cancel switch / event drops all sequences in flight silently.      *)
(*                                                                                                                  *)
(* Named deviations of the code from this statement (CONSTANT Deviations; see the final report of the builder):    *)
(*   "inactiveWhileHeld"    ComboSwitch._release_switches_N: in state `one` ANY release report switches to           *)
(*                          `inactive`, also that of a group that never got (or lost) its part in `both` while the    *)
(*                          other group is still activated.                                                           *)
(*   "onlySurvivesRelease"  the delay that posts events_when_switches_N is not removed when group N is released:      *)
(*                          the event is posted for a group that is not active any more, and a re-activation keeps    *)
(*                          the old deadline (add_if_doesnt_exist).                                                   *)
(* Time: abstract units.  A timer set at t with duration d fires in the Adv step that reaches t + d; the             *)
(* "switches_N" delay is configured as max_offset + 1/2 unit, so that it fires in the Adv step reaching               *)
(* activation + max_offset + 1 before the timers of that instant.                                                    *)
EXTENDS Integers, Sequences, FiniteSets, TLC
CONSTANTS Configs, Deviations, MaxTime, MaxOps, LongAgo
VARIABLES cfg, now, s, nops, act
vars == <<cfg, now, s, nops, act>>
Rng(q) == {q[i] : i \in DOMAIN q}
Min(S) == CHOOSE x \in S : \A y \in S : x <= y
RemoveAt(q, i) == [j \in 1..(Len(q) - 1) |-> IF j < i THEN q[j] ELSE q[j + 1]]
Emit(st, e) == [st EXCEPT !.out = Append(@, e)]
Clr(st) == [st EXCEPT !.out = <<>>]
NoTm == [k |-> "none", at |-> 0]
NoOnly == [g |-> 0, at |-> 0]
Oth(g) == 3 - g
\* ------------------------------------------------------------------ combo switch
Grp(g) == IF g = 1 THEN Rng(cfg.g1) ELSE Rng(cfg.g2)
GrpOf(n) == IF n \in Rng(cfg.g1) THEN 1 ELSE 2
Pressed(st, g) == \E m \in Grp(g) : st.sw[m] = 1
SwitchState(st, new) == IF st.cstate = new THEN st ELSE Emit([st EXCEPT !.cstate = new], new)
Activate(t, st, g) ==
    LET s1 == [st EXCEPT !.act[g] = t, !.only = IF @.g = Oth(g) THEN NoOnly ELSE @]
    IN IF s1.act[Oth(g)] # -1
       THEN IF cfg.maxoff >= 0 /\ t - s1.act[Oth(g)] > cfg.maxoff THEN s1 ELSE SwitchState(s1, "both")
       ELSE IF cfg.maxoff >= 0 /\ s1.only.g = 0
            THEN [s1 EXCEPT !.only = [g |-> g, at |-> t + cfg.maxoff + 1]] ELSE s1
Release(t, st, g) ==
    LET s0 == [st EXCEPT !.act[g] = -1]
        s1 == IF "onlySurvivesRelease" \in Deviations THEN s0 ELSE [s0 EXCEPT !.only = IF @.g = g THEN NoOnly ELSE @]
    IN IF st.act[Oth(g)] # -1 /\ st.cstate = "both" THEN SwitchState(s1, "one")
       ELSE IF st.cstate = "one" /\ (st.act[Oth(g)] = -1 \/ "inactiveWhileHeld" \in Deviations)
            THEN SwitchState(s1, "inactive")
       ELSE s1
ComboSw(t, st, n, v) ==     \* st.sw already holds the new value
    LET g == GrpOf(n) IN
    IF v = 1
    THEN LET s1 == [st EXCEPT !.tm[g] = IF @.k = "rel" THEN NoTm ELSE @]
         IN IF s1.act[g] # -1 THEN s1
            ELSE IF cfg.hold = 0 THEN Activate(t, s1, g)
            ELSE IF s1.tm[g].k = "act" THEN s1 ELSE [s1 EXCEPT !.tm[g] = [k |-> "act", at |-> t + cfg.hold]]
    ELSE IF Pressed(st, g) THEN st
         ELSE LET s1 == [st EXCEPT !.tm[g] = IF @.k = "act" THEN NoTm ELSE @]
              IN IF cfg.rel = 0 THEN Release(t, s1, g)
                 ELSE IF s1.tm[g].k = "rel" THEN s1 ELSE [s1 EXCEPT !.tm[g] = [k |-> "rel", at |-> t + cfg.rel]]
FireTm(t, st, g) ==
    IF st.tm[g].k = "none" \/ st.tm[g].at # t THEN st
    ELSE LET s1 == [st EXCEPT !.tm[g] = NoTm]
         IN IF st.tm[g].k = "act" THEN Activate(t, s1, g) ELSE Release(t, s1, g)
\* the hold / release timers of the two groups that are due at the same instant fire in either order
ComboAdv(t, st, first) ==
    LET s1 == IF st.only.g # 0 /\ st.only.at = t
              THEN Emit([st EXCEPT !.only = NoOnly], IF st.only.g = 1 THEN "switches_1" ELSE "switches_2") ELSE st
    IN FireTm(t, FireTm(t, s1, first), Oth(first))
\* ------------------------------------------------------------------ timed switch
TActivate(st, n) == LET s1 == IF st.active = {} THEN Emit(st, "active") ELSE st IN [s1 EXCEPT !.active = @ \cup {n}]
TDeactivate(st, n) == IF n \notin st.active THEN st
                      ELSE LET s1 == [st EXCEPT !.active = @ \ {n}] IN IF s1.active = {} THEN Emit(s1, "released") ELSE s1
TimedSw(t, st, n, v) ==
    LET s0 == [st EXCEPT !.since[n] = t] IN
    IF v = cfg.st THEN IF cfg.time = 0 THEN TActivate(s0, n) ELSE [s0 EXCEPT !.pend[n] = t + cfg.time]
    ELSE TDeactivate([s0 EXCEPT !.pend[n] = -1], n)
TimedAdv(t, st) ==
    LET due == {n \in DOMAIN st.pend : st.pend[n] = t}
        s1 == IF due # {} /\ st.active = {} THEN Emit(st, "active") ELSE st
    IN [s1 EXCEPT !.active = @ \cup due, !.pend = [n \in DOMAIN @ |-> IF n \in due THEN -1 ELSE @[n]]]
\* ------------------------------------------------------------------ sequence shot
SLen == Len(cfg.seq)
DlyNames == {cfg.dly[i].n : i \in DOMAIN cfg.dly}
DlyMs(n) == LET i == CHOOSE i \in DOMAIN cfg.dly : cfg.dly[i].n = n IN cfg.dly[i].ms
DelayActive(st) == \E n \in DOMAIN st.dl : st.dl[n] # 0
SeqAdvance(t, st, e) ==
    IF e = cfg.seq[1]
    THEN IF DelayActive(st) THEN st
         ELSE IF SLen > 1
              THEN [st EXCEPT !.seqs = Append(@, [pos |-> 0, dl |-> IF cfg.timeout > 0 THEN t + cfg.timeout ELSE 0])]
              ELSE Emit(st, "hit")
    ELSE LET idx == {i \in DOMAIN st.seqs : cfg.seq[st.seqs[i].pos + 2] = e} IN
         IF idx = {} THEN st
         ELSE LET i == Min(idx)
                  q == st.seqs[i]
                  rest == RemoveAt(st.seqs, i)
              IN IF q.pos = SLen - 2 THEN Emit([st EXCEPT !.seqs = rest], "hit")
                 ELSE [st EXCEPT !.seqs = Append(rest, [q EXCEPT !.pos = @ + 1])]
Token(t, st, n) ==
    IF n \in DlyNames THEN [st EXCEPT !.dl[n] = t + DlyMs(n)]
    ELSE IF n \in Rng(cfg.cancel) THEN [st EXCEPT !.seqs = <<>>]
    ELSE IF n \in Rng(cfg.seq) THEN SeqAdvance(t, st, n)
    ELSE st
RECURSIVE Timeouts(_, _)
Timeouts(t, st) ==
    LET idx == {i \in DOMAIN st.seqs : st.seqs[i].dl = t} IN
    IF idx = {} THEN st ELSE Timeouts(t, Emit([st EXCEPT !.seqs = RemoveAt(@, Min(idx))], "timeout"))
SeqAdv(t, st) == Timeouts(t, [st EXCEPT !.dl = [n \in DOMAIN @ |-> IF @[n] = t THEN 0 ELSE @[n]]])
\* ------------------------------------------------------------------ state, actions
AllSw == Rng(cfg.sws)
Fresh == [sw |-> [n \in AllSw |-> 0], out |-> <<>>,
          cstate |-> "inactive", act |-> <<-1, -1>>, tm |-> <<NoTm, NoTm>>, only |-> NoOnly,
          pend |-> [n \in AllSw |-> -1], since |-> [n \in AllSw |-> LongAgo],
          active |-> IF cfg.kind = "timed" /\ cfg.st = 0 THEN AllSw ELSE {},
          seqs |-> <<>>, dl |-> [n \in DlyNames |-> 0]]
Init == cfg \in Configs /\ now = 0 /\ nops = 0 /\ act = [op |-> "init"] /\ s = Fresh
Sw(n, v) == /\ nops < MaxOps /\ n \in AllSw /\ s.sw[n] # v
            /\ LET s0 == [Clr(s) EXCEPT !.sw[n] = v] IN
               s' = CASE cfg.kind = "combo" -> ComboSw(now, s0, n, v)
                      [] cfg.kind = "timed" -> TimedSw(now, s0, n, v)
                      [] OTHER -> IF v = 1 THEN Token(now, s0, n) ELSE s0
            /\ nops' = nops + 1 /\ act' = [op |-> "sw", n |-> n, v |-> v] /\ UNCHANGED <<cfg, now>>
Ev(n) == /\ nops < MaxOps /\ n \in Rng(cfg.evs)
         /\ s' = Token(now, Clr(s), n)
         /\ nops' = nops + 1 /\ act' = [op |-> "ev", n |-> n] /\ UNCHANGED <<cfg, now>>
Adv == /\ now < MaxTime /\ now' = now + 1
       /\ \E first \in {1, 2} :
             s' = IF cfg.kind = "combo" THEN ComboAdv(now + 1, Clr(s), first)
                  ELSE IF cfg.kind = "timed" THEN TimedAdv(now + 1, Clr(s))
                  ELSE SeqAdv(now + 1, Clr(s))
       /\ act' = [op |-> "adv"] /\ UNCHANGED <<cfg, nops>>
Next == Adv \/ (\E n \in AllSw, v \in {0, 1} : Sw(n, v)) \/ (\E n \in Rng(cfg.evs) : Ev(n))
Spec == Init /\ [][Next]_vars
\* ------------------------------------------------------------------ the statement over states and steps
Cnt(q, e) == Cardinality({i \in DOMAIN q : q[i] = e})
IsCombo == cfg.kind = "combo"
IsTimed == cfg.kind = "timed"
IsSeq == cfg.kind = "seq"
\* no timer is ever overdue when an operation arrives
NothingOverdue ==
    /\ \A g \in {1, 2} : s.tm[g].k # "none" => s.tm[g].at > now
    /\ (s.only.g # 0 => s.only.at > now)
    /\ \A n \in DOMAIN s.pend : s.pend[n] # -1 => s.pend[n] > now
    /\ \A i \in DOMAIN s.seqs : s.seqs[i].dl # 0 => s.seqs[i].dl > now
    /\ \A n \in DOMAIN s.dl : s.dl[n] # 0 => s.dl[n] > now
\* combo: `both` means both groups activated within the offset; an activated group is pressed or inside its release time;
\* a pressed group that is not activated is inside its hold time
Abs(x) == IF x < 0 THEN -x ELSE x
BothSound == (IsCombo /\ s.cstate = "both") =>
                /\ s.act[1] # -1 /\ s.act[2] # -1
                /\ (cfg.maxoff >= 0 => Abs(s.act[1] - s.act[2]) <= cfg.maxoff)
OneSound == (IsCombo /\ s.cstate = "one") => (s.act[1] # -1 \/ s.act[2] # -1)
ActSound == IsCombo => \A g \in {1, 2} :
                /\ (s.act[g] # -1 => (Pressed(s, g) \/ s.tm[g].k = "rel") /\ s.tm[g].k # "act" /\ s.act[g] <= now)
                /\ ((s.act[g] = -1 /\ Pressed(s, g)) => s.tm[g].k = "act")
                /\ (s.tm[g].k = "act" => Pressed(s, g) /\ s.tm[g].at <= now + cfg.hold)
                /\ (s.tm[g].k = "rel" => ~Pressed(s, g) /\ s.tm[g].at <= now + cfg.rel)
OnlySound == IsCombo => /\ (cfg.maxoff < 0 => s.only.g = 0)
                        /\ (s.only.g # 0 => s.act[Oth(s.only.g)] = -1)
                        /\ ("onlySurvivesRelease" \notin Deviations /\ s.only.g # 0 =>
                               s.act[s.only.g] # -1 /\ s.only.at = s.act[s.only.g] + cfg.maxoff + 1)
\* exactly one events_when_<state> per change of state: the posted state names form the chain of states passed through
StateNames == {"inactive", "one", "both"}
OncePerTransition == [][ IsCombo =>
    LET names == SelectSeq(s'.out, LAMBDA e : e \in StateNames)
        chain == <<s.cstate>> \o names
    IN chain[Len(chain)] = s'.cstate /\ \A i \in 1..(Len(chain) - 1) : chain[i] # chain[i + 1] ]_vars
DueTm == {g \in {1, 2} : s.tm[g].k # "none" /\ s.tm[g].at = now + 1}
SingleCause == act'.op = "sw" \/ Cardinality(DueTm) <= 1
\* `both` only on an activation with the other group activated in time; `one` only from `both`;
\* `inactive` only when nothing is activated any more (needs Deviations = {})
BothExact == [][ (IsCombo /\ SingleCause) =>
    (Cnt(s'.out, "both") = 1 <=> \E g \in {1, 2} : /\ s.act[g] = -1 /\ s'.act[g] = now' /\ s.act[Oth(g)] # -1
                                                   /\ (cfg.maxoff >= 0 => now' - s.act[Oth(g)] <= cfg.maxoff)) ]_vars
OneExact == [][ (IsCombo /\ SingleCause) =>
    (Cnt(s'.out, "one") = 1 <=> (s.cstate = "both" /\ \E g \in {1, 2} : s.act[g] # -1 /\ s'.act[g] = -1)) ]_vars
InactiveOnlyWhenNoneActive == [][ (IsCombo /\ SingleCause /\ Cnt(s'.out, "inactive") > 0) =>
    (s'.act[1] = -1 /\ s'.act[2] = -1) ]_vars
OnlyWhenDefined == [][ (IsCombo /\ (Cnt(s'.out, "switches_1") + Cnt(s'.out, "switches_2") > 0)) =>
    /\ cfg.maxoff >= 0 /\ act'.op = "adv" /\ Cnt(s'.out, "switches_1") + Cnt(s'.out, "switches_2") = 1
    /\ ("onlySurvivesRelease" \notin Deviations =>
          \E g \in {1, 2} : s.only.g = g /\ s.act[g] = now - cfg.maxoff /\ s.act[Oth(g)] = -1) ]_vars
\* a glitch (press shorter than hold_time / gap shorter than release_time) leaves state and activation untouched
GlitchInert == [][ (IsCombo /\ act'.op = "sw" /\ cfg.hold > 0 /\ cfg.rel > 0) =>
    (s'.cstate = s.cstate /\ s'.act = s.act /\ s'.out = <<>>) ]_vars
\* timed switch: the set is exactly the switches that have been in the state for `time`
TimedExact == IsTimed => /\ \A n \in AllSw : n \in s.active <=> (s.sw[n] = cfg.st /\ now - s.since[n] >= cfg.time)
                         /\ \A n \in AllSw : s.pend[n] # -1 => (s.sw[n] = cfg.st /\ s.pend[n] = s.since[n] + cfg.time)
TimedPosts == [][ IsTimed =>
    /\ Cnt(s'.out, "active") = (IF s.active = {} /\ s'.active # {} THEN 1 ELSE 0)
    /\ Cnt(s'.out, "released") = (IF s.active # {} /\ s'.active = {} THEN 1 ELSE 0) ]_vars
\* sequence shot
SeqShape == IsSeq => \A i \in DOMAIN s.seqs : /\ s.seqs[i].pos \in 0..(SLen - 2)
                                               /\ (cfg.timeout > 0 => s.seqs[i].dl \in (now + 1)..(now + cfg.timeout))
                                               /\ (cfg.timeout = 0 => s.seqs[i].dl = 0)
NHit == Cnt(s'.out, "hit")
HitExact == [][ IsSeq =>
    /\ NHit <= 1
    /\ (NHit = 1 <=> /\ act'.op \in {"sw", "ev"} /\ (act'.op = "sw" => act'.v = 1) /\ act'.n = cfg.seq[SLen]
                     /\ act'.n \notin DlyNames \cup Rng(cfg.cancel)
                     /\ IF SLen = 1 THEN ~DelayActive(s)
                        ELSE /\ act'.n # cfg.seq[1]
                             /\ LET idx == {i \in DOMAIN s.seqs : cfg.seq[s.seqs[i].pos + 2] = act'.n}
                                IN idx # {} /\ s.seqs[Min(idx)].pos = SLen - 2)
    /\ (NHit = 1 /\ SLen > 1 => Len(s'.seqs) = Len(s.seqs) - 1) ]_vars
StartOnlyOutsideDelay == [][ (IsSeq /\ Len(s'.seqs) > Len(s.seqs)) =>
    /\ ~DelayActive(s) /\ act'.n = cfg.seq[1] /\ Len(s'.seqs) = Len(s.seqs) + 1 /\ s'.seqs[Len(s'.seqs)].pos = 0 ]_vars
WrongOrderInert == [][ (IsSeq /\ act'.op \in {"sw", "ev"} /\ act'.n \in Rng(cfg.seq) /\ act'.n # cfg.seq[1]
                        /\ (act'.op = "sw" => act'.v = 1)
                        /\ ~\E i \in DOMAIN s.seqs : cfg.seq[s.seqs[i].pos + 2] = act'.n) =>
    (s'.seqs = s.seqs /\ s'.out = <<>>) ]_vars
TimeoutExact == [][ IsSeq =>
    Cnt(s'.out, "timeout") = (IF act'.op = "adv" THEN Cardinality({i \in DOMAIN s.seqs : s.seqs[i].dl = now + 1}) ELSE 0) ]_vars
TypeOK == now \in 0..MaxTime /\ nops \in 0..MaxOps /\ s.cstate \in StateNames
=============================================================================
