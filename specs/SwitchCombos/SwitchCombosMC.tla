----------------------------- MODULE SwitchCombosMC -----------------------------
EXTENDS SwitchCombos
MCConfigs == {[id |-> 1, kind |-> "combo", sws |-> <<"a", "b">>, evs |-> <<>>, g1 |-> <<"a">>, g2 |-> <<"b">>, hold |-> 0, rel |-> 0, maxoff |-> -1, st |-> 1, time |-> 0, seq |-> <<>>, timeout |-> 0, dly |-> <<>>, cancel |-> <<>>],
   [id |-> 2, kind |-> "combo", sws |-> <<"a", "c", "b">>, evs |-> <<>>, g1 |-> <<"a", "c">>, g2 |-> <<"b">>, hold |-> 2, rel |-> 1, maxoff |-> -1, st |-> 1, time |-> 0, seq |-> <<>>, timeout |-> 0, dly |-> <<>>, cancel |-> <<>>],
   [id |-> 3, kind |-> "combo", sws |-> <<"a", "b">>, evs |-> <<>>, g1 |-> <<"a">>, g2 |-> <<"b">>, hold |-> 0, rel |-> 0, maxoff |-> 1, st |-> 1, time |-> 0, seq |-> <<>>, timeout |-> 0, dly |-> <<>>, cancel |-> <<>>],
   [id |-> 4, kind |-> "combo", sws |-> <<"a", "c", "b">>, evs |-> <<>>, g1 |-> <<"a", "c">>, g2 |-> <<"b">>, hold |-> 1, rel |-> 2, maxoff |-> 2, st |-> 1, time |-> 0, seq |-> <<>>, timeout |-> 0, dly |-> <<>>, cancel |-> <<>>],
   [id |-> 5, kind |-> "combo", sws |-> <<"a", "b">>, evs |-> <<>>, g1 |-> <<"a">>, g2 |-> <<"b">>, hold |-> 2, rel |-> 2, maxoff |-> 0, st |-> 1, time |-> 0, seq |-> <<>>, timeout |-> 0, dly |-> <<>>, cancel |-> <<>>],
   [id |-> 6, kind |-> "timed", sws |-> <<"a", "b">>, evs |-> <<>>, g1 |-> <<>>, g2 |-> <<>>, hold |-> 0, rel |-> 0, maxoff |-> -1, st |-> 1, time |-> 2, seq |-> <<>>, timeout |-> 0, dly |-> <<>>, cancel |-> <<>>],
   [id |-> 7, kind |-> "timed", sws |-> <<"a", "b">>, evs |-> <<>>, g1 |-> <<>>, g2 |-> <<>>, hold |-> 0, rel |-> 0, maxoff |-> -1, st |-> 0, time |-> 1, seq |-> <<>>, timeout |-> 0, dly |-> <<>>, cancel |-> <<>>],
   [id |-> 8, kind |-> "timed", sws |-> <<"a", "b">>, evs |-> <<>>, g1 |-> <<>>, g2 |-> <<>>, hold |-> 0, rel |-> 0, maxoff |-> -1, st |-> 1, time |-> 0, seq |-> <<>>, timeout |-> 0, dly |-> <<>>, cancel |-> <<>>],
   [id |-> 9, kind |-> "seq", sws |-> <<"a", "b", "c", "d", "x">>, evs |-> <<>>, g1 |-> <<>>, g2 |-> <<>>, hold |-> 0, rel |-> 0, maxoff |-> -1, st |-> 1, time |-> 0, seq |-> <<"a", "b", "c">>, timeout |-> 3, dly |-> <<[n |-> "d", ms |-> 2]>>, cancel |-> <<"x">>],
   [id |-> 10, kind |-> "seq", sws |-> <<>>, evs |-> <<"ea", "eb", "ed">>, g1 |-> <<>>, g2 |-> <<>>, hold |-> 0, rel |-> 0, maxoff |-> -1, st |-> 1, time |-> 0, seq |-> <<"ea", "eb">>, timeout |-> 0, dly |-> <<[n |-> "ed", ms |-> 2]>>, cancel |-> <<>>],
   [id |-> 11, kind |-> "seq", sws |-> <<"a", "d">>, evs |-> <<>>, g1 |-> <<>>, g2 |-> <<>>, hold |-> 0, rel |-> 0, maxoff |-> -1, st |-> 1, time |-> 0, seq |-> <<"a">>, timeout |-> 0, dly |-> <<[n |-> "d", ms |-> 1]>>, cancel |-> <<>>],
   [id |-> 12, kind |-> "seq", sws |-> <<>>, evs |-> <<"ea", "eb", "ec", "ex">>, g1 |-> <<>>, g2 |-> <<>>, hold |-> 0, rel |-> 0, maxoff |-> -1, st |-> 1, time |-> 0, seq |-> <<"ea", "eb", "eb", "ec">>, timeout |-> 4, dly |-> <<>>, cancel |-> <<"ex">>]}
MCNoDev == {}
MCAllDev == {"inactiveWhileHeld", "onlySurvivesRelease"}
MCLongAgo == -100
=============================================================================
