-------------------------- MODULE SwitchCombosTrace --------------------------
(* Trace validation for X06: every line is one operation on the real devices (switch change through the switch    *)
(* controller, posted event, one time unit) with the events the device posted during it and its state afterwards.  *)
EXTENDS SwitchCombos, TraceIO
VARIABLES tid, l
tvars == <<vars, tid, l>>
TL == TraceLines[tid].ev
TConfigs == {}
TDeviations == {"inactiveWhileHeld", "onlySurvivesRelease"}
TLongAgo == -1000000
TInit == /\ tid \in 1..Len(TraceLines) /\ l = 1 /\ cfg = TraceLines[tid].cfg /\ now = 0 /\ nops = 0
         /\ act = [op |-> "init"] /\ s = Fresh
\* observed: the posted events of the step in order; combo: state and which groups count as activated;
\* timed: the set of switches counted as active; sequence shot: positions of the sequences in flight, running delays
ObsOf(st, e) ==
    /\ IsCombo => /\ st.cstate = e.cstate /\ <<st.act[1] # -1, st.act[2] # -1>> = e.act
    /\ IsTimed => st.active = SeqToSet(e.active)
    /\ IsSeq => /\ [i \in DOMAIN st.seqs |-> st.seqs[i].pos] = e.pos
                /\ {n \in DOMAIN st.dl : st.dl[n] # 0} = SeqToSet(e.dact)
Step(e) ==
    \/ e.op = "init" /\ ObsOf(s, e) /\ UNCHANGED vars
    \/ e.op = "sw" /\ Sw(e.n, e.v) /\ s'.out = e.out /\ ObsOf(s', e)
    \/ e.op = "ev" /\ Ev(e.n) /\ s'.out = e.out /\ ObsOf(s', e)
    \/ e.op = "adv" /\ Adv /\ s'.out = e.out /\ ObsOf(s', e)
TNext == l <= Len(TL) /\ Step(TL[l]) /\ l' = l + 1 /\ UNCHANGED tid
TSpec == TInit /\ [][TNext]_tvars
Reporter == TraceReport(tid, l, Len(TL))
=============================================================================
