-------------------------- MODULE DropTargetsTrace --------------------------
(* Trace validation for DropTargets: a logged line is either a call / switch change / time step ("op") or the        *)
(* observation taken after it ("obs": the events posted and the coil commands seen at the platform drivers since     *)
(* the step began, every member's `complete`, the bank's counts / state / complete).  Timers that became due by a    *)
(* time step run as silent steps, in any order, before the observation (which requires that nothing is due).         *)
EXTENDS DropTargets, TraceIO
VARIABLES tid, l
tvars == <<vars, tid, l>>
TL == TraceLines[tid].ev
TConfigs == {}
TDeviations == {"reconcile_skips_bank"}
TNoDeviations == {}
TInit == /\ tid \in 1..Len(TraceLines) /\ l = 1 /\ cfg = TraceLines[tid].cfg /\ now = 0 /\ nops = 0 /\ act = [op |-> "init"]
         /\ s = InitS
SameBag(a, b) == /\ Len(a) = Len(b)
                 /\ \A x \in Range(a) \cup Range(b) : Count(a, x) = Count(b, x)
ObsOK(e) == /\ s.ev = e.ev
            /\ SameBag(s.cmd, e.cmds)
            /\ \A t \in T : s.comp[t] = e.comp[t]
            /\ cfg.bank => /\ s.bDown = e.bDown /\ s.bUp = e.bUp /\ s.bState = e.bState /\ s.bComp = e.bComp
Step(e) ==
    \/ e.op = "sw" /\ SwA(e.t, e.v)
    \/ e.op = "treset" /\ TResetA(e.t)
    \/ e.op = "knock" /\ KnockA(e.t)
    \/ e.op = "keepon" /\ KeepA(e.t, TRUE)
    \/ e.op = "keepoff" /\ KeepA(e.t, FALSE)
    \/ e.op = "tbs" /\ TBallSearchA(e.t, e.ph)
    \/ e.op = "breset" /\ BResetA
    \/ e.op = "bbs" /\ BBallSearchA(e.ph, e.it)
    \/ e.op = "adv" /\ Adv
    \/ e.op = "obs" /\ NothingDue /\ ObsOK(e) /\ UNCHANGED vars
TNext == \/ l <= Len(TL) /\ Step(TL[l]) /\ l' = l + 1 /\ UNCHANGED tid
         \/ Fire /\ UNCHANGED <<tid, l>>
TSpec == TInit /\ [][TNext]_tvars
Reporter == TraceReport(tid, l, Len(TL))
=============================================================================
