----------------------------- MODULE DropTargets -----------------------------
(* Reference model of drop targets and drop target banks (mpf/devices/drop_target.py) in abstract time units.      *)
(*                                                                                                                 *)
(* STATEMENT (X05).  For any timeline of target switch changes (ball hits, targets raised or dropped by a coil or  *)
(* by hand, bounces inside an ignore window), reset / knockdown / enable_keep_up / disable_keep_up events of a      *)
(* target, reset events of a bank, ball search calls and the passing of time:                                      *)
(*  (a) whenever the switch of a target is not being ignored (neither the target nor its bank has muted it after a  *)
(*      coil pulse), the target's `complete` flag equals the switch state (active = down); an ignore window always  *)
(*      ends (`ignore_switch_ms` after the pulse) and the flag is reconciled with the switch at its end;            *)
(*  (b) `drop_target_<name>_down` / `_up` is posted exactly once per change of the flag and never otherwise; a      *)
(*      switch change inside an ignore window posts nothing and changes nothing at that moment;                     *)
(*  (c) a reset of a target pulses its reset coil exactly once iff it has one and the target is down, a knockdown   *)
(*      pulses the knockdown coil exactly once iff it has one and the switch says up; enable_keep_up / disable_keep_up *)
(*      enable / disable the reset coil; every pulse by the device opens an ignore window;                          *)
(*  (d) with `max_reset_attempts` = M, a reset whose target is still down at the end of the ignore window is        *)
(*      retried - attempt k+1 only after attempt k failed - and the coil is pulsed at most M times for one reset;   *)
(*      without it there is no retry;                                                                               *)
(*  (e) a bank's `down` / `up` counts equal the number of members whose flag is set / clear, at all times;          *)
(*  (f) `drop_target_bank_<name>_down` is posted exactly when the bank's state becomes "down" (all members down),   *)
(*      `_up` exactly when it becomes "up" (no member down), once per transition; `_mixed` only when the state is   *)
(*      mixed afterwards; outside a bank reset window the bank's state is the one its members' flags imply          *)
(*      [the code deviates: Deviations "reconcile_skips_bank"];                                                     *)
(*  (g) a bank reset pulses nothing when no member is down; otherwise it pulses every distinct coil out of          *)
(*      {reset coils of the members that are down} + {the bank's reset_coil / reset_coils} exactly ONCE, ignores    *)
(*      the members' switches for `ignore_switch_ms`, then reconciles all members and posts the resulting state;    *)
(*      with `max_reset_attempts` a bank still having members down at the end of the window is reset again, at      *)
(*      most that many attempts; ball search on a bank is a reset with a given attempt number;                      *)
(*  (h) `reset_on_complete` after the bank became "down" the bank is reset (as in (g): nothing if no member is      *)
(*      down any more);                                                                                             *)
(*  (i) ball search on a target: phase 1 re-pulses the coil that does not change the state, phase 2 / 3 pulse one   *)
(*      coil and 100 ms later the other one (as far as the coils exist), each pulse opening an ignore window.       *)
(*                                                                                                                 *)
(* The state is one record `s` and the transitions are functions on it, so that the call chains of the code         *)
(* (restore -> reconcile -> bank -> retry -> reset) are transcribed one to one.  `s.ev` / `s.cmd` are the events    *)
(* posted / the commands that reached the platform driver of a coil since the last call or time step.               *)
EXTENDS Integers, Sequences, FiniteSets, TLC
CONSTANTS Configs,      \* records [id, n, bank, tRc, tKc, tIgn, tMax, bCoils, bIgn, bMax, roc]; 0 = none / not configured
          Deviations,   \* named behaviours of the code that contradict its documentation
          BsDelay,      \* the 100 ms between the two pulses of ball search phase 2 / 3, in units
          MaxTime, MaxOps
VARIABLES cfg, now, s, nops, act
vars == <<cfg, now, s, nops, act>>
N == cfg.n
T == 1..N
MaxCoil == 6
NoTm == [at |-> 0, att |-> 0]
Range(q) == {q[i] : i \in DOMAIN q}
Count(q, x) == Cardinality({i \in DOMAIN q : q[i] = x})
Remove(q, i) == SubSeq(q, 1, i - 1) \o SubSeq(q, i + 1, Len(q))
Emit(st, e, t) == [st EXCEPT !.ev = Append(@, <<e, t>>)]
Cmd(st, k, c) == [st EXCEPT !.cmd = Append(@, <<k, c>>)]
Clr(st) == [st EXCEPT !.ev = <<>>, !.cmd = <<>>]
NDown(st) == Cardinality({t \in T : st.comp[t]})
Expected(st) == IF NDown(st) = N THEN "down" ELSE IF NDown(st) = 0 THEN "up" ELSE "mixed"
\* ---- bank: member_target_change / _bank_down / _bank_up / _bank_mixed ---------------------------------------
BankPost(t0, st) ==
    IF st.bDown = N
    THEN IF st.bState = "down" THEN st
         ELSE Emit([st EXCEPT !.bState = "down", !.bComp = TRUE,
                              !.roc = IF cfg.roc > 0 THEN Append(@, t0 + cfg.roc) ELSE @], "bank_down", 0)
    ELSE IF st.bDown = 0
    THEN IF st.bState = "up" THEN st ELSE Emit([st EXCEPT !.bState = "up", !.bComp = FALSE], "bank_up", 0)
    ELSE Emit([st EXCEPT !.bState = "mixed", !.bComp = FALSE], "bank_mixed", 0)
MemberChange(t0, st, reconcile) ==
    IF ~cfg.bank THEN st
    ELSE LET r == [st EXCEPT !.bDown = NDown(st), !.bUp = N - NDown(st)]
         IN IF reconcile THEN r ELSE BankPost(t0, r)
\* ---- target: _update_state_from_switch / _ignore_switch_hits_for / reset / knockdown --------------------------
UpdateFromSwitch(t0, st, t, reconcile) ==
    IF st.sw[t] # st.comp[t]
    THEN MemberChange(t0, Emit([st EXCEPT !.comp[t] = st.sw[t]], IF st.sw[t] THEN "down" ELSE "up", t), reconcile)
    ELSE st
IgnoreFor(t0, st, t, att) == [st EXCEPT !.mT[t] = TRUE, !.tTm[t] = [at |-> t0 + cfg.tIgn, att |-> att]]
TReset(t0, st, t, att) ==
    IF cfg.tRc[t] # 0 /\ st.comp[t]
    THEN Cmd(IgnoreFor(t0, st, t, IF cfg.tMax > 0 /\ att = 0 THEN 1 ELSE att), "pulse", cfg.tRc[t])
    ELSE st
Knock(t0, st, t) ==
    IF cfg.tKc[t] # 0 /\ ~st.sw[t] THEN Cmd(IgnoreFor(t0, st, t, 0), "pulse", cfg.tKc[t]) ELSE st
\* end of a target's own ignore window: unmute, reconcile, retry.  The reconciliation tells the bank not to touch its state
\* ("after the reset is complete the bank will re-check and post the final state"): that is what happens inside a reset of
\* the BANK; after a pulse by the target alone nothing re-checks - the code does it nevertheless (named deviation)
TRestore(t0, st, t) ==
    LET att == st.tTm[t].att
        s1 == [st EXCEPT !.mT[t] = FALSE, !.tTm[t] = NoTm]
        s2 == UpdateFromSwitch(t0, s1, t, IF "reconcile_skips_bank" \in Deviations THEN TRUE ELSE s1.mB[t])
    IN IF s2.comp[t] /\ att > 0 /\ att < cfg.tMax THEN TReset(t0, s2, t, att + 1) ELSE s2
\* ---- target ball search -----------------------------------------------------------------------------------------
BSReset(t0, st, t) == Cmd(IgnoreFor(t0, st, t, 0), "pulse", cfg.tRc[t])
BSKnock(t0, st, t) == Cmd(IgnoreFor(t0, st, t, 0), "pulse", cfg.tKc[t])
Later(t0, st, t, k) == [st EXCEPT !.bs = Append(@, [t |-> t, k |-> k, at |-> t0 + BsDelay])]
BS1(t0, st, t) == IF ~st.comp[t] /\ cfg.tRc[t] # 0 THEN BSReset(t0, st, t)
                  ELSE IF st.comp[t] /\ cfg.tKc[t] # 0 THEN BSKnock(t0, st, t) ELSE st
BS2(t0, st, t) == IF cfg.tRc[t] # 0 /\ cfg.tKc[t] # 0
                  THEN IF st.comp[t] THEN Later(t0, BSReset(t0, st, t), t, "knock") ELSE Later(t0, BSKnock(t0, st, t), t, "reset")
                  ELSE BS1(t0, st, t)
BS3(t0, st, t) == IF st.comp[t]
                  THEN IF cfg.tRc[t] # 0
                       THEN (IF cfg.tKc[t] # 0 THEN Later(t0, BSReset(t0, st, t), t, "knock") ELSE BSReset(t0, st, t))
                       ELSE BS1(t0, st, t)
                  ELSE IF cfg.tKc[t] # 0
                       THEN (IF cfg.tRc[t] # 0 THEN Later(t0, BSKnock(t0, st, t), t, "reset") ELSE BSKnock(t0, st, t))
                       ELSE BS1(t0, st, t)
\* ---- bank reset --------------------------------------------------------------------------------------------------
BankCoils(st) == {cfg.tRc[t] : t \in {u \in T : cfg.tRc[u] # 0 /\ st.comp[u]}} \cup Range(cfg.bCoils)
BReset(t0, st, att) ==
    IF ~cfg.bank \/ st.bDown = 0 THEN st
    ELSE LET q == SelectSeq([i \in 1..MaxCoil |-> i], LAMBDA c : c \in BankCoils(st))
             s1 == [st EXCEPT !.cmd = @ \o [i \in 1..Len(q) |-> <<"pulse", q[i]>>]]
         IN IF cfg.bIgn > 0
            THEN [s1 EXCEPT !.mB = [t \in T |-> TRUE],
                            !.bTm = [at |-> t0 + cfg.bIgn, att |-> IF cfg.bMax > 0 /\ att = 0 THEN 1 ELSE att]]
            ELSE s1
RECURSIVE ReconcileAll(_, _, _)
ReconcileAll(t0, st, k) == IF k > N THEN st ELSE ReconcileAll(t0, UpdateFromSwitch(t0, st, k, TRUE), k + 1)
BRestore(t0, st) ==
    LET att == st.bTm.att
        s1 == [st EXCEPT !.mB = [t \in T |-> FALSE], !.bTm = NoTm]
        s3 == MemberChange(t0, ReconcileAll(t0, s1, 1), FALSE)
    IN IF s3.bDown # 0 /\ att # 0 /\ cfg.bMax > 0 /\ att < cfg.bMax THEN BReset(t0, s3, att + 1) ELSE s3
\* ---- initial state: all targets up, the bank has posted "up" while the machine booted --------------------------
InitS == [sw |-> [t \in T |-> FALSE], comp |-> [t \in T |-> FALSE], mT |-> [t \in T |-> FALSE], mB |-> [t \in T |-> FALSE],
          tTm |-> [t \in T |-> NoTm], bs |-> <<>>, bDown |-> 0, bUp |-> IF cfg.bank THEN N ELSE 0,
          bState |-> IF cfg.bank THEN "up" ELSE "none", bComp |-> FALSE, bTm |-> NoTm, roc |-> <<>>, ev |-> <<>>, cmd |-> <<>>]
Init == cfg \in Configs /\ now = 0 /\ nops = 0 /\ act = [op |-> "init"] /\ s = InitS
NothingDue == /\ \A t \in T : s.tTm[t].at = 0 \/ s.tTm[t].at > now
              /\ s.bTm.at = 0 \/ s.bTm.at > now
              /\ \A i \in DOMAIN s.roc : s.roc[i] > now
              /\ \A i \in DOMAIN s.bs : s.bs[i].at > now
Call(st2, a) == /\ NothingDue /\ nops < MaxOps /\ s' = st2 /\ nops' = nops + 1 /\ act' = a /\ UNCHANGED <<cfg, now>>
\* ---- environment and control events -------------------------------------------------------------------------------
SwA(t, v) == /\ t \in T /\ s.sw[t] # v
             /\ Call(LET s1 == [Clr(s) EXCEPT !.sw[t] = v]
                     IN IF s1.mT[t] \/ s1.mB[t] THEN s1 ELSE UpdateFromSwitch(now, s1, t, FALSE),
                     [op |-> "sw", t |-> t, v |-> v])
TResetA(t) == t \in T /\ Call(TReset(now, Clr(s), t, 0), [op |-> "treset", t |-> t])
KnockA(t) == t \in T /\ Call(Knock(now, Clr(s), t), [op |-> "knock", t |-> t])
KeepA(t, on) == /\ t \in T
                /\ Call(IF cfg.tRc[t] # 0 THEN Cmd(Clr(s), IF on THEN "enable" ELSE "disable", cfg.tRc[t]) ELSE Clr(s),
                        [op |-> IF on THEN "keepon" ELSE "keepoff", t |-> t])
TBallSearchA(t, ph) == /\ t \in T
                       /\ \A i \in DOMAIN s.bs : ~(s.bs[i].t = t /\ s.bs[i].at = now + BsDelay)   \* (keeps the pending set small)
                       /\ Call(IF ph = 1 THEN BS1(now, Clr(s), t) ELSE IF ph = 2 THEN BS2(now, Clr(s), t) ELSE BS3(now, Clr(s), t),
                               [op |-> "tbs", t |-> t, ph |-> ph])
BResetA == cfg.bank /\ Call(BReset(now, Clr(s), 0), [op |-> "breset"])
\* ball search of a bank (registered only for a bank with coils of its own): a reset with attempt (iteration-1)*phase+iteration
BBallSearchA(ph, it) == /\ cfg.bank /\ Len(cfg.bCoils) > 0
                        /\ Call(BReset(now, Clr(s), (it - 1) * ph + it), [op |-> "bbs", ph |-> ph, it |-> it])
Adv == /\ NothingDue /\ now < MaxTime /\ now' = now + 1 /\ s' = Clr(s) /\ act' = [op |-> "adv"] /\ UNCHANGED <<cfg, nops>>
\* ---- timers (several due at the same instant run in any order) ------------------------------------------------
FireStep(st2, a) == s' = st2 /\ act' = a /\ UNCHANGED <<cfg, now, nops>>
TFire(t) == s.tTm[t].at # 0 /\ s.tTm[t].at <= now /\ FireStep(TRestore(now, s, t), [op |-> "tfire", t |-> t])
BFire == s.bTm.at # 0 /\ s.bTm.at <= now /\ FireStep(BRestore(now, s), [op |-> "bfire"])
RocFire(i) == s.roc[i] <= now /\ FireStep(BReset(now, [s EXCEPT !.roc = Remove(@, i)], 0), [op |-> "rocfire"])
BsFire(i) == /\ s.bs[i].at <= now
             /\ LET b == s.bs[i]
                    s1 == [s EXCEPT !.bs = Remove(@, i)]
                IN FireStep(IF b.k = "reset" THEN BSReset(now, s1, b.t) ELSE BSKnock(now, s1, b.t), [op |-> "bsfire", t |-> b.t])
Fire == \/ \E t \in T : TFire(t)
        \/ BFire
        \/ \E i \in DOMAIN s.roc : RocFire(i)
        \/ \E i \in DOMAIN s.bs : BsFire(i)
FireOps == {"tfire", "bfire", "rocfire", "bsfire"}
Next == \/ \E t \in T : SwA(t, TRUE) \/ SwA(t, FALSE) \/ TResetA(t) \/ KnockA(t) \/ KeepA(t, TRUE) \/ KeepA(t, FALSE)
        \/ \E t \in T, ph \in 1..3 : TBallSearchA(t, ph)
        \/ BResetA
        \/ \E ph \in 1..2, it \in 1..2 : BBallSearchA(ph, it)
        \/ Adv
        \/ Fire
Spec == Init /\ [][Next]_vars
\* ---- the statement ------------------------------------------------------------------------------------------------
Muted(t) == s.mT[t] \/ s.mB[t]
\* (a)
CompleteIsSwitch == \A t \in T : ~Muted(t) => s.comp[t] = s.sw[t]
WindowEnds == /\ \A t \in T : s.mT[t] <=> s.tTm[t].at # 0
              /\ \A t \in T : s.mB[t] <=> s.bTm.at # 0
              /\ \A t \in T : s.tTm[t].at # 0 => s.tTm[t].at <= now + cfg.tIgn
              /\ s.bTm.at # 0 => s.bTm.at <= now + cfg.bIgn
\* (e)
CountsMatch == cfg.bank => s.bDown = NDown(s) /\ s.bUp = N - NDown(s)
\* (f) - holds only without the deviation
BankStateOK == (cfg.bank /\ s.bTm.at = 0) => s.bState = Expected(s)
BankCompleteIsDown == cfg.bank => (s.bComp <=> s.bState = "down")
\* (d)
AttemptsBounded == /\ \A t \in T : s.tTm[t].att <= cfg.tMax
                   /\ (cfg.tMax = 0 => \A t \in T : s.tTm[t].att = 0)
TypeOK == /\ now \in 0..MaxTime /\ nops \in 0..MaxOps
          /\ s.bState \in {"none", "up", "down", "mixed"} /\ s.bDown \in 0..N /\ s.bUp \in 0..N
\* what this step added (a timer step appends to what the time step has collected, anything else starts afresh)
NewEv == IF act'.op \in FireOps THEN SubSeq(s'.ev, Len(s.ev) + 1, Len(s'.ev)) ELSE s'.ev
NewCmd == IF act'.op \in FireOps THEN SubSeq(s'.cmd, Len(s.cmd) + 1, Len(s'.cmd)) ELSE s'.cmd
Pulses(c) == Count(NewCmd, <<"pulse", c>>)
\* (b)
TargetEventOncePerChange == [][ \A t \in T :
    /\ Count(NewEv, <<"down", t>>) = (IF ~s.comp[t] /\ s'.comp[t] THEN 1 ELSE 0)
    /\ Count(NewEv, <<"up", t>>) = (IF s.comp[t] /\ ~s'.comp[t] THEN 1 ELSE 0) ]_vars
NothingInsideWindow == [][ (act'.op = "sw" /\ Muted(act'.t)) => s'.ev = <<>> /\ s'.cmd = <<>> /\ s'.comp = s.comp /\ s'.bState = s.bState ]_vars
\* (c)
ResetOnlyWhenDown == [][ act'.op = "treset" =>
    LET t == act'.t
        want == IF cfg.tRc[t] # 0 /\ s.comp[t] THEN 1 ELSE 0
    IN Len(NewCmd) = want /\ (want = 1 => Pulses(cfg.tRc[t]) = 1 /\ s'.mT[t]) ]_vars
KnockdownOnlyWhenUp == [][ act'.op = "knock" =>
    LET t == act'.t
        want == IF cfg.tKc[t] # 0 /\ ~s.sw[t] THEN 1 ELSE 0
    IN Len(NewCmd) = want /\ (want = 1 => Pulses(cfg.tKc[t]) = 1 /\ s'.mT[t]) ]_vars
\* (d)
RetryOnlyAfterFailure == [][ (act'.op = "tfire" /\ Len(NewCmd) > 0) =>
    LET t == act'.t
    IN /\ s.sw[t] /\ s.tTm[t].att \in 1..(cfg.tMax - 1) /\ s'.tTm[t].att = s.tTm[t].att + 1
       /\ NewCmd = <<<<"pulse", cfg.tRc[t]>>>> ]_vars
\* (f)
BankEventOncePerTransition == [][ cfg.bank =>
    /\ Count(NewEv, <<"bank_down", 0>>) = (IF s.bState # "down" /\ s'.bState = "down" THEN 1 ELSE 0)
    /\ Count(NewEv, <<"bank_up", 0>>) = (IF s.bState # "up" /\ s'.bState = "up" THEN 1 ELSE 0)
    /\ (Count(NewEv, <<"bank_mixed", 0>>) > 0 => s'.bState = "mixed")
    /\ (s.bState # "mixed" /\ s'.bState = "mixed" => Count(NewEv, <<"bank_mixed", 0>>) = 1)
    /\ (s'.bState # s.bState => s'.bState = Expected(s')) ]_vars
\* (g) (h)
BankResetPulsesEachCoilOnce == [][ act'.op \in {"breset", "bbs", "rocfire"} =>
    IF s.bDown = 0 THEN NewCmd = <<>> /\ s'.mB = s.mB
    ELSE /\ \A c \in 1..MaxCoil : Pulses(c) = (IF c \in BankCoils(s) THEN 1 ELSE 0)
         /\ Len(NewCmd) = Cardinality(BankCoils(s))
         /\ (cfg.bIgn > 0 => \A t \in T : s'.mB[t]) ]_vars
BankRetryOnlyAfterFailure == [][ (act'.op = "bfire" /\ Len(NewCmd) > 0) =>
    /\ s'.bDown > 0 /\ s.bTm.att \in 1..(cfg.bMax - 1) /\ s'.bTm.att = s.bTm.att + 1
    /\ \A c \in 1..MaxCoil : Pulses(c) <= 1 ]_vars
=============================================================================
