--------------------------- MODULE DropTargetsGen ---------------------------
(* Schedule generator for DropTargets (used with `tlc -simulate` only; nothing is checked here).  The KIND of the   *)
(* next step is drawn first (weights in Kinds), then its arguments, so that time steps, hits and resets alternate    *)
(* and calls land inside ignore windows.  Due timers run before anything else.                                      *)
EXTENDS DropTargets
VARIABLES pick
gvars == <<vars, pick>>
Kinds == <<"hit", "hit", "hit", "raise", "bounce", "treset", "treset", "knock", "keep", "tbs", "breset", "breset", "bbs",
           "adv", "adv", "adv", "adv", "adv">>
UpT == {t \in T : ~s.sw[t]}
DownT == {t \in T : s.sw[t]}
CanDo(kd) == CASE kd = "adv" -> now < MaxTime
               [] kd = "hit" -> nops < MaxOps /\ UpT # {}
               [] kd = "raise" -> nops < MaxOps /\ DownT # {}
               [] kd = "bounce" -> nops < MaxOps /\ \E t \in T : Muted(t)
               [] kd = "treset" -> nops < MaxOps /\ \E t \in T : cfg.tRc[t] # 0
               [] kd = "knock" -> nops < MaxOps /\ \E t \in T : cfg.tKc[t] # 0
               [] kd = "keep" -> nops < MaxOps /\ \E t \in T : cfg.tRc[t] # 0
               [] kd = "breset" -> nops < MaxOps /\ cfg.bank
               [] kd = "bbs" -> nops < MaxOps /\ cfg.bank /\ Len(cfg.bCoils) > 0
               [] OTHER -> nops < MaxOps
GInit == Init /\ pick = 0
Draw == /\ NothingDue /\ pick = 0 /\ \E i \in 1..Len(Kinds) : CanDo(Kinds[i]) /\ pick' = i
        /\ UNCHANGED vars
Do == /\ NothingDue /\ pick # 0 /\ pick' = 0
      /\ LET kd == Kinds[pick] IN
         \/ kd = "hit" /\ \E t \in UpT : SwA(t, TRUE)
         \/ kd = "raise" /\ \E t \in DownT : SwA(t, FALSE)
         \/ kd = "bounce" /\ \E t \in {u \in T : Muted(u)} : SwA(t, ~s.sw[t])
         \/ kd = "treset" /\ \E t \in {u \in T : cfg.tRc[u] # 0} : TResetA(t)
         \/ kd = "knock" /\ \E t \in {u \in T : cfg.tKc[u] # 0} : KnockA(t)
         \/ kd = "keep" /\ \E t \in {u \in T : cfg.tRc[u] # 0}, on \in BOOLEAN : KeepA(t, on)
         \/ kd = "tbs" /\ \E t \in T, ph \in 1..3 : TBallSearchA(t, ph)
         \/ kd = "breset" /\ BResetA
         \/ kd = "bbs" /\ \E ph \in 1..2, it \in 1..2 : BBallSearchA(ph, it)
         \/ kd = "adv" /\ Adv
GFire == ~NothingDue /\ Fire /\ UNCHANGED pick
GNext == Draw \/ Do \/ GFire
GSpec == GInit /\ [][GNext]_gvars
=============================================================================
