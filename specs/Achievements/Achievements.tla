---------------------------- MODULE Achievements ----------------------------
(* Reference model of achievements and achievement groups (mpf/devices/achievement.py, achievement_group.py).      *)
(*                                                                                                                  *)
(* STATEMENT (X02).  Achievements live in a game mode that runs during every ball.                                   *)
(*  (A) An achievement is a per-player state machine with the states disabled, enabled, started, stopped,           *)
(*      completed and a `selected` flag.  For any sequence of enable / disable / start / stop / complete / select / *)
(*      unselect / reset control events (several in a row, repeated, in states in which they are not allowed) the    *)
(*      state changes only along the allowed transitions                                                             *)
(*          enable: disabled|started -> enabled      start: enabled -> started, stopped -> started only if          *)
(*          restart_after_stop_possible              complete: started -> completed     stop: started -> stopped     *)
(*          disable: enabled -> disabled, stopped -> disabled only if restart_after_stop_possible                    *)
(*          reset: any -> initial state (start_enabled), not selected                                                *)
(*      every transition posts the configured events_when_<new state> exactly once (and events_when_selected iff     *)
(*      the achievement is selected afterwards); a request that is not allowed changes nothing and posts nothing;    *)
(*      a control event for one achievement never changes another one; `completed` is left by reset only; only an    *)
(*      achievement that can be started (enabled, or stopped with restart_after_stop_possible) is ever selected.     *)
(*  (B) The state is the player's: it is stored with the player who was up, nobody else's stored state changes, and  *)
(*      on that player's next ball it is restored (events reposted with restore=true), where `started` becomes       *)
(*      `stopped` unless restart_on_next_ball_when_started and `enabled` becomes `disabled` unless                   *)
(*      enable_on_next_ball_when_enabled; a player's first ball starts from the initial state (start_enabled).       *)
(*  (C) An achievement group is enabled / disabled by its events (never enabled while a member is started if        *)
(*      disable_while_achievement_started; re-enabled by a member change while none is started if                    *)
(*      enable_while_no_achievement_started).  Selection commands (select_random_achievement, rotate_right,          *)
(*      rotate_left) do nothing while the group is disabled unless allow_selection_change_while_disabled; they move  *)
(*      the selection among the members that can be started only and leave exactly one member selected;              *)
(*      with auto_select an enabled group has a selected member whenever a member can be started; start_selected     *)
(*      starts the selected member (enabled group only).  events_when_all_completed is posted only when every        *)
(*      member is completed (and the group is disabled then), events_when_no_more_enabled only when no member can    *)
(*      be started; the completion of the last member of an enabled (or self-enabling) group posts all_completed     *)
(*      exactly once.  Group notifications never change the state of an achievement (only the selection).            *)
(*                                                                                                                  *)
(* Shape: the devices' methods are transcribed as functions on the live state record `s` (nested synchronous calls    *)
(* become function composition); every _run_state of a member queues one achievement_<a>_changed_state notification *)
(* (`pend`), delivered to the group by the separate Deliver steps (the event queue); `out` collects the events       *)
(* posted since the last control step.  The random pick of select_random_achievement is the parameter `c`.           *)
(* Deviations (named, code as it is; see the driver): behaviour of the code that contradicts the statement.          *)
EXTENDS Integers, Sequences, FiniteSets, TLC
CONSTANTS Configs,      \* records [id, ach: <<[ras, ronb, eonb, se] x3>>, mem, auto, norand, acwd, dwas, ewns]
          AKinds,       \* achievement control events in use
          GKinds,       \* group control events in use
          MaxOps, MaxDrains, MaxGames,
          Deviations
VARIABLES cfg, g, pl, s, nops, act
vars == <<cfg, g, pl, s, nops, act>>
Achs == 1..3
MaxP == 2
BPG == 2
States == {"none", "disabled", "enabled", "started", "stopped", "completed"}
AllAKinds == {"enable", "disable", "start", "stop", "complete", "reset", "select", "unselect"}
AllGKinds == {"enable", "disable", "start_selected", "select_random", "rotate_right", "rotate_left"}
Dev(d) == d \in Deviations
Mem == cfg.mem
MinOf(S) == CHOOSE x \in S : \A y \in S : x <= y
MaxOf(S) == CHOOSE x \in S : \A y \in S : x >= y
FreshA == [a \in Achs |-> [st |-> "none", sel |-> FALSE]]
\* ---- achievement (functions on the live state z = [a, en, selm, rot, pend, out]) ---------------------------------
CanStart(x, a) == x.st = "enabled" \/ (x.st = "stopped" /\ cfg.ach[a].ras)
Selectable(z, a) == CanStart(z.a[a], a)
Avail(z) == {a \in Mem : Selectable(z, a)}
IsStarted(z) == \E a \in Mem : z.a[a].st = "started"
AllCompleted(z) == \A a \in Mem : z.a[a].st = "completed"
Ev(k, a, r) == <<k, a, r>>
GEv(k) == <<k, 0, FALSE>>
Emit(z, e) == [z EXCEPT !.out = Append(@, e)]
Clr(z) == [z EXCEPT !.out = <<>>]
\* _run_state: events_when_<state>, events_when_selected if selected, one changed_state notification for the group
RunState(z, a, r, notify) ==
    LET x == z.a[a]
        z1 == Emit(z, Ev(x.st, a, r))
        z2 == IF x.sel THEN Emit(z1, Ev("selected", a, r)) ELSE z1
    IN [z2 EXCEPT !.pend = IF notify /\ a \in Mem THEN @ + 1 ELSE @]
Set(z, a, state, sl) == [z EXCEPT !.a[a] = [st |-> state, sel |-> sl]]
InitSt(a) == IF cfg.ach[a].se THEN "enabled" ELSE "disabled"
AEnable(z, a) == IF z.a[a].st \in {"disabled", "started"} THEN RunState(Set(z, a, "enabled", z.a[a].sel), a, FALSE, TRUE) ELSE z
AStart(z, a) == IF CanStart(z.a[a], a) THEN RunState(Set(z, a, "started", FALSE), a, FALSE, TRUE) ELSE z
AComplete(z, a) == IF z.a[a].st = "started" THEN RunState(Set(z, a, "completed", FALSE), a, FALSE, TRUE) ELSE z
AStop(z, a) == IF z.a[a].st = "started" THEN RunState(Set(z, a, "stopped", FALSE), a, FALSE, TRUE) ELSE z
ADisable(z, a) == IF CanStart(z.a[a], a) THEN RunState(Set(z, a, "disabled", FALSE), a, FALSE, TRUE) ELSE z
AReset(z, a, notify) == RunState(Set(z, a, InitSt(a), FALSE), a, FALSE, notify)
AUnselect(z, a) == IF z.a[a].sel THEN RunState(Set(z, a, z.a[a].st, FALSE), a, FALSE, TRUE) ELSE z
ASelect(z, a) == IF CanStart(z.a[a], a) /\ ~z.a[a].sel THEN RunState(Set(z, a, z.a[a].st, TRUE), a, FALSE, TRUE) ELSE z
\* the mode starts for a player: first ball -> reset, later balls -> _restore_state.  The changed_state events of the
\* load reach nobody: the group registers its handlers after the achievements have been loaded (events without a
\* handler are dropped when posted)
ARestore(z, a) ==
    LET x == z.a[a]
        z1 == IF x.st = "started" /\ ~cfg.ach[a].ronb THEN Set(z, a, "stopped", x.sel)
              ELSE IF x.st = "enabled" /\ ~cfg.ach[a].eonb
                   THEN Set(z, a, "disabled", IF Dev("RestoreKeepsSelection") THEN x.sel ELSE FALSE)
                   ELSE z
    IN RunState(z1, a, TRUE, FALSE)
ALoad(z, a) == IF z.a[a].st = "none" THEN AReset(z, a, FALSE) ELSE ARestore(z, a)
\* ---- group ------------------------------------------------------------------------------------------------------
SelSet(z) == {a \in Mem : z.a[a].sel}
OkChange(z) == z.en \/ cfg.acwd
Pick(av, c) == IF cfg.norand THEN MinOf(av) ELSE IF c \in av THEN c ELSE MinOf(av)
\* a selection command unselects the member the group believes to be selected (_selected_member).  The group forgets it
\* when the ball ends while the member itself is restored selected (and the group is not told about restored states): a
\* command given to the still disabled group (allow_selection_change_while_disabled) then selects a second member.
\* Intended: whatever member is selected is unselected
UnselIf(z, a, S) == IF a \in S THEN AUnselect(z, a) ELSE z
UnselectCurrent(z) ==
    LET S == IF Dev("SelectionForgottenAtBallStart") THEN (IF z.selm # 0 /\ z.a[z.selm].sel THEN {z.selm} ELSE {}) ELSE SelSet(z)
    IN UnselIf(UnselIf(UnselIf(z, 1, S), 2, S), 3, S)
SelRandom(z, c) ==
    IF ~OkChange(z) THEN z
    ELSE LET z1 == UnselectCurrent(z)
             av == Avail(z1)
         IN IF av = {} THEN Emit(z1, GEv("no_more_enabled"))
            ELSE LET x == Pick(av, c) IN ASelect([z1 EXCEPT !.selm = x], x)
GDisable(z) == [z EXCEPT !.en = FALSE]
UpdateSelected(z, c) ==
    LET sl == {a \in Mem : z.a[a].sel}
    IN IF sl # {} THEN [z EXCEPT !.selm = MinOf(sl)]
       ELSE IF cfg.auto THEN SelRandom(z, c) ELSE z
ProcessCurrent(z, c) ==
    IF z.rot \/ ~z.en THEN z
    ELSE LET z1 == IF AllCompleted(z) THEN Emit(GDisable(z), GEv("all_completed")) ELSE z
         IN IF Avail(z1) = {} THEN Emit(z1, GEv("no_more_enabled"))
            ELSE LET z2 == UpdateSelected(z1, c)
                 IN IF z2.selm = 0 /\ cfg.auto THEN SelRandom(z2, c) ELSE z2
GEnable(z, c) ==
    IF z.en \/ (IsStarted(z) /\ cfg.dwas) THEN z
    ELSE LET z1 == [z EXCEPT !.en = TRUE, !.selm = IF @ # 0 /\ z.a[@].sel THEN 0 ELSE @]
         IN ProcessCurrent(Emit(z1, GEv("g_enabled")), c)
MemberChanged(z, c) ==
    IF IsStarted(z) THEN (IF cfg.dwas /\ z.en THEN GDisable(z) ELSE ProcessCurrent(z, c))
    ELSE IF cfg.ewns /\ ~z.en THEN GEnable(z, c) ELSE ProcessCurrent(z, c)
StartSelected(z, c) ==
    IF ~z.en THEN z
    ELSE LET z1 == IF z.selm = 0 THEN SelRandom(z, c) ELSE z
         IN IF z1.selm = 0 THEN z1 ELSE AStart(z1, z1.selm)
NextIn(av, x, rev) ==
    IF rev THEN (IF \E y \in av : y < x THEN MaxOf({y \in av : y < x}) ELSE MaxOf(av))
    ELSE (IF \E y \in av : y > x THEN MinOf({y \in av : y > x}) ELSE MinOf(av))
Rotate(z, rev, c) ==
    IF ~OkChange(z) \/ (z.selm = 0 /\ ~cfg.auto) THEN z
    ELSE LET z0 == [z EXCEPT !.rot = TRUE]
             z1 == UnselectCurrent(z0)
             av == Avail(z1)
         IN IF av = {} THEN (IF Dev("RotationFlagStuck") THEN z1 ELSE [z1 EXCEPT !.rot = FALSE])
            ELSE LET fresh == z1.selm = 0
                     z2 == IF fresh THEN SelRandom(z1, c) ELSE z1
                     cur == z2.selm
                     \* nothing was selected: the code picks one (_get_current) AND moves on to its neighbour,
                     \* leaving both selected; the statement wants exactly one
                     nxt == IF fresh /\ ~Dev("RotateSelectsTwo") THEN cur
                            ELSE IF cur \in av THEN NextIn(av, cur, rev) ELSE cur
                     z3 == ASelect([z2 EXCEPT !.selm = nxt], nxt)
                 IN [z3 EXCEPT !.rot = FALSE]
GSelRandomEvent(z, c) == IF cfg.norand THEN Rotate(z, FALSE, c) ELSE SelRandom(z, c)
\* ---- mode start / stop ------------------------------------------------------------------------------------------------
ModeStart(z, c) ==
    LET z1 == ALoad(ALoad(ALoad(z, 1), 2), 3)
    IN IF cfg.ewns /\ IsStarted(z1) /\ ~z1.en THEN GEnable(z1, c) ELSE z1
Blank(rot) == [a |-> FreshA, en |-> FALSE, selm |-> 0, rot |-> rot, pend |-> 0, out |-> <<>>]
Live(q) == IF g.ph = "ball" /\ q = g.cur THEN s.a ELSE pl[q]
\* ---- steps -------------------------------------------------------------------------------------------------------------
Init == /\ cfg \in Configs /\ g = [ph |-> "idle", np |-> 0, cur |-> 0, ball |-> 0, games |-> 0, drains |-> 0]
        /\ pl = [q \in 1..MaxP |-> FreshA] /\ s = Blank(FALSE) /\ nops = 0 /\ act = [op |-> "init"]
Quiet == s.pend = 0
Ctl(z, a) == /\ Quiet /\ nops < MaxOps /\ nops' = nops + 1 /\ act' = a
             /\ s' = (IF g.ph = "ball" THEN z ELSE Clr(s)) /\ UNCHANGED <<cfg, g, pl>>
AchOp(k, a) ==
    LET z == Clr(s)
    IN Ctl(CASE k = "enable" -> AEnable(z, a) [] k = "disable" -> ADisable(z, a) [] k = "start" -> AStart(z, a)
             [] k = "stop" -> AStop(z, a) [] k = "complete" -> AComplete(z, a) [] k = "reset" -> AReset(z, a, TRUE)
             [] k = "select" -> ASelect(z, a) [] k = "unselect" -> AUnselect(z, a),
           [op |-> "ach", k |-> k, a |-> a])
GrpOp(k, c) ==
    LET z == Clr(s)
    IN Ctl(CASE k = "enable" -> GEnable(z, c) [] k = "disable" -> GDisable(z) [] k = "start_selected" -> StartSelected(z, c)
             [] k = "select_random" -> GSelRandomEvent(z, c) [] k = "rotate_right" -> Rotate(z, FALSE, c)
             [] k = "rotate_left" -> Rotate(z, TRUE, c),
           [op |-> "grp", k |-> k])
LastCtl == IF act.op = "deliver" THEN act.src ELSE act       \* the control step whose notifications are being delivered
Deliver(c) == /\ s.pend > 0 /\ s' = MemberChanged([s EXCEPT !.pend = @ - 1], c) /\ act' = [op |-> "deliver", src |-> LastCtl]
              /\ UNCHANGED <<cfg, g, pl, nops>>
NewGame(n, c) == /\ Quiet /\ g.ph # "ball" /\ g.games < MaxGames /\ nops < MaxOps /\ nops' = nops + 1
                 /\ g' = [ph |-> "ball", np |-> n, cur |-> 1, ball |-> 1, games |-> g.games + 1, drains |-> g.drains]
                 /\ pl' = [q \in 1..MaxP |-> FreshA] /\ s' = ModeStart(Blank(s.rot), c)
                 /\ act' = [op |-> "newgame", n |-> n] /\ UNCHANGED cfg
\* the ball ends: the mode stops (the group is disabled and forgets its selected member; the rotation flag stays),
\* the state stays with the player; the next ball (same or next player) starts the mode again, or the game is over
Drain(c) == /\ Quiet /\ g.ph = "ball" /\ g.drains < MaxDrains /\ nops < MaxOps /\ nops' = nops + 1
            /\ LET pl1 == [pl EXCEPT ![g.cur] = s.a]
                   last == g.cur = g.np /\ g.ball = BPG
                   ncur == IF g.cur = g.np THEN 1 ELSE g.cur + 1
                   nball == IF g.cur = g.np THEN g.ball + 1 ELSE g.ball
               IN IF last THEN /\ g' = [g EXCEPT !.ph = "over", !.drains = @ + 1] /\ pl' = [q \in 1..MaxP |-> FreshA]
                               /\ s' = Blank(s.rot)
                  ELSE /\ g' = [g EXCEPT !.cur = ncur, !.ball = nball, !.drains = @ + 1] /\ pl' = pl1
                       /\ s' = ModeStart([Blank(s.rot) EXCEPT !.a = pl1[ncur]], c)
            /\ act' = [op |-> "drain"] /\ UNCHANGED cfg
\* a drain without a running game is nothing
DrainIdle == /\ Quiet /\ g.ph # "ball" /\ nops < MaxOps /\ nops' = nops + 1 /\ s' = Clr(s) /\ act' = [op |-> "drain"]
             /\ UNCHANGED <<cfg, g, pl>>
Next == \/ DrainIdle
        \/ \E k \in AKinds, a \in Achs : AchOp(k, a)
        \/ \E k \in GKinds, c \in Achs : GrpOp(k, c)
        \/ \E c \in Achs : Deliver(c) \/ Drain(c)
        \/ \E n \in 1..MaxP, c \in Achs : NewGame(n, c)
Spec == Init /\ [][Next]_vars
\* ---- the statement --------------------------------------------------------------------------------------------------
Count(q, e) == Cardinality({i \in DOMAIN q : q[i] = e})
Has(q, e) == \E i \in DOMAIN q : q[i] = e
TypeOK == /\ \A a \in Achs : s.a[a].st \in States /\ s.a[a].sel \in BOOLEAN
          /\ s.en \in BOOLEAN /\ s.selm \in 0..3 /\ s.rot \in BOOLEAN /\ s.pend \in 0..12
          /\ g.ph \in {"idle", "ball", "over"}
Playing == g.ph = "ball"
\* (A) only an achievement that can be started is selected (live and stored)
SelOnlySelectable == \A q \in 1..MaxP, a \in Achs : Live(q)[a].sel => CanStart(Live(q)[a], a)
Allowed(k, a, x) == CASE k = "enable" -> x.st \in {"disabled", "started"}
                      [] k = "start" -> CanStart(x, a)
                      [] k \in {"complete", "stop"} -> x.st = "started"
                      [] k = "disable" -> CanStart(x, a)
                      [] k = "select" -> CanStart(x, a) /\ ~x.sel
                      [] k = "unselect" -> x.sel
                      [] k = "reset" -> TRUE
Target(k, a, x) == CASE k = "enable" -> [st |-> "enabled", sel |-> x.sel]
                     [] k = "start" -> [st |-> "started", sel |-> FALSE]
                     [] k = "complete" -> [st |-> "completed", sel |-> FALSE]
                     [] k = "stop" -> [st |-> "stopped", sel |-> FALSE]
                     [] k = "disable" -> [st |-> "disabled", sel |-> FALSE]
                     [] k = "select" -> [st |-> x.st, sel |-> TRUE]
                     [] k = "unselect" -> [st |-> x.st, sel |-> FALSE]
                     [] k = "reset" -> [st |-> InitSt(a), sel |-> FALSE]
AchStep == [][ (act'.op = "ach" /\ Playing) =>
    LET k == act'.k
        a == act'.a
        x == s.a[a]
        y == s'.a[a]
    IN /\ \A b \in Achs \ {a} : s'.a[b] = s.a[b]
       /\ s'.en = s.en /\ s'.selm = s.selm /\ s'.rot = s.rot
       /\ IF Allowed(k, a, x)
          THEN /\ y = Target(k, a, x)
               /\ s'.out = <<Ev(y.st, a, FALSE)>> \o (IF y.sel THEN <<Ev("selected", a, FALSE)>> ELSE <<>>)
               /\ s'.pend = IF a \in Mem THEN 1 ELSE 0
          ELSE y = x /\ s'.out = <<>> /\ s'.pend = 0 ]_vars
CompletedTerminal == [][ \A a \in Achs :
    (Playing /\ s.a[a].st = "completed" /\ act'.op \notin {"drain", "newgame"}
       /\ ~(act'.op = "ach" /\ act'.k = "reset" /\ act'.a = a)) => s'.a[a].st = "completed" ]_vars
\* (B) stored with the player, restored on his next ball
Restored(a, x) == CASE x.st = "none" -> [st |-> InitSt(a), sel |-> FALSE]
                    [] x.st = "started" -> [st |-> IF cfg.ach[a].ronb THEN "started" ELSE "stopped", sel |-> FALSE]
                    [] x.st = "enabled" /\ ~cfg.ach[a].eonb -> [st |-> "disabled", sel |-> FALSE]
                    [] OTHER -> x
PerPlayer == [][ /\ (act'.op \notin {"drain", "newgame"}) => (pl' = pl /\ g' = g)
                 /\ (act'.op = "drain" /\ g'.ph = "ball") =>
                       /\ \A q \in 1..MaxP : q # g'.cur => pl'[q] = Live(q)
                       /\ \A a \in Achs : s'.a[a].st = Restored(a, Live(g'.cur)[a]).st
                       /\ \A a \in Achs : Count(s'.out, Ev(s'.a[a].st, a, Live(g'.cur)[a].st # "none")) = 1
                 /\ (act'.op = "newgame") => \A a \in Achs : s'.a[a] = [st |-> InitSt(a), sel |-> FALSE] ]_vars
\* (C) the group (checked in configurations without direct select / unselect events for the members)
OneSelected == (Playing /\ Quiet) => Cardinality(SelSet(s)) <= 1
AutoSelects == (Playing /\ Quiet /\ s.en /\ cfg.auto /\ ~s.rot /\ Avail(s) # {}) => SelSet(s) # {}
SelmTracks == (Playing /\ Quiet /\ s.en /\ ~s.rot /\ SelSet(s) # {}) => s.selm \in SelSet(s)
NotEnabledWhileStarted == (Playing /\ Quiet /\ cfg.dwas /\ IsStarted(s)) => ~s.en
RotationFlagClear == Quiet => ~s.rot
GroupStep == [][ (act'.op = "grp" /\ Playing) =>
    LET k == act'.k IN
       \* nothing but the selection and the start of one member
    /\ (k \in {"select_random", "rotate_right", "rotate_left"}) =>
          /\ \A a \in Achs : s'.a[a].st = s.a[a].st
          /\ s'.en = s.en
          /\ (~OkChange(s)) => s' = Clr(s)
          /\ (OkChange(s) /\ Cardinality(SelSet(s)) <= 1 /\ s'.pend > 0) => Cardinality(SelSet(s')) = 1
          /\ (k # "select_random" /\ OkChange(s) /\ SelSet(s) = {s.selm} /\ Cardinality(Avail(s)) >= 2) =>
                SelSet(s') = {NextIn(Avail(s), s.selm, k = "rotate_left")}
    /\ (k = "start_selected") =>
          /\ (~s.en) => s' = Clr(s)
          /\ (s.en /\ SelSet(s) = {s.selm}) => /\ s'.a[s.selm] = [st |-> "started", sel |-> FALSE]
                                               /\ \A b \in Achs \ {s.selm} : s'.a[b] = s.a[b]
    /\ (k = "disable") => s' = [Clr(s) EXCEPT !.en = FALSE]
    /\ (k = "enable") => /\ \A a \in Achs : s'.a[a].st = s.a[a].st
                         /\ (IsStarted(s) /\ cfg.dwas) => s' = Clr(s)
                         /\ (s'.en /\ ~s.en) => Count(s'.out, GEv("g_enabled")) = 1 ]_vars
DeliverStep == [][ (act'.op = "deliver") =>
    /\ \A a \in Achs : s'.a[a].st = s.a[a].st
    /\ (Count(s'.out, GEv("all_completed")) > Count(s.out, GEv("all_completed"))) => (AllCompleted(s') /\ ~s'.en)
    /\ (Count(s'.out, GEv("no_more_enabled")) > Count(s.out, GEv("no_more_enabled"))) => Avail(s') = {} ]_vars
\* the completion of the last member: exactly one all_completed once the notifications have been delivered
AllCompletedOnce == (Playing /\ Quiet /\ LastCtl.op = "ach" /\ LastCtl.k = "complete" /\ LastCtl.a \in Mem /\ AllCompleted(s)
                     /\ Has(s.out, Ev("completed", LastCtl.a, FALSE)) /\ cfg.ewns /\ ~s.rot)
                    => (Count(s.out, GEv("all_completed")) = 1 /\ ~s.en)
\* reachability probes (each is expected to be VIOLATED in the model-checking configuration of the driver)
ProbeAllCompleted == ~Has(s.out, GEv("all_completed"))
ProbeNoMoreEnabled == ~Has(s.out, GEv("no_more_enabled"))
ProbeRotated == ~(Quiet /\ Playing /\ LastCtl.op = "grp" /\ LastCtl.k = "rotate_left" /\ Cardinality(SelSet(s)) = 1 /\ Len(s.out) >= 3)
ProbeAllCompletedOnce == ~(Playing /\ Quiet /\ LastCtl.op = "ach" /\ LastCtl.k = "complete" /\ AllCompleted(s) /\ cfg.ewns
                           /\ Count(s.out, GEv("all_completed")) = 1)
ProbeStartSelected == ~(act.op = "grp" /\ act.k = "start_selected" /\ IsStarted(s))
=============================================================================
