------------------------- MODULE AchievementsTrace -------------------------
(* Trace validation for Achievements: one line per control event / drain / new game, logged AFTER the event queue     *)
(* has run dry; the deliveries of the queued member notifications to the group are silent steps.  The observation of  *)
(* line k (states and selection of all achievements, the stored state of every player, group enabled / selected       *)
(* member, the bag of events posted) is compared when line k+1 is consumed; every trace ends with an "end" line.      *)
EXTENDS Achievements, TraceIO
VARIABLES tid, l
tvars == <<vars, tid, l>>
TL == TraceLines[tid].ev
TConfigs == {}
TInit == /\ tid \in 1..Len(TraceLines) /\ l = 1
         /\ cfg = [TraceLines[tid].cfg EXCEPT !.mem = SeqToSet(@)]
         /\ g = [ph |-> "idle", np |-> 0, cur |-> 0, ball |-> 0, games |-> 0, drains |-> 0]
         /\ pl = [q \in 1..MaxP |-> FreshA] /\ s = Blank(FALSE) /\ nops = 0 /\ act = [op |-> "init"]
BagEq(p, q) == /\ Len(p) = Len(q)
               /\ \A i \in DOMAIN p : Count(p, p[i]) = Count(q, p[i])
Obs(e) == /\ (g.ph = "ball") = e.playing
          /\ e.playing => (g.cur = e.cur /\ g.ball = e.ball /\ g.np = e.np)
          /\ \A a \in Achs : s.a[a] = e.sa[a]
          /\ \A q \in 1..MaxP, a \in Achs : Live(q)[a] = e.pl[q][a]
          /\ s.en = e.en /\ s.selm = e.selm
          /\ BagEq(s.out, e.out)
Step(e) == \/ e.op = "ach" /\ AchOp(e.k, e.a)
           \/ e.op = "grp" /\ \E c \in Achs : GrpOp(e.k, c)
           \/ e.op = "drain" /\ (DrainIdle \/ \E c \in Achs : Drain(c))
           \/ e.op = "newgame" /\ \E c \in Achs : NewGame(e.n, c)
           \/ e.op = "end" /\ UNCHANGED vars
TNext == \/ /\ l <= Len(TL) /\ Quiet /\ (l > 1 => Obs(TL[l - 1])) /\ Step(TL[l]) /\ l' = l + 1 /\ UNCHANGED tid
         \/ /\ ~Quiet /\ (\E c \in Achs : Deliver(c)) /\ UNCHANGED <<tid, l>>
TSpec == TInit /\ [][TNext]_tvars
Reporter == TraceReport(tid, l, Len(TL))
=============================================================================
