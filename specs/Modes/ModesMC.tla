------------------------------- MODULE ModesMC -------------------------------
EXTENDS Modes
MCPrio == [m \in {"A", "B", "D"} |-> IF m = "B" THEN 200 ELSE 100]
MCAuto == {<<"A", "stopped", "D", "start">>, <<"B", "stopped", "B", "start">>}
\* per mode the delivered events form complete cycles in order: checked through the phase automaton (TypeOK never "bad")
=============================================================================
