-------------------------------- MODULE Modes --------------------------------
(* Lifecycle of modes (mpf/core/mode.py, mode_controller.py) as the statement of C07 sees it.     *)
(* Per mode a phase; a start/stop request is accepted or ignored by phase; an accepted request    *)
(* obliges the six lifecycle events in order.  Requests can arrive at any point, in particular    *)
(* from handlers of lifecycle events (the trace interleaves them as the event bus orders them).   *)
(*   stopped -s1-> will_start -s2-> starting -s3-> started -> active                              *)
(*   active -t1-> will_stop -t2-> stopping -t3-> stopped -> stopped                               *)
(* Two windows are left open because the statement does not decide them: between the end of the   *)
(* starting queue event and the delivery of `started` the mode already counts as active (a stop   *)
(* may be accepted: s3 -> s3t), and between the end of the stopping queue event and the delivery  *)
(* of `stopped` it already counts as stopped (a start may be accepted: t3 -> t3s).                *)
EXTENDS Integers, Sequences, FiniteSets, TLC
CONSTANTS Modes, Prio,      \* mode names, Prio[m] configured priority
          Auto,             \* set of <<m, event, target, kind>>: target reacts to m's lifecycle event (start_events / stop_events)
          MaxOps, Deviations
VARIABLES phase, rp, nops, act
\* rp[m]: the running priority was given explicitly by the accepted start request (TRUE) or is the configured one
vars == <<phase, rp, nops, act>>
Init == phase = [m \in Modes |-> "stopped"] /\ rp = [m \in Modes |-> FALSE] /\ nops = 0 /\ act = [op |-> "init"]
\* effect of a start / stop request on one mode's phase: set of possible outcomes
StartOutcomes(p) == IF p = "stopped" THEN {"s1"} ELSE IF p = "t3" THEN {"t3", "t3s"} ELSE {p}
StopOutcomes(p) == IF p = "active" THEN {"t1"} ELSE IF p = "s3" THEN {"s3", "s3t"} ELSE {p}
\* alt: the request carries an explicit mode_priority.  Only an ACCEPTED start decides the running priority
ReqStart(m, alt) == /\ nops < MaxOps /\ nops' = nops + 1
                    /\ \E q \in StartOutcomes(phase[m]) :
                          /\ phase' = [phase EXCEPT ![m] = q]
                          /\ rp' = IF q # phase[m] THEN [rp EXCEPT ![m] = alt] ELSE rp
                    /\ act' = [op |-> "req", m |-> m, kind |-> "start", alt |-> alt]
ReqStop(m) == /\ nops < MaxOps /\ nops' = nops + 1
              /\ \E q \in StopOutcomes(phase[m]) : phase' = [phase EXCEPT ![m] = q]
              /\ UNCHANGED rp /\ act' = [op |-> "req", m |-> m, kind |-> "stop"]
NextPhase(p, name) ==
    CASE p = "s1" /\ name = "will_start" -> "s2"
      [] p = "s2" /\ name = "starting" -> "s3"
      [] p = "s3" /\ name = "started" -> "active"
      [] p = "s3t" /\ name = "started" -> "t1"
      \* code as is: a stop requested by event in that window overtakes the pending `started` event on the bus
      [] p = "s3t" /\ name = "will_stop" /\ "StopOvertakesStarted" \in Deviations -> "s3u"
      [] p = "s3u" /\ name = "started" -> "t2"
      [] p = "t1" /\ name = "will_stop" -> "t2"
      [] p = "t2" /\ name = "stopping" -> "t3"
      [] p = "t3" /\ name = "stopped" -> "stopped"
      [] p = "t3s" /\ name = "stopped" -> "s1"
      [] OTHER -> "bad"
\* apply the configured reactions of other modes to this event, one after the other
RECURSIVE React(_, _)
React(ph, S) == IF S = {} THEN {ph}
                ELSE LET r == CHOOSE x \in S : TRUE  t == r[3] IN
                     UNION { React([ph EXCEPT ![t] = q], S \ {r}) :
                             q \in IF r[4] = "start" THEN StartOutcomes(ph[t]) ELSE StopOutcomes(ph[t]) }
\* a lifecycle event of m is delivered: it must be the next one of its cycle
Ev(m, name) == /\ NextPhase(phase[m], name) # "bad"
               /\ phase' \in React([phase EXCEPT ![m] = NextPhase(phase[m], name)], {r \in Auto : r[1] = m /\ r[2] = name})
               \* a start triggered by a configured start event runs at the configured priority
               /\ rp' = [x \in Modes |-> IF phase'[x] \in {"s1", "t3s"} /\ phase[x] \notin {"s1", "t3s"} /\ (x # m \/ NextPhase(phase[m], name) # phase'[x])
                                          THEN FALSE ELSE rp[x]]
               /\ act' = [op |-> "ev", m |-> m, name |-> name] /\ UNCHANGED nops
Names == {"will_start", "starting", "started", "will_stop", "stopping", "stopped"}
Next == \E m \in Modes : (\E alt \in BOOLEAN : ReqStart(m, alt)) \/ ReqStop(m) \/ \E n \in Names : Ev(m, n)
Spec == Init /\ [][Next]_vars
Fair == \A m \in Modes, n \in Names : WF_vars(Ev(m, n))
LiveSpec == Spec /\ Fair
\* ---- statement of C07 ---------------------------------------------------------------------------------------
AtRest == \A m \in Modes : phase[m] \in {"stopped", "active"}
ActiveSet == {m \in Modes : phase[m] = "active"}
\* the list of active modes: exactly the active ones, ordered by (priority, name) descending
AltBoost == 7
EffPrio(m) == IF rp[m] THEN Prio[m] + AltBoost ELSE Prio[m]
Sorted(seq) == \A i, j \in DOMAIN seq : i < j =>
                   (EffPrio(seq[i]) > EffPrio(seq[j]) \/ (EffPrio(seq[i]) = EffPrio(seq[j]) /\ seq[i] # seq[j]))
\* every accepted start eventually becomes active, every accepted stop eventually completes
Progress == \A m \in Modes : [](phase[m] \notin {"stopped", "active"} => <>(phase[m] \in {"stopped", "active"}))
\* the five modes of /verif/machines/modes
FullPrio == [m \in {"A", "B", "C", "D", "E", "G"} |-> IF m = "B" THEN 200 ELSE IF m = "E" THEN 50 ELSE IF m = "G" THEN 150 ELSE 100]
FullAuto == {<<"A", "stopped", "D", "start">>, <<"E", "stopped", "E", "start">>}
TypeOK == \A m \in Modes : phase[m] \in {"stopped", "s1", "s2", "s3", "s3t", "s3u", "active", "t1", "t2", "t3", "t3s"}
=============================================================================
