SPECIFICATION LiveSpec
CONSTANTS
  Modes = {"A", "B", "D"}
  Prio <- MCPrio
  Auto <- MCAuto
  Deviations = {}
  MaxOps = 5
INVARIANT TypeOK
PROPERTY Progress
CHECK_DEADLOCK FALSE
