----------------------------- MODULE ModesTrace -----------------------------
(* Recorded: every start/stop request the driver issues (direct call or configured event), every *)
(* lifecycle event delivered (name, mode), and at rest: mode_controller.active_modes, each mode's *)
(* priority and the number of registry entries that differ from the pre-start baseline.           *)
EXTENDS Modes, TraceIO
VARIABLES tid, l
tvars == <<vars, tid, l>>
TL == TraceLines[tid].ev
TInit == /\ tid \in 1..Len(TraceLines) /\ l = 1 /\ Init
OurActive(e) == SelectSeq(e.active, LAMBDA x : x \in Modes)
Step(e) ==
    \/ e.op = "req" /\ e.kind = "start" /\ ReqStart(e.m, e.alt)
    \/ e.op = "req" /\ e.kind = "stop" /\ ReqStop(e.m)
    \/ e.op = "ev" /\ Ev(e.m, e.name)
    \* loop has run, all queue holds released: no transition may be pending, the active list is exact
    \* and ordered, an active mode runs at its configured priority, and with everything stopped
    \* nothing the modes registered is left
    \/ /\ e.op = "rest" /\ AtRest /\ UNCHANGED vars
       /\ SeqToSet(OurActive(e)) = ActiveSet /\ Len(OurActive(e)) = Cardinality(ActiveSet) /\ Sorted(OurActive(e))
       /\ \A m \in ActiveSet : e.prio[m] = EffPrio(m)
       /\ (ActiveSet = {} => e.leak = 0)
TNext == l <= Len(TL) /\ Step(TL[l]) /\ l' = l + 1 /\ UNCHANGED tid
TSpec == TInit /\ [][TNext]_tvars
Reporter == TraceReport(tid, l, Len(TL))
=============================================================================
