SPECIFICATION TSpec
CONSTANTS
  Modes = {"A", "B", "C", "D", "E", "G"}
  Prio <- FullPrio
  Auto <- FullAuto
  Deviations = {}
  MaxOps = 1000000
INVARIANT TypeOK
INVARIANT Reporter
CHECK_DEADLOCK FALSE
