--------------------------------- MODULE Bcp ---------------------------------
(* Reference model of BCP stream reassembly (mpf/core/bcp/bcp_socket_client.py read_message).       *)
(* A sender appends wire messages to a byte stream: the encoded command line, optionally followed  *)
(* by the payload announcement  Marker ++ decimal(length), then the line terminator, then the raw  *)
(* payload bytes.  The channel hands the receiver the next k >= 1 bytes (every chunking).  The     *)
(* receiver is the StreamReader discipline of read_message: a buffer, a mode (waiting for a line / *)
(* waiting for n payload bytes) and the sequence of messages handed to the dispatcher.             *)
(* Bytes are integers; payload bytes are arbitrary (they may contain NL and the Marker).           *)
EXTENDS Integers, Sequences, FiniteSets, TLC
CONSTANTS Msgs,      \* set of [id, line, hasPay, pay]; line, pay \in Seq(byte)
          MaxMsgs,   \* budget: messages sent in one behaviour
          Marker,    \* byte sequence announcing a payload (b"&bytes=")
          NL,        \* line terminator
          Deviations \* {} = the statement; non-empty only to show that the monitors bite (design sensitivity):
                     \*   "ModeLostAcrossReads"        the receiver forgets between reads that it waits for a payload
                     \*   "MarkerWithoutLeftBoundary"  the receiver takes "<Marker without its first byte><digits>" at the
                     \*                                end of a line for an announcement (no left boundary)
VARIABLES sent,      \* ghost: messages handed to the sender, in order
          stream,    \* every byte the sender has written
          delivered, \* number of bytes of stream already handed to the receiver
          buf,       \* receiver: bytes received and not yet consumed
          mode,      \* receiver: [k |-> "line"] or [k |-> "payload", need |-> n, line |-> bytes]
          out,       \* receiver: messages dispatched so far, in order: [line, hasPay, pay]
          act
vars == <<sent, stream, delivered, buf, mode, out, act>>
LineMode == [k |-> "line"]
\* ---- wire format ------------------------------------------------------------------------------
RECURSIVE Digits(_)
Digits(n) == IF n < 10 THEN <<48 + n>> ELSE Digits(n \div 10) \o <<48 + (n % 10)>>
IsDigits(s) == s # <<>> /\ \A i \in 1..Len(s) : s[i] \in 48..57
RECURSIVE ParseNat(_)
ParseNat(s) == IF s = <<>> THEN 0 ELSE ParseNat(SubSeq(s, 1, Len(s) - 1)) * 10 + (s[Len(s)] - 48)
MarkerAt(s, i) == i + Len(Marker) - 1 <= Len(s) /\ SubSeq(s, i, i + Len(Marker) - 1) = Marker
MarkerPos(s) == {i \in 1..Len(s) : MarkerAt(s, i)}
NLPos(s) == {i \in 1..Len(s) : s[i] = NL}
MinOf(S) == CHOOSE i \in S : \A j \in S : i <= j
\* Lines that carry NO announcement but end like one: a proper non-empty suffix of the Marker followed by digits
\* ("...total_bytes=20", "cmd?bytes=7", "x=1" for the marker "&bytes=").  They are ordinary messages of the sender's
\* domain; a receiver has to treat them as such (the announcement is the whole Marker, nothing less).
EndsLike(ln, suf) == \E d \in 1..(Len(ln) - Len(suf)) :
                         /\ SubSeq(ln, Len(ln) - d - Len(suf) + 1, Len(ln) - d) = suf
                         /\ IsDigits(SubSeq(ln, Len(ln) - d + 1, Len(ln)))
Lookalike(ln) == /\ MarkerPos(ln) = {}
                 /\ \E j \in 2..Len(Marker) : EndsLike(ln, SubSeq(Marker, j, Len(Marker)))
\* where a receiver finds the announcement in a line: [cut |-> length of the command part, num |-> the digits]
\* (cut = -1: none).  The statement: the first occurrence of the whole Marker.
Core == SubSeq(Marker, 2, Len(Marker))
LoosePos(ln) == {i \in 1..Len(ln) : /\ i + Len(Core) - 1 < Len(ln)
                                    /\ SubSeq(ln, i, i + Len(Core) - 1) = Core
                                    /\ IsDigits(SubSeq(ln, i + Len(Core), Len(ln)))}
Announcement(ln) ==
    IF "MarkerWithoutLeftBoundary" \in Deviations
    THEN IF LoosePos(ln) = {} THEN [cut |-> -1, num |-> <<>>]
         ELSE LET p == MinOf(LoosePos(ln))
              IN [cut |-> IF p > 1 /\ ln[p - 1] = Marker[1] THEN p - 2 ELSE p - 1,
                  num |-> SubSeq(ln, p + Len(Core), Len(ln))]
    ELSE IF MarkerPos(ln) = {} THEN [cut |-> -1, num |-> <<>>]
         ELSE LET p == MinOf(MarkerPos(ln))
              IN [cut |-> p - 1, num |-> SubSeq(ln, p + Len(Marker), Len(ln))]
\* the domain of the sender: an encoded command is one line and does not contain the announcement
WellFormed(m) == /\ m.line # <<>> /\ NLPos(m.line) = {} /\ MarkerPos(m.line) = {}
                 /\ (~m.hasPay => m.pay = <<>>)
Encode(m) == m.line \o (IF m.hasPay THEN Marker \o Digits(Len(m.pay)) ELSE <<>>) \o <<NL>> \o m.pay
Strip(m) == [line |-> m.line, hasPay |-> m.hasPay, pay |-> m.pay]
\* ---- receiver: consume the buffer as far as possible (readline / readexactly never block while ---
\* ---- enough bytes are buffered, so one delivery may dispatch several messages) -----------------
RECURSIVE Pump(_, _, _)
Pump(b, md, o) ==
    IF md.k = "line"
    THEN IF NLPos(b) = {} THEN [buf |-> b, mode |-> md, out |-> o]
         ELSE LET i == MinOf(NLPos(b))
                  ln == SubSeq(b, 1, i - 1)
                  rest == SubSeq(b, i + 1, Len(b))
                  an == Announcement(ln)
              IN IF an.cut = -1
                 THEN Pump(rest, LineMode, Append(o, [line |-> ln, hasPay |-> FALSE, pay |-> <<>>]))
                 ELSE Pump(rest, [k |-> "payload", need |-> (IF IsDigits(an.num) THEN ParseNat(an.num) ELSE 0),
                                  line |-> SubSeq(ln, 1, an.cut)], o)
    ELSE IF Len(b) < md.need THEN [buf |-> b, mode |-> md, out |-> o]
         ELSE Pump(SubSeq(b, md.need + 1, Len(b)), LineMode,
                   Append(o, [line |-> md.line, hasPay |-> TRUE, pay |-> SubSeq(b, 1, md.need)]))
\* ---- actions -----------------------------------------------------------------------------------
Init == /\ sent = <<>> /\ stream = <<>> /\ delivered = 0 /\ buf = <<>> /\ mode = LineMode /\ out = <<>>
        /\ act = [op |-> "init"]
Send(m) == /\ Len(sent) < MaxMsgs /\ WellFormed(m)
           /\ sent' = Append(sent, m) /\ stream' = stream \o Encode(m)
           /\ act' = [op |-> "send", m |-> m.id]
           /\ UNCHANGED <<delivered, buf, mode, out>>
Deliver(k) == /\ k >= 1 /\ delivered + k <= Len(stream)
              /\ LET md == IF "ModeLostAcrossReads" \in Deviations THEN LineMode ELSE mode
                     r == Pump(buf \o SubSeq(stream, delivered + 1, delivered + k), md, out)
                 IN buf' = r.buf /\ mode' = r.mode /\ out' = r.out
              /\ delivered' = delivered + k
              /\ act' = [op |-> "deliver", k |-> k]
              /\ UNCHANGED <<sent, stream>>
Next == (\E m \in Msgs : Send(m)) \/ (\E k \in 1..(Len(stream) - delivered) : Deliver(k))
Spec == Init /\ [][Next]_vars
\* ---- statement of C19 (reassembly half) ----------------------------------------------------------
SentWire == [i \in 1..Len(sent) |-> Strip(sent[i])]
\* what has been dispatched is a prefix of what was sent: same messages, same payloads, same order
InOrderPrefix == Len(out) <= Len(sent) /\ out = SubSeq(SentWire, 1, Len(out))
\* ghost whole-stream decoder: the receiver state depends only on the bytes delivered, not on the chunking
ChunkingIndependent == [buf |-> buf, mode |-> mode, out |-> out] = Pump(SubSeq(stream, 1, delivered), LineMode, <<>>)
\* once every byte is delivered every message has been dispatched and nothing is left over
CompleteWhenDelivered == delivered = Len(stream) => out = SentWire /\ buf = <<>> /\ mode = LineMode
\* dispatching only appends (no message is dispatched twice or withdrawn)
DispatchAppendOnly == [][Len(out') >= Len(out) /\ SubSeq(out', 1, Len(out)) = out]_vars
\* a message is dispatched by the delivery that contains its last byte
RECURSIVE WireLen(_)
WireLen(s) == IF s = <<>> THEN 0 ELSE WireLen(SubSeq(s, 1, Len(s) - 1)) + Len(Encode(s[Len(s)]))
DispatchedAsSoonAsComplete == \A i \in 1..Len(sent) : (WireLen(SubSeq(sent, 1, i)) <= delivered) <=> (i <= Len(out))
TypeOK == /\ delivered \in 0..Len(stream) /\ mode.k \in {"line", "payload"}
          /\ Len(buf) <= delivered /\ Len(stream) = WireLen(sent)
=============================================================================
