---------------------------- MODULE BcpCodecTrace ----------------------------
(* One trace per executed case: the construction steps of the message shape (as enumerated by TLC  *)
(* from BcpCodec), then one "check" line with what the real encode_command_string ->                *)
(* decode_command_string did on the instantiated message.  Every logged boolean was computed by    *)
(* comparing two real values (original vs decoded); the judgement "all must hold" is the Contract.  *)
(*   check: raised  = encode or decode raised an exception                                           *)
(*          oneline = the encoded string contains no line terminator                                 *)
(*          cmd     = decoded command == original command                                            *)
(*          keys    = decoded parameter names == original parameter names                           *)
(*          params[i].val / .typ = decoded value == original value / same type (deep, NaN by isnan)  *)
EXTENDS BcpCodec, TraceIO
VARIABLES tid, l
tvars == <<vars, tid, l>>
TL == TraceLines[tid].ev
TInit == /\ tid \in 1..Len(TraceLines) /\ l = 1
         /\ cmd = TraceLines[tid].cfg.cmd /\ cmd \in CmdKinds
         /\ params = <<>> /\ phase = "build" /\ verdict = [done |-> FALSE] /\ act = [op |-> "init"]
Observed(e, c) == /\ e.raised = c.raised /\ e.oneline = c.oneline /\ e.cmd = c.cmd /\ e.keys = c.keys
                  /\ Len(e.params) = Len(c.params)
                  /\ \A i \in 1..Len(c.params) : e.params[i].val = c.params[i].val /\ e.params[i].typ = c.params[i].typ
Step(e) ==
    \/ e.op = "param" /\ AddParam(e.key, [kind |-> e.kind, sub |-> e.sub]) /\ [kind |-> e.kind, sub |-> e.sub] \in ValueShapes
    \/ e.op = "tok" /\ e.t \in Toks /\ AddTok(e.t)
    \/ e.op = "check" /\ Check /\ Observed(e, verdict')
TNext == l <= Len(TL) /\ Step(TL[l]) /\ l' = l + 1 /\ UNCHANGED tid
TSpec == TInit /\ [][TNext]_tvars
Reporter == TraceReport(tid, l, Len(TL))
=============================================================================
