------------------------------- MODULE BcpCodec -------------------------------
(* Message space of the BCP codec (encode_command_string / decode_command_string) and its          *)
(* declarative contract  Decode(Encode(m)) = m  including types.  The state graph IS the case       *)
(* enumeration: one "build" state per message shape.  A shape is a command kind plus a sequence of *)
(* parameters; a parameter is a key kind and a value shape; string values are sequences of tokens  *)
(* (symbol classes) which the driver instantiates with concrete code points.                        *)
(*   tokens  PCT "%"  D2 "2"  D5 "5"  HL hex letter  LET other letter  HEX "%41"-like escape         *)
(*           COLON AMP EQ QM HASH SP PLUS NL CTL(tab/cr) QUOTE(" and \)  NONASCII  ASTRAL             *)
(*           PINT "int:5"  PINTBAD "int:x"  PBOOL "bool:true"  PFLOAT "float:1e+16"  PNONE "NoneType:"*)
(*           JSONEQ "json="  MARKER "&bytes="                                                          *)
(*   scalars int (neg zero pos large huge), float (small exp neg frac zero negzero inf nan max       *)
(*           denorm), bool (true false), none                                                          *)
(*   nests   lists / dicts up to depth 2; the "str" nests carry a token string inside                  *)
EXTENDS Integers, Sequences, FiniteSets, TLC
CONSTANTS CmdKinds,   \* command-name kinds over the identifier alphabet
          Toks,       \* token alphabet
          Scalars,    \* set of [kind, sub]
          Nests,      \* sub-kinds of nested values without a token string
          StrNests,   \* sub-kinds of nested values that carry a token string
          JsonKey,    \* BOOLEAN: also enumerate a first parameter that is literally named "json"
          MaxParams, MaxToks, MaxNToks, MaxSum
VARIABLES cmd, params, phase, verdict, act
vars == <<cmd, params, phase, verdict, act>>
Carrier(p) == p.kind = "str" \/ (p.kind = "nest" /\ p.sub \in StrNests)
Limit(p) == IF p.kind = "str" THEN MaxToks ELSE MaxNToks
RECURSIVE SumToks(_)
SumToks(ps) == IF ps = <<>> THEN 0 ELSE SumToks(SubSeq(ps, 1, Len(ps) - 1)) + Len(ps[Len(ps)].toks)
ValueShapes == {[kind |-> "str", sub |-> ""]} \cup Scalars
               \cup {[kind |-> "nest", sub |-> n] : n \in Nests \cup StrNests}
Init == /\ cmd \in CmdKinds /\ params = <<>> /\ phase = "build" /\ verdict = [done |-> FALSE]
        /\ act = [op |-> "init"]
AddParam(key, vs) ==
    /\ phase = "build" /\ Len(params) < MaxParams
    /\ key \in {"plain", "json"} /\ (key = "json" => JsonKey /\ params = <<>>)
    /\ params' = Append(params, [key |-> key, kind |-> vs.kind, sub |-> vs.sub, toks |-> <<>>])
    /\ act' = [op |-> "param", key |-> key, kind |-> vs.kind, sub |-> vs.sub]
    /\ UNCHANGED <<cmd, phase, verdict>>
AddTok(t) ==
    /\ phase = "build" /\ params # <<>>
    /\ LET n == Len(params)
           p == params[n]
       IN /\ Carrier(p) /\ Len(p.toks) < Limit(p) /\ SumToks(params) < MaxSum
          /\ (p.key = "json" => p.toks = <<>>)
          /\ params' = [params EXCEPT ![n].toks = Append(@, t)]
    /\ act' = [op |-> "tok", t |-> t]
    /\ UNCHANGED <<cmd, phase, verdict>>
\* the contract of the statement: one line, same command, same parameter names, and for every
\* parameter the same value with the same type; decoding never fails
Contract == [done |-> TRUE, raised |-> FALSE, oneline |-> TRUE, cmd |-> TRUE, keys |-> TRUE,
             params |-> [i \in 1..Len(params) |-> [val |-> TRUE, typ |-> TRUE]]]
Check == /\ phase = "build" /\ phase' = "checked" /\ verdict' = Contract
         /\ act' = [op |-> "check"] /\ UNCHANGED <<cmd, params>>
Next == \/ \E key \in {"plain", "json"}, vs \in ValueShapes : AddParam(key, vs)
        \/ \E t \in Toks : AddTok(t)
        \/ Check
Spec == Init /\ [][Next]_vars
ShapeOK == /\ Len(params) <= MaxParams /\ SumToks(params) <= MaxSum
           /\ \A i \in 1..Len(params) : /\ (params[i].key = "json" => i = 1)
                                        /\ (params[i].toks # <<>> => Carrier(params[i]))
                                        /\ Len(params[i].toks) <= Limit(params[i])
ContractIsTotal == phase = "checked" => /\ verdict.done /\ ~verdict.raised /\ verdict.oneline /\ verdict.cmd /\ verdict.keys
                                         /\ Len(verdict.params) = Len(params)
                                         /\ \A i \in 1..Len(params) : verdict.params[i].val /\ verdict.params[i].typ
ShapeFrozenAfterCheck == [][phase = "checked" => UNCHANGED <<cmd, params>>]_vars
=============================================================================
