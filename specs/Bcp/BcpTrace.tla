------------------------------ MODULE BcpTrace ------------------------------
(* Every recorded execution of the real receivers (AsyncioBcpClientSocket.read_message,            *)
(* BCPClientSocket.read_message, and BCPClientSocket -> BcpTransportManager -> BcpInterface) fed   *)
(* from a hand-driven asyncio.StreamReader must be a behaviour of Bcp, and what the real receiver  *)
(* dispatched must be what was sent, in order.                                                      *)
(* Logged per execution:                                                                            *)
(*   send     m = content id of the message (side table of the driver), line / pay = the bytes the *)
(*            real sender wrote, hp = a payload is attached                                         *)
(*   deliver  k bytes fed (pos = stream position after the chunk), rx = for every message the real *)
(*            receiver dispatched while the loop ran idle after this chunk: the content id of the  *)
(*            sent message it equals (command, kwargs with types, payload bytes), 0 if none         *)
(*   end      all bytes fed and the loop idle; rx as above                                           *)
(* The judgement is made here: rx must be the sent id sequence (order, nothing lost, nothing        *)
(* invented, nothing duplicated), nothing may be dispatched before the reference receiver has seen *)
(* its last byte, and at the end everything sent has been dispatched.                               *)
EXTENDS Bcp, TraceIO
VARIABLES tid, l, rx
tvars == <<vars, tid, l, rx>>
TL == TraceLines[tid].ev
TMsgs == {}
TMarker == <<38, 98, 121, 116, 101, 115, 61>>
TDeviations == {}
TInit == tid \in 1..Len(TraceLines) /\ l = 1 /\ rx = <<>> /\ Init
SentIds == [i \in 1..Len(sent) |-> sent[i].id]
Step(e) ==
    \/ /\ e.op = "send"
       /\ Send([id |-> e.m, line |-> e.line, hasPay |-> e.hp, pay |-> e.pay])
       /\ rx' = rx
    \/ /\ e.op = "deliver"
       /\ Deliver(e.k) /\ delivered' = e.pos
       /\ rx' = rx \o e.rx
       /\ Len(rx') <= Len(out')
       /\ rx' = SubSeq(SentIds, 1, Len(rx'))
    \/ /\ e.op = "end"
       /\ delivered = Len(stream)
       /\ rx' = rx \o e.rx
       /\ rx' = SentIds
       /\ UNCHANGED vars
TNext == l <= Len(TL) /\ Step(TL[l]) /\ l' = l + 1 /\ UNCHANGED tid
TSpec == TInit /\ [][TNext]_tvars
Reporter == TraceReport(tid, l, Len(TL))
=============================================================================
