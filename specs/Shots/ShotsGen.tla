------------------------------ MODULE ShotsGen ------------------------------
(* Schedule generator (tlc -simulate only): the KIND of the next step is drawn first, then its arguments, so that the   *)
(* many-argument operations (jump) do not starve the rare ones (rotation, delay switch, mode stop / start).             *)
EXTENDS Shots
VARIABLES pick
gvars == <<vars, pick>>
Kinds == <<"sw", "sw", "sw", "sw", "hitev", "advance", "jump", "jump", "reset", "restart", "enable", "enable", "disable",
           "dsw", "dsw", "g", "g", "grot", "grot", "grot", "rot", "mode", "adv", "adv">>
CanDo(kd) == CASE kd = "adv" -> now < MaxTime
               [] kd = "dsw" -> nops < MaxOps /\ cfg.dly > 0
               [] kd \in {"g", "grot", "rot"} -> nops < MaxOps /\ cfg.grp
               [] kd = "mode" -> nops < MaxOps /\ (~active \/ nops % 3 = 0)
               [] OTHER -> nops < MaxOps
GInit == Init /\ pick = 0
Draw == /\ pick = 0 /\ \E k \in 1..Len(Kinds) : CanDo(Kinds[k]) /\ pick' = k
        /\ UNCHANGED vars
Do == /\ pick # 0 /\ pick' = 0
      /\ LET kd == Kinds[pick] IN
         \/ kd = "sw" /\ \E k \in 1..3 : Sw(k)
         \/ kd = "hitev" /\ \E i \in Sh : HitEv(i)
         \/ kd = "advance" /\ \E i \in Sh, f \in BOOLEAN : Advance(i, f)
         \/ kd = "jump" /\ \E i \in Sh, x \in States, f \in BOOLEAN : Jump(i, x, f)
         \/ kd = "reset" /\ \E i \in Sh : Reset(i)
         \/ kd = "restart" /\ \E i \in Sh : Restart(i)
         \/ kd = "enable" /\ \E i \in Sh : Enable(i)
         \/ kd = "disable" /\ \E i \in Sh : Disable(i)
         \/ kd = "dsw" /\ DSw
         \/ kd = "g" /\ (GReset \/ GRestart \/ GEnable \/ GDisable)
         \/ kd = "grot" /\ \E d \in {"P", "L", "R"} : GRot(d)
         \/ kd = "rot" /\ (GSetRot(TRUE) \/ GSetRot(FALSE))
         \/ kd = "mode" /\ (ModeStop \/ ModeStart)
         \/ kd = "adv" /\ Adv
GNext == Draw \/ Do
GSpec == GInit /\ [][GNext]_gvars
=============================================================================
