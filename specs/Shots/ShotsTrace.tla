----------------------------- MODULE ShotsTrace -----------------------------
EXTENDS Shots, TraceIO
VARIABLES tid, l
tvars == <<vars, tid, l>>
TL == TraceLines[tid].ev
TConfigs == {}
TInit == /\ tid \in 1..Len(TraceLines) /\ l = 1 /\ cfg = TraceLines[tid].cfg /\ InitRest
HitKinds == {"hit", "phit", "pshit", "shit"}
\* observed after the step: state index, enabledness and running show of every shot; the hit events of every shot (each of
\* the four kinds once, with the state the shot was in and whether it advanced); the group's hit and complete events, the
\* common state it tracks and whether rotation is enabled
Obs(e) ==
    /\ \A i \in Sh : /\ st'[i] = e.st[i] /\ (active' /\ en'[i]) = e.en[i] /\ Showing(i)' = e.show[i]
                     /\ Len(e.h[i]) = (IF out'.h[i] = -1 THEN 0 ELSE 4)
                     /\ (out'.h[i] # -1 => SeqToSet(e.h[i]) = {<<k, out'.h[i], out'.ha[i]>> : k \in HitKinds})
    /\ cfg.grp => /\ e.ghn = Cardinality({i \in Sh : out'.h[i] # -1})
                  /\ \A x \in States : e.ghs[x + 1] = Cardinality({i \in Sh : out'.h[i] = x})
                  /\ Len(e.gc) = (IF out'.gc = -1 THEN 0 ELSE 2)
                  /\ (out'.gc # -1 => SeqToSet(e.gc) = {<<"c", out'.gc>>, <<"sc", out'.gc>>})
                  /\ e.common = common' /\ e.rot = rot'
Step(e) ==
    /\ \/ e.op = "sw" /\ Sw(e.k)
       \/ e.op = "hitev" /\ HitEv(e.i)
       \/ e.op = "advance" /\ Advance(e.i, e.f)
       \/ e.op = "jump" /\ Jump(e.i, e.x, e.f)
       \/ e.op = "reset" /\ Reset(e.i)
       \/ e.op = "restart" /\ Restart(e.i)
       \/ e.op = "enable" /\ Enable(e.i)
       \/ e.op = "disable" /\ Disable(e.i)
       \/ e.op = "dsw" /\ DSw
       \/ e.op = "greset" /\ GReset
       \/ e.op = "grestart" /\ GRestart
       \/ e.op = "genable" /\ GEnable
       \/ e.op = "gdisable" /\ GDisable
       \/ e.op = "grot" /\ GRot(e.d)
       \/ e.op = "genrot" /\ GSetRot(TRUE)
       \/ e.op = "gdisrot" /\ GSetRot(FALSE)
       \/ e.op = "modestop" /\ ModeStop
       \/ e.op = "modestart" /\ ModeStart
       \/ e.op = "adv" /\ Adv
       \/ e.op = "obs" /\ UNCHANGED vars
    /\ Obs(e)
TNext == l <= Len(TL) /\ Step(TL[l]) /\ l' = l + 1 /\ UNCHANGED tid
TSpec == TInit /\ [][TNext]_tvars
Reporter == TraceReport(tid, l, Len(TL))
=============================================================================
