-------------------------------- MODULE Shots --------------------------------
(* Reference model of shots, shot profiles and shot groups (mpf/devices/shot.py, shot_group.py, shot_profile.py;     *)
(* config_spec.yaml sections shots, shot_groups, shot_profiles) living in a game mode of a running one-player game.    *)
(*                                                                                                                    *)
(* STATEMENT (X01).  For any sequence of switch activations, hit / advance / reset / restart / enable / disable /      *)
(* jump (control_events) events of shots, enable / disable / reset / restart / rotate / rotate_left / rotate_right /   *)
(* enable_rotation / disable_rotation events of their group, delay-switch activations, passing time and stops /        *)
(* starts of the mode:                                                                                                 *)
(*  S1 a hit (switch or hit_events) is accepted by a shot iff its mode runs, the shot is enabled, none of its delay    *)
(*     switches was activated within the configured time before (while the shot was enabled) and no accepted shot of    *)
(*     HIGHER priority on the same switch has a profile with `block: true`; a hit that is not accepted changes nothing  *)
(*     and posts nothing;                                                                                              *)
(*  S2 an accepted hit posts <shot>_hit, <shot>_<profile>_hit, <shot>_<profile>_<state>_hit and <shot>_<state>_hit     *)
(*     exactly once each, all carrying the profile, the state the shot was in WHEN HIT and whether it advanced; the    *)
(*     shot then advances one state iff advance_on_hit: from the last state to the first iff `loop`, otherwise it stays;*)
(*  S3 advance (not forced) and an unforced jump act only on an enabled shot, a forced advance / jump and reset also on *)
(*     a disabled one; reset = jump to state 0; restart = reset + enable; the state index is always a state of the      *)
(*     profile; enable / disable are idempotent; disable forgets running delays;                                       *)
(*  S4 a shot's show runs iff the mode runs, the shot is enabled or the profile says show_when_disabled, and the        *)
(*     current state has a show;                                                                                       *)
(*  S5 group: enable / disable / reset / restart reach every member; rotate (direction given, or the next one of the   *)
(*     profile's rotation_pattern, cyclically) moves the states of the members whose state is not in                    *)
(*     state_names_to_not_rotate one place right / left (a permutation: the multiset of states is kept, the other       *)
(*     members keep theirs) and only while rotation is enabled (initially iff there are no enable_rotation_events);     *)
(*  S6 every accepted hit of a member posts <group>_hit and <group>_<state>_hit once; <group>_complete(state) and      *)
(*     <group>_<state>_complete are posted exactly when the members have come to share a state they did not share       *)
(*     before (once per such transition, never while they differ);                                                     *)
(*  S7 while the mode is stopped nothing changes and nothing is posted; state and enabledness survive the stop (player  *)
(*     variables), control_events (jumps) work again after the restart.                                                *)
(*                                                                                                                    *)
(* Named deviations of the code from S1 / S7 (CONSTANT Deviations; off in the design check):                           *)
(*   "BlockOffset": a blocking shot of priority P only blocks shots of priority < P - 5 (the relative priority 5 of     *)
(*                  event_hit is added to the handler priority but not to the blocking threshold);                      *)
(*   "CtlLost":     a shot that had never been enabled when its mode stopped loses its control_events for good          *)
(*                  (_remove_switch_handlers removes the control-event handlers kept in the same list).                 *)
EXTENDS Integers, Sequences, FiniteSets, TLC
CONSTANTS Configs,   \* records [id, n, ns, loop, aoh, block, swd, shows, sw, prio, en0, grp, rotev, norot, pat, dly]
          MaxOps, MaxTime, Deviations
ASSUME \A c \in Configs : c.ns >= 2 /\ c.n >= 1
VARIABLES cfg, active, now, st, en, dl, ever, lost, rot, pidx, common, out, nops, act
vars == <<cfg, active, now, st, en, dl, ever, lost, rot, pidx, common, out, nops, act>>
Sh == 1..cfg.n
States == 0..(cfg.ns - 1)
InSeq(x, s) == \E k \in DOMAIN s : s[k] = x
NoOut == [h |-> [i \in Sh |-> -1], ha |-> [i \in Sh |-> FALSE], gc |-> -1]
AdvState(s) == IF s + 1 >= cfg.ns THEN (IF cfg.loop THEN 0 ELSE s) ELSE s + 1
CanAdv(s) == s + 1 < cfg.ns \/ cfg.loop
CommonOf(f) == IF \A i \in Sh : f[i] = f[1] THEN f[1] ELSE -1
Showing(i) == active /\ (en[i] \/ cfg.swd) /\ InSeq(st[i], cfg.shows)
Blocks(j, i) == IF "BlockOffset" \in Deviations THEN cfg.prio[j] > cfg.prio[i] + 5 ELSE cfg.prio[j] > cfg.prio[i]
Accepting(i) == active /\ en[i] /\ dl[i] = 0

InitRest ==
        /\ active = TRUE /\ now = 0 /\ nops = 0 /\ act = [op |-> "init"]
        /\ st = [i \in Sh |-> 0] /\ en = [i \in Sh |-> cfg.en0[i]] /\ dl = [i \in Sh |-> 0]
        /\ ever = [i \in Sh |-> cfg.en0[i]] /\ lost = [i \in Sh |-> FALSE]
        /\ rot = ~cfg.rotev /\ pidx = 1 /\ common = (IF cfg.grp THEN 0 ELSE -1) /\ out = NoOut

Init == cfg \in Configs /\ InitRest
NothingDue == \A i \in Sh : dl[i] # 0 => dl[i] > now
\* the group looks at its members after every change of a member's state (and when it is loaded)
Check(st2, act2) == IF cfg.grp /\ act2 /\ CommonOf(st2) # common
                    THEN [c |-> CommonOf(st2), gc |-> CommonOf(st2)] ELSE [c |-> common, gc |-> -1]
\* one operation: new states, enabled flags, delays, hits
Op(st2, en2, dl2, hits, a) ==
    /\ NothingDue /\ nops < MaxOps /\ nops' = nops + 1 /\ act' = a
    /\ st' = st2 /\ en' = en2 /\ dl' = dl2
    /\ ever' = [i \in Sh |-> ever[i] \/ (active /\ en2[i])]
    /\ common' = Check(st2, active).c
    /\ out' = [h |-> [i \in Sh |-> IF i \in hits THEN st[i] ELSE -1],
               ha |-> [i \in Sh |-> i \in hits /\ cfg.aoh /\ CanAdv(st[i])], gc |-> Check(st2, active).gc]
    /\ UNCHANGED <<cfg, active, now, lost, rot, pidx>>
HitAll(hits, a) == Op([i \in Sh |-> IF i \in hits /\ cfg.aoh THEN AdvState(st[i]) ELSE st[i]], en, dl, hits, a)
Sw(k) == /\ InSeq(k, cfg.sw)
         /\ LET acc == {i \in Sh : cfg.sw[i] = k /\ Accepting(i)}
                hits == {i \in acc : ~(cfg.block /\ \E j \in acc : Blocks(j, i))}
            IN HitAll(hits, [op |-> "sw", k |-> k])
HitEv(i) == HitAll(IF Accepting(i) THEN {i} ELSE {}, [op |-> "hitev", i |-> i])
Advance(i, f) == Op(IF active /\ (en[i] \/ f) THEN [st EXCEPT ![i] = AdvState(@)] ELSE st, en, dl, {},
                    [op |-> "advance", i |-> i, f |-> f])
JumpOK(i, f) == active /\ (en[i] \/ f) /\ ~(lost[i] /\ "CtlLost" \in Deviations)
Jump(i, x, f) == Op(IF JumpOK(i, f) THEN [st EXCEPT ![i] = x] ELSE st, en, dl, {}, [op |-> "jump", i |-> i, x |-> x, f |-> f])
\* the mode's control events reach the device only while the mode runs
ResetS(I) == [i \in Sh |-> IF i \in I /\ active THEN 0 ELSE st[i]]
EnableS(I) == [i \in Sh |-> IF i \in I /\ active THEN TRUE ELSE en[i]]
DisableS(I) == [i \in Sh |-> IF i \in I /\ active THEN FALSE ELSE en[i]]
DlOff(I) == [i \in Sh |-> IF i \in I /\ active /\ en[i] THEN 0 ELSE dl[i]]
Reset(i) == Op(ResetS({i}), en, dl, {}, [op |-> "reset", i |-> i])
Restart(i) == Op(ResetS({i}), EnableS({i}), dl, {}, [op |-> "restart", i |-> i])
Enable(i) == Op(st, EnableS({i}), dl, {}, [op |-> "enable", i |-> i])
Disable(i) == Op(st, DisableS({i}), DlOff({i}), {}, [op |-> "disable", i |-> i])
\* the delay switch of shot 1: hits are ignored for cfg.dly units from the last activation seen while enabled
DSw == /\ cfg.dly > 0
       /\ Op(st, en, IF active /\ en[1] THEN [dl EXCEPT ![1] = now + cfg.dly] ELSE dl, {}, [op |-> "dsw"])
GReset == cfg.grp /\ Op(ResetS(Sh), en, dl, {}, [op |-> "greset"])
GRestart == cfg.grp /\ Op(ResetS(Sh), EnableS(Sh), dl, {}, [op |-> "grestart"])
GEnable == cfg.grp /\ Op(st, EnableS(Sh), dl, {}, [op |-> "genable"])
GDisable == cfg.grp /\ Op(st, DisableS(Sh), DlOff(Sh), {}, [op |-> "gdisable"])
\* rotation: the members that may rotate, in the order of the group's shot list
RotIdx == {i \in Sh : ~InSeq(st[i], cfg.norot)}
Rank(i) == Cardinality({j \in RotIdx : j <= i})
Nth(k) == CHOOSE i \in RotIdx : Rank(i) = k
Rotated(d) == LET m == Cardinality(RotIdx) IN
    [i \in Sh |-> IF i \notin RotIdx THEN st[i]
                  ELSE IF d = "R" THEN st[Nth(IF Rank(i) = 1 THEN m ELSE Rank(i) - 1)]
                  ELSE st[Nth(IF Rank(i) = m THEN 1 ELSE Rank(i) + 1)]]
GRot(d) == /\ cfg.grp
           /\ LET go == active /\ rot
                  dir == IF d = "P" THEN cfg.pat[pidx] ELSE d
                  st2 == IF go THEN Rotated(dir) ELSE st
              IN /\ NothingDue /\ nops < MaxOps /\ nops' = nops + 1 /\ act' = [op |-> "grot", d |-> d]
                 /\ st' = st2 /\ common' = Check(st2, active).c
                 /\ out' = [NoOut EXCEPT !.gc = Check(st2, active).gc]
                 /\ pidx' = IF go /\ d = "P" THEN (pidx % Len(cfg.pat)) + 1 ELSE pidx
                 /\ UNCHANGED <<cfg, active, now, en, dl, ever, lost, rot>>
GSetRot(b) == /\ cfg.grp /\ NothingDue /\ nops < MaxOps /\ nops' = nops + 1 /\ act' = [op |-> IF b THEN "genrot" ELSE "gdisrot"]
              /\ rot' = (IF active THEN b ELSE rot) /\ out' = NoOut
              /\ UNCHANGED <<cfg, active, now, st, en, dl, ever, lost, pidx, common>>
\* the mode stops: devices are removed (delays forgotten, shows stopped); state and enabledness stay with the player
ModeStop == /\ active /\ NothingDue /\ nops < MaxOps /\ nops' = nops + 1 /\ act' = [op |-> "modestop"]
            /\ active' = FALSE /\ dl' = [i \in Sh |-> 0] /\ lost' = [i \in Sh |-> lost[i] \/ ~ever[i]] /\ out' = NoOut
            /\ UNCHANGED <<cfg, now, st, en, ever, rot, pidx, common>>
ModeStart == /\ ~active /\ nops < MaxOps /\ nops' = nops + 1 /\ act' = [op |-> "modestart"]
             /\ active' = TRUE /\ rot' = ~cfg.rotev /\ pidx' = 1 /\ ever' = [i \in Sh |-> ever[i] \/ en[i]]
             /\ common' = Check(st, TRUE).c /\ out' = [NoOut EXCEPT !.gc = Check(st, TRUE).gc]
             /\ UNCHANGED <<cfg, now, st, en, dl, lost>>
Adv == /\ NothingDue /\ now < MaxTime /\ now' = now + 1 /\ act' = [op |-> "adv"]
       /\ dl' = [i \in Sh |-> IF dl[i] = now + 1 THEN 0 ELSE dl[i]] /\ out' = NoOut
       /\ UNCHANGED <<cfg, active, st, en, ever, lost, rot, pidx, common, nops>>
Next == \/ \E k \in 1..3 : Sw(k)
        \/ \E i \in Sh : \/ HitEv(i) \/ Reset(i) \/ Restart(i) \/ Enable(i) \/ Disable(i)
                         \/ \E f \in BOOLEAN : Advance(i, f) \/ \E x \in States : Jump(i, x, f)
        \/ DSw \/ GReset \/ GRestart \/ GEnable \/ GDisable \/ GSetRot(TRUE) \/ GSetRot(FALSE)
        \/ \E d \in {"P", "L", "R"} : GRot(d)
        \/ ModeStop \/ ModeStart \/ Adv
Spec == Init /\ [][Next]_vars
\* ---- the statement over states and single steps -------------------------------------------------------------------
TypeOK == /\ st \in [Sh -> States] /\ en \in [Sh -> BOOLEAN] /\ common \in States \cup {-1} /\ pidx \in 1..Len(cfg.pat)
          /\ \A i \in Sh : dl[i] = 0 \/ (dl[i] >= now /\ i = 1 /\ dl[i] <= now + cfg.dly)
\* S6: what the group believes to be the common state is the common state
CommonTracked == (cfg.grp /\ active) => common = CommonOf(st)
\* a delay only runs for an enabled shot of a running mode
DelayOnlyEnabled == \A i \in Sh : dl[i] # 0 => active /\ en[i]
IsHitOp == act'.op \in {"sw", "hitev"}
HitOf(i) == out'.h[i] # -1
\* S1/S2: hits are reported only by hit operations, only by accepting shots, with the state they were in; they advance exactly
HitExact == [][ \A i \in Sh :
                 /\ HitOf(i) => /\ IsHitOp /\ Accepting(i) /\ out'.h[i] = st[i]
                                /\ st'[i] = (IF cfg.aoh THEN AdvState(st[i]) ELSE st[i])
                                /\ out'.ha[i] = (st'[i] # st[i])
                 /\ (IsHitOp /\ ~HitOf(i)) => st'[i] = st[i]
                 /\ (act'.op = "hitev" /\ act'.i = i /\ Accepting(i)) => HitOf(i)
                 /\ (act'.op = "sw" /\ cfg.sw[i] = act'.k /\ Accepting(i) /\ ~cfg.block) => HitOf(i) ]_vars
\* S1: with a blocking profile the shots hit by one switch activation are the accepting ones of the highest priority
BlockExact == [][ (act'.op = "sw" /\ cfg.block /\ Deviations = {}) =>
                   LET acc == {i \in Sh : cfg.sw[i] = act'.k /\ Accepting(i)} IN
                   \A i \in Sh : HitOf(i) <=> (i \in acc /\ \A j \in acc : cfg.prio[j] <= cfg.prio[i]) ]_vars
\* S3: who may change a state, and enabledness
OnlyEnabledOrForced == [][ \A i \in Sh : (st'[i] # st[i] /\ ~en[i]) =>
                            \/ act'.op \in {"reset", "restart", "greset", "grestart", "grot"}
                            \/ (act'.op \in {"advance", "jump"} /\ act'.f) ]_vars
EnableOps == [][ \A i \in Sh : en'[i] # en[i] => /\ active
                                                  /\ act'.op \in {"enable", "disable", "restart", "genable", "gdisable", "grestart"} ]_vars
\* S5: the group's operations reach every member; rotation permutes
GroupReachesAll == [][ active => /\ (act'.op \in {"genable", "grestart"} => \A i \in Sh : en'[i])
                                 /\ (act'.op = "gdisable" => \A i \in Sh : ~en'[i] /\ dl'[i] = 0)
                                 /\ (act'.op \in {"greset", "grestart"} => \A i \in Sh : st'[i] = 0) ]_vars
RotatePermutes == [][ act'.op = "grot" =>
                       /\ \A x \in States : Cardinality({i \in Sh : st'[i] = x}) = Cardinality({i \in Sh : st[i] = x})
                       /\ \A i \in Sh : InSeq(st[i], cfg.norot) => st'[i] = st[i]
                       /\ (~(active /\ rot) => st' = st)
                       /\ en' = en ]_vars
\* S6: completion exactly on a transition into a shared state
CompleteExact == [][ /\ (out'.gc # -1) <=> (cfg.grp /\ active' /\ CommonOf(st') # -1 /\ CommonOf(st') # CommonOf(st))
                     /\ (out'.gc # -1) => out'.gc = CommonOf(st') ]_vars
\* S7: a stopped mode is inert; the stop itself keeps state and enabledness
StoppedInert == [][ (~active /\ act'.op # "modestart") => (st' = st /\ en' = en /\ out' = NoOut /\ ~active') ]_vars
StopKeeps == [][ act'.op \in {"modestop", "modestart", "adv"} => (st' = st /\ en' = en) ]_vars
=============================================================================
