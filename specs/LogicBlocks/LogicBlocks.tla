----------------------------- MODULE LogicBlocks -----------------------------
(* Reference model of counters, accruals and sequences (mpf/devices/logic_blocks.py) in abstract  *)
(* time units.  Transitions are functions on a state record (as in Timers) so that the call       *)
(* chains hit -> complete -> reset -> disable are transcribed one to one.  `out` is the sequence  *)
(* of hit / complete / timeout events the step posts (hit carries the new count or the step).     *)
EXTENDS Integers, Sequences, FiniteSets, TLC
CONSTANTS Configs,     \* records [id, kind, dir, ival, start, goal, resetOC, disableOC, window, timeout, startEnabled, n]
          NoGoal, MaxTime, MaxOps, Vals, JVals
VARIABLES cfg, now, s, nops, act
\* s = [value, steps, enabled, completed, ignoreUntil, timeoutAt, out]
vars == <<cfg, now, s, nops, act>>
Emit(st, e, v) == [st EXCEPT !.out = Append(@, <<e, v>>)]
Clr(st) == [st EXCEPT !.out = <<>>]
TimerStart(t, st) == IF cfg.timeout > 0 THEN [st EXCEPT !.timeoutAt = t + cfg.timeout] ELSE st
ResetF(t, st) == TimerStart(t, [st EXCEPT !.completed = FALSE, !.value = cfg.start, !.steps = {}])
DisableF(st) == [st EXCEPT !.enabled = FALSE, !.timeoutAt = 0]
EnableF(t, st) == TimerStart(t, [st EXCEPT !.enabled = TRUE])
CompleteF(t, st) ==
    IF st.completed THEN st
    ELSE LET s1 == Emit([st EXCEPT !.completed = TRUE, !.timeoutAt = 0], "complete", 0)
             s2 == IF cfg.resetOC THEN ResetF(t, s1) ELSE s1
         IN IF cfg.disableOC THEN DisableF(s2) ELSE s2
Sign == IF cfg.dir = "down" THEN -1 ELSE 1
\* "its interval in its direction": the configured count_interval may carry either sign, the direction decides
Mag == IF cfg.ival < 0 THEN -cfg.ival ELSE cfg.ival
GoalReached(v) == cfg.goal # NoGoal /\ (IF cfg.dir = "down" THEN v <= cfg.goal ELSE v >= cfg.goal)
CounterHit(t, st) ==
    IF ~st.enabled \/ st.ignoreUntil # 0 THEN st
    ELSE LET v == st.value + Sign * Mag
             s1 == Emit([st EXCEPT !.value = v], "hit", v)
             s2 == IF GoalReached(v) THEN CompleteF(t, s1) ELSE s1
         IN IF cfg.window > 0 THEN [s2 EXCEPT !.ignoreUntil = t + cfg.window] ELSE s2
\* add / subtract / jump control events of a counter: change the count, then check for completion
CounterSet(t, st, v) == IF GoalReached(v) THEN CompleteF(t, [st EXCEPT !.value = v]) ELSE [st EXCEPT !.value = v]
AccrualHit(t, st, k) ==
    IF ~st.enabled THEN st
    ELSE LET s1 == IF k \in st.steps THEN st ELSE Emit([st EXCEPT !.steps = @ \cup {k}], "hit", k)
         IN IF s1.steps = 0..(cfg.n - 1) THEN CompleteF(t, s1) ELSE s1
\* a sequence step listens to event cfg.ev[step]; the same event may be listed for several (also consecutive) steps: one
\* posting of it advances at most one step - the current one, if that is the event it waits for
WaitsFor(st, k) == st.value >= 0 /\ st.value < cfg.n /\ cfg.ev[st.value + 1] = k
SequenceHit(t, st, k) ==
    IF ~st.enabled \/ ~WaitsFor(st, k) THEN st
    ELSE LET s1 == Emit([st EXCEPT !.value = @ + 1], "hit", st.value + 1)
         IN IF s1.value >= cfg.n THEN CompleteF(t, s1) ELSE s1
TimeoutF(t, st) == ResetF(t, Emit([st EXCEPT !.timeoutAt = 0], "timeout", 0))
Fresh == [value |-> cfg.start, steps |-> {}, enabled |-> FALSE, completed |-> FALSE, ignoreUntil |-> 0, timeoutAt |-> 0, out |-> <<>>]
Init == /\ cfg \in Configs /\ now = 0 /\ nops = 0 /\ act = [op |-> "init"]
        /\ s = (IF cfg.startEnabled THEN TimerStart(0, [Fresh EXCEPT !.enabled = TRUE]) ELSE Fresh)
NothingDue == (s.ignoreUntil # 0 => s.ignoreUntil > now) /\ (s.timeoutAt # 0 => s.timeoutAt > now)
Call(st2, a) == /\ NothingDue /\ nops < MaxOps /\ s' = st2 /\ nops' = nops + 1 /\ act' = a /\ UNCHANGED <<cfg, now>>
Hit(k) == /\ (cfg.kind = "counter" => k = 0) /\ (cfg.kind = "accrual" => k < cfg.n)
          /\ (cfg.kind = "sequence" => \E i \in 1..cfg.n : cfg.ev[i] = k)
          /\ Call(IF cfg.kind = "counter" THEN CounterHit(now, Clr(s))
                  ELSE IF cfg.kind = "accrual" THEN AccrualHit(now, Clr(s), k) ELSE SequenceHit(now, Clr(s), k),
                  [op |-> "hit", k |-> k])
Enable  == Call(EnableF(now, Clr(s)), [op |-> "enable"])
Disable == Call(DisableF(Clr(s)), [op |-> "disable"])
Reset   == Call(ResetF(now, Clr(s)), [op |-> "reset"])
Restart == Call(EnableF(now, ResetF(now, Clr(s))), [op |-> "restart"])
AddV(v) == cfg.kind = "counter" /\ Call(CounterSet(now, Clr(s), s.value + v), [op |-> "add", k |-> v])
SubV(v) == cfg.kind = "counter" /\ Call(CounterSet(now, Clr(s), s.value - v), [op |-> "subtract", k |-> v])
JumpV(v) == cfg.kind = "counter" /\ Call(CounterSet(now, Clr(s), v), [op |-> "jump", k |-> v])
\* one time unit passes; the hit window ends and/or the block times out at the new instant
Adv == /\ NothingDue /\ now < MaxTime /\ now' = now + 1
       /\ LET c  == Clr(s)
              c1 == IF c.ignoreUntil = now + 1 THEN [c EXCEPT !.ignoreUntil = 0] ELSE c
              c2 == IF c1.timeoutAt = now + 1 THEN TimeoutF(now + 1, c1) ELSE c1
          IN s' = c2
       /\ act' = [op |-> "adv"] /\ UNCHANGED <<cfg, nops>>
Next == \/ Enable \/ Disable \/ Reset \/ Restart \/ Adv
        \/ \E k \in 0..3 : Hit(k)
        \/ \E v \in Vals : AddV(v) \/ SubV(v)
        \/ \E v \in JVals : JumpV(v)
Spec == Init /\ [][Next]_vars
\* ---- statement of C18 over single steps ----------------------------------------------------------------
Has(st, e) == \E i \in DOMAIN st.out : st.out[i][1] = e
NHits(st) == Cardinality({i \in DOMAIN st.out : st.out[i][1] = "hit"})
NCompl(st) == Cardinality({i \in DOMAIN st.out : st.out[i][1] = "complete"})
\* a hit on a counter changes the count by exactly interval*direction iff it is accepted (enabled and
\* outside the window), posts exactly one hit event then, and changes nothing otherwise
CounterHitExact == [][ (act'.op = "hit" /\ cfg.kind = "counter") =>
    IF s.enabled /\ s.ignoreUntil = 0
    THEN NHits(s') = 1 /\ (s'.value = s.value + Sign * Mag \/ (Has(s', "complete") /\ cfg.resetOC /\ s'.value = cfg.start))
    ELSE s' = Clr(s) ]_vars
HitsWhileDisabledInert == [][ (act'.op = "hit" /\ ~s.enabled) => s' = Clr(s) ]_vars
\* at most one completion event per step, only from a not-yet-completed block, and exactly when the goal is reached
CompleteOnce == [][ NCompl(s') <= 1 /\ (Has(s', "complete") => ~s.completed) ]_vars
CompleteWhenGoal == [][ (act'.op = "hit" /\ cfg.kind = "counter" /\ s.enabled /\ s.ignoreUntil = 0 /\ ~s.completed)
                          => (Has(s', "complete") <=> GoalReached(s.value + Sign * Mag)) ]_vars
ThenResetOrDisable == [][ Has(s', "complete") => /\ (cfg.disableOC => ~s'.enabled)
                                                 /\ (cfg.resetOC => ~s'.completed /\ (cfg.kind = "accrual" => s'.steps = {})) ]_vars
SequenceStrict == [][ (act'.op = "hit" /\ cfg.kind = "sequence") =>
                         IF s.enabled /\ WaitsFor(s, act'.k)
                         THEN NHits(s') = 1 /\ (s'.value = s.value + 1 \/ (Has(s', "complete") /\ cfg.resetOC))
                         ELSE s' = Clr(s) ]_vars
AccrualAnyOrder == [][ (act'.op = "hit" /\ cfg.kind = "accrual" /\ s.enabled /\ act'.k \notin s.steps) => Has(s', "hit") ]_vars
WindowReopens == s.ignoreUntil # 0 => s.ignoreUntil >= now
TypeOK == now \in 0..MaxTime /\ s.enabled \in BOOLEAN /\ s.completed \in BOOLEAN
=============================================================================
