-------------------------- MODULE LogicBlocksTrace --------------------------
EXTENDS LogicBlocks, TraceIO
VARIABLES tid, l
tvars == <<vars, tid, l>>
TL == TraceLines[tid].ev
TNoGoal == -99
TConfigs == {}
TInit == /\ tid \in 1..Len(TraceLines) /\ l = 1 /\ cfg = TraceLines[tid].cfg /\ now = 0 /\ nops = 0 /\ act = [op |-> "init"]
         /\ LET c == TraceLines[tid].cfg
                f == [value |-> c.start, steps |-> {}, enabled |-> c.startEnabled, completed |-> FALSE, ignoreUntil |-> 0,
                      timeoutAt |-> IF c.startEnabled /\ c.timeout > 0 THEN c.timeout ELSE 0, out |-> <<>>]
            IN s = f
\* observed: the hit / complete / timeout events of the step, and value / enabled / completed afterwards
Obs(e) == /\ s'.out = e.out /\ s'.enabled = e.enabled /\ s'.completed = e.completed
          /\ (IF cfg.kind = "accrual" THEN s'.steps = SeqToSet(e.steps) ELSE s'.value = e.value)
Step(e) ==
    /\ \/ e.op = "hit" /\ Hit(e.k)
       \/ e.op = "enable" /\ Enable
       \/ e.op = "disable" /\ Disable
       \/ e.op = "reset" /\ Reset
       \/ e.op = "restart" /\ Restart
       \/ e.op = "add" /\ AddV(e.k)
       \/ e.op = "subtract" /\ SubV(e.k)
       \/ e.op = "jump" /\ JumpV(e.k)
       \/ e.op = "adv" /\ Adv
       \/ e.op = "obs" /\ UNCHANGED vars
    /\ (e.op = "obs" => s.enabled = e.enabled /\ s.completed = e.completed /\ (cfg.kind # "accrual" => s.value = e.value))
    /\ (e.op # "obs" => Obs(e))
TNext == l <= Len(TL) /\ Step(TL[l]) /\ l' = l + 1 /\ UNCHANGED tid
TSpec == TInit /\ [][TNext]_tvars
Reporter == TraceReport(tid, l, Len(TL))
=============================================================================
