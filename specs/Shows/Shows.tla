------------------------------- MODULE Shows -------------------------------
(* Reference model of running shows (mpf/assets/show.py RunningShow, show_controller                *)
(* replace_or_advance_show, show_player, light_player contexts) in abstract integer time units.     *)
(* Several show slots run concurrently on the same lights.  All transitions are functions on a      *)
(* "world" record [st, lights, out] so that the call chains of the code (timer -> _run_next_step -> *)
(* stop -> start_callback -> stop of the replaced show ...) are transcribed one to one.             *)
(*   st[sh]     per slot: ph (none / wait = waiting for its sync point / run / done), idx = next      *)
(*              step index (0-based, may be out of range until normalised), cur = last executed     *)
(*              step (1-based), loops left, speed <<num, den>>, manual, nextT = nominal (absolute)  *)
(*              time of the next step, armed = a timer for nextT is pending, late = by how much the *)
(*              loop will fire that timer late, startcb = slot to stop when this show starts,       *)
(*              repl = replaced under its show_player key, base/acc = history for OnSchedule,       *)
(*              hp/hs/hc = how often played / stopped / completed were posted (saturating at 2)     *)
(*              zomb = the show completed by itself and show_player still holds the instance       *)
(*   lights[x]  set of stack entries [key = slot (the show context), prio, col, st = start_time,    *)
(*              until = end of its fade (0: none), out = it is the fade-out left by a removal,      *)
(*              from = the colour the fade starts at (-1: not determined by the statement: it was   *)
(*              taken while something on the light was still fading, or from entries beneath)]      *)
(*   coil       set of slots (contexts) that hold the coil enabled                                  *)
(*   out[sh]    what the last action made slot sh do: steps <<k, tExec, tNominal>> and events       *)
(* Configuration: cfg.fades[x] = the default fade of light x in units (0: none): the fade-in of steps *)
(* that name no fade of their own and the fade-out of every removal; a slot's fd[k] = the fade the  *)
(* k-th step gives for its light (-1: none given, the light's default applies).  cfg.dsync = the machine-wide mpf: default_show_sync_ms (units, 0: none); a slot's  *)
(* sync is -1 (sync_ms not given: the machine default applies), 0 (explicitly none: the show starts *)
(* at once whatever the default) or its own grid.  same = n: the slot is the SAME play request as   *)
(* slot n (same show_player entry: key, show, config), arriving again.  quiet: the request names no *)
(* played / stopped events and blocks no queue, so replace_or_advance_show may keep the instance    *)
(* that already runs that very config instead of replacing it.                                      *)
EXTENDS Integers, Sequences, FiniteSets, TLC
CONSTANTS Configs,      \* set of records [id, sh |-> << slot configs >>]
          MaxTime, MaxOps,
          Lates,        \* lateness values the environment may pick for a pending show timer
          AdvN, BackN,  \* arguments of advance(steps=n) / step_back(steps=n)
          Speeds,       \* arguments of update(speed=)
          NL,           \* number of lights (light x has the default fade cfg.fades[x], in units)
          OddOps,       \* also issue requests to shows that are over, and resume to shows that are not paused
          Deviations    \* named code-as-is deviations from the statement (empty: the statement)
VARIABLES cfg, now, st, lights, coil, out, nops, act
vars == <<cfg, now, st, lights, coil, out, nops, act>>

Slots == 1..Len(cfg.sh)
Lights == 1..NL
C(sh) == cfg.sh[sh]
NSteps(sh) == Len(C(sh).durs)
\* duration of step k at speed sp (configs keep this integral)
Ttn(sh, k, sp) == (C(sh).durs[k] * sp[2]) \div sp[1]
Exact(sh, sp) == \A k \in 1..NSteps(sh) : C(sh).durs[k] > 0 => (C(sh).durs[k] * sp[2]) % sp[1] = 0
\* next point of the sync grid strictly after t (RunningShow._start_play)
SyncT(t, s) == ((t \div s) + 1) * s
\* the sync grid of a play request (ShowController.create_show_config): only a request that does not say falls back to
\* the machine-wide default; an explicit 0 means "start immediately"
ESync(sh) == IF C(sh).sync < 0 THEN cfg.dsync ELSE C(sh).sync
\* the request this slot repeats (itself if it is an original)
Root(sh) == IF C(sh).same = 0 THEN sh ELSE C(sh).same
\* only show_player requests put their instance under a key
Keyed(sh) == C(sh).via = "player"
SameKey(x, sh) == x # sh /\ Keyed(x) /\ Keyed(sh) /\ C(x).key = C(sh).key
Inc(n) == IF n >= 2 THEN 2 ELSE n + 1
Fade(x) == cfg.fades[x]
\* the fade of step k of slot sh on its light x
StepFade(sh, k, x) == IF C(sh).fd[k] >= 0 THEN C(sh).fd[k] ELSE Fade(x)

EmitEv(w, sh, evs) == [w EXCEPT !.out[sh].ev = @ \o evs]
EmitStep(w, sh, k, t, nom) == [w EXCEPT !.out[sh].steps = Append(@, <<k, t, nom>>)]
Count(q, x) == Cardinality({i \in DOMAIN q : q[i] = x})

\* The colour a light shows DURING a fade is fixed by the statement only for a fade that runs alone: it starts while
\* everything on the light is at rest (Calm) and no other fade starts on the light before it ends.  A fade that starts
\* into another one, and the one it starts into, are left open (from = -1): only their ends count
\* (a fade that ends at the very instant counts as still running: which of the two comes first is not ours to say)
Calm(E, t) == \A e \in E : e.until = 0 \/ e.until < t
Unsettle(E, t) == {[e EXCEPT !.from = IF e.until > t THEN -1 ELSE @] : e \in E}
\* RunningShow.stop: idempotent; an unused start callback is called; contexts of all players are cleared
\* (light entries by key removed, enabled coils disabled); the stop callback (queue.clear) runs; stopped is posted
RECURSIVE StopF(_, _, _)
StopF(w, sh, t) ==
    LET s == w.st[sh] IN
    IF s.ph \notin {"wait", "run"} THEN w
    ELSE LET w1 == [w EXCEPT !.st[sh].ph = "done", !.st[sh].armed = FALSE, !.st[sh].late = 0,
                             !.st[sh].startcb = 0, !.st[sh].hs = Inc(@)]
             w2 == IF s.startcb # 0 THEN StopF(w1, s.startcb, t) ELSE w1
             \* light_player.clear_context -> remove_from_stack_by_key with the light's default fade: the entry is
             \* removed at once, or turned into a fade-out entry that a delay removes when the fade has elapsed
             \* the fade-out starts at the colour the entry shows at that moment: its own colour when the light is at rest
             w3 == [w2 EXCEPT !.lights = [x \in Lights |->
                                 IF Fade(x) = 0 \/ ~\E f \in w2.lights[x] : f.key = sh /\ ~f.out
                                 THEN {e \in w2.lights[x] : e.key # sh \/ e.out}
                                 ELSE Unsettle({e \in w2.lights[x] : e.key # sh \/ e.out}, t) \cup
                                      {[e EXCEPT !.col = -2, !.st = t, !.until = t + Fade(x), !.out = TRUE,
                                                 !.from = IF Calm(w2.lights[x], t) THEN e.col ELSE -1] :
                                            e \in {f \in w2.lights[x] : f.key = sh /\ ~f.out}}],
                              !.coil = IF sh \in w2.coil /\ "CoilSharedDisable" \in Deviations THEN {} ELSE @ \ {sh}]
         IN EmitEv(w3, sh, (IF C(sh).blockq THEN <<"qdone">> ELSE <<>>) \o <<"stopped">>)

\* the players of step k run (at time t) with start_time = the step's nominal time.  A fade that starts on a light at
\* rest starts at the colour the show itself has on the light, or at "off" when nothing lies beneath the new entry (as
\* on a clean light); with other entries beneath, or started mid-fade, the statement does not fix the start colour
StepEffects(w, sh, k, nom, t) ==
    LET x == C(sh).lt[k]
        f == StepFade(sh, k, x)
        own == {e \in w.lights[x] : e.key = sh}
        fr == IF ~Calm(w.lights[x], t) THEN -1
              ELSE IF own # {} THEN (CHOOSE e \in own : TRUE).col
              ELSE IF \A e \in w.lights[x] : e.prio > C(sh).prio THEN 0 ELSE -1
        w1 == IF x = 0 THEN w
              ELSE [w EXCEPT !.lights[x] = (IF f > 0 /\ nom + f > t THEN Unsettle({e \in @ : e.key # sh}, t)
                                                                   ELSE {e \in @ : e.key # sh}) \cup
                                 {[key |-> sh, prio |-> C(sh).prio, col |-> C(sh).col[k], st |-> nom,
                                   until |-> IF f > 0 THEN nom + f ELSE 0, out |-> FALSE,
                                   from |-> IF f > 0 THEN fr ELSE -1]}]
        cv == C(sh).coil[k]
    IN IF cv = 1 THEN [w1 EXCEPT !.coil = @ \cup {sh}] ELSE w1

\* RunningShow._run_next_step executing at time t; evs = events of the caller (played)
RunNext(w, sh, t, evs) ==
    LET s == w.st[sh]
        N == NSteps(sh)
        i0 == IF s.idx < 0 THEN s.idx % N ELSE s.idx
        wrap == i0 >= N
    IN IF wrap /\ s.loops = 0
       THEN EmitEv([StopF(w, sh, t) EXCEPT !.st[sh].hc = Inc(@), !.st[sh].zomb = ~s.repl], sh, evs \o <<"completed">>)
       ELSE LET i == IF wrap THEN 0 ELSE i0
                k == i + 1
                lp == IF wrap /\ s.loops > 0 THEN s.loops - 1 ELSE s.loops
                ev2 == IF wrap THEN evs \o <<"looped">> ELSE evs
                arm == ~s.manual /\ C(sh).durs[k] > 0
                w1 == EmitStep(StepEffects(w, sh, k, s.nextT, t), sh, k, t, s.nextT)
                s2 == [s EXCEPT !.idx = i + 1, !.cur = k, !.loops = lp, !.armed = arm, !.late = 0,
                                \* ABSOLUTE accumulation: the next step is due at the nominal time of this one plus
                                \* its duration - not at "when this one actually ran" plus its duration
                                !.nextT = IF arm THEN @ + Ttn(sh, k, s.sp) ELSE @,
                                !.acc = IF arm THEN @ + C(sh).durs[k] ELSE @]
            IN EmitEv([w1 EXCEPT !.st[sh] = s2], sh, ev2)

\* RunningShow._start_now
StartNowF(w, sh, t) ==
    LET s == w.st[sh]
        w1 == IF s.startcb # 0 THEN StopF(w, s.startcb, t) ELSE w
        w2 == [w1 EXCEPT !.st[sh].startcb = 0, !.st[sh].ph = "run", !.st[sh].armed = FALSE, !.st[sh].late = 0,
                         !.st[sh].hp = Inc(@)]
    IN RunNext(w2, sh, t, <<"played">>)

Fresh == [ph |-> "none", idx |-> 0, cur |-> 0, loops |-> 0, sp |-> <<1, 1>>, manual |-> FALSE, nextT |-> 0,
          armed |-> FALSE, late |-> 0, startcb |-> 0, repl |-> FALSE, zomb |-> FALSE, base |-> 0, acc |-> 0,
          hp |-> 0, hs |-> 0, hc |-> 0]

\* a manual control request (advance / step_back / resume) runs a step now: the schedule restarts from the present
RebaseAt(w, sh, t) == [w EXCEPT !.st[sh].armed = FALSE, !.st[sh].late = 0, !.st[sh].nextT = t,
                                !.st[sh].base = t, !.st[sh].acc = 0]

\* show_player._play -> replace_or_advance_show -> play_with_config -> RunningShow.__init__/_start_play
PlayF(w, sh, t) ==
    LET c == C(sh)
        N == NSteps(sh)
        sy == ESync(sh)
        \* the instance show_player holds under the key of the request (any phase: waiting for its sync point, or running)
        P == {x \in Slots : SameKey(x, sh) /\ w.st[x].ph \in {"wait", "run"} /\ ~w.st[x].repl}
        p == IF P = {} THEN 0 ELSE CHOOSE x \in P : TRUE
        \* the very same request again, and nothing (played / stopped events, a blocked queue) depends on a new instance:
        \* a show that has EXECUTED its step start-1 or start already is only advanced / left alone.  A show that has not
        \* started yet (it waits for its sync point: cur = 0) is at no step: it is replaced like any other
        keep == p # 0 /\ Root(p) = Root(sh) /\ c.quiet /\ ~c.blockq /\ w.st[p].sp = c.sp /\ w.st[p].cur > 0
        idx0 == IF c.start > 0 THEN c.start - 1 ELSE IF c.start < 0 THEN c.start % N ELSE 0
        \* the key now belongs to the new instance
        wA == [w EXCEPT !.st = [x \in Slots |-> IF SameKey(x, sh)
                                                THEN [w.st[x] EXCEPT !.repl = (x = p) \/ @, !.zomb = FALSE] ELSE w.st[x]]]
        \* without sync the replaced show is stopped at once, with sync when the new show starts
        wB == IF p # 0 /\ sy = 0 THEN StopF(wA, p, t) ELSE wA
        t0 == IF sy > 0 THEN SyncT(t, sy) ELSE t
        s1 == [Fresh EXCEPT !.ph = IF sy > 0 THEN "wait" ELSE "run", !.idx = idx0, !.loops = c.loops,
                            !.sp = c.sp, !.manual = c.manual, !.nextT = t0, !.armed = sy > 0,
                            !.startcb = IF sy > 0 THEN p ELSE 0, !.base = t0]
        wC == [wB EXCEPT !.st[sh] = s1]
    IN IF keep /\ w.st[p].cur = c.start THEN w
       ELSE IF keep /\ w.st[p].cur + 1 = c.start THEN RunNext(RebaseAt(w, p, t), p, t, <<>>)
       ELSE IF sy > 0 THEN wC ELSE StartNowF(wC, sh, t)

\* the loop runs the pending timer of slot sh at time t
Fire(w, sh, t) ==
    IF w.st[sh].ph = "wait" THEN StartNowF(w, sh, t)
    ELSE RunNext([w EXCEPT !.st[sh].armed = FALSE, !.st[sh].late = 0], sh, t, <<>>)
Due(w, sh, t) == w.st[sh].armed /\ w.st[sh].nextT + w.st[sh].late <= t
\* the delays that end fade-outs
Expire(w, t) == [w EXCEPT !.lights = [x \in Lights |-> {e \in w.lights[x] : ~(e.out /\ e.until <= t)}]]
\* all timers due by t run (a show that is behind catches up at once); shows in either order
RECURSIVE FireSet(_, _)
FireSet(w, t) == LET D == {sh \in Slots : Due(w, sh, t)}
                 IN IF D = {} THEN {w} ELSE UNION {FireSet(Fire(w, sh, t), t) : sh \in D}

Init == /\ cfg \in Configs /\ now = 0 /\ nops = 0 /\ act = [op |-> "init"]
        /\ st = [sh \in 1..Len(cfg.sh) |-> Fresh]
        /\ lights = [x \in Lights |-> {}] /\ coil = {}
        /\ out = [sh \in 1..Len(cfg.sh) |-> [steps |-> <<>>, ev |-> <<>>]]

W == [st |-> st, lights |-> lights, coil |-> coil, out |-> [sh \in Slots |-> [steps |-> <<>>, ev |-> <<>>]]]
Commit(w, a) == st' = w.st /\ lights' = w.lights /\ coil' = w.coil /\ out' = w.out /\ act' = a
Op(w, a) == nops < MaxOps /\ Commit(w, a) /\ nops' = nops + 1 /\ UNCHANGED <<cfg, now>>
Live(sh) == st[sh].ph = "run" /\ ~st[sh].repl
Rebase(w, sh) == RebaseAt(w, sh, now)

Play(sh) == st[sh].ph = "none" /\ Op(PlayF(W, sh, now), [op |-> "play", sh |-> sh])
Stop(sh) == st[sh].ph \in {"wait", "run"} /\ ~st[sh].repl /\ Op(StopF(W, sh, now), [op |-> "stop", sh |-> sh])
\* pause only removes the pending timer; resume runs the next step at once and re-bases the schedule
Pause(sh) == Live(sh) /\ st[sh].armed
             /\ Op([W EXCEPT !.st[sh].armed = FALSE, !.st[sh].late = 0], [op |-> "pause", sh |-> sh])
Resume(sh) == Live(sh) /\ ~st[sh].armed /\ Op(RunNext(Rebase(W, sh), sh, now, <<>>), [op |-> "resume", sh |-> sh])
Advance(sh, n) == Live(sh)
                  /\ Op(RunNext([Rebase(W, sh) EXCEPT !.st[sh].idx = @ + n - 1], sh, now, <<>>),
                        [op |-> "advance", sh |-> sh, n |-> n])
AdvanceTo(sh, k) == Live(sh)
                    /\ Op(RunNext([Rebase(W, sh) EXCEPT !.st[sh].idx = k - 1], sh, now, <<>>),
                          [op |-> "advance_to", sh |-> sh, k |-> k])
StepBack(sh, n) == Live(sh)
                   /\ Op(RunNext([Rebase(W, sh) EXCEPT !.st[sh].idx = @ - (n + 1)], sh, now, <<>>),
                         [op |-> "step_back", sh |-> sh, n |-> n])
\* the new speed applies from the next step that is armed
Update(sh, sp) == Live(sh) /\ sp # st[sh].sp /\ Exact(sh, sp)
                  /\ Op([W EXCEPT !.st[sh].sp = sp, !.st[sh].base = st[sh].nextT, !.st[sh].acc = 0],
                        [op |-> "update", sh |-> sh, sp |-> sp])
\* environment: the loop will run the pending timer of slot sh d units late
Late(sh, d) == st[sh].armed /\ st[sh].late = 0
               /\ Op([W EXCEPT !.st[sh].late = d], [op |-> "late", sh |-> sh, d |-> d])
\* ---- requests the statement gives no effect to (OddOps)
\* a request to a show that has completed (show_player still holds the instance under its key) does nothing;
\* stop then only forgets the instance
Over(sh) == OddOps /\ st[sh].ph = "done" /\ st[sh].zomb
ZStop(sh) == Over(sh) /\ Op([W EXCEPT !.st[sh].zomb = FALSE], [op |-> "stop", sh |-> sh])
ZCtl(sh, a) == Over(sh) /\ Op(W, a)
\* resume to a show that is not paused: on to the next step at once, the pending timer is replaced - there is one
\* schedule only (ShowsTrace also admits "nothing happens", the statement does not choose between the two)
ResumeArmed(sh) == /\ OddOps /\ Live(sh) /\ st[sh].armed
                   /\ Op(RunNext(Rebase(W, sh), sh, now, <<>>), [op |-> "resume", sh |-> sh])
\* one unit of time passes; every show timer due by then runs (StepDue)
Adv == /\ now < MaxTime /\ now' = now + 1
       /\ \E w \in FireSet(Expire(W, now + 1), now + 1) : Commit(w, [op |-> "adv"])
       /\ UNCHANGED <<cfg, nops>>
Next == \/ Adv
        \/ \E sh \in Slots : \/ Play(sh) \/ Stop(sh) \/ Pause(sh) \/ Resume(sh)
                             \/ \E n \in AdvN : Advance(sh, n)
                             \/ \E k \in 1..NSteps(sh) : AdvanceTo(sh, k)
                             \/ \E n \in BackN : StepBack(sh, n)
                             \/ \E sp \in Speeds : Update(sh, sp)
                             \/ \E d \in Lates : Late(sh, d)
                             \/ ZStop(sh) \/ ResumeArmed(sh)
                             \/ ZCtl(sh, [op |-> "pause", sh |-> sh]) \/ ZCtl(sh, [op |-> "resume", sh |-> sh])
                             \/ \E n \in AdvN : ZCtl(sh, [op |-> "advance", sh |-> sh, n |-> n])
                             \/ \E n \in BackN : ZCtl(sh, [op |-> "step_back", sh |-> sh, n |-> n])
Spec == Init /\ [][Next]_vars

\* ------------------------------------------------------------------ the statement of C17
Solid(x) == {e \in lights[x] : ~e.out}
Top(x) == IF Solid(x) = {} THEN 0
          ELSE (CHOOSE e \in Solid(x) : \A f \in Solid(x) : f.prio <= e.prio).col
AtRest(x) == \A e \in lights[x] : e.until <= now
Owned(sh) == {x \in Lights : \E e \in lights[x] : e.key = sh}
Sched(s) == IF s.armed THEN s.nextT ELSE -1
TypeOK == /\ now \in 0..MaxTime
          /\ \A sh \in Slots : /\ st[sh].ph \in {"none", "wait", "run", "done"}
                               /\ Exact(sh, st[sh].sp)
                               /\ st[sh].armed => st[sh].ph \in {"wait", "run"}
                               /\ st[sh].armed => st[sh].nextT + st[sh].late > now      \* nothing overdue at rest
\* OnSchedule: no cumulative drift - while a show runs undisturbed since its last (re)start at `base`, the nominal time of
\* its next step is base + (sum of the durations of the steps executed since) / speed EXACTLY, whatever the lateness
\* of the timers so far; and no step ever executes before its nominal time
OnSchedule == \A sh \in Slots : (st[sh].ph = "run" /\ st[sh].armed)
                 => st[sh].nextT * st[sh].sp[1] = st[sh].base * st[sh].sp[1] + st[sh].acc * st[sh].sp[2]
NeverEarly == \A sh \in Slots : \A i \in DOMAIN out[sh].steps : out[sh].steps[i][2] >= out[sh].steps[i][3]
\* a show waiting for its sync point starts on the sync grid
SyncOnGrid == \A sh \in Slots : (st[sh].ph = "wait") => (ESync(sh) > 0 /\ st[sh].nextT % ESync(sh) = 0)
\* a request with no sync grid (explicit 0, or none given and no machine default) never waits; one with a grid is never
\* started by the request itself
SyncHonoured == [][\A sh \in Slots : (st[sh].ph = "none" /\ st'[sh].ph # "none")
                       => IF ESync(sh) > 0 THEN st'[sh].ph = "wait" /\ out'[sh].steps = <<>>
                          ELSE st'[sh].ph # "wait" /\ out'[sh].steps # <<>> /\ out'[sh].steps[1][2] = now]_vars
\* under one show_player key at most one show is running: the show a synced request replaces plays on alone until the
\* new one starts, and is stopped at that very moment - however many requests arrived while the new one was waiting
KeyExclusive == \A x, y \in Slots : (SameKey(x, y) /\ st[x].ph = "run") => st[y].ph # "run"
ReplacedAtStart == [][\A sh \in Slots : (st[sh].ph = "wait" /\ st'[sh].ph = "run")
                          => /\ now' >= st[sh].nextT
                             /\ out'[sh].steps # <<>> /\ out'[sh].steps[1][3] = st[sh].nextT
                             /\ st[sh].startcb # 0 => st'[st[sh].startcb].ph = "done"]_vars
\* EventsOnce
EventsOnce == \A sh \in Slots : /\ st[sh].hp <= 1 /\ st[sh].hs <= 1 /\ st[sh].hc <= 1
                                /\ (st[sh].ph = "done") <=> (st[sh].hs = 1)
                                /\ (st[sh].ph = "run") => (st[sh].hp = 1)
                                /\ (st[sh].hc = 1) => (st[sh].hs = 1)
\* timer-driven steps walk the show in order; looped is posted exactly once per wrap, completed only after the last
\* step of the last loop, and the loop counter goes down by one per wrap
InOrder(sh) == LET q == out'[sh].steps
                   N == NSteps(sh)
                   prev(i) == IF i = 1 THEN st[sh].cur ELSE q[i - 1][1]
                   wraps == {i \in DOMAIN q : prev(i) = N}
               IN (st[sh].ph = "run") =>
                  /\ \A i \in DOMAIN q : q[i][1] = (IF prev(i) = N THEN 1 ELSE prev(i) + 1)
                  /\ Count(out'[sh].ev, "looped") = Cardinality(wraps)
                  /\ (st[sh].loops >= 0 /\ st'[sh].ph = "run") => st'[sh].loops = st[sh].loops - Cardinality(wraps)
                  /\ Count(out'[sh].ev, "completed") = 1
                        => (st[sh].loops - Cardinality(wraps) = 0 /\ (IF q = <<>> THEN st[sh].cur ELSE q[Len(q)][1]) = N)
LoopsAndCompletion == [][act'.op = "adv" => \A sh \in Slots : InOrder(sh)]_vars
\* ControlSemantics: the first step is the requested start step; sync starts exactly on the grid (lateness aside)
StartStep == [][\A sh \in Slots : (st[sh].hp = 0 /\ st'[sh].hp = 1 /\ out'[sh].steps # <<>>)
                    => LET c == C(sh) IN
                       /\ out'[sh].steps[1][1] = (IF c.start > 0 THEN c.start ELSE IF c.start < 0 THEN NSteps(sh) + c.start + 1 ELSE 1)
                       /\ out'[sh].steps[1][3] = (IF ESync(sh) > 0 THEN st[sh].nextT ELSE now)]_vars
PausedIsSilent == [][\A sh \in Slots : (act'.op = "adv" /\ ~st[sh].armed) => out'[sh].steps = <<>>]_vars
\* CleanAfterStop: a stopped or completed show owns nothing, holds no coil, and has released its queue
CleanAfterStop == \A sh \in Slots : (st[sh].ph = "done")
                      => /\ \A x \in Lights : \A e \in lights[x] : e.key = sh => (e.out /\ e.until > now)
                         /\ sh \notin coil
\* NoResidue - the same on the light stacks themselves: every entry on a light is the colour of a show that runs, or the
\* fade-out of a show that is over - and that only until the light's fade time after its stop has passed.  Nothing of a
\* stopped show remains, whatever lies above it on the light (a higher show still holding an opaque colour), whatever the
\* order in which the shows on the light end
NoResidue == \A x \in Lights : \A e \in lights[x] :
                 IF e.out THEN st[e.key].ph = "done" /\ e.st <= now /\ now < e.until /\ e.until = e.st + Fade(x)
                 ELSE st[e.key].ph = "run"
\* once every show is over and the fade-outs have run out the lights are off and their stacks are empty
OffWhenAllOver == ((\A sh \in Slots : st[sh].ph \in {"none", "done"}) /\ (\A x \in Lights : AtRest(x)))
                     => \A x \in Lights : lights[x] = {} /\ Top(x) = 0
\* a stop request leaves the entries of every other show exactly as they are
StopTouchesOnlyOwn == [][act'.op = "stop" => \A x \in Lights : \A e \in lights[x] :
                             (st'[e.key].ph = st[e.key].ph /\ ~e.out)
                                 => \E g \in lights'[x] : [g EXCEPT !.from = e.from] = e]_vars
\* ---- the visible colour while at most one fade is in progress on a light (priorities on the light all different):
\* the top entry at rest shows its colour; a fade-in runs linearly from its start colour to its colour, a fade-out from
\* the colour it took over to whatever lies beneath - exactly as on a light that never saw the shows that are over
Pal == <<<<0, 0, 0>>, <<255, 0, 0>>, <<0, 255, 0>>, <<0, 0, 255>>, <<255, 255, 255>>>>
Rgb(c) == Pal[c + 1]
Active(x) == {e \in lights[x] : e.until > now}
TopE(x) == CHOOSE e \in lights[x] : \A f \in lights[x] : f.prio <= e.prio
Beneath(x, e) == LET B == {f \in lights[x] : f.prio < e.prio /\ ~f.out}
                 IN IF B = {} THEN 0 ELSE (CHOOSE f \in B : \A g \in B : g.prio <= f.prio).col
VisKnown(x) == /\ Cardinality(Active(x)) <= 1
               /\ \A e, f \in lights[x] : e # f => e.prio # f.prio
               /\ lights[x] # {} => (TopE(x).until > now => TopE(x).from >= 0)
Blend(a, b, num, den) == [i \in 1..3 |-> a[i] + ((b[i] - a[i]) * num) \div den]
Vis(x) == IF lights[x] = {} THEN Rgb(0)
          ELSE LET e == TopE(x) IN
               IF e.until <= now THEN Rgb(e.col)
               ELSE Blend(Rgb(e.from), Rgb(IF e.out THEN Beneath(x, e) ELSE e.col), now - e.st, e.until - e.st)
QueueReleasedAtEnd == [][\A sh \in Slots : Count(out'[sh].ev, "qdone") = (IF C(sh).blockq /\ st[sh].ph # "done" /\ st'[sh].ph = "done" THEN 1 ELSE 0)]_vars
=============================================================================
