----------------------------- MODULE ShowsTrace -----------------------------
(* Every recorded execution of real shows must be a behaviour of Shows.  Each line names the request  *)
(* (or "adv" = one time unit elapsed, "late" = the loop will run the show's pending timer d units     *)
(* late) and carries, per show slot, what was observed at the devices and on the event bus:          *)
(*   S[sh].steps  <<k, t>>      step k posted its step event at time t (in units)                      *)
(*   S[sh].ev     the played / looped / completed / stopped events of the show and "qdone" (the        *)
(*                blocked queue event was released) seen during this line                              *)
(*   S[sh].sched  the time handed to loop.call_at for the show's pending timer (-1: none) - the        *)
(*                NOMINAL time of the next step, whatever the lateness so far                          *)
(*   S[sh].own    <<light, priority, start_time, colour, dest_time>> of the light stack entries with   *)
(*                the show's context key (colour -2: the fade-out entry left by a removal)             *)
(*   lg[l]        logical colour of light l;   co  the coil is enabled                                *)
(*   ref[sh][l]   colour of light l in the differential run of the same schedule without slot sh;      *)
(*   refco[sh]    coil state in that run                                                               *)
EXTENDS Shows, TraceIO
VARIABLES tid, l
tvars == <<vars, tid, l>>
Ev == TraceLines[tid].ev
TInit == /\ tid \in 1..Len(TraceLines) /\ l = 1
         /\ cfg = TraceLines[tid].cfg /\ now = 0 /\ nops = 0 /\ act = [op |-> "init"]
         /\ st = [sh \in 1..Len(TraceLines[tid].cfg.sh) |-> Fresh]
         /\ lights = [x \in Lights |-> {}] /\ coil = {}
         /\ out = [sh \in 1..Len(TraceLines[tid].cfg.sh) |-> [steps |-> <<>>, ev |-> <<>>]]
Kinds == {"played", "looped", "completed", "stopped", "qdone"}
Cnt(q) == [k \in Kinds |-> Count(q, k)]
Proj(q) == [i \in DOMAIN q |-> <<q[i][1], q[i][2]>>]
OwnSet(sh) == UNION {{<<x, e.prio, e.st, e.col, e.until>> : e \in {f \in lights[x] : f.key = sh}} : x \in Lights}
OwnOf(sh) == OwnSet(sh)
\* slots that share no show_player key with another slot: removing their Play changes nothing else
Alone(sh) == \A x \in Slots \ {sh} : C(x).key # C(sh).key
Obs(e) ==
    /\ \A sh \in Slots :
          /\ Proj(out'[sh].steps) = e.S[sh].steps                           \* OnSchedule / ControlSemantics
          /\ Cnt(out'[sh].ev) = Cnt(e.S[sh].ev)                             \* EventsOnce
          /\ Sched(st'[sh]) = e.S[sh].sched                                 \* OnSchedule (no drift)
          /\ OwnOf(sh)' = SeqToSet(e.S[sh].own)                             \* CleanAfterStop / start_time of effects
          \* "as if it had never run": once the show is over the devices equal those of the run without it
          /\ (Alone(sh) /\ st'[sh].ph \in {"none", "done"} /\ Owned(sh)' = {} /\ \A x \in Lights : AtRest(x)')
                => (e.ref[sh] = e.lg /\ (e.refco[sh] = e.co \/ "CoilSharedDisable" \in Deviations))
    /\ \A x \in Lights : AtRest(x)' => Top(x)' = e.lg[x]
    /\ (coil' # {}) = e.co
\* whatever request reaches a show that is over has no effect (the observations of the line must show none)
Void(sh) == st[sh].ph = "done" /\ Op(W, [op |-> "void", sh |-> sh])
\* resume to a show that is not paused: the statement also admits that nothing happens
ResumeNoop(sh) == Live(sh) /\ st[sh].armed /\ Op(W, [op |-> "resume", sh |-> sh])
\* the driver found no pending timer to delay
LateVoid(sh) == ~st[sh].armed /\ Op(W, [op |-> "late", sh |-> sh])
Step(e) ==
    /\ \/ e.op = "play" /\ Play(e.sh)
       \/ e.op = "stop" /\ (Stop(e.sh) \/ ZStop(e.sh) \/ Void(e.sh))
       \/ e.op = "pause" /\ (Pause(e.sh) \/ Void(e.sh))
       \/ e.op = "resume" /\ (Resume(e.sh) \/ ResumeArmed(e.sh) \/ ResumeNoop(e.sh) \/ Void(e.sh))
       \/ e.op = "advance" /\ (Advance(e.sh, e.n) \/ Void(e.sh))
       \/ e.op = "advance_to" /\ (AdvanceTo(e.sh, e.k) \/ Void(e.sh))
       \/ e.op = "step_back" /\ (StepBack(e.sh, e.n) \/ Void(e.sh))
       \/ e.op = "update" /\ (Update(e.sh, e.sp) \/ Void(e.sh))
       \/ e.op = "late" /\ (Late(e.sh, e.d) \/ LateVoid(e.sh))
       \/ e.op = "adv" /\ Adv
    /\ Obs(e)
TNext == l <= Len(Ev) /\ Step(Ev[l]) /\ l' = l + 1 /\ UNCHANGED tid
TConfigs == {}
TSpeeds == {}
TSpec == TInit /\ [][TNext]_tvars
Reporter == TraceReport(tid, l, Len(Ev))
=============================================================================
