----------------------------- MODULE ShowsTrace -----------------------------
(* Every recorded execution of real shows must be a behaviour of Shows.  Each line names the request  *)
(* (or "adv" = one time unit elapsed, "late" = the loop will run the show's pending timer d units     *)
(* late) and carries, per show slot, what was observed at the devices and on the event bus:          *)
(*   S[sh].steps  <<k, t>>      step k posted its step event at time t (in units)                      *)
(*   S[sh].ev     the played / looped / completed / stopped events of the show and "qdone" (the        *)
(*                blocked queue event was released) seen during this line                              *)
(*   S[sh].sched  the time handed to loop.call_at for the show's pending timer (-1: none) - the        *)
(*                NOMINAL time of the next step, whatever the lateness so far                          *)
(*   S[sh].own    <<light, priority, start_time, colour, dest_time>> of the light stack entries with   *)
(*                the show's context key (colour -2: the fade-out entry left by a removal)             *)
(*   S[sh].live   the RunningShow of the slot exists and is not stopped                                *)
(*   lg[l]        logical colour of light l;   co  the coil is enabled                                *)
(*   stk[l]       the whole stack of light l, whoever put the entries there: <<slot, priority, it is a *)
(*                fade-out>> per entry (slot 0: the key is that of no show of this schedule)           *)
(*   rgb[l], hw[l]  the logical colour of light l and the colour its hardware channels show, as        *)
(*                <<r, g, b>> (0..255)                                                                 *)
(* Slots that repeat the request of another slot (same) post the same events: what the event bus      *)
(* shows is recorded under the original slot and compared with what the whole group does; sched, own  *)
(* and live are per instance.  A play request that returned an instance that existed before created  *)
(* none: its slot has no RunningShow (live = FALSE, no timer, no entries).                            *)
(*   ref[sh][l]   colour of light l in the differential run of the same schedule without slot sh;      *)
(*   refco[sh]    coil state in that run                                                               *)
(* The variable seen holds the stacks as observed after the last line: NoResidueSeen is the clean-up   *)
(* statement on what the lights really hold.  With StrictOwn the step relation itself demands that    *)
(* the observed stacks are exactly the model's (a residue then shows as an unexplained line); without *)
(* it the model's entries must be there and everything else on the stacks is left to the monitor.     *)
EXTENDS Shows, TraceIO
CONSTANTS StrictOwn,    \* the observed stack entries must be exactly those of the model
          HwTol         \* tolerance of colour comparisons (rounding of blends), in 1/255
VARIABLES tid, l, seen
tvars == <<vars, tid, l, seen>>
Ev == TraceLines[tid].ev
TInit == /\ tid \in 1..Len(TraceLines) /\ l = 1
         /\ cfg = TraceLines[tid].cfg /\ now = 0 /\ nops = 0 /\ act = [op |-> "init"]
         /\ st = [sh \in 1..Len(TraceLines[tid].cfg.sh) |-> Fresh]
         /\ lights = [x \in Lights |-> {}] /\ coil = {}
         /\ out = [sh \in 1..Len(TraceLines[tid].cfg.sh) |-> [steps |-> <<>>, ev |-> <<>>]]
         /\ seen = [x \in Lights |-> {}]
Kinds == {"played", "looped", "completed", "stopped", "qdone"}
Cnt(q) == [k \in Kinds |-> Count(q, k)]
Proj(q) == [i \in DOMAIN q |-> <<q[i][1], q[i][2]>>]
OwnSet(sh) == UNION {{<<x, e.prio, e.st, e.col, e.until>> : e \in {f \in lights[x] : f.key = sh}} : x \in Lights}
OwnOf(sh) == OwnSet(sh)
\* slots that share no show_player key with another slot: removing their Play changes nothing else
Alone(sh) == \A x \in Slots \ {sh} : C(x).key # C(sh).key
\* the slots that are one and the same request
Group(sh) == {x \in Slots : Root(x) = sh}
RECURSIVE Cat(_, _, _)
Cat(F, G, i) == IF i > Len(F) THEN <<>> ELSE (IF i \in G THEN F[i] ELSE <<>>) \o Cat(F, G, i + 1)
BagEq(q, r) == Len(q) = Len(r) /\ \A i \in DOMAIN q : Count(q, q[i]) = Count(r, q[i])
\* a request that names no played / stopped events shows the other kinds only
Seen(sh) == IF C(sh).quiet THEN Kinds \ {"played", "stopped"} ELSE Kinds
StkOf(x) == {<<e.key, e.prio, e.out>> : e \in lights[x]}
Abs(n) == IF n < 0 THEN -n ELSE n
Near(a, b) == \A i \in 1..3 : Abs(a[i] - b[i]) <= HwTol
Obs(e) ==
    /\ \A sh \in Slots :
          \* OnSchedule / ControlSemantics / EventsOnce: the steps and events on the bus
          /\ IF Group(sh) = {sh}
             THEN /\ Proj(out'[sh].steps) = e.S[sh].steps
                  /\ \A k \in Seen(sh) : Count(out'[sh].ev, k) = Count(e.S[sh].ev, k)
             ELSE /\ BagEq(Cat([x \in Slots |-> Proj(out'[x].steps)], Group(sh), 1), e.S[sh].steps)
                  /\ \A k \in Seen(sh) : Count(Cat([x \in Slots |-> out'[x].ev], Group(sh), 1), k) = Count(e.S[sh].ev, k)
          /\ Sched(st'[sh]) = e.S[sh].sched                                 \* OnSchedule (no drift)
          /\ (st'[sh].ph \in {"wait", "run"}) = e.S[sh].live                \* sync / replacement / stop
          /\ IF StrictOwn \/ st'[sh].ph \in {"wait", "run"}                \* CleanAfterStop / start_time of effects
             THEN OwnOf(sh)' = SeqToSet(e.S[sh].own)
             ELSE OwnOf(sh)' \subseteq SeqToSet(e.S[sh].own)
          \* "as if it had never run": once the show is over the devices equal those of the run without it
          /\ (Alone(sh) /\ st'[sh].ph \in {"none", "done"} /\ Owned(sh)' = {} /\ \A x \in Lights : AtRest(x)')
                => (e.ref[sh] = e.lg /\ (e.refco[sh] = e.co \/ "CoilSharedDisable" \in Deviations))
    /\ \A x \in Lights : AtRest(x)' => Top(x)' = e.lg[x]
    \* the stacks hold the entries of the shows and nothing else
    /\ \A x \in Lights : IF StrictOwn THEN StkOf(x)' = SeqToSet(e.stk[x]) /\ Len(e.stk[x]) = Cardinality(lights'[x])
                          ELSE StkOf(x)' \subseteq SeqToSet(e.stk[x])
    \* the logical colour and the hardware are those of the remaining shows (or off); a fade on a light where nothing
    \* else is fading runs between its ends as on a clean light
    /\ \A x \in Lights : VisKnown(x)' => (Near(e.rgb[x], Vis(x)') /\ Near(e.hw[x], Vis(x)'))
    /\ (coil' # {}) = e.co
\* whatever request reaches a show that is over has no effect (the observations of the line must show none)
Void(sh) == st[sh].ph = "done" /\ Op(W, [op |-> "void", sh |-> sh])
\* resume to a show that is not paused: the statement also admits that nothing happens
ResumeNoop(sh) == Live(sh) /\ st[sh].armed /\ Op(W, [op |-> "resume", sh |-> sh])
\* the driver found no pending timer to delay
LateVoid(sh) == ~st[sh].armed /\ Op(W, [op |-> "late", sh |-> sh])
Step(e) ==
    /\ \/ e.op = "play" /\ Play(e.sh)
       \/ e.op = "stop" /\ (Stop(e.sh) \/ ZStop(e.sh) \/ Void(e.sh))
       \/ e.op = "pause" /\ (Pause(e.sh) \/ Void(e.sh))
       \/ e.op = "resume" /\ (Resume(e.sh) \/ ResumeArmed(e.sh) \/ ResumeNoop(e.sh) \/ Void(e.sh))
       \/ e.op = "advance" /\ (Advance(e.sh, e.n) \/ Void(e.sh))
       \/ e.op = "advance_to" /\ (AdvanceTo(e.sh, e.k) \/ Void(e.sh))
       \/ e.op = "step_back" /\ (StepBack(e.sh, e.n) \/ Void(e.sh))
       \/ e.op = "update" /\ (Update(e.sh, e.sp) \/ Void(e.sh))
       \/ e.op = "late" /\ (Late(e.sh, e.d) \/ LateVoid(e.sh))
       \/ e.op = "adv" /\ Adv
    /\ Obs(e)
TNext == /\ l <= Len(Ev) /\ Step(Ev[l]) /\ l' = l + 1 /\ UNCHANGED tid
         /\ seen' = [x \in Lights |-> SeqToSet(Ev[l].stk[x])]
\* no entry of a show that has stopped remains once its fade-out time has passed; no entry of anything but the shows
NoResidueSeen == \A x \in Lights : \A r \in seen[x] :
                    /\ r[1] \in Slots
                    /\ st[r[1]].ph \in {"wait", "run"} \/ \E e \in lights[x] : e.key = r[1] /\ e.out /\ e.until > now
\* for the run that NAMES what rejected traces show (StrictOwn = FALSE): an INVARIANT that reports every state
\* NoResidueSeen rejects instead of stopping at the first one, so that one TLC run names all of them
ResidueReport == NoResidueSeen \/ PrintT("RESIDUE " \o ToString(tid) \o " " \o ToString(l))
TConfigs == {}
TSpeeds == {}
TSpec == TInit /\ [][TNext]_tvars
Reporter == TraceReport(tid, l, Len(Ev))
=============================================================================
