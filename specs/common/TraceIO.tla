------------------------------- MODULE TraceIO -------------------------------
(* Shared plumbing for trace validation: one ndjson line per recorded execution. *)
EXTENDS Naturals, Sequences, TLC, Json, IOUtils
TraceLines == ndJsonDeserialize(IOEnv.TRACE_FILE)
Verbose == IOEnv.VERBOSE = "1"
\* evaluated as an INVARIANT: reports consumed traces ("ACCEPT tid") and, when VERBOSE=1, positions
TraceReport(tid, l, len) == /\ (l = len + 1) => PrintT("ACCEPT " \o ToString(tid))
                       /\ Verbose => PrintT("AT " \o ToString(tid) \o " " \o ToString(l))
SeqToSet(s) == {s[i] : i \in DOMAIN s}
=============================================================================
