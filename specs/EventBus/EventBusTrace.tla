---------------------------- MODULE EventBusTrace ----------------------------
(* Every recorded execution of the real EventManager must be a behaviour of EventBus.  Logged:    *)
(* post / add_handler / remove_handler calls, handler invocations with the kwargs received,       *)
(* handler returns, completion callbacks with their kwargs.  Begin and EndDispatch are inferred.  *)
EXTENDS EventBus, TraceIO
VARIABLES tid, l
tvars == <<vars, tid, l>>
TL == TraceLines[tid].ev
TCondSet == {-1, 1}
TInit == /\ tid \in 1..Len(TraceLines) /\ l = 1 /\ Init
Step(e) ==
    \/ e.op = "post" /\ Post(e.ev, e.ty, e.cb, e.c)
    \/ e.op = "add" /\ AddHandler(e.h, e.ev, e.prio, e.hk, e.cond)
    \/ e.op = "remove" /\ RemoveHandler(e.h)
    \/ e.op = "replace" /\ ReplaceHandler(e.h, e.prio)
    \/ e.op = "invoke" /\ cur = e.inst /\ (\E h \in snap : h.id = e.h /\ Invoke(h)) /\ act'.a = e.a /\ act'.c = e.c /\ act'.r = e.r
    \/ e.op = "ret" /\ Ret(e.val)
    \/ e.op = "callback" /\ Callback /\ act'.inst = e.inst /\ act'.a = e.a /\ act'.res = e.res
    \/ e.op = "cbend" /\ CbEnd
    \/ e.op = "quiesce" /\ Quiet /\ UNCHANGED vars
TNext == \/ l <= Len(TL) /\ Step(TL[l]) /\ l' = l + 1 /\ UNCHANGED tid
         \/ (Begin \/ EndDispatch) /\ UNCHANGED <<tid, l>>
TSpec == TInit /\ [][TNext]_tvars
Reporter == TraceReport(tid, l, Len(TL))
=============================================================================
