----------------------------- MODULE EventBusMC -----------------------------
(* Design check: the queue mechanics of EventBus satisfy the declarative statement of C01,       *)
(* recorded over a history of dispatch begins, deliveries and callbacks.                          *)
EXTENDS EventBus
MCCondSet == {-1, 1}
VARIABLE hist     \* sequence of [k: "begin"|"invoke"|"callback", i, h, prio, regAtBegin]
mcvars == <<vars, hist>>
MCInit == Init /\ hist = <<>>
Rec == IF act'.op = "begin" THEN <<[k |-> "begin", i |-> cur', h |-> "", prio |-> 0]>>
       ELSE IF act'.op = "invoke" THEN <<[k |-> "invoke", i |-> cur, h |-> act'.h,
                                          prio |-> (CHOOSE x \in snap : x.id = act'.h).prio]>>
       ELSE IF act'.op = "callback" THEN <<[k |-> "callback", i |-> act'.inst, h |-> "", prio |-> 0]>>
       ELSE <<>>
MCNext == Next /\ hist' = hist \o Rec
MCSpec == MCInit /\ [][MCNext]_mcvars

RECURSIVE LexLess(_, _)
LexLess(p, q) == IF p = <<>> THEN q # <<>>
                 ELSE IF q = <<>> THEN FALSE
                 ELSE IF Head(p) # Head(q) THEN Head(p) < Head(q) ELSE LexLess(Tail(p), Tail(q))
IsPrefix(p, q) == Len(p) <= Len(q) /\ SubSeq(q, 1, Len(p)) = p
Begins == SelectSeq(hist, LAMBDA r : r.k = "begin")
\* "Events posted while an event is being handled are dispatched after that event's remaining handlers
\* and before any event that was already waiting": dispatches begin in the pre-order of the posting
\* forest (children in posting order, top-level posts as roots in posting order), i.e. in
\* lexicographic order of the instances' paths.
DepthFirst == \A x, y \in DOMAIN Begins : x < y => LexLess(inst[Begins[x].i].path, inst[Begins[y].i].path)
\* handlers of one dispatch are invoked in non-increasing priority order and never twice
PriorityOrder == \A x, y \in DOMAIN hist : (x < y /\ hist[x].k = "invoke" /\ hist[y].k = "invoke" /\ hist[x].i = hist[y].i)
                    => hist[x].prio >= hist[y].prio /\ hist[x].h # hist[y].h
\* handlers of different events never interleave: between two invokes of instance i there is no begin
Serial == \A x, y, z \in DOMAIN hist : (x < y /\ y < z /\ hist[x].k = "invoke" /\ hist[z].k = "invoke"
                                        /\ hist[x].i = hist[z].i) => hist[y].k # "begin"
\* a completion callback runs at most once and only when its whole posting subtree has been dispatched
CallbackOnce == \A x, y \in DOMAIN hist : (x < y /\ hist[x].k = "callback" /\ hist[y].k = "callback") => hist[x].i # hist[y].i
CallbackAfterSubtree ==
    [][ act'.op = "callback" =>
          \A j \in DOMAIN inst : IsPrefix(inst[act'.inst].path, inst[j].path) => status[j] \in {"done", "dropped"} ]_mcvars
\* when a dispatch ends every handler that was registered at its begin, still is, and whose condition
\* holds has been invoked (unless a boolean event was stopped)
Complete == [][ act'.op = "end" /\ ~stopped =>
                  \A h \in snap : (CondOK(h) /\ h.id \in Ids(reg)) =>
                      \E x \in DOMAIN hist : hist[x].k = "invoke" /\ hist[x].i = cur /\ hist[x].h = h.id ]_mcvars
\* nothing is left behind
EventuallyQuiet == <>[](Quiet \/ nops = MaxOps)
=============================================================================
