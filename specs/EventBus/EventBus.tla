------------------------------ MODULE EventBus ------------------------------
(* Reference model of mpf.core.events.EventManager for plain, boolean and relay events.          *)
(* The three queues of process_event_queue are abstracted to `newp` (posts made since the last   *)
(* dispatch ended = event_queue) and `agenda` (everything already waiting = next_queue followed  *)
(* by the suspended inner queues).  One handler invocation is two steps (Invoke .. Ret); the     *)
(* handler's own posts / add_handler / remove_handler calls happen in between.                   *)
EXTENDS Integers, Sequences, FiniteSets, TLC
CONSTANTS Ev, Hid, Prio, MaxPosts, MaxOps, Deviations, TySet, HkSet, CondSet, CSet
VARIABLES reg,      \* registered handlers: set of [id, ev, prio, hk, cond]  (cond = -1: none, else required kwarg c)
          inst,     \* posted instances: sequence of [ev, ty, cb, c, parent, path]
          nchild,   \* [0..n -> Nat] number of events posted so far by each instance (0 = top level)
          newp, agenda,   \* pending instance ids (see above)
          cur,      \* instance being dispatched (0 = none)
          snap,     \* handlers of cur's event when its dispatch began
          done,     \* ids of snapshot handlers already invoked or skipped
          relay,    \* value of kwarg "a" that the next handler will receive
          stopped,  \* a boolean event's handler returned False
          inh,      \* handler currently executing ("" = none)
          incb,     \* instance whose completion callback is executing (0 = none)
          cbq,      \* completed instances whose callback has not run yet (callback_queue)
          status,   \* sequence over instances: "pending" | "running" | "done" | "dropped"
          nops, act
vars == <<reg, inst, nchild, newp, agenda, cur, snap, done, relay, stopped, inh, incb, cbq, status, nops, act>>

Init == /\ reg = {} /\ inst = <<>> /\ nchild = <<0>> /\ newp = <<>> /\ agenda = <<>> /\ cur = 0 /\ snap = {}
        /\ done = {} /\ relay = "p" /\ stopped = FALSE /\ inh = "" /\ incb = 0 /\ cbq = <<>> /\ status = <<>>
        /\ nops = 0 /\ act = [op |-> "init"]
Ids(S) == {h.id : h \in S}
Pending == newp \o agenda
Idle == cur = 0 /\ inh = "" /\ incb = 0
NChild(i) == nchild[i + 1]
\* --- posting: from a handler (child of cur), from a completion callback or from top level (roots)
Post(e, ty, cb, c) ==
    /\ Len(inst) < MaxPosts /\ nops < MaxOps
    \* process_event_queue runs to completion: code outside handlers and callbacks can only post
    \* while nothing is waiting (other than its own earlier posts of the same burst)
    /\ (inh # "" \/ incb # 0 \/ (cur = 0 /\ agenda = <<>> /\ cbq = <<>>))
    /\ LET i == Len(inst) + 1
           par == IF inh # "" THEN cur ELSE 0
           path == (IF par = 0 THEN <<>> ELSE inst[par].path) \o <<NChild(par) + 1>>
           drop == "FastPathDrop" \in Deviations /\ ~cb /\ ~\E h \in reg : h.ev = e
       IN /\ inst' = Append(inst, [ev |-> e, ty |-> ty, cb |-> cb, c |-> c, parent |-> par, path |-> path])
          /\ nchild' = Append([nchild EXCEPT ![par + 1] = @ + 1], 0)
          /\ newp' = IF drop THEN newp ELSE Append(newp, i)
          /\ status' = Append(status, IF drop THEN "dropped" ELSE "pending")
    /\ nops' = nops + 1
    /\ act' = [op |-> "post", ev |-> e, ty |-> ty, cb |-> cb, c |-> c]
    /\ UNCHANGED <<reg, agenda, cur, snap, done, relay, stopped, inh, incb, cbq>>
AddHandler(h, e, p, hk, cond) ==
    /\ h \notin Ids(reg) /\ nops < MaxOps /\ (inh # "" \/ incb # 0 \/ (cur = 0 /\ agenda = <<>> /\ cbq = <<>>))
    /\ reg' = reg \cup {[id |-> h, ev |-> e, prio |-> p, hk |-> hk, cond |-> cond]}
    /\ nops' = nops + 1 /\ act' = [op |-> "add", h |-> h, ev |-> e, prio |-> p, hk |-> hk, cond |-> cond]
    /\ UNCHANGED <<inst, nchild, newp, agenda, cur, snap, done, relay, stopped, inh, incb, cbq, status>>
RemoveHandler(h) ==
    /\ h \in Ids(reg) /\ nops < MaxOps /\ (inh # "" \/ incb # 0 \/ (cur = 0 /\ agenda = <<>> /\ cbq = <<>>))
    /\ reg' = {x \in reg : x.id # h}
    /\ nops' = nops + 1 /\ act' = [op |-> "remove", h |-> h]
    /\ UNCHANGED <<inst, nchild, newp, agenda, cur, snap, done, relay, stopped, inh, incb, cbq, status>>
\* --- the bus: take the next waiting event (new posts first, then what was already waiting)
Begin ==
    /\ Idle /\ Pending # <<>>
    /\ LET i == Head(Pending) IN
       /\ cur' = i /\ agenda' = Tail(Pending) /\ newp' = <<>>
       \* (c = -1 stands for a post without any kwargs: nothing is posted for a either)
       /\ snap' = {h \in reg : h.ev = inst[i].ev} /\ done' = {} /\ relay' = (IF inst[i].c = -1 THEN "MISSING" ELSE "p") /\ stopped' = FALSE
       /\ status' = [status EXCEPT ![i] = "running"]
    /\ act' = [op |-> "begin"]
    /\ UNCHANGED <<reg, inst, nchild, inh, incb, cbq, nops>>
Todo == {h \in snap : h.id \notin done}
\* conditions are evaluated at the handler's turn against the MERGED kwargs: codes 0/1 require the posted kwarg c to have
\* that value; 2 requires a = "h" (true exactly for a handler registered with its own a); 3 requires a = "p" (the posted
\* value: no own a, and no earlier relay handler has replaced it)
\* (code 9 = a condition the recorder of the repository's own tests cannot judge: the handler may or may not be called)
CondOK(h) == \/ h.cond = -1 \/ h.cond = 9 \/ (h.cond \in {0, 1} /\ h.cond = inst[cur].c)
             \/ (h.cond = 2 /\ h.hk) \/ (h.cond = 3 /\ ~h.hk /\ relay = "p")
\* a handler may be passed over if its condition is false or it has been removed meanwhile
Skippable(h) == ~CondOK(h) \/ h.cond = 9 \/ h.id \notin Ids(reg)
\* next handler: highest priority among those not yet invoked/skipped and not skippable
Invoke(h) ==
    /\ cur # 0 /\ inh = "" /\ ~stopped /\ h \in Todo /\ CondOK(h)
    /\ \A g \in Todo : (g.prio > h.prio) => Skippable(g)
    /\ inh' = h.id
    /\ done' = done \cup {h.id} \cup {g.id : g \in {x \in Todo : x.prio > h.prio}}
    \* r: a second relayed kwarg that no handler registers itself (what earlier relay handlers returned must reach every
    \* later handler, also one that has kwargs of its own)
    /\ act' = [op |-> "invoke", inst |-> cur, h |-> h.id, a |-> IF h.hk THEN "h" ELSE relay, c |-> inst[cur].c,
                r |-> IF relay \in {"p", "MISSING"} THEN "MISSING" ELSE relay]
    /\ UNCHANGED <<reg, inst, nchild, newp, agenda, cur, snap, relay, stopped, incb, cbq, status, nops>>
\* the handler returns: None, False (stops a boolean event) or a dict (updates a relay event's kwargs)
Ret(val) ==
    /\ inh # "" /\ cur # 0
    /\ stopped' = (stopped \/ (val = "false" /\ inst[cur].ty = "boolean"))
    /\ relay' = IF val = "dict" /\ inst[cur].ty = "relay" THEN inh ELSE relay
    /\ inh' = "" /\ act' = [op |-> "ret", val |-> val]
    /\ UNCHANGED <<reg, inst, nchild, newp, agenda, cur, snap, done, incb, cbq, status, nops>>
EndDispatch ==
    /\ cur # 0 /\ inh = "" /\ (stopped \/ \A h \in Todo : Skippable(h))
    /\ status' = [status EXCEPT ![cur] = "done"]
    /\ cbq' = IF inst[cur].cb THEN Append(cbq, [i |-> cur, a |-> relay, res |-> IF stopped THEN "false" ELSE "none"]) ELSE cbq
    /\ agenda' = newp \o agenda /\ newp' = <<>> /\ cur' = 0 /\ snap' = {} /\ done' = {}
    /\ act' = [op |-> "end"]
    /\ UNCHANGED <<reg, inst, nchild, relay, stopped, inh, incb, nops>>
\* completion callbacks run only when nothing is waiting; the most recent first
Callback ==
    /\ Idle /\ Pending = <<>> /\ cbq # <<>>
    /\ incb' = cbq[Len(cbq)].i /\ cbq' = SubSeq(cbq, 1, Len(cbq) - 1)
    /\ act' = [op |-> "callback", inst |-> cbq[Len(cbq)].i, a |-> cbq[Len(cbq)].a, res |-> cbq[Len(cbq)].res]
    /\ UNCHANGED <<reg, inst, nchild, newp, agenda, cur, snap, done, relay, stopped, inh, status, nops>>
\* replace_handler: the registration of h gets a new priority (a dispatch already under way keeps its snapshot)
ReplaceHandler(h, p) ==
    /\ (\E x \in reg : x.id = h /\ x.cond = -1) /\ nops < MaxOps
    /\ (inh # "" \/ incb # 0 \/ (cur = 0 /\ agenda = <<>> /\ cbq = <<>>))
    /\ reg' = {IF x.id = h THEN [x EXCEPT !.prio = p] ELSE x : x \in reg}
    /\ nops' = nops + 1 /\ act' = [op |-> "replace", h |-> h, prio |-> p]
    /\ UNCHANGED <<inst, nchild, newp, agenda, cur, snap, done, relay, stopped, inh, incb, cbq, status>>
CbEnd == /\ incb # 0 /\ incb' = 0 /\ act' = [op |-> "cbend"]
         /\ UNCHANGED <<reg, inst, nchild, newp, agenda, cur, snap, done, relay, stopped, inh, cbq, status, nops>>
Next == \/ \E e \in Ev, ty \in TySet, cb \in BOOLEAN, c \in CSet : Post(e, ty, cb, c)
        \/ \E h \in Hid, e \in Ev, p \in Prio, hk \in HkSet, cond \in CondSet : AddHandler(h, e, p, hk, cond)
        \/ \E h \in Hid : RemoveHandler(h) \/ \E p \in Prio : ReplaceHandler(h, p)
        \/ Begin \/ EndDispatch \/ Callback \/ CbEnd
        \/ \E h \in snap : Invoke(h)
        \/ \E v \in {"none", "false", "dict"} : Ret(v)
Spec == Init /\ [][Next]_vars
DefaultCondSet == {-1, 1}
FullCondSet == {-1, 0, 1, 2, 3}
Quiet == Idle /\ Pending = <<>> /\ cbq = <<>>
=============================================================================
