SPECIFICATION MCSpec
CONSTANTS
  Ev = {"e1", "e2"}
  Hid = {"h1", "h2"}
  Prio = {1, 2}
  MaxPosts = 3
  MaxOps = 5
  Deviations = {}
  TySet = {"plain", "boolean"}
  HkSet = {FALSE}
  CondSet <- DefaultCondSet
  CSet = {1}
INVARIANT DepthFirst
INVARIANT PriorityOrder
INVARIANT Serial
INVARIANT CallbackOnce
PROPERTY CallbackAfterSubtree
PROPERTY Complete
CHECK_DEADLOCK FALSE
