------------------------- MODULE EventBusSuiteTrace -------------------------
(* Traces recorded by lib/suite_rec.py from ANY run of the real EventManager - in particular from the          *)
(* repository's own tests - cut into segments (first post while nothing waits .. next quiescent point).        *)
(* Every segment must be a behaviour of EventBus started from the handlers registered when it began (reg0,     *)
(* restricted to the events posted in it).  Unlike EventBusTrace the recorder logs begin / end of every        *)
(* dispatch, so nothing is inferred.  Queue events take their turn in the same order (QBegin): with no handler *)
(* registered their callback joins the callback queue, otherwise a task is spawned whose handlers run outside  *)
(* the bus (their posts are top-level posts of a later segment; waiting and completion are C02's subject).     *)
(* Not judged here: kwargs (conditions and blocking facilities make a handler optional: cond = 9).             *)
EXTENDS EventBus, TraceIO
VARIABLES tid, l
tvars == <<vars, tid, l>>
TL == TraceLines[tid].ev
Reg0 == {[id |-> r.id, ev |-> r.ev, prio |-> r.prio, hk |-> FALSE, cond |-> r.cond] : r \in SeqToSet(TraceLines[tid].reg0)}
TInit == /\ tid \in 1..Len(TraceLines) /\ l = 1
         /\ reg = Reg0 /\ inst = <<>> /\ nchild = <<0>> /\ newp = <<>> /\ agenda = <<>> /\ cur = 0 /\ snap = {}
         /\ done = {} /\ relay = "p" /\ stopped = FALSE /\ inh = "" /\ incb = 0 /\ cbq = <<>> /\ status = <<>>
         /\ nops = 0 /\ act = [op |-> "init"]
QBegin(i) ==
    /\ Idle /\ Pending # <<>> /\ Head(Pending) = i /\ inst[i].ty = "queue"
    /\ agenda' = Tail(Pending) /\ newp' = <<>>
    /\ IF \E h \in reg : h.ev = inst[i].ev
       THEN /\ cbq' = cbq /\ status' = [status EXCEPT ![i] = "task"]
       ELSE /\ cbq' = Append(cbq, [i |-> i, a |-> "p", res |-> "none"]) /\ status' = [status EXCEPT ![i] = "done"]
    /\ act' = [op |-> "qbegin"]
    /\ UNCHANGED <<reg, inst, nchild, cur, snap, done, relay, stopped, inh, incb, nops>>
Step(e) ==
    \/ e.op = "post" /\ Post(e.ev, e.ty, e.cb, 0) /\ Len(inst') = e.inst
    \/ e.op = "add" /\ AddHandler(e.h, e.ev, e.prio, FALSE, e.cond)
    \/ e.op = "remove" /\ RemoveHandler(e.h)
    \/ e.op = "begin" /\ Pending # <<>> /\ inst[Head(Pending)].ty # "queue" /\ Begin /\ cur' = e.inst
    \/ e.op = "qbegin" /\ QBegin(e.inst)
    \/ e.op = "invoke" /\ cur = e.inst /\ (\E h \in snap : h.id = e.h /\ Invoke(h))
    \/ e.op = "ret" /\ Ret(e.val)
    \/ e.op = "end" /\ cur = e.inst /\ EndDispatch
    \/ e.op = "callback" /\ Callback /\ act'.inst = e.inst
    \/ e.op = "cbend" /\ CbEnd
    \/ e.op = "quiesce" /\ Quiet /\ UNCHANGED vars
TNext == l <= Len(TL) /\ Step(TL[l]) /\ l' = l + 1 /\ UNCHANGED tid
TSpec == TInit /\ [][TNext]_tvars
Reporter == TraceReport(tid, l, Len(TL))
=============================================================================
