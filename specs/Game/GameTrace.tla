------------------------------ MODULE GameTrace ------------------------------
(* Recorded per execution: every lifecycle event delivered (name, arguments, whether the driver's   *)
(* handler holds the queue event), every request the driver issues (kind, arguments, the context it *)
(* is issued from: "top" = loop settled, otherwise the name of the event whose handler issues it),  *)
(* and with every line game.balls_in_play, machine.game is None, len(player_list), the current       *)
(* player's number, ball and extra_balls.  The pieces of coroutine between events (Adv) and the      *)
(* callbacks of the player-add pipeline (PCreate, PComplete) are inferred.  A request from top      *)
(* level and a `rest` line require that the model cannot move on its own either (that is how a ball  *)
(* that does not end / a game that hangs is noticed).                                                *)
(* Lines marked `stale` (player_adding / player_added of a Player object that is not in the current   *)
(* game's player_list) are skipped.  The driver validates a crashed execution up to the crash and     *)
(* reports the crash itself; a rejected execution is re-validated with Deviations # {} to name the     *)
(* code-as-is deviation(s) that explain it.                                                            *)
EXTENDS Game, TraceIO
VARIABLES tid, l
tvars == <<vars, tid, l>>
TL == TraceLines[tid].ev
TConfigs == {}
TInit == /\ tid \in 1..Len(TraceLines) /\ l = 1 /\ InitWith(TraceLines[tid].cfg)
None(st) == ~GameOn(st)
NoP(st) == None(st) \/ st.cur = 0
ObsOK(st, e) == /\ e.none = None(st)
                /\ e.bip = (IF None(st) THEN 0 ELSE st.bip)
                /\ e.np = (IF None(st) THEN 0 ELSE st.np)
                /\ e.cur = (IF NoP(st) THEN 0 ELSE st.cur)
                /\ e.ball = (IF NoP(st) THEN 0 ELSE st.ball[st.cur])
                /\ e.extra = (IF NoP(st) THEN 0 ELSE st.extra[st.cur])
PBusy(st) == \/ st.nreq > 0 \/ st.ncb > 0
             \/ \E p \in P : st.padd[p] \in {"will", "posted", "added"} \/ (st.padd[p] = "dlv" /\ ~st.pheld[p])
Quiescent(st) == ~AdvEnabled(st) /\ st.pc # "posted" /\ ~PBusy(st)
CtxOK(e) == /\ (e.ctx = "top" => Quiescent(s))
            /\ (e.ctx \in MainEv => s.pc = "dlv" /\ s.pe = e.ctx)
\* the arguments the real event carried
ArgsOK(e) == /\ (e.name \in TurnEv => e.number = s.cur)
             /\ (e.name \in BallStartEv => /\ s.cur \in P /\ e.player = s.cur /\ e.ball = s.ball[s.cur]
                                           /\ e.x = s.isx /\ e.rem10 = cfg.bpg - s.ball[s.cur] + 10)
Ev(e) == \/ e.name \in MainEv /\ s.pe = e.name /\ ArgsOK(e) /\ Deliver /\ act'.hold = e.hold
         \/ e.name = "player_add_request" /\ DeliverReq /\ act'.deny = e.deny
         \/ e.name = "player_will_add" /\ e.number \in P /\ DeliverWill(e.number)
         \/ e.name = "player_adding" /\ e.number \in P /\ DeliverAdding(e.number) /\ act'.hold = e.hold
         \/ e.name = "player_added" /\ e.number \in P /\ DeliverAdded(e.number)
         \/ e.name = "ball_drain" /\ Do(DrainF(s, e.number), [op |-> "ev", name |-> "ball_drain"], k)
Req(e) == \/ e.kind = "end_ball" /\ EndBall
          \/ e.kind = "end_game" /\ EndGame
          \/ e.kind = "slam" /\ SlamTilt
          \/ e.kind = "setbip" /\ GameOn(s) /\ Do(SetBipF(s, e.n), [op |-> "req", kind |-> "setbip"], k)
          \/ e.kind = "award" /\ Award
          \/ e.kind = "add" /\ ReqAdd /\ act'.ok = e.ok
          \/ e.kind = "start" /\ Start
          \/ e.kind = "release" /\ Release /\ act'.name = e.name
          \/ e.kind = "prelease" /\ e.n \in P /\ PRelease(e.n)
          \/ e.kind = "drain" /\ UNCHANGED vars            \* only posts the relay event; its delivery is an `ev` line
Step(e) ==
    \* lines that belong to a player-add pipeline of an earlier game object say nothing about this game
    \/ e.stale /\ UNCHANGED vars
    \/ ~e.stale /\ e.op = "ev" /\ Ev(e) /\ ObsOK(s', e)
    \/ ~e.stale /\ e.op = "req" /\ CtxOK(e) /\ Req(e) /\ ObsOK(s', e)
    \/ ~e.stale /\ e.op = "rest" /\ Quiescent(s) /\ ObsOK(s, e) /\ UNCHANGED vars
Silent == (Adv \/ PCreate \/ \E p \in P : PComplete(p)) /\ UNCHANGED <<tid, l>>
TNext == \/ Silent
         \/ l <= Len(TL) /\ Step(TL[l]) /\ l' = l + 1 /\ UNCHANGED tid
TSpec == TInit /\ [][TNext]_tvars
Reporter == TraceReport(tid, l, Len(TL))
=============================================================================
