-------------------------------- MODULE Game --------------------------------
(* The game lifecycle of mpf/modes/game/code/game.py as the statement of C06 sees it.             *)
(* The coroutine Game._run is a program counter over the lifecycle events it posts:               *)
(*   pc = "posted"  event s.pe is on the event bus, its handlers have not run yet                  *)
(*   pc = "dlv"     the handlers of s.pe run / have run; for a queue event `held` says that a      *)
(*                  handler has registered a wait which is not cleared yet                          *)
(*   pc = "waitplayer" (_at_least_one_player_event), "live" (_end_ball_event), "idle", "boot"      *)
(* `Adv` is the piece of coroutine between two posts (silent in traces); `Deliver` runs handlers.  *)
(* The player-add pipeline (request_player_add -> player_add_request(boolean) -> [callback creates   *)
(* the Player: PCreate] -> player_will_add, player_adding(queue) -> [PComplete] -> player_added)     *)
(* runs concurrently with the coroutine, one instance per requested player.                          *)
(* Environment actions are enabled at every point.                                                 *)
(* Deviations (code as is, each contradicts the statement; empty set = the statement):             *)
(*   "ExtraBallAfterEndGame"  extra balls are still started after end_game()                        *)
(*   "NoPlayerHang"           end_game() before the first player exists: the game waits for ever    *)
(*   "LateAdd"                a player add is accepted after rotation to a player who has played    *)
(*                            ball 1 but whose next turn has not incremented his ball number yet     *)
(*   "AddRace"                two requests in flight are both accepted at max_players - 1            *)
(*   "FirstPlayerOvertaken"   a later player whose player_adding completes before player 1's becomes  *)
(*                            the first current player                                                *)
EXTENDS Integers, Sequences, FiniteSets, TLC
CONSTANTS Configs,      \* set of records [bpg, maxp, known]
          Deviations, PMax,
          MaxOps, MaxAwards, MaxHolds, MaxGames, QuietUntil, Holds, Denies
VARIABLES cfg, s, k, act
vars == <<cfg, s, k, act>>
P == 1..PMax
Zero == [p \in P |-> 0]
GWS == "game_will_start"         GSG == "game_starting"          GSD == "game_started"
TWS == "player_turn_will_start"  TSG == "player_turn_starting"   TSD == "player_turn_started"
BWS == "ball_will_start"         BSG == "ball_starting"          BSD == "ball_started"
BWE == "ball_will_end"           BEG == "ball_ending"            BED == "ball_ended"
TWE == "player_turn_will_end"    TEG == "player_turn_ending"     TED == "player_turn_ended"
GWE == "game_will_end"           GEG == "game_ending"            GED == "game_ended"
QueueEv == {GSG, TSG, BSG, BEG, TEG, GEG}
TurnEv == {TWS, TSG, TSD, TWE, TEG, TED}
BallStartEv == {BWS, BSG, BSD}
MainEv == {GWS, GSG, GSD, BWE, BEG, BED, GWE, GEG, GED} \cup TurnEv \cup BallStartEv
Fresh == [pc |-> "idle", pe |-> "none", held |-> FALSE, np |-> 0, cur |-> 0, ball |-> Zero, extra |-> Zero, bip |-> 0,
          ending |-> FALSE, slam |-> FALSE, flag |-> FALSE, alo |-> FALSE, drn |-> FALSE, isx |-> FALSE,
          nreq |-> 0, ncb |-> 0, padd |-> [p \in P |-> "none"], pheld |-> [p \in P |-> FALSE],
          \* monitors / ghosts
          cause |-> FALSE, endReq |-> FALSE, g |-> "idle", gp |-> 0, tc |-> Zero]
InitWith(c) == /\ cfg = c /\ s = Fresh /\ k = [ops |-> 0, aw |-> 0, holds |-> 0, games |-> 0, ev |-> 0]
               /\ act = [op |-> "init"]
Init == \E c \in Configs : InitWith(c)
GameOn(st) == st.pc \notin {"idle", "boot"}       \* machine.game is set
Post(st, e) == [st EXCEPT !.pc = "posted", !.pe = e, !.held = FALSE]
\* balls_in_play setter: clamp, and reaching zero from above sets the end-ball event
SetBipF(st, v) == LET w == IF v > cfg.known THEN cfg.known ELSE IF v < 0 THEN 0 ELSE v
                      hit == st.bip > 0 /\ w = 0
                  IN [st EXCEPT !.bip = w, !.flag = @ \/ hit, !.cause = @ \/ hit]
\* request_player_add: the guards of the real code, and what the statement needs on top
RealGuard(st) == ~st.ending /\ st.np < cfg.maxp /\ ~(st.cur # 0 /\ st.ball[st.cur] > 1)
LateWindow(st) == st.cur # 0 /\ st.ball[st.cur] >= 1 /\ st.pe \in {TWS, TSG} /\ st.pc \in {"posted", "dlv"}
Accept(st) == /\ RealGuard(st)
              /\ ("AddRace" \in Deviations \/ st.np + st.nreq + st.ncb < cfg.maxp)
              /\ ("LateAdd" \in Deviations \/ ~LateWindow(st))
\* ---- the coroutine --------------------------------------------------------------------------------------
IdealSkip(st) == "NoPlayerHang" \notin Deviations /\ st.ending /\ st.np = 0 /\ st.nreq = 0 /\ st.ncb = 0
\* a posted player_add_request is processed by the event bus before the coroutine gets its next turn
AdvEnabled(st) == /\ st.nreq = 0 /\ st.ncb = 0
                  /\ \/ st.pc = "boot"
                     \/ st.pc = "dlv" /\ ~st.held
                     \/ st.pc = "waitplayer" /\ (st.alo \/ IdealSkip(st))
                     \/ st.pc = "live" /\ st.flag
\* while not self.ending: _start_player_turn (rotating to the first player if there is none)
LoopHead(st) == IF st.ending THEN Post(st, GWE)
                ELSE Post([st EXCEPT !.cur = IF @ = 0 THEN 1 ELSE @], TWS)
\* _run_ball: the end-ball event is cleared BEFORE the ball starts, so requests during the start count
RunBall(st, x) == Post([st EXCEPT !.flag = FALSE, !.cause = FALSE, !.isx = x], BWS)
MoreBalls(st) == /\ st.extra[st.cur] > 0 /\ ~st.slam
                 /\ (~st.ending \/ "ExtraBallAfterEndGame" \in Deviations)
AdvF(st) ==
  CASE st.pc = "boot" -> [Fresh EXCEPT !.pc = "posted", !.pe = GWS, !.g = st.g]
    [] st.pc = "waitplayer" -> Post(st, GSD)
    [] st.pc = "live" -> Post([st EXCEPT !.drn = FALSE, !.bip = 0], BWE)
    [] OTHER ->
       CASE st.pe = GWS -> Post(st, GSG)
         [] st.pe = GSG -> IF st.np > 0 THEN [st EXCEPT !.pc = "waitplayer", !.alo = TRUE]
                           ELSE [st EXCEPT !.pc = "waitplayer", !.alo = FALSE,
                                           !.nreq = IF Accept(st) THEN @ + 1 ELSE @]     \* request_player_add()
         [] st.pe = GSD -> LoopHead(st)
         [] st.pe = TWS -> Post(st, TSG)
         [] st.pe = TSG -> Post([st EXCEPT !.ball[st.cur] = @ + 1], TSD)
         [] st.pe = TSD -> RunBall(st, FALSE)
         [] st.pe = BWS -> Post(st, BSG)
         [] st.pe = BSG -> Post([SetBipF(st, 1) EXCEPT !.drn = TRUE], BSD)
         [] st.pe = BSD -> [st EXCEPT !.pc = "live"]
         [] st.pe = BWE -> Post(st, BEG)
         [] st.pe = BEG -> Post(st, BED)
         [] st.pe = BED -> IF MoreBalls(st) THEN RunBall([st EXCEPT !.extra[st.cur] = @ - 1], TRUE)
                           ELSE Post(st, TWE)
         [] st.pe = TWE -> Post(st, TEG)
         [] st.pe = TEG -> Post(st, TED)
         [] st.pe = TED -> IF st.slam \/ (st.ball[st.cur] >= cfg.bpg /\ st.cur = st.np)
                           THEN Post([st EXCEPT !.ending = TRUE], GWE)
                           ELSE LoopHead([st EXCEPT !.cur = IF @ < st.np THEN @ + 1 ELSE 1])
         [] st.pe = GWE -> Post(st, GEG)
         [] st.pe = GEG -> Post(st, GED)
         [] st.pe = GED -> [st EXCEPT !.pc = "idle", !.pe = "none"]
\* ---- grammar monitor (independent of pc): stage after each delivered lifecycle event ---------------------
GPred(e) == CASE e = GWS -> {"idle"} [] e = GSG -> {GWS} [] e = GSD -> {GSG}
              [] e = TWS -> {"game"} [] e = TSG -> {TWS} [] e = TSD -> {TSG}
              [] e = BWS -> {"turn0", "turn1"} [] e = BSG -> {BWS} [] e = BSD -> {BSG}
              [] e = BWE -> {"ball"} [] e = BEG -> {BWE} [] e = BED -> {BEG}
              [] e = TWE -> {"turn1"} [] e = TEG -> {TWE} [] e = TED -> {TEG}
              [] e = GWE -> {"game"} [] e = GEG -> {GWE} [] e = GED -> {GEG}
GSucc(e) == CASE e = GSD -> "game" [] e = TSD -> "turn0" [] e = BSD -> "ball" [] e = BED -> "turn1"
              [] e = TED -> "game" [] e = GED -> "idle" [] OTHER -> e
\* the arguments the event carries are the current player / his ball number; the monitor compares them with its own count
GArgsOK(st) == LET e == st.pe IN
    /\ (e \in TurnEv => st.cur \in 1..st.np /\ (e = TWS \/ st.cur = st.gp))
    /\ (e \in BallStartEv => /\ st.cur = st.gp /\ st.ball[st.cur] = st.tc[st.cur] /\ st.ball[st.cur] >= 1
                             /\ (e = BWS => st.isx = (st.g = "turn1")))
DeliverF(st, h) == LET e == st.pe IN
    [st EXCEPT !.pc = "dlv", !.held = h,
               !.g = IF st.g \in GPred(e) /\ GArgsOK(st) THEN GSucc(e) ELSE "bad",
               !.gp = IF e = TWS THEN st.cur ELSE @,
               !.tc = IF e = TSD /\ st.cur \in P THEN [st.tc EXCEPT ![st.cur] = @ + 1] ELSE st.tc]
\* ---- steps -------------------------------------------------------------------------------------------------
Do(st2, a, k2) == s' = st2 /\ act' = a /\ k' = k2 /\ UNCHANGED cfg
Budget == k.ops < MaxOps /\ k.ev >= QuietUntil
Op1 == [k EXCEPT !.ops = @ + 1]
Adv == AdvEnabled(s) /\ Do(AdvF(s), [op |-> "adv"], k)
Deliver == /\ s.pc = "posted"
           /\ \E h \in (IF Holds /\ s.pe \in QueueEv /\ k.holds < MaxHolds THEN BOOLEAN ELSE {FALSE}) :
                Do(DeliverF(s, h), [op |-> "ev", name |-> s.pe, hold |-> h, number |-> 0, deny |-> FALSE],
                   [k EXCEPT !.ev = IF @ < QuietUntil THEN @ + 1 ELSE @, !.holds = IF h THEN @ + 1 ELSE @])
\* player-add pipeline
ReqAdd == /\ GameOn(s) /\ Budget /\ s.np + s.nreq + s.ncb < PMax
          /\ Do(IF Accept(s) THEN [s EXCEPT !.nreq = @ + 1] ELSE s, [op |-> "req", kind |-> "add", ok |-> Accept(s)], Op1)
\* the handlers of the boolean event run; its callback (which creates the player) runs once the bus has drained
DeliverReq == /\ s.nreq > 0
              /\ \E d \in (IF Denies /\ Budget THEN BOOLEAN ELSE {FALSE}) :
                   Do([s EXCEPT !.nreq = @ - 1, !.ncb = IF d THEN @ ELSE @ + 1],
                      [op |-> "ev", name |-> "player_add_request", hold |-> FALSE, number |-> 0, deny |-> d],
                      IF d THEN Op1 ELSE k)
\* _player_add_request_complete: posts player_will_add, creates the Player, posts player_adding
PCreate == /\ s.ncb > 0
           /\ Do([s EXCEPT !.ncb = @ - 1, !.np = @ + 1, !.padd[s.np + 1] = "will", !.ball[s.np + 1] = 0, !.extra[s.np + 1] = 0],
                 [op |-> "adv"], k)
DeliverWill(p) == /\ s.padd[p] = "will"
                  /\ Do([s EXCEPT !.padd[p] = "posted"], [op |-> "ev", name |-> "player_will_add", hold |-> FALSE, number |-> p, deny |-> FALSE], k)
DeliverAdding(p) == /\ s.padd[p] = "posted"
                    /\ \E h \in (IF Holds /\ k.holds < MaxHolds THEN BOOLEAN ELSE {FALSE}) :
                         Do([s EXCEPT !.padd[p] = "dlv", !.pheld[p] = h],
                            [op |-> "ev", name |-> "player_adding", hold |-> h, number |-> p, deny |-> FALSE],
                            [k EXCEPT !.holds = IF h THEN @ + 1 ELSE @])
\* _player_adding_complete: posts player_added, becomes the current player if there is none, wakes the game start
PComplete(p) == /\ s.padd[p] = "dlv" /\ ~s.pheld[p]
                /\ Do([s EXCEPT !.padd[p] = "added", !.alo = TRUE,
                                 !.cur = IF @ = 0 /\ (p = 1 \/ "FirstPlayerOvertaken" \in Deviations) THEN p ELSE @],
                      [op |-> "adv"], k)
DeliverAdded(p) == /\ s.padd[p] = "added"
                   /\ Do([s EXCEPT !.padd[p] = "done"], [op |-> "ev", name |-> "player_added", hold |-> FALSE, number |-> p, deny |-> FALSE], k)
\* environment
EndBall == GameOn(s) /\ Budget /\ Do([s EXCEPT !.flag = TRUE, !.cause = TRUE], [op |-> "req", kind |-> "end_ball"], Op1)
EndGame == GameOn(s) /\ Budget /\ Do([s EXCEPT !.ending = TRUE, !.flag = TRUE, !.cause = TRUE, !.endReq = TRUE],
                                     [op |-> "req", kind |-> "end_game"], Op1)
\* what Tilt.slam_tilt does to the game: game.slam_tilted = True, then (tilt) game.end_ball()
SlamTilt == GameOn(s) /\ Budget /\ Do([s EXCEPT !.slam = TRUE, !.flag = TRUE, !.cause = TRUE, !.endReq = TRUE],
                                      [op |-> "req", kind |-> "slam"], Op1)
SetBip(n) == GameOn(s) /\ Budget /\ Do(SetBipF(s, n), [op |-> "req", kind |-> "setbip", n |-> n], Op1)
\* the ball_drain relay event reaches Game.ball_drained only while that handler is registered
DrainF(st, n) == IF st.drn THEN SetBipF(st, st.bip - n) ELSE st
Drain(n) == /\ GameOn(s)
            /\ IF s.pc = "live" /\ ~s.flag THEN Do(DrainF(s, n), [op |-> "req", kind |-> "drain", n |-> n], k)
               ELSE Budget /\ Do(DrainF(s, n), [op |-> "req", kind |-> "drain", n |-> n], Op1)
Award == /\ GameOn(s) /\ s.cur # 0 /\ Budget /\ k.aw < MaxAwards
         /\ Do([s EXCEPT !.extra[s.cur] = @ + 1], [op |-> "req", kind |-> "award"], [Op1 EXCEPT !.aw = @ + 1])
Release == s.pc = "dlv" /\ s.held /\ Do([s EXCEPT !.held = FALSE], [op |-> "req", kind |-> "release", name |-> s.pe], k)
PRelease(p) == s.padd[p] = "dlv" /\ s.pheld[p] /\ Do([s EXCEPT !.pheld[p] = FALSE], [op |-> "req", kind |-> "prelease", n |-> p], k)
Start == s.pc = "idle" /\ k.games < MaxGames /\ Do([s EXCEPT !.pc = "boot"], [op |-> "req", kind |-> "start"], [k EXCEPT !.games = @ + 1])
Pipeline == DeliverReq \/ PCreate \/ \E p \in P : DeliverWill(p) \/ DeliverAdding(p) \/ PComplete(p) \/ DeliverAdded(p)
Env == \/ EndBall \/ EndGame \/ SlamTilt \/ Award \/ ReqAdd \/ Release \/ Start
       \/ \E n \in 0..(cfg.known + 1) : SetBip(n)
       \/ \E n \in 1..2 : Drain(n)
       \/ \E p \in P : PRelease(p)
Next == Adv \/ Deliver \/ Pipeline \/ Env
Spec == Init /\ [][Next]_vars
LiveSpec == Spec /\ WF_vars(Adv) /\ WF_vars(Deliver) /\ WF_vars(Pipeline)
\* ---- the statement of C06 --------------------------------------------------------------------------------
TypeOK == /\ s.pc \in {"idle", "boot", "posted", "dlv", "waitplayer", "live"}
          /\ s.np \in 0..PMax /\ s.cur \in 0..PMax /\ s.nreq >= 0 /\ s.ncb >= 0
          /\ (s.pc \in {"posted", "dlv", "live", "waitplayer"} => s.pe \in MainEv)
\* the delivered lifecycle events form the nesting grammar, with the right player and ball numbers
Grammar == s.g # "bad"
\* balls in play stays between zero and the number of balls known
BipRange == 0 <= s.bip /\ s.bip <= cfg.known
\* for each ball number the players play in order, one turn each: the ball numbers form a staircase,
\* nobody plays more than balls_per_game, nobody joins beyond max_players
OneTurnPerBallNumber ==
    /\ s.np <= cfg.maxp
    /\ \A p \in 1..s.np : s.ball[p] <= cfg.bpg
    /\ \A p, q \in 1..s.np : p < q => s.ball[q] <= s.ball[p] /\ s.ball[p] <= s.ball[q] + 1
\* the game ends only when it was ended / slam tilted, or everybody has played every ball
NaturalEnd == (GameOn(s) /\ s.pe \in {GWE, GEG, GED}) =>
                  (s.endReq \/ (s.np >= 1 /\ \A p \in 1..s.np : s.ball[p] = cfg.bpg))
\* a turn is one ball plus one per extra ball: after a ball the turn goes on iff the player holds an extra ball
TurnIsOnePlusExtras ==
    [][(s.pc = "dlv" /\ s.pe = BED /\ s'.pc = "posted") =>
         IF s'.pe = BWS THEN /\ s.extra[s.cur] > 0 /\ ~s.slam /\ ~s.ending
                             /\ s'.extra[s.cur] = s.extra[s.cur] - 1 /\ s'.isx
         ELSE s'.pe = TWE /\ (s.extra[s.cur] = 0 \/ s.slam \/ s.ending)]_vars
\* ball_will_end only after balls in play reached zero or an end was requested since this ball began to start ...
BallEndsOnlyWithCause == [][(s.pc = "live" /\ s'.pc = "posted") => s.cause /\ s'.pe = BWE]_vars
\* ... and then it does end (also when the request arrived while the ball was still starting)
BallEnds == (s.pc = "live" /\ s.cause) ~> (s.pc = "dlv" /\ s.pe = BWE)
\* once the game is ending the coroutine does not block anywhere but at a live ball (which the next drain ends)
EndGameTakesEffect == (GameOn(s) /\ s.ending) ~> (s.pc \in {"live", "idle"})
GameEndCompletes == (s.pc = "posted" /\ s.pe = GWE) ~> (s.pc = "idle")
\* after game_ended no game is active, the grammar is back at its start, and a new game starts fresh
AfterEnd == s.pc = "idle" => s.g = "idle" /\ ~s.held
FreshGame == [][(s.pc = "boot" /\ s'.pc = "posted") =>
                  /\ s'.pe = GWS /\ s'.np = 0 /\ s'.cur = 0 /\ s'.bip = 0
                  /\ ~s'.slam /\ ~s'.ending /\ ~s'.flag /\ s'.extra = Zero /\ s'.ball = Zero]_vars
NewGamePossible == (s.pc = "idle" /\ k.games < MaxGames) => ENABLED Start
=============================================================================
