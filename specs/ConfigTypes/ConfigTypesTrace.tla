-------------------------- MODULE ConfigTypesTrace --------------------------
(* Replays observations of the real ConfigValidator / Util.string_to_ms / string_to_secs against   *)
(* Judge.  One trace = all (de-duplicated) observations of one top-level section of the config      *)
(* spec, or one direct call of the time functions.  A line is explained iff the observed outcome is  *)
(* allowed by the verdict of its case; the judgement stays here, the driver only logs type names     *)
(* and flags computed from the real values.                                                          *)
EXTENDS ConfigTypes, TraceIO
VARIABLES tid, l
tvars == <<vars, tid, l>>
TL == TraceLines[tid].ev
TTimeVals == {}
TInit == tid \in 1..Len(TraceLines) /\ l = 1 /\ Init

CaseOf(e) ==
    CASE e.op = "item" -> [kind |-> "item", it |-> e.it, vc |-> e.vc, tok |-> e.tok, rg |-> e.rg, nok |-> e.nok, kv |-> e.kv, sh |-> e.sh,
                           ec |-> e.ec, ir |-> e.ir, dcl |-> IF e.sh = "default" THEN e.dcl ELSE "na"]
      [] e.op = "time" -> [kind |-> "time", fn |-> e.fn, suf |-> e.suf, vm |-> e.vm]
      [] e.op = "section" -> [kind |-> "section", mode |-> e.mode, allow |-> e.allow]
      [] e.op = "timenm" -> [kind |-> "timenm", fn |-> e.fn, suf |-> e.suf, mut |-> e.mut]
InSpace(c) == CASE c.kind = "item" -> IsItemCase(c)
                [] c.kind = "time" -> c.fn \in {"ms", "secs"} /\ c.suf \in Suffixes \cup {""} /\ c.vm \in Int
                [] c.kind = "section" -> c \in SectionCases
                [] c.kind = "timenm" -> c \in TimeNMCases

FnOf(vc) == IF vc \in {"ms", "template_ms"} THEN "ms" ELSE "secs"
TimeOK(e) == /\ Len(e.rms) = Len(e.vm) /\ "tex" \in SeqToSet(e.f)
             /\ \A i \in DOMAIN e.vm : e.rms[i] = ExpectedMs(FnOf(e.vc), e.suf, e.vm[i])
(* VALUE relations are judged here, on the logged components of the returned colours (e.cc: one sequence of ints per     *)
(* returned colour; e.kc: the components of a kivy colour in 1/1000), not by a flag of the driver:                       *)
(* "a colour validator never returns components outside 0..255"                                                         *)
ColourOK(cc) == Len(cc) > 0 /\ \A i \in DOMAIN cc : Len(cc[i]) = 3 /\ \A k \in DOMAIN cc[i] : cc[i][k] \in 0..255
KivyOK(kc) == Len(kc) > 0 /\ \A i \in DOMAIN kc : Len(kc[i]) > 0 /\ \A k \in DOMAIN kc[i] : kc[i][k] \in 0..1000
ItemOK(j, e) ==
    \/ e.o \in {"reject", "unclean"}                    \* rejecting is always allowed ("unclean" = an exception type that is not a
                                                        \* deliberate rejection: counted by the driver, not a violation of the statement)
    \/ e.o = "accept" /\ j.o = "any"
    \/ /\ e.o = "accept" /\ j.o = "accept"
       /\ e.ty \in j.ty                                 \* declared type
       /\ e.inr                                         \* declared numeric range, computed on the returned value(s)
       /\ SeqToSet(e.ety) \subseteq j.ety /\ SeqToSet(e.kty) \subseteq j.kty
       /\ (j.n >= 0 => e.n = j.n)                       \* normalisation keeps the elements
       /\ (j.rels \ ValueRels) \subseteq SeqToSet(e.f)  \* value relation (enum member, value kept, lower-cased, device object ...)
       /\ ("c255" \in j.rels => ColourOK(e.cc))         \* range and shape of the returned colour(s)
       /\ ("k01" \in j.rels => KivyOK(e.kc))
       /\ (j.time /\ Len(e.vm) > 0 => TimeOK(e))        \* value * unit
TimeLineOK(j, e) ==
    \/ e.o \in {"reject", "unclean"} /\ ~j.must
    \/ e.o = "accept" /\ e.rms = j.ms /\ e.tex
TimeNMOK(j, e) == j.o = "reject" /\ e.o \in {"reject", "unclean"}     \* a near-miss time string is not a time: no value may come back
SectionOK(j, e) ==
    \/ e.o \in {"reject", "unclean"}
    \/ e.o = "accept" /\ j.o = "accept" /\ \A x \in j.need : e[x]

Step(e) ==
    \/ /\ e.op \in {"item", "time", "section", "timenm"}
       /\ LET c == CaseOf(e) IN
          /\ InSpace(c)
          /\ Pick(c)
          /\ CASE e.op = "item" -> ItemOK(verdict', e)
               [] e.op = "time" -> TimeLineOK(verdict', e)
               [] e.op = "section" -> SectionOK(verdict', e)
               [] e.op = "timenm" -> TimeNMOK(verdict', e)
    \/ /\ e.op \in {"spec", "built"}                    \* "never modifies the spec" (deep copy before = spec after)
       /\ e.same
       /\ UNCHANGED vars
TNext == l <= Len(TL) /\ Step(TL[l]) /\ l' = l + 1 /\ UNCHANGED tid
TSpec == TInit /\ [][TNext]_tvars
Reporter == TraceReport(tid, l, Len(TL))
=============================================================================
