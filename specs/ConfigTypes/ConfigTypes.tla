----------------------------- MODULE ConfigTypes -----------------------------
(* Typing rules of MPF's config validation (mpf/core/config_validator.py, Util.string_to_ms/secs)  *)
(* written to the STATEMENT of C12, not to the code: for every                                      *)
(*      (item type, validator class, params, input class)                                           *)
(* Judge says either "reject" (no value of the declared type corresponds to the input: the          *)
(* validator MUST reject) or an accept record saying which python type names the result may have     *)
(* and which relation it must have to the input.  Rejecting is ALWAYS allowed by the statement       *)
(* ("... or rejects the configuration with an error"), except in the time table, where every         *)
(* accepted unit suffix has to evaluate to value * unit.                                             *)
(*                                                                                                   *)
(* C12 is a for-all-inputs property of a (nearly) pure function: TLC is used as the exhaustive case  *)
(* enumerator and oracle.  The state graph has one state per case (Init -> Pick(c)); the invariants  *)
(* below check that Judge is total and consistent.  ConfigTypesTrace replays the observations made   *)
(* on the real validator against the same Judge.                                                     *)
EXTENDS Integers, Sequences, FiniteSets, TLC
CONSTANTS TimeVals          \* input values (in 1/1000 units) of the time table explored by the design check
VARIABLES cur, verdict, act
vars == <<cur, verdict, act>>

------------------------------------------------------------------------------
(* vocabulary (the driver uses the same names, drivers/c12.py)                *)
Suffixes == {"ms", "msec", "s", "sec", "m", "h", "d"}
UnitMs == [ms |-> 1, msec |-> 1, s |-> 1000, sec |-> 1000, m |-> 60000, h |-> 3600000, d |-> 86400000]
TimeClasses == {"t_" \o s \o "_" \o c \o "_" \o w : s \in Suffixes, c \in {"l", "u"}, w \in {"w", "f"}}
NoneLike == {"none", "none_str"}
BoolVals == {"true", "false"}
IntClasses == {"int_neg", "int_zero", "int_pos", "int_huge", "int_below", "int_in", "int_above"}
FloatFinite == {"float_neg", "float_zero", "float_pos", "float_frac", "float_below", "float_in", "float_above"}
IntStr == {"num_str_int", "num_str_neg", "str_below", "str_above"}
FloatStr == {"num_str_float"}
NanClasses == {"float_nan", "nan_str"}
InfClasses == {"float_inf", "inf_str"}
Numeric == IntClasses \cup FloatFinite \cup BoolVals \cup IntStr \cup FloatStr
BoolStr == {"bool_true_str", "bool_false_str"}
OtherStr == {"empty_str", "garbage_str", "token_str", "tmpl_expr", "tmpl_brace", "enum_member", "enum_member_upper",
             "enum_nonmember", "dev_name", "dev_unknown", "hex_str", "color_name", "color_hex", "csv_int3", "csv_int4",
             "gain_db_str"}
(* NEAR-MISS inputs: strings obtained from a VALID representative of a string-parsed value type (the base)    *)
(* by one mutation that leaves the grammar of the base: leading garbage (pre), trailing garbage (suf), one or   *)
(* a few characters / elements too many (long), too few (short), one character replaced by one outside the     *)
(* alphabet (sub).  hex6 / hex8 = hex colour, cname = named colour, csv3 = "r, g, b", time = number + unit      *)
(* suffix, hexb = hex byte, gaindb = "-3db", tok = "(token)".  The driver builds them (drivers/c12.py           *)
(* near_miss) and checks with recognisers of its own that the mutant denotes no number / time / bool / member.  *)
NMBases == {"hex6", "hex8", "cname", "csv3", "int", "float", "bool", "time", "enum", "dev", "hexb", "gaindb", "pow2", "tok"}
NMMuts == {"pre", "suf", "long", "short", "sub"}
NM(b, mu) == "nm_" \o b \o "_" \o mu
NMOf(b) == {NM(b, mu) : mu \in NMMuts}
NearMiss == UNION {NMOf(b) : b \in NMBases}
NMElem == {NM("hex6", "long"), NM("int", "suf"), NM("time", "suf"), NM("enum", "suf")}
ScalarClasses == NoneLike \cup BoolVals \cup BoolStr \cup IntClasses \cup FloatFinite \cup NanClasses \cup InfClasses
                 \cup IntStr \cup FloatStr \cup OtherStr \cup TimeClasses \cup NearMiss
ElemClasses == {"none", "empty_str", "true", "int_pos", "int_neg", "float_frac", "num_str_int", "garbage_str",
                "bool_true_str", "t_s_l_w", "enum_member", "enum_nonmember", "dev_name", "token_str", "float_nan"} \cup NMElem
ListShapes == {"list2", "nested", "list_empty"}
DictShapes == {"dict_str", "dict_int", "dict_numstr", "dict_dev"}
ContainerShapes == ListShapes \cup DictShapes \cup {"csv", "tuple3"}
ItemTypes == {"single", "list", "set", "dict", "event_handler"}
VClasses == {"str", "lstr", "int", "float", "num", "bool", "bool_int", "ms", "secs", "enum", "machine", "subconfig",
             "template_int", "template_float", "template_bool", "template_ms", "template_secs", "template_str",
             "list", "dict", "int_from_hex", "kivycolor", "color", "gain", "pow2"}
TokenCapable == {"int", "float", "num", "bool", "ms", "secs", "color", "template_float"}
RangeCapable == {"int", "float", "num"}
KeyVClasses == {"str", "int", "float", "machine"}
TimeV == {"ms", "secs", "template_ms", "template_secs"}
TemplateV == {"template_int", "template_float", "template_bool", "template_ms", "template_secs", "template_str"}
In(sh, ec) == [sh |-> sh, ec |-> ec]
Inputs == {In("scalar", c) : c \in ScalarClasses} \cup {In(sh, c) : sh \in ContainerShapes, c \in ElemClasses}
          \cup {In("empty_list", "na"), In("empty_dict", "na"), In("default", "na")}

(* declared python type names of a validator class (the name the driver logs: type(x).__name__,     *)
(* "device" for the object stored in machine.<collection>, "Native_<t>" for a NativeTypeTemplate     *)
(* wrapping a constant of type t).  num: "does not convert one to the other"; bool is a python int.  *)
DeclTypes(vc) ==
    CASE vc \in {"str", "lstr", "enum"} -> {"str"}
      [] vc \in {"int", "bool_int", "ms", "int_from_hex"} -> {"int"}
      \* pow2 checks the value and hands the item back as given (the repository's own test_Config pins '128' -> '128'),
      \* so only the numeric value is constrained, not the python type
      [] vc = "pow2" -> {"int", "str", "float", "bool"}
      [] vc \in {"float", "secs", "gain"} -> {"float"}
      [] vc = "num" -> {"int", "float", "bool"}
      [] vc = "bool" -> {"bool"}
      [] vc = "machine" -> {"device"}
      [] vc \in {"subconfig", "dict"} -> {"dict"}
      [] vc = "list" -> {"list"}
      [] vc = "template_int" -> {"Native_int", "IntTemplate"}
      [] vc = "template_ms" -> {"Native_int", "IntTemplate"}
      [] vc = "template_float" -> {"Native_float", "FloatTemplate"}
      [] vc = "template_secs" -> {"Native_float", "FloatTemplate"}
      [] vc = "template_bool" -> {"Native_bool", "BoolTemplate"}
      [] vc = "template_str" -> {"Native_str", "StringTemplate", "TextTemplate"}
      [] vc = "kivycolor" -> {"list", "str"}
      [] vc = "color" -> {"tuple"}

------------------------------------------------------------------------------
(* verdicts *)
NoNoneValue == {"color", "int_from_hex"}
Reject == [o |-> "reject"]
AnyV == [o |-> "any"]                 \* outside the quantifier of the statement (python tuples): unconstrained
Acc(ty, rels, time) == [o |-> "accept", ty |-> ty, ety |-> {}, kty |-> {}, n |-> -1, rels |-> rels, time |-> time]
NoneAcc == Acc({"NoneType"}, {"none"}, FALSE)

(* One element (the whole item for item type "single") against a validator v = [vc, tok, rg, nok];  *)
(* nok = "None is a value of the declared type": every validator documents `None -> None` (optional  *)
(* keys) except enum, where None is a value only if the enum lists `none`, and color / int_from_hex,  *)
(* which have no None value at all.  A None result anywhere else is ill-typed.                        *)
(* c = [sh, ec] is the element's class, ir the relation of a numeric input to the declared range.   *)
OutOfRange(v, ir) == v.rg /\ ir \in {"below", "above", "nan"}
(* A near-miss denotes no number, time, boolean, token ...: every validator treats it like any other string that    *)
(* is not a value of its type (garbage_str) - the numeric / time / bool / pow2 validators MUST reject it - and a   *)
(* near-miss of a member / of a device name is by construction not a member / not a device.  Where a validator    *)
(* MAY accept a string (colours, gain, hex, templates ...) the VALUE relations of the verdict decide: c255 / k01    *)
(* (every colour component within 0..255 / 0..1) are judged by ConfigTypesTrace on the logged components.         *)
ValueRels == {"c255", "k01"}
JudgeScalar(v, ec0, ir) ==
    LET vc == v.vc
        ec == IF ec0 \in NearMiss THEN "garbage_str" ELSE ec0 IN
    IF vc = "enum" /\ ec0 \in NMOf("enum") THEN Reject
    ELSE IF vc = "machine" /\ ec0 \in NMOf("dev") THEN Reject
    ELSE IF v.tok /\ ec = "token_str" THEN Acc({"RuntimeToken"}, {"tok"}, FALSE)
    ELSE IF ec \in NoneLike THEN
        (CASE vc = "bool_int" -> Acc({"int"}, {"bfalse"}, FALSE)
           [] vc \in {"subconfig", "dict"} -> Acc({"dict"}, {}, FALSE)
           [] vc = "list" -> Acc({"list"}, {}, FALSE)
           [] vc \in NoNoneValue -> Reject
           [] vc = "enum" -> IF v.nok THEN NoneAcc ELSE Reject      \* None only if the enum has a `none` member
           [] OTHER -> NoneAcc)
    ELSE CASE vc = "str" -> Acc({"str"}, {"ident"}, FALSE)
      [] vc = "lstr" -> Acc({"str"}, {"lower"}, FALSE)
      [] vc = "int" -> IF ec \in Numeric /\ ~OutOfRange(v, ir) THEN Acc({"int"}, {"numtr"}, FALSE) ELSE Reject
      [] vc = "float" -> IF OutOfRange(v, ir) THEN Reject
                         ELSE IF ec \in Numeric THEN Acc({"float"}, {"numeq"}, FALSE)
                         ELSE IF ec \in NanClasses \cup InfClasses /\ ~v.rg THEN Acc({"float"}, {}, FALSE)
                         ELSE Reject
      [] vc = "num" -> IF OutOfRange(v, ir) THEN Reject
                       ELSE IF ec \in Numeric THEN Acc({"int", "float", "bool"}, {"numeq"}, FALSE)
                       ELSE IF ec \in NanClasses \cup InfClasses /\ ~v.rg THEN Acc({"float"}, {}, FALSE)
                       ELSE Reject
      [] vc = "bool" -> IF ec \in {"true", "bool_true_str"} THEN Acc({"bool"}, {"btrue"}, FALSE)
                        ELSE IF ec \in {"false", "bool_false_str"} THEN Acc({"bool"}, {"bfalse"}, FALSE)
                        ELSE IF ec \in IntClasses \cup FloatFinite THEN Acc({"bool"}, {}, FALSE)
                        ELSE Reject
      [] vc = "bool_int" -> IF ec \in {"true", "bool_true_str"} THEN Acc({"int"}, {"btrue"}, FALSE)
                            ELSE IF ec \in {"false", "bool_false_str"} THEN Acc({"int"}, {"bfalse"}, FALSE)
                            ELSE Reject
      [] vc \in {"ms", "secs"} -> IF ec \in Numeric \cup TimeClasses THEN Acc(DeclTypes(vc), {}, TRUE) ELSE Reject
      [] vc = "enum" -> IF ec = "enum_nonmember" THEN Reject ELSE Acc({"str"}, {"member"}, FALSE)
      [] vc = "machine" -> IF ec = "dev_unknown" THEN Reject ELSE Acc({"device"}, {"dev"}, FALSE)
      [] vc = "subconfig" -> Reject                       \* a scalar is not a sub-configuration
      [] vc \in TemplateV -> Acc(DeclTypes(vc), {}, vc \in TimeV)
      [] vc = "list" -> Acc({"list"}, {}, FALSE)
      [] vc = "dict" -> IF ec \in {"empty_str", "false", "int_zero", "float_zero"} THEN Acc({"dict"}, {}, FALSE) ELSE Reject
      [] vc = "int_from_hex" -> Acc({"int"}, {"hex"}, FALSE)
      [] vc = "kivycolor" -> IF ec \in {"empty_str", "false", "int_zero", "float_zero"} THEN Acc({"NoneType"}, {"none"}, FALSE)
                             ELSE IF ec = "token_str" THEN Acc({"str"}, {"lower"}, FALSE)
                             ELSE Acc({"list"}, {"k4", "k01"}, FALSE)
      [] vc = "color" -> Acc({"tuple"}, {"c3", "c255"}, FALSE)      \* an RGB triple of ints, every component within 0..255
      [] vc = "gain" -> IF ir = "nan" THEN Reject ELSE Acc({"float"}, {}, FALSE)    \* clamped to 0..1: the range is checked on the result
      [] vc = "pow2" -> IF ec \in Numeric THEN Acc({"int", "str", "float", "bool"}, {"p2"}, FALSE) ELSE Reject

(* "a, b" given where ONE element is expected is just a string with a comma in it *)
JudgeCsv(v, ec) ==
    LET vc == v.vc IN
    IF v.tok /\ ec = "token_str" THEN Acc({"RuntimeToken"}, {"tok"}, FALSE)        \* "(a), (b)" starts with ( and ends with )
    ELSE CASE vc = "str" -> Acc({"str"}, {"ident"}, FALSE)
      [] vc = "lstr" -> Acc({"str"}, {"lower"}, FALSE)
      [] vc = "enum" -> Acc({"str"}, {"member"}, FALSE)
      [] vc = "machine" -> Acc({"device"}, {"dev"}, FALSE)
      [] vc \in TemplateV -> Acc(DeclTypes(vc), {}, FALSE)
      [] vc = "list" -> Acc({"list"}, {}, FALSE)
      [] vc = "int_from_hex" -> Acc({"int"}, {"hex"}, FALSE)
      [] vc = "kivycolor" -> IF ec = "token_str" THEN Acc({"str"}, {"lower"}, FALSE) ELSE Acc({"list"}, {"k4", "k01"}, FALSE)
      [] vc = "color" -> Acc({"tuple"}, {"c3", "c255"}, FALSE)
      [] vc = "gain" -> Acc({"float"}, {}, FALSE)
      [] OTHER -> Reject

JudgeElem(v, c, ir) ==
    IF c.sh = "scalar" THEN JudgeScalar(v, c.ec, ir)
    ELSE IF c.sh = "tuple3" THEN AnyV
    ELSE IF c.sh = "csv" THEN JudgeCsv(v, c.ec)
    ELSE LET vc == v.vc IN          \* a container where one element is expected
         CASE vc \in {"str", "lstr", "template_str", "int_from_hex"} -> Acc(DeclTypes(vc), {}, FALSE)  \* str(x) exists
           [] vc = "list" -> Acc({"list"}, {}, FALSE)
           [] vc = "gain" -> Acc({"float"}, {}, FALSE)
           [] vc = "dict" -> IF c.sh \in DictShapes \cup {"empty_dict", "empty_list"} THEN Acc({"dict"}, {}, FALSE) ELSE Reject
           [] vc = "subconfig" -> IF c.sh \in DictShapes \cup {"empty_dict"} THEN Acc({"dict"}, {"complete", "known"}, FALSE) ELSE Reject
           [] vc = "kivycolor" -> IF c.sh \in {"empty_list", "empty_dict"} THEN Acc({"NoneType"}, {"none"}, FALSE) ELSE Reject
           [] OTHER -> Reject

------------------------------------------------------------------------------
(* decomposition of an input into the elements a list / set is normalised to  *)
StrOf(ec) == CASE ec = "none" -> "none_str" [] ec = "true" -> "bool_true_str" [] ec = "int_pos" -> "num_str_int"
               [] ec = "int_neg" -> "num_str_neg" [] ec = "float_frac" -> "num_str_float" [] ec = "float_nan" -> "nan_str"
               [] OTHER -> ec
Sc(ec) == In("scalar", ec)
Es(seq) == [opaque |-> FALSE, es |-> seq]
Opaque == [opaque |-> TRUE, es |-> <<>>]
Elems(c) ==
    CASE c.sh = "scalar" ->
            (CASE c.ec \in {"none", "empty_str"} -> Es(<<>>)
               [] c.ec = "none_str" -> Es(<<Sc("none")>>)
               [] c.ec = "csv_int3" -> Es(<<Sc("num_str_int"), Sc("num_str_int"), Sc("num_str_int")>>)
               [] c.ec = "csv_int4" -> Es(<<Sc("num_str_int"), Sc("num_str_int"), Sc("num_str_int"), Sc("num_str_int")>>)
               [] c.ec = "tmpl_brace" -> Opaque
               [] c.ec \in NMOf("csv3") -> Opaque      \* "r, g, b, x": a list is split at the commas - how many elements is not prescribed
               [] OTHER -> Es(<<c>>))
      [] c.sh = "empty_list" -> Es(<<>>)
      [] c.sh = "list2" -> Es(<<Sc(c.ec), Sc(c.ec)>>)
      [] c.sh = "list_empty" -> Es(<<Sc(c.ec), Sc("empty_str")>>)
      [] c.sh = "nested" -> Es(<<In("list2", c.ec)>>)
      [] c.sh = "csv" -> Es(<<Sc(StrOf(c.ec)), Sc(StrOf(c.ec))>>)
      [] OTHER -> Opaque          \* dicts: not a list; how (whether) they are wrapped is not prescribed

Range(f) == {f[i] : i \in DOMAIN f}
InterAll(S) == IF S = {} THEN {} ELSE LET a == CHOOSE x \in S : TRUE IN {r \in a : \A s \in S : r \in s}
NoneOK(v) == v.vc \notin NoNoneValue /\ (v.vc = "enum" => v.nok)
ElemTypes(v) == DeclTypes(v.vc) \cup (IF NoneOK(v) THEN {"NoneType"} ELSE {}) \cup (IF v.tok THEN {"RuntimeToken"} ELSE {})

JudgeSeq(v, c, ir, cty, isSet) ==
    IF c.sh = "tuple3" THEN AnyV
    ELSE LET el == Elems(c)
             es == el.es IN
    IF el.opaque THEN [Acc({cty}, {}, FALSE) EXCEPT !.ety = ElemTypes(v)]
    ELSE LET js == [i \in DOMAIN es |-> JudgeElem(v, es[i], ir)] IN
         IF \E i \in DOMAIN js : js[i].o = "reject" THEN Reject
         ELSE IF \E i \in DOMAIN js : js[i].o = "any" THEN [Acc({cty}, {}, FALSE) EXCEPT !.ety = ElemTypes(v)]
         ELSE [Acc({cty}, IF isSet THEN InterAll({js[i].rels : i \in DOMAIN js}) \cap ValueRels ELSE InterAll({js[i].rels : i \in DOMAIN js}),
                   ~isSet /\ \A i \in DOMAIN js : js[i].time)
               EXCEPT !.ety = UNION {js[i].ty : i \in DOMAIN js},
                      !.n = IF isSet THEN -1 ELSE Len(es)]

KeyClass(sh) == CASE sh = "dict_str" -> "garbage_str" [] sh = "dict_int" -> "int_pos" [] sh = "dict_numstr" -> "num_str_int"
                  [] sh = "dict_dev" -> "dev_name"
NoParams(vc) == [vc |-> vc, tok |-> FALSE, rg |-> FALSE, nok |-> TRUE]
JudgeDict(kv, v, c, ir) ==
    IF c.sh = "tuple3" THEN AnyV
    ELSE IF (c.sh = "scalar" /\ c.ec \in NoneLike) \/ c.sh = "empty_dict" THEN [Acc({"dict"}, {}, FALSE) EXCEPT !.n = 0]
    ELSE IF c.sh \in DictShapes THEN
        LET jk == JudgeScalar(NoParams(kv), KeyClass(c.sh), "na")
            jv == JudgeElem(v, Sc(c.ec), ir)
        IN IF jk.o = "reject" \/ jv.o = "reject" THEN Reject
           ELSE [Acc({"dict"}, jv.rels, jv.time) EXCEPT !.kty = jk.ty, !.ety = jv.ty, !.n = IF c.sh = "dict_dev" THEN 1 ELSE 2]
    ELSE Reject                    \* "Item is not a dict"

(* event_handler: "event", "e1, e2", [e1, e2] or {event: delay}  ->  {event(str): delay(ms)} *)
JudgeHandler(v, c, ir) ==
    IF c.sh = "tuple3" THEN AnyV
    ELSE IF c.sh \in DictShapes THEN
        LET jv == JudgeElem(v, Sc(c.ec), ir)
        IN IF jv.o = "reject" THEN Reject
           ELSE [Acc({"dict"}, jv.rels, jv.time) EXCEPT !.kty = {"str"}, !.ety = jv.ty, !.n = IF c.sh = "dict_dev" THEN 1 ELSE 2]
    ELSE [Acc({"dict"}, {}, FALSE) EXCEPT !.kty = {"str"} \cup (IF c.ec \in NoneLike \/ c.ec = "na" THEN {"NoneType"} ELSE {}),
                                          !.ety = {"int"}]

JudgeDefault(it, kv, v, dcl) ==
    IF dcl = "required" THEN Reject              \* a required key that is missing cannot be completed
    ELSE IF dcl = "none" THEN
        (CASE it = "single" -> JudgeScalar(v, "none", "na")
           [] it = "list" -> [Acc({"list"}, {}, FALSE) EXCEPT !.n = 0]
           [] it = "set" -> [Acc({"set"}, {}, FALSE) EXCEPT !.n = 0]
           [] OTHER -> [Acc({"dict"}, {}, FALSE) EXCEPT !.n = 0])
    ELSE (CASE it = "single" -> Acc(DeclTypes(v.vc) \cup (IF v.tok THEN {"RuntimeToken"} ELSE {}),
                                   \* a default is validated like a provided value: a default colour is a colour
                                   IF v.tok THEN {} ELSE IF v.vc = "color" THEN {"c3", "c255"} ELSE IF v.vc = "kivycolor" THEN {"k4", "k01"} ELSE {},
                                   v.vc \in TimeV)
            [] it = "list" -> [Acc({"list"}, {}, FALSE) EXCEPT !.ety = DeclTypes(v.vc) \cup (IF v.tok THEN {"RuntimeToken"} ELSE {})]
            [] it = "set" -> [Acc({"set"}, {}, FALSE) EXCEPT !.ety = DeclTypes(v.vc)]
            [] it = "dict" -> [Acc({"dict"}, {}, FALSE) EXCEPT !.kty = DeclTypes(kv), !.ety = DeclTypes(v.vc)]
            [] it = "event_handler" -> [Acc({"dict"}, {}, FALSE) EXCEPT !.kty = {"str"}, !.ety = {"int"}])

(* case = [kind |-> "item", it, vc, tok, rg, kv, sh, ec, ir, dcl] *)
JudgeItem(c) ==
    LET v == [vc |-> c.vc, tok |-> c.tok, rg |-> c.rg, nok |-> c.nok]
        i == In(c.sh, c.ec)
    IN IF c.sh = "default" THEN JudgeDefault(c.it, c.kv, v, c.dcl)
       ELSE CASE c.it = "single" -> JudgeElem(v, i, c.ir)
              [] c.it = "list" -> JudgeSeq(v, i, c.ir, "list", FALSE)
              [] c.it = "set" -> JudgeSeq(v, i, c.ir, "set", TRUE)
              [] c.it = "dict" -> JudgeDict(c.kv, v, i, c.ir)
              [] c.it = "event_handler" -> JudgeHandler(v, i, c.ir)

------------------------------------------------------------------------------
(* time table: value (in 1/1000) * unit, in integer milliseconds             *)
Trunc(a, b) == IF a >= 0 THEN a \div b ELSE -((-a) \div b)
ExpectedMs(fn, suf, vm) ==
    IF suf = "" THEN (IF fn = "ms" THEN Trunc(vm, 1000) ELSE vm)     \* a bare number is ms for string_to_ms, seconds for string_to_secs
    ELSE IF UnitMs[suf] = 1 THEN Trunc(vm, 1000)
    ELSE vm * (UnitMs[suf] \div 1000)
(* case = [kind |-> "time", fn, suf, vm]; whole milliseconds must be accepted, fractions of a ms may be refused *)
SubMs(fn, suf) == (suf # "" /\ UnitMs[suf] = 1) \/ (suf = "" /\ fn = "ms")
JudgeTime(c) == [o |-> "accept", must |-> ~SubMs(c.fn, c.suf) \/ c.vm % 1000 = 0, ms |-> ExpectedMs(c.fn, c.suf, c.vm)]

(* near-miss time strings given to Util.string_to_ms / string_to_secs directly: case = [kind |-> "timenm", fn, suf, mut]; *)
(* suf = the unit suffix of the valid representative ("" = a bare number).  No time corresponds: reject.              *)
JudgeTimeNM(c) == Reject

(* section level: case = [kind |-> "section", mode, allow] *)
JudgeSection(c) ==
    CASE c.mode = "missing" -> [o |-> "accept", need |-> {"allp"}]                 \* every spec key present (defaults filled in)
      [] c.mode = "unknown" -> IF c.allow THEN [o |-> "accept", need |-> {"allp", "unkp"}] ELSE Reject
      [] c.mode = "provided" -> [o |-> "accept", need |-> {"allp", "provp"}]      \* no provided key dropped

------------------------------------------------------------------------------
(* the case space *)
VP(vc) == {[tok |-> t, rg |-> r, nok |-> n] : t \in (IF vc \in TokenCapable THEN BOOLEAN ELSE {FALSE}),
                                   r \in (IF vc \in RangeCapable THEN BOOLEAN ELSE IF vc = "gain" THEN {TRUE} ELSE {FALSE}),
                                   n \in (IF vc = "enum" THEN BOOLEAN ELSE IF vc \in NoNoneValue THEN {FALSE} ELSE {TRUE})}
KV(it) == IF it = "dict" THEN KeyVClasses ELSE IF it = "event_handler" THEN {"str"} ELSE {"na"}
\* relation of the input to the declared range (computed by the driver from the input value and the spec string only)
IR(rg, sh, ec) == IF ~rg THEN {"na"}
                  ELSE IF sh = "default" THEN {"na", "below", "in", "above", "nan"}
                  ELSE IF ec \in NanClasses THEN {"nan"}
                  ELSE IF ec \in Numeric \cup InfClasses THEN {"below", "in", "above"}
                  ELSE {"na"}
DC(sh) == IF sh = "default" THEN {"none", "required", "value"} ELSE {"na"}
VOf(it) == IF it = "event_handler" THEN {"ms"} ELSE VClasses
IsItemCase(c) == /\ c.it \in ItemTypes /\ c.vc \in VOf(c.it) /\ [tok |-> c.tok, rg |-> c.rg, nok |-> c.nok] \in VP(c.vc) /\ c.kv \in KV(c.it)
                 /\ In(c.sh, c.ec) \in Inputs /\ c.ir \in IR(c.rg, c.sh, c.ec) /\ c.dcl \in DC(c.sh)
TimeCases == {[kind |-> "time", fn |-> f, suf |-> s, vm |-> x] : f \in {"ms", "secs"}, s \in Suffixes \cup {""}, x \in TimeVals}
SectionCases == {[kind |-> "section", mode |-> m, allow |-> a] : m \in {"missing", "unknown", "provided"}, a \in BOOLEAN}
TimeNMCases == {[kind |-> "timenm", fn |-> f, suf |-> s, mut |-> mu] : f \in {"ms", "secs"}, s \in Suffixes \cup {""}, mu \in NMMuts}
Judge(c) == CASE c.kind = "item" -> JudgeItem(c) [] c.kind = "time" -> JudgeTime(c) [] c.kind = "section" -> JudgeSection(c)
              [] c.kind = "timenm" -> JudgeTimeNM(c)

NoCase == [kind |-> "none"]
Pick(c) == /\ cur' = c /\ verdict' = Judge(c) /\ act' = [op |-> "judge", kind |-> c.kind]
Init == cur = NoCase /\ verdict = [o |-> "none"] /\ act = [op |-> "init"]
ItemCase(it, vc, p, k, i, r, d) == [kind |-> "item", it |-> it, vc |-> vc, tok |-> p.tok, rg |-> p.rg, nok |-> p.nok, kv |-> k,
                                    sh |-> i.sh, ec |-> i.ec, ir |-> r, dcl |-> d]
\* (the case set is never materialised: TLC's UNION of many sets is quadratic)
Next == /\ cur.kind = "none"
        /\ \/ \E it \in ItemTypes : \E vc \in VOf(it) : \E p \in VP(vc) : \E k \in KV(it) : \E i \in Inputs :
                 \E r \in IR(p.rg, i.sh, i.ec) : \E d \in DC(i.sh) : Pick(ItemCase(it, vc, p, k, i, r, d))
           \/ \E c \in TimeCases \cup SectionCases \cup TimeNMCases : Pick(c)
Spec == Init /\ [][Next]_vars

------------------------------------------------------------------------------
(* design checks *)
AllTypeNames == UNION {DeclTypes(vc) : vc \in VClasses} \cup {"NoneType", "RuntimeToken", "set"}
AllRels == {"none", "tok", "ident", "lower", "numtr", "numeq", "btrue", "bfalse", "member", "dev", "complete", "known", "hex", "k4", "c3", "p2"}
           \cup ValueRels
\* Judge is defined for every case and yields a well-formed verdict
Total == cur.kind # "none" =>
    \/ verdict.o \in {"reject", "any"}
    \/ /\ verdict.o = "accept" /\ cur.kind = "item"
       /\ verdict.ty # {} /\ verdict.ty \subseteq AllTypeNames /\ verdict.ety \subseteq AllTypeNames /\ verdict.kty \subseteq AllTypeNames
       /\ verdict.rels \subseteq AllRels /\ verdict.n \in -1..4 /\ verdict.time \in BOOLEAN
    \/ verdict.o = "accept" /\ cur.kind = "time" /\ verdict.must \in BOOLEAN /\ verdict.ms \in Int
    \/ verdict.o = "accept" /\ cur.kind = "section" /\ verdict.need \subseteq {"allp", "provp", "unkp"}
\* never accepts outside the declared range / type
Scalarish(c) == c.sh = "scalar" \/ (c.it # "single" /\ c.sh \in {"list2", "list_empty", "csv"})
Consistent == (cur.kind # "none" /\ cur.kind = "item") =>
    /\ (cur.rg /\ cur.ir \in {"below", "above", "nan"} /\ (cur.vc \in RangeCapable \/ cur.ir = "nan") /\ cur.it \in {"single", "list", "set"} /\ Scalarish(cur)
            /\ ~(cur.sh = "scalar" /\ cur.ec \in NoneLike \cup {"empty_str", "tmpl_brace"}) /\ ~(cur.tok /\ cur.ec = "token_str")
            /\ ~(cur.sh \in {"list2", "list_empty", "csv"} /\ cur.ec = "none")
        => verdict.o = "reject")
    /\ (verdict.o = "accept" /\ cur.it = "single" =>
            /\ verdict.ty \subseteq DeclTypes(cur.vc) \cup {"NoneType", "RuntimeToken"}
            /\ ("RuntimeToken" \in verdict.ty => cur.tok /\ (cur.ec = "token_str" \/ cur.sh = "default"))
            /\ ("NoneType" \in verdict.ty => cur.ec \in NoneLike \/ cur.dcl = "none" \/ cur.vc = "kivycolor")
            /\ ("NoneType" \in verdict.ty => cur.nok))          \* e.g. an enum without a `none` member never yields None
    /\ (verdict.o = "accept" /\ cur.it \in {"list", "set"} =>
            /\ verdict.ty = {cur.it} /\ verdict.ety \subseteq DeclTypes(cur.vc) \cup {"NoneType", "RuntimeToken"}
            /\ ("NoneType" \in verdict.ety => cur.nok))
    /\ (verdict.o = "accept" /\ cur.it = "dict" /\ "NoneType" \in verdict.ety => cur.nok)
    /\ (verdict.o = "accept" /\ cur.it \in {"dict", "event_handler"} => verdict.ty = {"dict"})
    /\ (cur.vc = "enum" /\ cur.ec = "enum_nonmember" /\ Scalarish(cur) /\ cur.sh # "list_empty" /\ cur.it \in {"single", "list", "set"}
        => verdict.o = "reject")
    /\ (cur.sh = "default" /\ cur.dcl = "required" => verdict.o = "reject")
\* a colour validator never hands out a colour without the component-range obligation: whatever the input (valid, garbage,
\* near-miss), an accepted single colour / every element of an accepted colour list or set / every dict value is an RGB triple
\* (RGBA list for kivycolor) whose components are judged against 0..255 (0..1)
ColourSound == (cur.kind # "none" /\ cur.kind = "item" /\ verdict.o = "accept" /\ cur.vc \in {"color", "kivycolor"}) =>
    LET need == IF cur.vc = "color" THEN {"c3", "c255"} ELSE {"k4", "k01"}
        cty == IF cur.vc = "color" THEN "tuple" ELSE "list" IN
    /\ (cur.it = "single" /\ cty \in verdict.ty /\ "RuntimeToken" \notin verdict.ty => need \subseteq verdict.rels)
    /\ (cur.it \in {"list", "set"} /\ verdict.ety = {cty} /\ Scalarish(cur) /\ ~(cur.sh = "scalar" /\ cur.ec \in NMOf("csv3") \cup {"tmpl_brace"})
            => need \cap ValueRels \subseteq verdict.rels)
    /\ (cur.it = "dict" /\ cur.sh \in DictShapes /\ verdict.ety = {cty} => need \subseteq verdict.rels)
\* a near-miss is never a value of a numeric / time / boolean / power-of-two type, nor a member of the enum or a device it was
\* derived from: these validators must reject it wherever ONE element is validated (single items, elements of lists and sets)
StrictNM(vc, ec) == \/ vc \in {"int", "float", "num", "bool", "bool_int", "ms", "secs", "pow2"}
                    \/ vc = "enum" /\ ec \in NMOf("enum")
                    \/ vc = "machine" /\ ec \in NMOf("dev")
NearMissSound ==
    /\ (cur.kind # "none" /\ cur.kind = "item" /\ cur.ec \in NearMiss /\ StrictNM(cur.vc, cur.ec)
            /\ \/ cur.it = "single" /\ cur.sh = "scalar"
               \/ cur.it \in {"list", "set"} /\ cur.sh \in {"scalar", "list2", "csv"} /\ cur.ec \notin NMOf("csv3")
               \/ cur.it \in {"dict", "event_handler"} /\ cur.sh \in DictShapes
        => verdict.o = "reject")
    /\ (cur.kind # "none" /\ cur.kind = "item" /\ cur.ec \in NearMiss /\ verdict.o = "accept" /\ cur.it = "single"
        => "RuntimeToken" \notin verdict.ty)                      \* "(tok" / "tok)" / "(tok)x" is not a token
    /\ (cur.kind # "none" /\ cur.kind = "timenm" => verdict.o = "reject")
\* every accepted unit suffix evaluates to value * unit; time strings given to time validators carry the time relation
TimeSemantics ==
    /\ (cur.kind # "none" /\ cur.kind = "time" /\ cur.suf # "" /\ cur.vm % 1000 = 0 /\ cur.vm >= 0
            => verdict.must /\ verdict.ms = (cur.vm \div 1000) * UnitMs[cur.suf])
    /\ (cur.kind # "none" /\ cur.kind = "time" /\ cur.suf \notin {"", "ms", "msec"} => verdict.must)
    /\ (cur.kind # "none" /\ cur.kind = "item" /\ cur.it = "single" /\ cur.vc \in TimeV /\ cur.sh = "scalar" /\ cur.ec \in TimeClasses
            => verdict.o = "accept" /\ verdict.time)
UnitTable == /\ UnitMs["msec"] = UnitMs["ms"] /\ UnitMs["sec"] = UnitMs["s"] /\ UnitMs["s"] = 1000 * UnitMs["ms"]
             /\ UnitMs["m"] = 60 * UnitMs["s"] /\ UnitMs["h"] = 60 * UnitMs["m"] /\ UnitMs["d"] = 24 * UnitMs["h"]
             /\ DOMAIN UnitMs = Suffixes
ASSUME UnitTableOK == UnitTable
SectionRules == (cur.kind # "none" /\ cur.kind = "section") =>
    /\ (cur.mode = "unknown" /\ ~cur.allow => verdict.o = "reject")
    /\ (verdict.o = "accept" => "allp" \in verdict.need)
=============================================================================
