#!/bin/sh
# tools/regen_evidence.sh: run every registered quick check on /repo (evidence rewritten), then validate evidence and manifest.
cd /verif
for c in C01 C02 C03 C04 C05 C06 C07 C08 C09 C10 C11 C12 C13 C14 C15 C16 C17 C18 C19 C20 X01 X02 X03 X04 X05 X06 X07 X08 X09; do
  r=$(VERIF_SEED=1 timeout 2400 ./check $c --tier quick 2>&1 | grep -E "^OK|^VIOLATION|^MACHINERY" | tr '\n' ' ' | cut -c1-200)
  echo "$c: $r"
done
python3-vt - <<'PY'
import json, glob, jsonschema
sch=json.load(open('/root/.vp/EVIDENCE.schema.json'))
for f in sorted(glob.glob('/verif/evidence/[CX]*.json')):
    try:
        jsonschema.validate(json.load(open(f)), sch); print('evidence ok', f)
    except Exception as ex:
        print('EVIDENCE INVALID', f, str(ex)[:200])
jsonschema.validate(json.load(open('/verif/MANIFEST.json')), json.load(open('/root/.vp/MANIFEST.schema.json'))); print('manifest ok')
PY
