#!/usr/bin/env python3
"""tools/manifest_add.py <Cxx> <engine> <design_ref> <text> <note>  -- add/replace a check entry."""
import json, sys
pid, engine, ref, text, note = sys.argv[1:6]
m = json.load(open('/verif/MANIFEST.json'))
m['checks'] = [c for c in m['checks'] if c['property_id'] != pid]
m['checks'].append({
    "property_id": pid, "quick_cmd": "./check %s --tier quick" % pid, "thorough_cmd": "./check %s --tier thorough" % pid,
    "evidence_file": "evidence/%s.json" % pid, "replay_cmd_template": "./check %s --replay {path}" % pid, "engine": engine,
    "level_claimed": {"category": "model_checking", "text": text, "design_ref": ref},
    "level_note": note,
    "technique": "TLA+ spec + TLC exhaustive check; TLC-generated schedules replayed on the real code; TLC trace validation"})
m['checks'].sort(key=lambda c: c['property_id'])
m['not_applicable'] = [x for x in m['not_applicable'] if x['property_id'] != pid]
names = {e['name'] for e in m['engines']}
for e in engine.split('+'):
    if e not in names:
        m['engines'].append({"name": e, "path": "specs/" + e, "serves_properties": [pid], "kind_free_text": "TLA+ spec + MC config + trace spec"})
json.dump(m, open('/verif/MANIFEST.json', 'w'), indent=1)
