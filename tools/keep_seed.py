#!/usr/bin/env python3
"""tools/keep_seed.py <id> <n> <detected:yes|no|partial> "<which check/signature caught it or why missed>"
Copies a confirmed seeded change from /tmp/seedout/<id>/<n> into /verif/seeded/<id>-<n>/ ."""
import glob, json, os, shutil, sys
sid, n, det, note = sys.argv[1:5]
src = '%s/%s/%s' % (os.environ.get('SEEDOUT', '/tmp/seedout'), sid, n)
dst = '/verif/seeded/%s-%d' % (sid, int(n) + int(os.environ.get('SEED_OFFSET', '0')))
conf = json.load(open(src + '/confirm.json'))
assert conf.get('confirmed'), 'not confirmed: %s' % conf
os.makedirs(dst, exist_ok=True)
shutil.copy(src + '/patch.diff', dst)
for f in glob.glob(src + '/demo*'):
    if os.path.isdir(f):
        shutil.copytree(f, dst + '/' + os.path.basename(f), dirs_exist_ok=True)
    else:
        shutil.copy(f, dst)
meta = json.load(open(src + '/meta.json'))
meta.update({
    'breaks_property': sid,
    'confirmed_in_scratch_worktree': {
        'patch_applies': conf['applies'], 'suite_result_with_change': conf['suite_tail'],
        'all_baseline_stable_pass_tests_still_pass': conf['suite_ok'],
        'demo_exit_without_change': conf['demo_without_rc'], 'demo_exit_with_change': conf['demo_with_rc'],
        'how': 'tools/confirm_seed.py: scratch worktree of /repo HEAD, git apply, full pytest suite compared with BASELINE stable_pass, demo run with and without the patch'},
    'detected_by_check': det, 'detection_note': note,
    'ran': 'git -C /repo apply patch.diff; ./check %s --tier quick; git -C /repo checkout -- .' % sid})
json.dump(meta, open(dst + '/meta.json', 'w'), indent=1)
print('kept', dst)
