#!/usr/bin/env python3
"""tools/confirm_seed.py <id> <n>: confirm a seeded change in a scratch worktree:
   - patch applies, full suite: every BASELINE stable_pass test still passes
   - demo fails with the change, passes without it
   writes /tmp/seedout/<id>/<n>/confirm.json; removes the worktree afterwards."""
import glob, json, os, subprocess, sys
import xml.etree.ElementTree as ET
sid, n = sys.argv[1], sys.argv[2]
src = '%s/%s/%s' % (os.environ.get('SEEDOUT', '/tmp/seedout'), sid, n)
wt = '/tmp/confwt/%s_%s' % (sid, n)
os.makedirs('/tmp/confwt', exist_ok=True)
res = {'id': sid, 'n': n}
def sh(cmd, cwd=None, timeout=3000):
    p = subprocess.run(cmd, shell=True, cwd=cwd, stdout=subprocess.PIPE, stderr=subprocess.STDOUT, text=True, timeout=timeout)
    return p.returncode, p.stdout
try:
    sh('git -C /repo worktree remove --force %s' % wt)
    rc, out = sh('git -C /repo worktree add --detach %s HEAD' % wt)
    assert rc == 0, out
    demo = (glob.glob(src + '/demo*.py') + [None])[0]
    res['demo'] = demo
    env = 'TMPDIR=%s/.tmp' % wt
    os.makedirs(wt + '/.tmp', exist_ok=True)
    def run_demo():
        if demo.endswith('_test.py') or 'unittest' in open(demo).read() or 'def test_' in open(demo).read():
            return sh('%s /venv/bin/python -m pytest -q -p no:cacheprovider %s' % (env, demo), cwd=wt, timeout=900)
        return sh('%s /venv/bin/python %s' % (env, demo), cwd=wt, timeout=900)
    rc0, out0 = run_demo()
    res['demo_without_rc'] = rc0
    res['demo_without_tail'] = out0[-400:]
    rc, out = sh('git apply %s/patch.diff' % src, cwd=wt)
    res['applies'] = rc == 0
    assert rc == 0, out
    rc1, out1 = run_demo()
    res['demo_with_rc'] = rc1
    res['demo_with_tail'] = out1[-600:]
    jx = wt + '/.tmp/junit.xml'
    rc, out = sh('%s /venv/bin/python -m pytest -q -p no:cacheprovider -n 5 --timeout=900 --continue-on-collection-errors --junitxml=%s' % (env, jx), cwd=wt)
    res['suite_tail'] = out.strip().splitlines()[-1] if out.strip() else ''
    passed = set()
    for tc in ET.parse(jx).getroot().iter('testcase'):
        if not list(tc):
            passed.add('%s::%s' % (tc.get('classname'), tc.get('name')))
    base = set(json.load(open('/root/.vp/BASELINE.json'))['stable_pass'])
    res['baseline_missing'] = sorted(base - passed)[:20]
    res['suite_ok'] = not (base - passed)
    res['confirmed'] = bool(res['suite_ok'] and rc0 == 0 and rc1 != 0)
except Exception as ex:
    res['error'] = repr(ex)[:500]
    res['confirmed'] = False
finally:
    sh('git -C /repo worktree remove --force %s' % wt)
    json.dump(res, open(src + '/confirm.json', 'w'), indent=1)
    print(json.dumps({k: res.get(k) for k in ('id', 'n', 'confirmed', 'suite_ok', 'demo_without_rc', 'demo_with_rc', 'suite_tail', 'error')}))
