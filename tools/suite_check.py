#!/usr/bin/env python3
"""tools/suite_check.py: run the repository's pinned test suite on /repo (guard off) and compare with BASELINE stable_pass."""
import json, os, subprocess, sys, tempfile
import xml.etree.ElementTree as ET
tmp = tempfile.mkdtemp(prefix='suite_')
jx = tmp + '/junit.xml'
env = dict(os.environ, TMPDIR=tmp)
env.pop('MPF_VERIF_TRACE', None)
p = subprocess.run('/venv/bin/python -m pytest -q -p no:cacheprovider -n 6 --timeout=900 --continue-on-collection-errors --junitxml=%s' % jx,
                   shell=True, cwd='/repo', env=env, stdout=subprocess.PIPE, stderr=subprocess.STDOUT, text=True)
print(p.stdout.strip().splitlines()[-1])
passed = set()
for tc in ET.parse(jx).getroot().iter('testcase'):
    if not list(tc):
        passed.add('%s::%s' % (tc.get('classname'), tc.get('name')))
base = set(json.load(open('/root/.vp/BASELINE.json'))['stable_pass'])
missing = sorted(base - passed)
print('baseline stable_pass: %d, still passing: %d, missing: %s' % (len(base), len(base & passed), missing[:10]))
subprocess.run('rm -rf %s' % tmp, shell=True)
sys.exit(1 if missing else 0)
