#!/bin/sh
# tools/try_seed.sh <patch.diff> <Cxx> [tier]
# Apply a seeded change in a SCRATCH worktree of /repo (so /repo itself and checks running on it are not
# disturbed), run the check against that tree (VERIF_REPO), remove the worktree.
P="$1"; ID="$2"; TIER="${3:-quick}"
WT=/tmp/trywt_$$_$ID
git -C /repo worktree add -q --detach "$WT" HEAD || exit 2
if (cd "$WT" && git apply "$P") || (cd "$WT" && patch -p1 -s -F5 < "$P"); then
  cd /verif && VERIF_NO_EVIDENCE=1 VERIF_REPO="$WT" ./check "$ID" --tier "$TIER" 2>&1 | grep -E "^OK|^VIOLATION|^KNOWN|^MACHINERY|signature|what:" | grep -v "^KNOWN" | head -8
else
  echo "patch does not apply"
fi
git -C /repo worktree remove --force "$WT"
