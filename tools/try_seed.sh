#!/bin/sh
# tools/try_seed.sh <patch.diff> <Cxx> [tier]  -- apply a seeded change to /repo, run the check, undo it
P="$1"; ID="$2"; TIER="${3:-quick}"
cd /repo || exit 2
git diff --quiet || { echo "/repo not clean"; exit 2; }
git apply "$P" || { echo "patch does not apply"; exit 2; }
cd /verif && ./check "$ID" --tier "$TIER" 2>&1 | grep -E "^OK|^VIOLATION|^KNOWN|^MACHINERY|signature|what:" | head -8
cd /repo && git checkout -- . && git status --short | head -3
