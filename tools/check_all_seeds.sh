#!/bin/sh
# tools/check_all_seeds.sh [jobs]: run every kept seeded change against its check (scratch worktrees); prints one line per seed.
cd /verif
ls -d seeded/C*-* | xargs -P ${1:-3} -I{} sh -c 'd={}; id=$(basename $d | cut -d- -f1); r=$(timeout 2400 tools/try_seed.sh /verif/$d/patch.diff $id quick 2>&1 | grep -E "^OK|^VIOLATION|patch does not" | head -1 | cut -c1-40); want=$(python3 -c "import json;print(json.load(open(\"/verif/$d/meta.json\")).get(\"detected_by_check\"))"); echo "$(basename $d) recorded=$want now=$r"'
