#!/usr/bin/env python3
"""Regenerate the generated tables of DESIGN.md (between <!-- GEN:x --> ... <!-- /GEN:x --> markers) from
MANIFEST.json, known_findings.json, seeded/*/meta.json and evidence/*.json."""
import glob
import json
import os
import re

V = '/verif'


def status_table():
    m = json.load(open(V + '/MANIFEST.json'))
    rows = ['| id | engine (specs/) | TLC states (quick) | traces validated (quick) | quick wall s | known findings seen |',
            '|---|---|---|---|---|---|']
    for c in m['checks']:
        pid = c['property_id']
        ev = {}
        p = '%s/evidence/%s.json' % (V, pid)
        if os.path.exists(p):
            ev = json.load(open(p))
        cov = ev.get('coverage', {})
        rows.append('| %s | %s | %s | %s | %s | %s |' % (pid, c.get('engine', ''), cov.get('states', '-'),
                                                      cov.get('traces_validated_against_impl', '-'), ev.get('wall_s', '-'),
                                                      len(cov.get('known_findings_seen', []))))
    for n in m.get('not_applicable', []):
        rows.append('| %s | not claimed | - | - | - | %s |' % (n['property_id'], n['reason']))
    return '\n'.join(rows)


def xengines_table():
    m = json.load(open(V + '/MANIFEST.json'))
    rows = ['| id | engine (specs/) | subsystem | TLC states (quick) | traces validated (quick) | quick wall s |', '|---|---|---|---|---|---|']
    for e in m.get('engines', []):
        mo = re.match(r'(X\d\d)\b', e.get('kind_free_text', ''))
        if not mo:
            continue
        xid = mo.group(1)
        ev = {}
        p = '%s/evidence/%s.json' % (V, xid)
        if os.path.exists(p):
            ev = json.load(open(p))
        cov = ev.get('coverage', {})
        rows.append('| %s | %s | %s | %s | %s | %s |' % (xid, e['name'], e['kind_free_text'].rsplit('trace validation of ', 1)[-1].strip()[:160], cov.get('states', '-'),
                                                      cov.get('traces_validated_against_impl', '-'), ev.get('wall_s', '-')))
    return '\n'.join(rows)


def findings_tables():
    k = json.load(open(V + '/known_findings.json'))
    out = ['**Known findings (recorded, not repaired)**', '', '| property | signature | what fails | where | why recorded rather than repaired |',
           '|---|---|---|---|---|']
    for f in sorted(k['findings'], key=lambda x: x['signature']):
        out.append('| %s | `%s` | %s | %s | %s |' % (f['property'], f['signature'], f['what'].replace('|', '/'),
                                                   f.get('where', '').replace('|', '/'), f.get('why_not_fixed', '').replace('|', '/')))
    out += ['', '**Genuine defects repaired by `fix:` commits in /repo**', '']
    for x in k['fixed']:
        out.append('* ' + x.replace('fixed: ', ''))
    return '\n'.join(out)


def seeded_table():
    rows = ['| seeded change | breaks | what it needs to manifest | detected | by |', '|---|---|---|---|---|']
    for d in sorted(glob.glob(V + '/seeded/*/meta.json')):
        m = json.load(open(d))
        name = os.path.basename(os.path.dirname(d))
        rows.append('| %s | %s | %s | %s | %s |' % (name, m.get('breaks_property', ''), str(m.get('needs', '')).replace('|', '/').replace('\n', ' ')[:260],
                                                 m.get('detected_by_check', ''), str(m.get('detection_note', '')).replace('|', '/')[:240]))
    return '\n'.join(rows)


def main():
    p = V + '/DESIGN.md'
    s = open(p).read()
    for key, fn in (('status', status_table), ('xengines', xengines_table), ('findings', findings_tables), ('seeded', seeded_table)):
        pat = re.compile(r'(<!-- GEN:%s -->).*?(<!-- /GEN:%s -->)' % (key, key), re.S)
        if pat.search(s):
            s = pat.sub(lambda mo: mo.group(1) + '\n' + fn() + '\n' + mo.group(2), s)
    open(p, 'w').write(s)


if __name__ == '__main__':
    main()
